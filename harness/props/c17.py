"""C17  Layered HTTP connections compose adapters without side effects  (ak/conn_http.py, ak/mcaller_http.py)"""
import ast
import base64
import copy
import json
import os
import re
from urllib.parse import urlencode

from harness.lib import sx as SX

ID = "C17"
COQ_DIR = "C17"
RUN_MOD = "C17.Run"
MODEL_TARGETS = ["C17/Run.vo"]
PROOF_TARGETS = ["C17/Lemmas.vo", "C17/CodecProofs.vo", "C17/Spec.vo", "C17/LemmasAdd.vo"]
PROPS = ["C17/Props.v"]
ALLOWED_AXIOMS = []
IMPL_TIMEOUT = 20.0
COQ_SHARD = 100
RULE = ("random programs (8-40 operations) over: caller objects (adapter lists, header dicts with str/bytes values "
        "and case variants of Authorization / Content-Type / X-Request-ID / X-Tag, params dicts / lists / tuples of pairs with "
        "unicode and reserved characters, repeated keys and non-str values (int, bool, None), bytes / str / structured bodies incl. empty and falsy ones), HttpConn / "
        "BAuthConn / ClientAuthConn / TokenAuthConn over addresses (with and without trailing slash, list/tuple/dict "
        "argument forms, request ids off) and over earlier connections (adapters=None / one adapter / a list object), "
        "MCallerHttp subclasses with prefix maps (empty prefix, shared prefix, no / two matching components) -- all caller "
        "classes of a program are built from ONE or TWO shared mix-ins holding the wrapper methods (each decorated once), half "
        "of the later ones as siblings re-using the component names with other prefixes / subclasses of an earlier caller's "
        "class with their own or the inherited _HTTP_PREFIX_MAP / further instances of the same class; calls re-use the wrapper "
        "method of earlier calls, the final sweep goes over the callers in either order -- "
        "clone(None / adapter / list), wrapper methods with components (get_conn + per-prefix cache), "
        "get/post/put/delete/patch and direct do_request with default / lower-case methods; EVERY request also draws the "
        "rarely used arguments -- raw_response omitted / False / True (positional and by keyword for do_request), absent "
        "params / data / headers omitted or passed as an explicit None -- and the answer of the substitute opener: status "
        "(200 201 202 204 301 399 | 400 401 404 500 503 -> HTTPError), Content-Type (json, json+charset, text, html, octet-stream, none), "
        "body (empty, json of every kind incl. the falsy values 0 null false [] {} \"\", unicode, surrounding blanks, "
        "blank-only, plain text, html, truncated json, bytes that are not utf-8 in five ways, a BOM, invalid utf-8 inside a json string); "
        "every program ends with a "
        "sweep of requests through every connection and caller created, re-using the same caller objects; ~12% of the "
        "programs also use add_adapter (compared with the model; the oracle demands that it reaches only the connection "
        "object it is called on).  Compared per request: the Request handed to the opener, the order of the process_response "
        "calls AND the value returned to the caller (marks of the tag adapters around '' / the decoded json / the very response "
        "object the opener returned, with its .data).  Non-trivial = a request goes through a chain of depth >= 2 "
        "after a later derivation from one of its connections or callers.  55% of the programs run under a drawn AMBIENT "
        "configuration of the process, put back afterwards (case field `env`): levels 1 / 5 / DEBUG / INFO / ERROR / CRITICAL on the "
        "loggers ak.conn_http, ak.mcaller, ak, root with a NullHandler, a handler that formats every record, or none, "
        "logging.disable, 1-3 environment variables (proxies, DEBUG-like switches, TZ, locale, HOME), warnings as errors, a "
        "default socket timeout; the model does not know the configuration, so any dependence of a request or a returned "
        "value on it is a disagreement.")
TRUSTED_BASE = [
    "urllib.request.Request stores headers under key.capitalize() (later value wins), keeps url / data / method as "
    "given (urls with '#', blanks, '<' are outside the generated domain); urllib.parse.urlencode, str.encode('utf-8'), "
    "base64.b64encode, str.upper are modelled in coq/C17/Codec.v and compared with the standard library on every "
    "generated case; json.dumps(data) and bool(data) of a structured body are passed to the model as oracle values",
    "gen/C17_Consts.v: header keys tested / set by the three auth adapters, their value prefixes and credential "
    "separators, the X-Request-ID clause (exact-key or case-insensitive test, constant reqid_ci) and the Content-Type clause, the method constants of get/post/put/delete/patch, the "
    "default-method expression, the shape of RequestArguments' headers copy, of `self.adapters = own + parent's`, of "
    "the two adapter loops of do_request and of the list/single test of MCallerHttp.clone are read from the source by "
    "harness/props/c17.py:gen_consts (ast, fail-closed)",
    "the substitute for OpenerDirector.open (captures the Request; answers with the case's status / Content-Type / body: a "
    "FakeResponse for statuses < 400, urllib.error.HTTPError around a BytesIO for >= 400, as urllib's HTTPErrorProcessor "
    "does for real answers; redirects are not followed) and the harness's own RequestAdapter subclass TagAdapter (appends "
    "to header X-Tag; process_response records the order of the calls and returns Marked(tag, value), so that order and "
    "count of the processors are visible in the value the caller gets)",
    "ambient configuration: the harness sets logger levels / handlers, logging.disable, os.environ entries (+ time.tzset), the "
    "warnings filter and the default socket timeout before a program and restores them after it (_Ambient); the extractor "
    "additionally pins (fail closed) that _log_request / _log_response write to no object, that conn_http.py reads no "
    ".isEnabledFor / .getEffectiveLevel / .level / .disabled / environ / getenv (mcaller_http.py, mcaller.py: none of "
    ".isEnabledFor / .getEffectiveLevel / environ / getenv), that MCallerMetaHttpMethod has exactly the "
    "slots auth_types, components and that get_conn assigns no attribute, writes only conns_by_prefix (= "
    "self._mc_conns_by_prefix) and reads _HTTP_PREFIX_MAP from self",
    "json.loads of a response body is an oracle value (r_json: canonical json.dumps(sort_keys) of json.loads(text), computed "
    "by the harness, None when json.loads raises), like json.dumps for request bodies; bytes.decode('utf-8') is MODELLED "
    "(Model.decode_utf8, strict) and compared per case; the shape of the response part of do_request -- signature, the one "
    "try around the opener call with `except urllib.error.HTTPError ...: raise`, `with response: response.data = "
    "response.read()`, `if [not] raw_response:` decode + json.loads-unless-empty / the response, the processor loop as the "
    "statement in front of the ONLY return -- the signatures of the five verbs (raw_response passed on), "
    "RequestAdapter.process_response = identity and no override in the four adapters of conn_http.py are pinned by the "
    "extractor (fail closed)",
]
ASSUMPTIONS = [
    "adapters are the four of ak/conn_http.py (path prefix, basic, client, token), the harness's TagAdapter or the harness's RouteAdapter "
    "(rewrites req_args.address for paths starting with a given text; NOT in the model, where it is the no-op `APrefix ''` "
    "and the url is compared with the routed address put back -- its effect is judged by the oracle clause `url` only); "
    "`adapters` arguments are None, one adapter or a list (tuples raise TypeError in _HttpConnBase.__init__ and are "
    "outside the statement); header names and explicit methods are ASCII; no surrogate code points",
    "add_adapter mutates a connection by design: theorems and oracle say that it changes requests through the connection "
    "object it is called on (adapter applied last) and through nothing else; whether a prefixed connection that a caller "
    "cached before add_adapter on the caller's own connection sees the added adapter is not determined by the property "
    "(the code keeps the cached one; model = code, no oracle verdict)",
    "a caller's prefix map is the _HTTP_PREFIX_MAP attribute its class resolves to, as coded (a subclass's own map REPLACES "
    "the inherited one, it is not merged); the interpreter runs without -O (the refusals of two authenticating layers / of "
    "a missing or ambiguous component are assert statements)",
    "single-threaded use (request ids under concurrency are C16); the value of a GENERATED X-Request-ID is not compared (a caller-supplied one is)",
    "the response clause is about the adapters' process_response: the statement does not say what an error status or an "
    "undecodable body must do; the code raises (HTTPError; ValueError when decoding was asked for) -- model = code, the "
    "oracle excuses exactly those calls and demands nothing of them; the Content-Type of the answer is ignored by the code "
    "(and by the model)",
]
MODELLED = ("ak/conn_http.py RequestArguments, the adapters (process_req_args and process_response), "
            "_HttpConnBase.__init__/add_adapter/get..patch, _HttpConnImpl.__init__ (address, request-id switch) and the "
            "whole of do_request: request assembly, the opener call (HTTPError for error statuses), response.data, "
            "raw_response=True/False, utf-8 decoding + json.loads unless empty, the response processor loop, the returned "
            "value; ak/mcaller_http.py MCallerHttp.__init__/clone/get_conn (component matching, per-prefix "
            "cache).  Not modelled: logging, descriptions (mk_descr, __str__), auth_type, hdoc notes, err.data of a raised HTTPError")

VERBS = ["get", "post", "put", "delete", "patch"]


class ExtractError(Exception):
    pass


# ------------------------------------------------------------------ constants
def _cls(body, name):
    for n in body:
        if isinstance(n, ast.ClassDef) and n.name == name:
            return n
    raise ExtractError(f"class {name} not found")


def _fn(body, name):
    for n in body:
        if isinstance(n, ast.FunctionDef) and n.name == name:
            return n
    raise ExtractError(f"function {name} not found")


def _is_name(n, ident):
    return isinstance(n, ast.Name) and n.id == ident


def _is_attr(n, base, attr):
    """n is <base>.<attr> where base is a Name id or a nested (id, attr) tuple"""
    if not (isinstance(n, ast.Attribute) and n.attr == attr):
        return False
    if isinstance(base, tuple):
        return _is_attr(n.value, base[0], base[1])
    return _is_name(n.value, base)


def _const(n, typ):
    if isinstance(n, ast.Constant) and isinstance(n.value, typ):
        return n.value
    raise ExtractError(f"expected a {typ.__name__} literal at line {getattr(n, 'lineno', '?')}")


def _strip_doc(body):
    if body and isinstance(body[0], ast.Expr) and isinstance(body[0].value, ast.Constant) and isinstance(body[0].value.value, str):
        return body[1:]
    return body


def _auth_adapter(cls, header_attr, cred_names, bytes_prefix):
    """-> (assert_key, set_key, prefix, sep)"""
    ad = _cls(cls.body, "Adapter")
    pra = _strip_doc(_fn(ad.body, "process_req_args").body)
    if len(pra) != 2 or not isinstance(pra[0], ast.Assert) or not isinstance(pra[1], ast.Assign):
        raise ExtractError(f"{cls.name}.Adapter.process_req_args: expected `assert K not in req_args.headers; req_args.headers[K] = ...`")
    t = pra[0].test
    if not (isinstance(t, ast.Compare) and len(t.ops) == 1 and isinstance(t.ops[0], ast.NotIn)
            and _is_attr(t.comparators[0], "req_args", "headers")):
        raise ExtractError(f"{cls.name}.Adapter: unrecognised assertion")
    akey = _const(t.left, str)
    tg = pra[1].targets
    if not (len(tg) == 1 and isinstance(tg[0], ast.Subscript) and _is_attr(tg[0].value, "req_args", "headers")
            and _is_attr(pra[1].value, "self", header_attr)):
        raise ExtractError(f"{cls.name}.Adapter: unrecognised header assignment")
    skey = _const(tg[0].slice, str)
    init = _fn(ad.body, "__init__")
    val = None
    for st in init.body:
        if isinstance(st, ast.Assign) and len(st.targets) == 1 and _is_attr(st.targets[0], "self", header_attr):
            val = st.value
    if val is None:
        raise ExtractError(f"{cls.name}.Adapter.__init__: self.{header_attr} not assigned")
    if bytes_prefix:
        # b"Basic " + base64.b64encode(f"{a}:{b}".encode('utf-8'))
        if not (isinstance(val, ast.BinOp) and isinstance(val.op, ast.Add) and isinstance(val.right, ast.Call)
                and _is_attr(val.right.func, "base64", "b64encode") and len(val.right.args) == 1):
            raise ExtractError(f"{cls.name}.Adapter: header is not <bytes> + base64.b64encode(...)")
        prefix = _const(val.left, bytes).decode("latin-1")
        enc = val.right.args[0]
        if not (isinstance(enc, ast.Call) and isinstance(enc.func, ast.Attribute) and enc.func.attr == "encode"
                and [_const(a, str) for a in enc.args] in (["utf-8"], ["utf8"], [])
                and not enc.keywords and isinstance(enc.func.value, ast.JoinedStr)):
            raise ExtractError(f"{cls.name}.Adapter: credentials are not an f-string encoded as utf-8")
        parts = enc.func.value.values
        if not (len(parts) == 3 and isinstance(parts[0], ast.FormattedValue) and _is_name(parts[0].value, cred_names[0])
                and isinstance(parts[2], ast.FormattedValue) and _is_name(parts[2].value, cred_names[1])
                and parts[0].conversion == -1 and parts[2].conversion == -1
                and parts[0].format_spec is None and parts[2].format_spec is None):
            raise ExtractError(f"{cls.name}.Adapter: credentials are not f'{{{cred_names[0]}}}<sep>{{{cred_names[1]}}}'")
        sep = _const(parts[1], str)
        return akey, skey, prefix, sep
    # f"Bearer {token}"
    if not (isinstance(val, ast.JoinedStr) and len(val.values) == 2 and isinstance(val.values[1], ast.FormattedValue)
            and _is_name(val.values[1].value, cred_names[0]) and val.values[1].conversion == -1
            and val.values[1].format_spec is None):
        raise ExtractError(f"{cls.name}.Adapter: header is not f'<prefix>{{{cred_names[0]}}}'")
    return akey, skey, _const(val.values[0], str), None


def gen_consts(repo):
    tree = ast.parse(open(os.path.join(repo, "ak", "conn_http.py")).read())
    body = tree.body
    # --- RequestArguments: self.headers = headers.copy() if headers else {}
    init = _fn(_cls(body, "RequestArguments").body, "__init__")
    hv = None
    for st in init.body:
        if isinstance(st, ast.Assign) and len(st.targets) == 1 and _is_attr(st.targets[0], "self", "headers"):
            hv = st.value
    if hv is None:
        raise ExtractError("RequestArguments.__init__: self.headers not assigned")

    def empty_dict(n):
        return (isinstance(n, ast.Dict) and not n.keys) or (isinstance(n, ast.Call) and _is_name(n.func, "dict") and not n.args and not n.keywords)
    if isinstance(hv, ast.IfExp) and _is_name(hv.test, "headers") and empty_dict(hv.orelse):
        b = hv.body
        if isinstance(b, ast.Call) and _is_attr(b.func, "headers", "copy") and not b.args:
            hdr_copy = True
        elif isinstance(b, ast.Call) and _is_name(b.func, "dict") and len(b.args) == 1 and _is_name(b.args[0], "headers") and not b.keywords:
            hdr_copy = True
        elif _is_name(b, "headers"):
            hdr_copy = False
        else:
            raise ExtractError("RequestArguments.__init__: unrecognised headers expression")
    elif isinstance(hv, ast.BoolOp) and isinstance(hv.op, ast.Or) and len(hv.values) == 2 and _is_name(hv.values[0], "headers") and empty_dict(hv.values[1]):
        hdr_copy = False
    else:
        raise ExtractError("RequestArguments.__init__: unrecognised headers expression")
    for fld in ("params", "data", "path", "address", "method"):
        if not any(isinstance(st, ast.Assign) and len(st.targets) == 1 and _is_attr(st.targets[0], "self", fld)
                   and _is_name(st.value, fld) for st in init.body):
            raise ExtractError(f"RequestArguments.__init__: self.{fld} = {fld} not found")

    # --- _HttpConnBase.__init__: self.adapters = self.own_adapters + self.parent_conn.adapters
    base = _cls(body, "_HttpConnBase")
    binit = _fn(base.body, "__init__")
    av = None
    for st in ast.walk(binit):
        if isinstance(st, ast.Assign) and len(st.targets) == 1 and _is_attr(st.targets[0], "self", "adapters"):
            if av is not None:
                raise ExtractError("_HttpConnBase.__init__: self.adapters assigned twice")
            av = st.value

    def own(n):
        return _is_attr(n, "self", "own_adapters") or _is_name(n, "adapters")

    def par(n):
        return _is_attr(n, ("self", "parent_conn"), "adapters") or _is_attr(n, "parent_conn", "adapters")

    def lst(n, f):
        return isinstance(n, ast.Call) and _is_name(n.func, "list") and len(n.args) == 1 and f(n.args[0])
    ok = False
    if isinstance(av, ast.BinOp) and isinstance(av.op, ast.Add):
        ok = (own(av.left) and par(av.right)) or (lst(av.left, own) and lst(av.right, par)) or (own(av.left) and lst(av.right, par))
    elif isinstance(av, ast.List) and len(av.elts) == 2 and all(isinstance(e, ast.Starred) for e in av.elts):
        ok = own(av.elts[0].value) and par(av.elts[1].value)
    if not ok:
        raise ExtractError("_HttpConnBase.__init__: self.adapters is not a fresh `own adapters + parent's adapters` list")
    for st in ast.walk(binit):   # no in-place update of a list in the constructor
        if isinstance(st, ast.AugAssign) or (isinstance(st, ast.Call) and isinstance(st.func, ast.Attribute)
                                             and st.func.attr in ("append", "extend", "insert", "pop", "remove", "clear", "sort", "reverse")):
            raise ExtractError("_HttpConnBase.__init__: in-place list update")
    # single adapter -> list
    t0 = [st for st in binit.body if isinstance(st, ast.If)]
    if not t0 or not (isinstance(t0[0].test, ast.UnaryOp) and isinstance(t0[0].test.op, ast.Not)
                      and isinstance(t0[0].test.operand, ast.Call) and _is_name(t0[0].test.operand.func, "isinstance")
                      and _is_name(t0[0].test.operand.args[0], "adapters")):
        raise ExtractError("_HttpConnBase.__init__: single-adapter test not recognised")
    # add_adapter appends to self.adapters only
    aa = _strip_doc(_fn(base.body, "add_adapter").body)
    if not (aa and isinstance(aa[0], ast.Expr) and isinstance(aa[0].value, ast.Call)
            and _is_attr(aa[0].value.func, ("self", "adapters"), "append")):
        raise ExtractError("add_adapter: not self.adapters.append(adapter)")
    # --- wrappers: self.conn_impl.do_request(self.adapters, path, "GET", params, data, headers, raw_response)
    verbs = []
    for v in VERBS:
        f = _strip_doc(_fn(base.body, v).body)
        if not (len(f) == 1 and isinstance(f[0], ast.Return) and isinstance(f[0].value, ast.Call)
                and _is_attr(f[0].value.func, ("self", "conn_impl"), "do_request")):
            raise ExtractError(f"_HttpConnBase.{v}: not a single call of self.conn_impl.do_request")
        a = f[0].value.args
        if not (len(a) == 7 and _is_attr(a[0], "self", "adapters") and _is_name(a[1], "path") and _is_name(a[3], "params")
                and _is_name(a[4], "data") and _is_name(a[5], "headers") and _is_name(a[6], "raw_response")
                and not f[0].value.keywords):
            raise ExtractError(f"_HttpConnBase.{v}: unexpected arguments of do_request")
        fa = _fn(base.body, v).args
        if ([x.arg for x in fa.args] != ["self", "path"] or [x.arg for x in fa.kwonlyargs] != ["params", "data", "headers", "raw_response"]
                or fa.vararg or fa.kwarg
                or [getattr(d, "value", "?") for d in fa.kw_defaults] != [None, None, None, False]):
            raise ExtractError(f"_HttpConnBase.{v}: unexpected signature")
        verbs.append(_const(a[2], str))
    # --- RequestAdapter.process_response is the identity and the adapters of conn_http.py do not override it
    ra_cls = _cls(body, "RequestAdapter")
    pr = _strip_doc(_fn(ra_cls.body, "process_response").body)
    pr_args = [x.arg for x in _fn(ra_cls.body, "process_response").args.args]
    if not (len(pr_args) == 2 and len(pr) == 1 and isinstance(pr[0], ast.Return) and _is_name(pr[0].value, pr_args[1])):
        raise ExtractError("RequestAdapter.process_response: not `return return_value`")
    for holder, nm in ((_cls(body, "BAuthConn").body, "Adapter"), (_cls(body, "ClientAuthConn").body, "Adapter"),
                       (_cls(body, "TokenAuthConn").body, "Adapter"), (body, "RequestAdapterAddPathPrefix")):
        c = _cls(holder, nm)
        if not (len(c.bases) == 1 and _is_name(c.bases[0], "RequestAdapter")):
            raise ExtractError(f"{nm}: not a direct subclass of RequestAdapter")
        if any(isinstance(n, ast.FunctionDef) and n.name == "process_response" for n in c.body):
            raise ExtractError(f"{nm}: overrides process_response (the model has the identity there)")
    # --- do_request
    dr = _fn(_cls(body, "_HttpConnImpl").body, "do_request")
    fors = [n for n in ast.walk(dr) if isinstance(n, ast.For)]
    pre = [n for n in fors if len(n.body) == 1 and isinstance(n.body[0], ast.Expr) and isinstance(n.body[0].value, ast.Call)
           and isinstance(n.body[0].value.func, ast.Attribute) and n.body[0].value.func.attr == "process_req_args"]
    post = [n for n in fors if len(n.body) == 1 and isinstance(n.body[0], ast.Assign) and isinstance(n.body[0].value, ast.Call)
            and isinstance(n.body[0].value.func, ast.Attribute) and n.body[0].value.func.attr == "process_response"]
    if len(fors) != 2 or len(pre) != 1 or len(post) != 1:
        raise ExtractError("do_request: expected exactly the two adapter loops")
    if not (_is_name(pre[0].iter, "adapters") and len(pre[0].body[0].value.args) == 1 and _is_name(pre[0].body[0].value.args[0], "req_args")):
        raise ExtractError("do_request: request loop is not `for adapter in adapters: adapter.process_req_args(req_args)`")
    it = post[0].iter
    if (isinstance(it, ast.Subscript) and _is_name(it.value, "adapters") and isinstance(it.slice, ast.Slice)
            and it.slice.lower is None and it.slice.upper is None and isinstance(it.slice.step, ast.UnaryOp)
            and isinstance(it.slice.step.op, ast.USub) and _const(it.slice.step.operand, int) == 1):
        resp_reversed = True
    elif isinstance(it, ast.Call) and _is_name(it.func, "reversed") and len(it.args) == 1 and _is_name(it.args[0], "adapters"):
        resp_reversed = True
    elif _is_name(it, "adapters"):
        resp_reversed = False
    else:
        raise ExtractError("do_request: response loop not recognised")
    # --- the response path: opener call (HTTPError logged and re-raised), response.data = response.read(),
    #     `if not raw_response: decode + json.loads (unless empty) else: the response`, the processor loop over
    #     that value -- for BOTH branches -- and the only `return` of the function returns the processed value
    dargs = dr.args
    if ([x.arg for x in dargs.args] != ["self", "adapters", "path", "method", "params", "data", "headers", "raw_response"]
            or dargs.vararg or dargs.kwarg or dargs.kwonlyargs
            or [getattr(d, "value", "?") for d in dargs.defaults] != [None, None, None, None, False]):
        raise ExtractError("do_request: unexpected signature")
    top = _strip_doc(dr.body)
    rets = [n for n in ast.walk(dr) if isinstance(n, ast.Return)]
    if len(rets) != 1 or top[-1] is not rets[0] or not isinstance(rets[0].value, ast.Name):
        raise ExtractError("do_request: expected exactly one `return <value>`, as the last statement (an early return skips the response processors)")
    rv = rets[0].value.id
    ploop = post[0]
    if ploop not in top or top.index(ploop) != len(top) - 2 or ploop.orelse or not isinstance(ploop.target, ast.Name):
        raise ExtractError("do_request: the response processor loop is not the statement in front of the final return")
    pb = ploop.body[0]
    if not (len(pb.targets) == 1 and _is_name(pb.targets[0], rv) and _is_name(pb.value.func.value, ploop.target.id)
            and len(pb.value.args) == 1 and _is_name(pb.value.args[0], rv) and not pb.value.keywords):
        raise ExtractError(f"do_request: response loop is not `{rv} = adapter.process_response({rv})`")
    rif = top[len(top) - 3]

    def is_decode(stmts):
        """[rv = response.data.decode('utf-8'), if rv: rv = json.loads(rv)]"""
        if len(stmts) != 2 or not isinstance(stmts[0], ast.Assign) or not isinstance(stmts[1], ast.If):
            return False
        a0, i1 = stmts
        c0 = a0.value
        if not (len(a0.targets) == 1 and _is_name(a0.targets[0], rv) and isinstance(c0, ast.Call)
                and _is_attr(c0.func, ("response", "data"), "decode") and not c0.keywords
                and [getattr(x, "value", None) for x in c0.args] in (["utf-8"], ["utf8"], [])):
            return False
        if not (_is_name(i1.test, rv) and not i1.orelse and len(i1.body) == 1 and isinstance(i1.body[0], ast.Assign)):
            return False
        a1 = i1.body[0]
        return (len(a1.targets) == 1 and _is_name(a1.targets[0], rv) and isinstance(a1.value, ast.Call)
                and _is_attr(a1.value.func, "json", "loads") and len(a1.value.args) == 1 and _is_name(a1.value.args[0], rv)
                and not a1.value.keywords)

    def is_raw(stmts):
        return (len(stmts) == 1 and isinstance(stmts[0], ast.Assign) and len(stmts[0].targets) == 1
                and _is_name(stmts[0].targets[0], rv) and _is_name(stmts[0].value, "response"))
    if not isinstance(rif, ast.If):
        raise ExtractError("do_request: no `if [not] raw_response:` in front of the response processor loop")
    if isinstance(rif.test, ast.UnaryOp) and isinstance(rif.test.op, ast.Not) and _is_name(rif.test.operand, "raw_response"):
        ok_resp = is_decode(rif.body) and is_raw(rif.orelse)
    elif _is_name(rif.test, "raw_response"):
        ok_resp = is_raw(rif.body) and is_decode(rif.orelse)
    else:
        ok_resp = False
    if not ok_resp:
        raise ExtractError("do_request: response decoding is not `decode('utf-8') + json.loads unless empty` / the raw response")
    tries = [n for n in top if isinstance(n, ast.Try)]
    if len(tries) != 1 or len([n for n in ast.walk(dr) if isinstance(n, ast.Try)]) != 1:
        raise ExtractError("do_request: expected exactly one try statement (the opener call)")
    tr = tries[0]
    if not (len(tr.body) == 1 and isinstance(tr.body[0], ast.Assign) and _is_name(tr.body[0].targets[0], "response")
            and isinstance(tr.body[0].value, ast.Call) and _is_attr(tr.body[0].value.func, ("self", "opener"), "open")
            and len(tr.handlers) == 1 and not tr.orelse and not tr.finalbody
            and _is_attr(tr.handlers[0].type, ("urllib", "error"), "HTTPError")
            and isinstance(tr.handlers[0].body[-1], ast.Raise) and tr.handlers[0].body[-1].exc is None):
        raise ExtractError("do_request: the opener call / `except urllib.error.HTTPError ...: raise` not recognised")
    withs = [n for n in top if isinstance(n, ast.With) and len(n.items) == 1 and _is_name(n.items[0].context_expr, "response")]
    if not (len(withs) == 1 and len(withs[0].body) == 1 and isinstance(withs[0].body[0], ast.Assign)
            and _is_attr(withs[0].body[0].targets[0], "response", "data")
            and isinstance(withs[0].body[0].value, ast.Call) and _is_attr(withs[0].body[0].value.func, "response", "read")
            and top.index(tr) < top.index(withs[0]) < top.index(rif)):
        raise ExtractError("do_request: `with response: response.data = response.read()` not recognised")
    reqid = ctype = None
    reqid_ci = False

    def ci_reqid_test(t):
        """`not any(name.lower() == '<literal>' for name in headers)` -> the literal, else None"""
        if not (isinstance(t, ast.UnaryOp) and isinstance(t.op, ast.Not) and isinstance(t.operand, ast.Call)
                and _is_name(t.operand.func, "any") and len(t.operand.args) == 1 and not t.operand.keywords
                and isinstance(t.operand.args[0], ast.GeneratorExp)):
            return None
        g = t.operand.args[0]
        if not (len(g.generators) == 1 and isinstance(g.generators[0].target, ast.Name) and not g.generators[0].ifs
                and _is_name(g.generators[0].iter, "headers") and not g.generators[0].is_async):
            return None
        var = g.generators[0].target.id
        e = g.elt
        if not (isinstance(e, ast.Compare) and len(e.ops) == 1 and isinstance(e.ops[0], ast.Eq)
                and isinstance(e.left, ast.Call) and isinstance(e.left.func, ast.Attribute) and e.left.func.attr == "lower"
                and _is_name(e.left.func.value, var) and not e.left.args and not e.left.keywords):
            return None
        return _const(e.comparators[0], str)
    for n in ast.walk(dr):
        if (isinstance(n, ast.If) and ci_reqid_test(n.test) is not None and len(n.body) == 1
                and isinstance(n.body[0], ast.Assign) and not n.orelse):
            tg = n.body[0].targets
            v = n.body[0].value
            if not (len(tg) == 1 and isinstance(tg[0], ast.Subscript) and _is_name(tg[0].value, "headers")
                    and isinstance(v, ast.Call) and _is_attr(v.func, "self", "_generate_request_id")):
                raise ExtractError("do_request: unrecognised request id clause")
            if reqid:
                raise ExtractError("do_request: two request id clauses")
            reqid = (ci_reqid_test(n.test), _const(tg[0].slice, str))
            reqid_ci = True
            continue
        if (isinstance(n, ast.If) and isinstance(n.test, ast.Compare) and len(n.test.ops) == 1
                and isinstance(n.test.ops[0], ast.NotIn) and _is_name(n.test.comparators[0], "headers")
                and len(n.body) == 1 and isinstance(n.body[0], ast.Assign) and not n.orelse):
            tk = _const(n.test.left, str)
            tg = n.body[0].targets
            if not (len(tg) == 1 and isinstance(tg[0], ast.Subscript) and _is_name(tg[0].value, "headers")):
                raise ExtractError("do_request: unrecognised header clause")
            sk = _const(tg[0].slice, str)
            v = n.body[0].value
            if isinstance(v, ast.Call) and _is_attr(v.func, "self", "_generate_request_id"):
                if reqid:
                    raise ExtractError("do_request: two request id clauses")
                reqid = (tk, sk)
            else:
                if ctype:
                    raise ExtractError("do_request: two content type clauses")
                ctype = (tk, sk, _const(v, str))
    if not reqid or not ctype:
        raise ExtractError("do_request: request id / content type clause not found")
    n_hdr_writes = sum(1 for n in ast.walk(dr) if isinstance(n, ast.Subscript) and _is_name(n.value, "headers") and isinstance(n.ctx, ast.Store))
    if n_hdr_writes != 2:
        raise ExtractError("do_request: unexpected number of header assignments")
    mdef = None
    for n in ast.walk(dr):
        if isinstance(n, ast.Assign) and len(n.targets) == 1 and _is_name(n.targets[0], "method") and isinstance(n.value, ast.IfExp):
            if not _is_name(n.value.test, "data"):
                raise ExtractError("do_request: default method does not test `data`")
            mdef = (_const(n.value.body, str), _const(n.value.orelse, str))
    if mdef is None:
        raise ExtractError("do_request: default method expression not found")
    # --- auth adapters
    basic = _auth_adapter(_cls(body, "BAuthConn"), "bauth_header", ("login", "password"), True)
    client = _auth_adapter(_cls(body, "ClientAuthConn"), "bauth_header", ("client_id", "client_secret"), True)
    token = _auth_adapter(_cls(body, "TokenAuthConn"), "header", ("token",), False)

    # --- MCallerHttp.clone
    mtree = ast.parse(open(os.path.join(repo, "ak", "mcaller_http.py")).read())
    clone = _fn(_cls(mtree.body, "MCallerHttp").body, "clone")
    ifs = [n for n in _strip_doc(clone.body) if isinstance(n, ast.If)]
    if len(ifs) != 1 or len(ifs[0].orelse) != 1 or not isinstance(ifs[0].orelse[0], ast.If):
        raise ExtractError("clone: expected `if ... is None: ... elif <list test>: ...`")
    el = ifs[0].orelse[0]
    if not (len(el.body) == 1 and isinstance(el.body[0], ast.Assign) and isinstance(el.body[0].value, ast.List)
            and len(el.body[0].value.elts) == 1 and _is_name(el.body[0].value.elts[0], "http_conn_adapters") and not el.orelse):
        raise ExtractError("clone: elif branch does not wrap the argument into a list")

    def is_inst(n):
        return (isinstance(n, ast.Call) and _is_name(n.func, "isinstance") and len(n.args) == 2
                and _is_name(n.args[0], "http_conn_adapters") and isinstance(n.args[1], ast.Tuple)
                and sorted(getattr(e, "id", "?") for e in n.args[1].elts) == ["list", "tuple"])
    if isinstance(el.test, ast.UnaryOp) and isinstance(el.test.op, ast.Not) and is_inst(el.test.operand):
        clone_wraps_nonlist = True
    elif is_inst(el.test):
        clone_wraps_nonlist = False
    else:
        raise ExtractError("clone: list test not recognised")

    # --- the logging helpers only READ the request / response (they run between the Request constructor and the
    #     opener call: anything they wrote would be sent, and only under the logging levels that make them work)
    MUTATORS = ("update", "pop", "popitem", "setdefault", "clear", "add_header", "add_unredirected_header",
                "remove_header", "__setitem__", "__delitem__", "append", "extend", "insert", "remove")
    impl_cls = _cls(body, "_HttpConnImpl")
    for nm in ("_log_request", "_log_response"):
        f = _fn(impl_cls.body, nm)
        for n in ast.walk(f):
            if isinstance(n, (ast.Subscript, ast.Attribute)) and isinstance(n.ctx, (ast.Store, ast.Del)):
                raise ExtractError(f"{nm}: writes to an object (line {n.lineno}); the model has no effect of logging on the request")
            if isinstance(n, (ast.AugAssign, ast.Global, ast.Nonlocal, ast.Return)) and not (isinstance(n, ast.Return) and n.value is None):
                raise ExtractError(f"{nm}: unexpected statement at line {n.lineno}")
            if isinstance(n, ast.Call) and isinstance(n.func, ast.Attribute) and n.func.attr in MUTATORS:
                raise ExtractError(f"{nm}: calls .{n.func.attr}() (line {n.lineno}); the model has no effect of logging on the request")
    for n in ast.walk(tree):      # nothing else in the module looks at the logging configuration or the environment
        if isinstance(n, ast.Attribute) and n.attr in ("isEnabledFor", "getEffectiveLevel", "environ", "getenv", "level", "disabled"):
            raise ExtractError(f"conn_http.py line {n.lineno}: reads .{n.attr} (behaviour depending on the ambient configuration is not modelled)")
    for fn_, tr_ in (("mcaller_http.py", mtree), ("mcaller.py", ast.parse(open(os.path.join(repo, "ak", "mcaller.py")).read()))):
        for n in ast.walk(tr_):
            if isinstance(n, ast.Attribute) and n.attr in ("isEnabledFor", "getEffectiveLevel", "environ", "getenv"):
                raise ExtractError(f"{fn_} line {n.lineno}: reads .{n.attr} (behaviour depending on the ambient configuration is not modelled)")
    # --- the metadata of a wrapper method is shared by all classes inheriting it: read-only, two slots;
    #     get_conn resolves the component against self._HTTP_PREFIX_MAP on every call and writes only its own cache
    meta_cls = _cls(mtree.body, "MCallerMetaHttpMethod")
    slots = [st.value for st in meta_cls.body if isinstance(st, ast.Assign) and len(st.targets) == 1 and _is_name(st.targets[0], "__slots__")]
    try:
        slot_names = sorted(ast.literal_eval(slots[0])) if len(slots) == 1 else None
    except ValueError:
        slot_names = None
    if slot_names != ["auth_types", "components"]:
        raise ExtractError("MCallerMetaHttpMethod.__slots__ is not ('auth_types', 'components') (per-method state shared by all caller classes is not modelled)")
    gc = _fn(_cls(mtree.body, "MCallerHttp").body, "get_conn")
    for n in ast.walk(gc):
        if isinstance(n, ast.Attribute) and isinstance(n.ctx, (ast.Store, ast.Del)):
            raise ExtractError(f"get_conn: assigns an attribute (line {n.lineno}); the model writes the caller's own prefix cache only")
        if isinstance(n, ast.Subscript) and isinstance(n.ctx, (ast.Store, ast.Del)) and not _is_name(n.value, "conns_by_prefix"):
            raise ExtractError(f"get_conn: writes to something else than conns_by_prefix (line {n.lineno})")
        if isinstance(n, ast.Call) and (_is_name(n.func, "setattr") or (isinstance(n.func, ast.Attribute) and n.func.attr in MUTATORS)):
            raise ExtractError(f"get_conn: in-place update at line {n.lineno}")
        if isinstance(n, ast.Attribute) and n.attr == "_HTTP_PREFIX_MAP" and not _is_name(n.value, "self"):
            raise ExtractError(f"get_conn: _HTTP_PREFIX_MAP not read from self (line {n.lineno})")
    cbp = [n for n in ast.walk(gc) if isinstance(n, ast.Assign) and len(n.targets) == 1 and _is_name(n.targets[0], "conns_by_prefix")]
    if len(cbp) != 1 or not _is_attr(cbp[0].value, "self", "_mc_conns_by_prefix"):
        raise ExtractError("get_conn: conns_by_prefix is not self._mc_conns_by_prefix")

    def S(name, text):
        return f"Definition {name} : list Z := {SX.cstr(text)}.\n"
    text = ("(* generated from ak/conn_http.py, ak/mcaller_http.py by harness/props/c17.py -- do not edit *)\n"
            "From Coq Require Import ZArith List.\nImport ListNotations.\n"
            f"Definition hdr_copy : bool := {SX.cbool(hdr_copy)}.\n"
            f"Definition resp_reversed : bool := {SX.cbool(resp_reversed)}.\n"
            f"Definition clone_wraps_nonlist : bool := {SX.cbool(clone_wraps_nonlist)}.\n"
            f"Definition reqid_ci : bool := {SX.cbool(reqid_ci)}.\n"
            + S("basic_assert_key", basic[0]) + S("basic_set_key", basic[1]) + S("basic_prefix", basic[2]) + S("basic_sep", basic[3])
            + S("client_assert_key", client[0]) + S("client_set_key", client[1]) + S("client_prefix", client[2]) + S("client_sep", client[3])
            + S("token_assert_key", token[0]) + S("token_set_key", token[1]) + S("token_prefix", token[2])
            + S("reqid_test_key", reqid[0]) + S("reqid_set_key", reqid[1])
            + S("ctype_test_key", ctype[0]) + S("ctype_set_key", ctype[1]) + S("ctype_val", ctype[2])
            + "Definition verbs : list (list Z) := [" + "; ".join(SX.cstr(v) for v in verbs) + "].\n"
            + S("meth_with_data", mdef[0]) + S("meth_without_data", mdef[1]))
    return {"C17_Consts": text}


# ------------------------------------------------------------------ generator
ADDRS = ["http://h", "http://h/", "http://dummy.com:8080", "http://dummy.com:8080/", "http://h/base", "http://h/base/",
         "http://h//", "http://10.0.0.1:81/api/v1", "HTTP://Up.example"]
PATHS = ["", "/", "a", "/a", "a/b", "/my/test/path", "x/", "//d", "/é", "a%20b", "/a?x=1", "k=v&z", "中/\U0001f600", "~u/.h-_"]
PREFIXES = ["/p", "/p/", "p", "pre/", "/cmpA/prefix", "/", "é/", "", "/api/", "q?"]
WORDS = ["user", "p w", "ü:ñ", "a:b", "", "xxxxx", "\U0001f600k", "my_name", "std_password", "s3cr3t/+=", "中文", "A", "ab", "abc", "abcd"]
HKEYS = ["Accept", "accept", "X-Custom", "x_custom-2", "Content-Type", "content-type", "CONTENT-TYPE", "X-Request-ID",
         "x-request-id", "Authorization", "authorization", "X-Tag", "x-tag", "Cookie"]
HVALS = ["v", "", "text/plain", "a b", "é", "Basic xyz", "t"]
PKEYS = ["param", "k é", "a", "", "x&y", "q=1", "中", "~._-", "sp ace", "pl+us", "%25", "/s/"]
COMPS = ["componentA", "componentB", "my_server", "my_server_frontend", "x"]
# what the substitute opener answers: status codes (>= 400: urllib raises HTTPError), Content-Type of the response
# (the code never looks at it), body bytes: empty, json values of every kind (falsy ones, scalars, null, a json str,
# unicode), blank / plain text / html / truncated json, bytes that are not utf-8 (stray continuation byte, truncated
# sequence, overlong form, surrogate, above U+10FFFF), a BOM
RESP_CODES = [200, 200, 200, 200, 200, 200, 201, 202, 204, 301, 399, 400, 401, 404, 500, 503]
RESP_CTYPES = ["application/json", "application/json; charset=utf-8", "text/plain", "text/html; charset=latin-1",
               "application/octet-stream", None]
RESP_BODIES = [b"", b"", b"{}", b'{"answer": 42}', b"[]", b"0", b"null", b"false", b"true", b'""', b'"txt"',
               b'"\\u00e9 \xc3\xa9"', b'[1, {"a": null}]', '{"k": "中\U0001f600", "l": [1, 2]}'.encode(), b' {"x": [true]} \n',
               b'{"b": 1, "a": {"d": 2, "c": 3}}', b"-12", b"12345678901234567890",
               b" ", b"\n", b"hello", b"<html>", b'{"a": 1', b"{'a': 1}", b"\xff\xfe", b"\xc3", b"\x80",
               b"\xc0\xaf", b"\xed\xa0\x80", b"\xf4\x90\x80\x80", b"\xef\xbb\xbf{}", "é".encode(),
               b'"\xff"', b'{"k": "\xc3"}', b'["\xc0\xaf", "\xed\xa0\x80"]', b'"a\x80b"']
PVALS = [0, 1, -5, 42, True, False, None]
JSONS = [{}, [], {"arg": 42}, {"a": [1, "é", None, True]}, [1, 2, 3], 0, 5, False, True, {"k": {"n": -1, "s": "q\"\\\n"}},
         ["\U0001f600"], {"arg": "v"}, [[]], {"": ""}]


ROUTE_HOSTS = ["http://mirror.invalid", "https://eu.route.invalid:8443", "http://10.9.9.9:99/m"]
ROUTE_CONDS = ["", "", "", "/", "/p", "a", "/a", "/api/", "/cmpA", "pre/"]


def _adspec(rng, allow_auth=True):
    r = rng.random()
    if r < 0.34:
        return ["prefix", rng.choice(PREFIXES)]
    if 0.54 <= r < 0.62:
        # host routing: an adapter of the harness that rewrites req_args.address (for paths starting with `cond`)
        return ["route", rng.choice(ROUTE_CONDS), rng.choice(ROUTE_HOSTS)]
    if r < 0.62 or not allow_auth:
        return ["tag", rng.choice([97, 98, 99, 100, 101, 233, 122])]
    if r < 0.76:
        return ["basic", rng.choice(WORDS), rng.choice(WORDS)]
    if r < 0.88:
        return ["client", rng.choice(WORDS), rng.choice(WORDS), rng.choice(WORDS)]
    return ["token", rng.choice(WORDS)]


# ambient settings of the process a program runs under (none of them may change a request or a returned value):
# levels / handlers of the loggers the code writes to (and of their ancestors), logging.disable, environment
# variables, warnings turned into errors, a default socket timeout
LOG_SETUPS = [
    [["conn", 10, "null"]], [["conn", 10, "fmt"]], [["conn", 10, "none"]], [["conn", 5, "fmt"]], [["conn", 1, "null"]],
    [["root", 10, "null"]], [["root", 10, "fmt"]], [["ak", 10, "fmt"]], [["ak", 10, "null"]],
    [["conn", 20, "fmt"]], [["root", 20, "fmt"]], [["mcaller", 20, "fmt"]], [["mcaller", 10, "null"], ["conn", 10, "fmt"]],
    [["root", 10, "null"], ["conn", 40, "none"]], [["conn", 40, "fmt"]], [["root", 50, "null"]],
    [["conn", 10, "fmt"], ["disable", 50]], [["root", 10, "fmt"], ["disable", 10]],
]
ENV_VARS = [["http_proxy", "http://proxy.invalid:3128"], ["HTTPS_PROXY", "http://proxy.invalid:3128"], ["no_proxy", "*"],
            ["DEBUG", "1"], ["AK_DEBUG", "1"], ["HTTP_DEBUG", "1"], ["PYTHONHTTPSVERIFY", "0"], ["TZ", "Asia/Kolkata"],
            ["LANG", "C"], ["LC_ALL", "tr_TR.UTF-8"], ["NO_COLOR", "1"], ["USER", ""], ["HOME", "/nonexistent"]]


def gen_env(rng):
    r = rng.random()
    if r < 0.45:
        return None
    env = {}
    if r < 0.93:
        env["log"] = copy.deepcopy(rng.choice(LOG_SETUPS if rng.random() < 0.6 else LOG_SETUPS[:9]))
    if r >= 0.85 or rng.random() < 0.2:
        env["environ"] = [list(x) for x in rng.sample(ENV_VARS, rng.choice([1, 2, 3]))]
    if rng.random() < 0.1:
        env["warnings"] = "error"
    if rng.random() < 0.05:
        env["socket_timeout"] = 0.25
    return env


def gen_program(rng, with_add=False, size=None):
    ops = []
    n_obj = {"list": [], "hdrs": [], "params": [], "body": []}   # kind -> indices of caller objects
    nobj = 0
    conns = []      # depth of every nameable connection
    callers = []
    auth_budget = [0]

    def add_obj(kind, op):
        nonlocal nobj
        ops.append(op)
        n_obj[kind].append(nobj)
        nobj += 1

    def new_list():
        add_obj("list", {"o": "list", "ads": [_adspec(rng, rng.random() < 0.25) for _ in range(rng.choice([0, 1, 1, 2, 2, 3]))]})

    def new_hdrs():
        ks = rng.sample(HKEYS, rng.choice([0, 1, 1, 2, 2, 3]))
        d = []
        for k in ks:
            if k.lower() in ("authorization", "x-tag") and rng.random() < 0.6:
                k = "X-Custom"
            if any(x[0] == k for x in d):
                continue
            if k.lower() == "x-tag" or rng.random() < 0.8:
                v = ["s", rng.choice(HVALS)]
            else:
                v = ["b", list(rng.choice(HVALS).encode("utf-8"))]
            d.append([k, v])
        add_obj("hdrs", {"o": "hdrs", "d": d})

    def new_params():
        ks = rng.sample(PKEYS, rng.choice([0, 1, 1, 2, 3]))
        r = rng.random()
        form = "dict" if r < 0.7 else "pairs" if r < 0.9 else "tuple"
        p = [[k, rng.choice(WORDS + PKEYS) if rng.random() < 0.8 else rng.choice(PVALS)] for k in ks]
        if form != "dict" and p and rng.random() < 0.5:
            p.append([p[0][0], rng.choice(WORDS)])
        add_obj("params", {"o": "params", "p": p, "as": form})

    def new_body():
        r = rng.random()
        if r < 0.25:
            b = {"o": "body", "t": "bytes", "v": rng.choice([[], [0, 255, 128], list(b"raw=1"), list("é".encode())])}
        elif r < 0.5:
            b = {"o": "body", "t": "str", "v": rng.choice(["", "text", "é\U0001f600", '{"a":1}', "0"])}
        else:
            b = {"o": "body", "t": "json", "v": copy.deepcopy(rng.choice(JSONS))}
        add_obj("body", b)

    def conn_data(prefer_conn=0.75):
        if conns and rng.random() < prefer_conn:
            return ["conn", rng.randrange(len(conns))]
        if rng.random() < 0.8:
            return ["addr", rng.choice(ADDRS)]
        return ["args", rng.choice(ADDRS), rng.random() < 0.5, rng.choice(["list", "tuple", "dict"])]

    def adarg(allow_auth):
        r = rng.random()
        if r < 0.15:
            return ["none"]
        if r < 0.6 or not n_obj["list"]:
            return ["one", _adspec(rng, allow_auth)]
        return ["list", rng.choice(n_obj["list"])]

    def new_conn(prefer_conn=0.75):
        cd = conn_data(prefer_conn)
        r = rng.random()
        if r < 0.7:
            w = ["http", adarg(rng.random() < 0.25)]
        elif r < 0.82:
            w = ["basic", rng.choice(WORDS), rng.choice(WORDS)]
        elif r < 0.92:
            w = ["client", rng.choice(WORDS), rng.choice(WORDS), rng.choice(WORDS)]
        else:
            w = ["token", rng.choice(WORDS)]
        ops.append({"o": "conn", "w": w, "cd": cd})
        conns.append(1)

    def new_caller():
        # all caller classes of a program are built from ONE mix-in holding the wrapper methods (so the metadata
        # object `@method_http` makes is shared by all of them), each with its own _HTTP_PREFIX_MAP.  "of":
        #   None            a new class derived from the mix-in
        #   ["sib", k]      the same, its map re-using the component names of caller k with other prefixes
        #   ["sub", k]      a SUBCLASS of caller k's class with its own _HTTP_PREFIX_MAP (replaces the inherited one)
        #   ["subinh", k]   a subclass of caller k's class without a map of its own (inherits k's)
        #   ["same", k]     another instance of caller k's class (another connection)
        # "map" is always the map in force for the new caller (what the model and the oracle read)
        of = None
        r = rng.random()
        if callers and r < 0.5:
            k = rng.randrange(len(callers))
            r2 = rng.random()
            if r2 < 0.2:
                of, pm = ["same", k], copy.deepcopy(callers[k])
            elif r2 < 0.35:
                of, pm = ["subinh", k], copy.deepcopy(callers[k])
            else:
                of = [("sub" if r2 < 0.7 else "sib"), k]
                pm = [[c, rng.choice(PREFIXES)] for c, _ in callers[k]]
                if pm and rng.random() < 0.2:
                    pm.pop(rng.randrange(len(pm)))
                extra = [c for c in COMPS if c not in [x[0] for x in pm]]
                if extra and rng.random() < 0.3:
                    pm.append([rng.choice(extra), rng.choice(PREFIXES)])
        else:
            ks = rng.sample(COMPS, rng.choice([0, 1, 2, 2, 3]))
            pm = [[k, rng.choice(PREFIXES)] for k in ks]
            if len(pm) >= 2 and rng.random() < 0.3:
                pm[1][1] = pm[0][1]          # two components behind the same prefix
        op = {"o": "caller", "map": pm, "cd": conn_data(0.6)}
        if of is not None:
            op["of"] = of
        ops.append(op)
        conns.append(1)
        callers.append(pm)

    def new_clone():
        m = rng.randrange(len(callers))
        ops.append({"o": "clone", "m": m, "ad": adarg(rng.random() < 0.35)})
        conns.append(1)
        callers.append(callers[m])

    def reqspec():
        r = rng.random()
        if r < 0.85:
            m = ["verb", rng.randrange(5)]
        else:
            m = ["raw", rng.choice([None, None, "", "get", "pAtch", "OPTIONS", "head"])]

        def pick(kind, p):
            return rng.choice(n_obj[kind]) if n_obj[kind] and rng.random() < p else None
        # the rarely used arguments: raw_response omitted / False / True; arguments that are absent passed as an
        # explicit None; and the environment of the call: what the opener answers
        r = rng.random()
        raw = None if r < 0.5 else False if r < 0.65 else True
        r = rng.random()
        if r < 0.45:
            resp = {"code": 200, "ctype": "application/json", "body": list(rng.choice(RESP_BODIES[:18]))}
        elif r < 0.8:
            resp = {"code": rng.choice(RESP_CODES[:11]), "ctype": rng.choice(RESP_CTYPES), "body": list(rng.choice(RESP_BODIES[:18]))}
        else:
            resp = {"code": rng.choice(RESP_CODES), "ctype": rng.choice(RESP_CTYPES), "body": list(rng.choice(RESP_BODIES))}
        return {"m": m, "path": rng.choice(PATHS), "params": pick("params", 0.5), "data": pick("body", 0.5),
                "headers": pick("hdrs", 0.5), "raw": raw, "xnone": rng.random() < 0.25, "resp": resp}

    decls = []      # component declarations of the wrapper methods used so far (one method per declaration)

    def comps_for(m):
        c = comps_for0(m)
        if decls and rng.random() < 0.5:
            # the SAME wrapper method as an earlier call, preferably one this caller has a component for
            pm = [x[0] for x in callers[m]]
            fit = [d for d in decls if d is not None and sum(1 for x in ([d["s"]] if "s" in d else d["l"]) if x in pm) == 1]
            c = copy.deepcopy(rng.choice(fit if fit and rng.random() < 0.8 else decls))
        if c not in decls:
            decls.append(copy.deepcopy(c))
        return c

    def comps_for0(m):
        pm = callers[m]
        r = rng.random()
        if r < 0.25:
            return None
        if pm and r < 0.75:
            k = rng.choice(pm)[0]
            if rng.random() < 0.3:
                return {"s": k}
            extra = [c for c in COMPS if c not in [x[0] for x in pm]]
            l = [k] + (rng.sample(extra, 1) if extra and rng.random() < 0.4 else [])
            rng.shuffle(l)
            return {"l": l}
        return {"l": rng.sample(COMPS, rng.choice([0, 1, 2]))}

    def new_req():
        ops.append({"o": "req", "c": rng.randrange(len(conns)), "q": reqspec()})

    def new_call():
        m = rng.randrange(len(callers))
        ops.append({"o": "call", "m": m, "comps": comps_for(m), "q": reqspec()})

    # caller objects first (they are shared by all later requests)
    for f in (new_list, new_hdrs, new_params, new_body):
        for _ in range(rng.choice([1, 1, 2])):
            f()
    new_conn(0.0)
    n = size or rng.choice([6, 10, 14, 20, 28])
    for _ in range(n):
        r = rng.random()
        if r < 0.22:
            new_conn()
        elif r < 0.32:
            new_caller()
        elif r < 0.44 and callers:
            new_clone()
        elif r < 0.70:
            new_req()
        elif r < 0.88 and callers:
            new_call()
        elif r < 0.93:
            rng.choice([new_list, new_hdrs, new_params, new_body])()
        elif with_add and r < 0.99:
            ops.append({"o": "add", "c": rng.randrange(len(conns)), "ad": _adspec(rng, rng.random() < 0.2)})
        else:
            new_req()
    # final sweep: every connection and every caller once more, with shared argument objects
    q = reqspec()
    for c in range(len(conns)):
        ops.append({"o": "req", "c": c, "q": q if rng.random() < 0.7 else reqspec()})
    order = list(range(len(callers)))
    if rng.random() < 0.5:
        order.reverse()         # the callers (and their classes) in the other order
    for m in order:
        ops.append({"o": "call", "m": m, "comps": comps_for(m), "q": q})
    case = {"ops": ops}
    env = gen_env(rng)
    if env:
        case["env"] = env
    return case


def gen_cases(rng, tier):
    n = 12000 if tier == "thorough" else 700
    cases = []
    for i in range(n):
        cases.append(gen_program(rng, with_add=(i % 8 == 7)))
    return cases


def search_cases(rng, tier):
    return [gen_program(rng, with_add=False) for _ in range(3000)]


def _has_add(case):
    return any(o["o"] == "add" for o in case["ops"])


def kind(case):
    k = "program+add_adapter" if _has_add(case) else "program"
    if any(o.get("of") for o in case["ops"]):
        k += "+shared-classes"
    if case.get("env"):
        k += "+ambient"
    return k


# ------------------------------------------------------------------ implementation
def _canon_hval(v):
    if isinstance(v, str):
        return [0, SX.s(v)]
    if isinstance(v, (bytes, bytearray)):
        return [1, list(v)]
    return [9, SX.s(type(v).__name__)]


DEFAULT_RESP = {"code": 200, "ctype": None, "body": []}     # cases written before the response path was modelled


def _q_resp(q):
    return q.get("resp") or DEFAULT_RESP


LOGGER_NAMES = {"conn": "ak.conn_http", "mcaller": "ak.mcaller", "ak": "ak", "root": None}


class _Ambient:
    """the process-wide settings a program runs under (case["env"]), put back afterwards"""
    def __init__(self, env):
        self.env = env or {}
        self.undo = []

    def __enter__(self):
        import io
        import logging
        import socket
        import time
        import warnings
        env = self.env
        try:
            for ent in env.get("log", []):
                if ent[0] == "disable":
                    prev = logging.root.manager.disable
                    self.undo.append(lambda prev=prev: logging.disable(prev))
                    logging.disable(ent[1])
                    continue
                lg = logging.getLogger(LOGGER_NAMES[ent[0]])
                prev = (lg.level, lg.propagate, lg.disabled, list(lg.handlers))

                def back(lg=lg, prev=prev):
                    lg.handlers[:] = prev[3]
                    lg.propagate, lg.disabled = prev[1], prev[2]
                    lg.setLevel(prev[0])
                self.undo.append(back)
                lg.setLevel(ent[1])
                if ent[2] == "null":
                    lg.addHandler(logging.NullHandler())
                elif ent[2] == "fmt":       # a handler that really formats every record (into a buffer)
                    h = logging.StreamHandler(io.StringIO())
                    h.setFormatter(logging.Formatter("%(asctime)s %(name)s %(levelname)s %(funcName)s %(message)s"))
                    lg.addHandler(h)
            if env.get("environ"):
                names = [k for k, _ in env["environ"]]
                prev = dict((k, os.environ.get(k)) for k in names)

                def back_env(prev=prev):
                    for k, v in prev.items():
                        if v is None:
                            os.environ.pop(k, None)
                        else:
                            os.environ[k] = v
                    time.tzset()
                self.undo.append(back_env)
                for k, v in env["environ"]:
                    os.environ[k] = v
                time.tzset()
            if env.get("warnings"):
                cm = warnings.catch_warnings()
                cm.__enter__()
                self.undo.append(lambda cm=cm: cm.__exit__(None, None, None))
                warnings.simplefilter(env["warnings"])
            if env.get("socket_timeout") is not None:
                prev = socket.getdefaulttimeout()
                self.undo.append(lambda prev=prev: socket.setdefaulttimeout(prev))
                socket.setdefaulttimeout(env["socket_timeout"])
        except BaseException:
            self.__exit__(None, None, None)
            raise
        return self

    def __exit__(self, *a):
        while self.undo:
            self.undo.pop()()
        return False


def impl_run(case):
    with _Ambient(case.get("env")):
        return _impl_run(case)


def _impl_run(case):
    import email.message
    import io
    import urllib.error
    import urllib.request
    from unittest.mock import patch
    from ak import conn_http
    from ak.mcaller_http import MCallerHttp, method_http

    resp_log = []
    captured = []

    class Skip(Exception):
        """the operation names an object that was never created (an earlier operation raised)"""

    def at(lst, i):
        if i >= len(lst):
            raise Skip()
        return lst[i]

    class TagAdapter(conn_http.RequestAdapter):
        def __init__(self, k):
            self.k = k

        def process_req_args(self, req_args):
            req_args.headers["X-Tag"] = req_args.headers.get("X-Tag", "") + chr(self.k)

        def process_response(self, return_value):
            resp_log.append(self.k)
            return Marked(self.k, return_value)

    route_log = []      # (address replaced, address set) by the RouteAdapters during the current op

    class RouteAdapter(conn_http.RequestAdapter):
        """host routing: requests whose path (as the earlier adapters of the chain left it) starts with `cond` go to
        `host`; the run of trailing slashes of the address it replaces is kept, so that the join of address and path
        is the same decision as without the adapter (the model does not see this adapter; see `murl`)"""
        def __init__(self, cond, host):
            self.cond = cond
            self.host = host

        def process_req_args(self, req_args):
            if req_args.path.startswith(self.cond):
                old = req_args.address
                new = self.host + "/" * (len(old) - len(old.rstrip("/")))
                route_log.append((old, new))
                req_args.address = new

        def mk_descr(self):
            return f"paths {self.cond!r}* via {self.host}"

    class Marked:
        """what TagAdapter.process_response returns: the value it was given, marked with the adapter's tag"""
        def __init__(self, k, v):
            self.k = k
            self.v = v

    class FakeResponse:
        def __init__(self, method, spec):
            self._body = bytes(spec["body"])
            self._method = method
            self.code = self.status = spec["code"]
            self._ctype = spec["ctype"]
            self.n_read = 0

        def __enter__(self):
            return self

        def __exit__(self, *a):
            pass

        def read(self):
            self.n_read += 1
            return self._body if self.n_read == 1 else b""

        def getheaders(self):
            return [("Content-Type", self._ctype)] if self._ctype is not None else []

    class FakeFp(io.BytesIO):
        """the body of an error answer (what HTTPError wraps; do_request reads and logs it)"""
        def __init__(self, method, spec):
            super().__init__(bytes(spec["body"]))
            self._method = method
            self._ctype = spec["ctype"]

        def getheaders(self):
            return [("Content-Type", self._ctype)] if self._ctype is not None else []

    answer = [DEFAULT_RESP]     # what the opener answers to the current request
    answered = []

    def fake_open(self, request, *a, **kw):
        captured.append(request)
        spec = answer[0]
        if spec["code"] >= 400:     # urllib's HTTPErrorProcessor
            hdrs = email.message.Message()
            if spec["ctype"] is not None:
                hdrs["Content-Type"] = spec["ctype"]
            raise urllib.error.HTTPError(request.full_url, spec["code"], "error", hdrs, FakeFp(request.get_method(), spec))
        r = FakeResponse(request.get_method(), spec)
        answered.append(r)
        return r

    def canon_ret(v, depth=0):
        """the value a request returned: marks of the tag adapters (outermost first) around '' / a decoded json
        value (canonical text) / the response object the opener returned"""
        if isinstance(v, Marked) and depth < 200:
            return [3, v.k, canon_ret(v.v, depth + 1)]
        if isinstance(v, FakeResponse):
            d = getattr(v, "data", None)
            if not (len(answered) == 1 and v is answered[0]):
                return [8, SX.s("another response object")]
            return [2, v.code, list(d) if isinstance(d, (bytes, bytearray)) else [-1]]
        try:
            return [1, SX.s(json.dumps(v, sort_keys=True))]
        except Exception:
            return [9, SX.s(type(v).__name__)]

    registry = {}     # id(adapter object) -> spec (objects are kept alive in `keep`)
    keep = []

    def mk_adapter(spec):
        t = spec[0]
        if t == "prefix":
            a = conn_http.RequestAdapterAddPathPrefix(spec[1])
        elif t == "basic":
            a = conn_http.BAuthConn.Adapter(spec[1], spec[2])
        elif t == "client":
            a = conn_http.ClientAuthConn.Adapter(spec[1], spec[2], spec[3])
        elif t == "token":
            a = conn_http.TokenAuthConn.Adapter(spec[1])
        elif t == "route":
            a = RouteAdapter(spec[1], spec[2])
        else:
            a = TagAdapter(spec[1])
        registry[id(a)] = spec
        keep.append(a)
        return a

    # one wrapper method per distinct component declaration used in the program
    comp_specs = []
    for o in case["ops"]:
        if o["o"] == "call":
            key = json.dumps(o["comps"], sort_keys=True)
            if key not in comp_specs:
                comp_specs.append(key)

    def send(conn, q, objs):
        kw = {}
        for name in ("params", "data", "headers"):
            if q[name] is not None:
                kw[name] = at(objs, q[name])
            elif q.get("xnone"):
                kw[name] = None             # an absent argument passed as an explicit None
        raw = q.get("raw")
        answer[0] = _q_resp(q)
        if q["m"][0] == "verb":
            if raw is not None:
                kw["raw_response"] = raw
            return getattr(conn, VERBS[q["m"][1]])(q["path"], **kw)
        pos = [conn.adapters, q["path"], q["m"][1], kw.get("params"), kw.get("data"), kw.get("headers")]
        if raw is None:
            return conn.conn_impl.do_request(*pos) if not q.get("xnone") else conn.conn_impl.do_request(
                pos[0], pos[1], method=pos[2], params=pos[3], data=pos[4], headers=pos[5])
        return conn.conn_impl.do_request(*pos, raw) if not q.get("xnone") else conn.conn_impl.do_request(*pos, raw_response=raw)

    def mk_mixin(name, which):
        """a mix-in with the wrapper methods `which`: each decorated ONCE, so that every caller class of the program
        shares the method objects and the metadata `@method_http` attached to them"""
        ns = {}
        for i, key in enumerate(comp_specs):
            if i not in which:
                continue
            comps = json.loads(key)
            decl = None if comps is None else comps["s"] if "s" in comps else list(comps["l"])
            env = {"send": send}
            exec(f"def w{i}(self, q, objs):\n    conn = self.get_conn()\n    return send(conn, q, objs)\n", env)
            ns[f"w{i}"] = method_http(None, decl)(env[f"w{i}"])
        return type(MCallerHttp)(name, (MCallerHttp,), ns)

    mixins = []

    def mk_class(o):
        """the class of a new caller: built from the program's mix-in(s) with its own _HTTP_PREFIX_MAP, a subclass of
        an earlier caller's class (own map / inherited map), or that very class"""
        if not mixins:
            n = len(comp_specs)
            if n >= 2 and case.get("mixins", 2) == 2:     # two mix-ins: the methods' metadata is merged per class
                mixins.extend([mk_mixin("ApiEven", range(0, n, 2)), mk_mixin("ApiOdd", range(1, n, 2))])
            else:
                mixins.append(mk_mixin("Api", range(n)))
        of = o.get("of")
        pmap = dict((k, v) for k, v in o["map"])
        if of is None or of[0] == "sib":
            return type(MCallerHttp)("Caller", tuple(mixins), {"_HTTP_PREFIX_MAP": pmap})
        base = type(at(callers, of[1]))
        if of[0] == "same":
            return base
        if of[0] == "sub":
            return type(MCallerHttp)("SubCaller", (base,), {"_HTTP_PREFIX_MAP": pmap})
        if of[0] == "subinh":
            return type(MCallerHttp)("SubCallerInh", (base,), {})
        raise ValueError(of)

    objs = []
    kinds = []
    conns = []
    callers = []
    out = []
    changed = []

    def canon_obj(i):
        o = objs[i]
        k = kinds[i]
        if k == "list":
            return [0, [registry.get(id(a), ["?"]) for a in o]] if isinstance(o, list) else [8, type(o).__name__]
        if k == "hdrs":
            return [1, [[key, _canon_hval(v)] for key, v in o.items()]]
        if k == "params":
            items = list(o.items()) if isinstance(o, dict) else [list(x) for x in o]
            return [2, [[a, b] for a, b in items], type(o).__name__]
        if k == "bytes":
            return [3, 0, list(o)]
        if k == "str":
            return [3, 1, o]
        return [3, 2, json.dumps(o), bool(o)]
    snaps = []

    def conn_data(cd):
        if cd[0] == "addr":
            return cd[1]
        if cd[0] == "conn":
            return at(conns, cd[1])
        if cd[3] == "list":
            return [cd[1], cd[2]]
        if cd[3] == "tuple":
            return (cd[1], cd[2])
        return {"address": cd[1], "_send_request_ids": cd[2]}

    def adarg(ad):
        if ad[0] == "none":
            return None
        if ad[0] == "one":
            return mk_adapter(ad[1])
        return at(objs, ad[1])

    with patch("urllib.request.OpenerDirector.open", fake_open):
        for idx, o in enumerate(case["ops"]):
            t = o["o"]
            del captured[:]
            del route_log[:]
            del resp_log[:]
            del answered[:]
            try:
                if t == "list":
                    objs.append([mk_adapter(s) for s in o["ads"]])
                    kinds.append("list")
                    res = ["ok"]
                elif t == "hdrs":
                    objs.append(dict((k, v[1] if v[0] == "s" else bytes(v[1])) for k, v in o["d"]))
                    kinds.append("hdrs")
                    res = ["ok"]
                elif t == "params":
                    objs.append(dict((k, v) for k, v in o["p"]) if o["as"] == "dict" else [(k, v) for k, v in o["p"]]
                                if o["as"] == "pairs" else tuple((k, v) for k, v in o["p"]))
                    kinds.append("params")
                    res = ["ok"]
                elif t == "body":
                    objs.append(bytes(o["v"]) if o["t"] == "bytes" else copy.deepcopy(o["v"]))
                    kinds.append(o["t"])
                    res = ["ok"]
                elif t == "conn":
                    w = o["w"]
                    cd = conn_data(o["cd"])
                    if w[0] == "http":
                        a = adarg(w[1])
                        c = conn_http.HttpConn(cd) if w[1][0] == "none" and idx % 2 else conn_http.HttpConn(cd, adapters=a)
                    elif w[0] == "basic":
                        c = conn_http.BAuthConn(cd, w[1], w[2])
                    elif w[0] == "client":
                        c = conn_http.ClientAuthConn(cd, w[1], w[2], w[3])
                    else:
                        c = conn_http.TokenAuthConn(cd, w[1])
                    conns.append(c)
                    res = ["ok"]
                elif t == "caller":
                    m = mk_class(o)(conn_data(o["cd"]))
                    callers.append(m)
                    conns.append(m.http_conn)
                    res = ["ok"]
                elif t == "clone":
                    a = adarg(o["ad"])
                    orig = at(callers, o["m"])
                    m = orig.clone() if o["ad"][0] == "none" and idx % 2 else orig.clone(a)
                    callers.append(m)
                    conns.append(m.http_conn)
                    res = ["ok"]
                elif t == "add":
                    at(conns, o["c"]).add_adapter(mk_adapter(o["ad"]))
                    res = ["ok"]
                elif t in ("req", "call"):
                    if t == "req":
                        ret = send(at(conns, o["c"]), o["q"], objs)
                    else:
                        i = comp_specs.index(json.dumps(o["comps"], sort_keys=True))
                        ret = getattr(at(callers, o["m"]), f"w{i}")(o["q"], objs)
                    if len(captured) != 1:
                        res = ["sent", len(captured)]
                    else:
                        r = captured[0]
                        # the url as the model (which has no address-rewriting adapter) is to see it: the address
                        # a RouteAdapter set, where the url really starts with it, put back; the oracle clause
                        # `url` judges the host of the url that was really requested
                        murl = r.full_url
                        for old, new in reversed(route_log):
                            if murl.startswith(new):
                                murl = old + murl[len(new):]
                        res = ["req", {"url": r.full_url, "murl": murl, "method": r.get_method(),
                                       "headers": [[k, _canon_hval(v)] for k, v in r.headers.items()],
                                       "data": None if r.data is None else list(r.data) if isinstance(r.data, (bytes, bytearray)) else [-1],
                                       "resp": list(resp_log), "ret": canon_ret(ret),
                                       "n_read": answered[0].n_read if answered else -1}]
                else:
                    raise ValueError(t)
            except Skip:
                res = ["skip"]
            except Exception as e:      # the implementation's exception is an observation (class only)
                res = ["err", SX.exc_name(e), len(captured)]
            out.append(res)
            while len(snaps) < len(objs):
                snaps.append(canon_obj(len(snaps)))
            for i in range(len(objs)):
                if canon_obj(i) != snaps[i] and not any(c[1] == i for c in changed):
                    changed.append([idx, i])
        final = [canon_obj(i) for i in range(len(objs))]
    return {"ops": out, "final": final, "changed": changed}


# ------------------------------------------------------------------ model side
def _c_ad(spec):
    t = spec[0]
    if t == "prefix":
        return f"APrefix {SX.cstr(spec[1])}"
    if t == "basic":
        return f"ABasic {SX.cstr(spec[1])} {SX.cstr(spec[2])}"
    if t == "client":
        return f"AClient {SX.cstr(spec[1])} {SX.cstr(spec[2])} {SX.cstr(spec[3])}"
    if t == "token":
        return f"AToken {SX.cstr(spec[1])}"
    if t == "route":
        return f"APrefix {SX.cstr('')}"       # no effect on path / headers / returned value: the model's no-op adapter
    return f"ATag {SX.cZ(spec[1])}"


def _c_hval(v):
    return f"HStr {SX.cstr(v[1])}" if v[0] == "s" else f"HBytes {SX.cZlist(v[1])}"


def _c_adarg(ad):
    if ad[0] == "none":
        return "ADNone"
    if ad[0] == "one":
        return f"(ADSingle ({_c_ad(ad[1])}))"
    return f"(ADList {SX.cnat(ad[1])})"


def _c_cd(cd):
    if cd[0] == "addr":
        return f"(CDAddr {SX.cstr(cd[1])})"
    if cd[0] == "conn":
        return f"(CDConn {SX.cnat(cd[1])})"
    return f"(CDArgs {SX.cstr(cd[1])} {SX.cbool(cd[2])})"


def _c_q(q):
    m = q["m"]
    if m[0] == "verb":
        cm = f"(MVerb {SX.cnat(m[1])})"
    else:
        cm = f"(MRaw {SX.copt(m[1], SX.cstr)})"
    rs = _q_resp(q)
    resp = "{| r_code := %s; r_body := %s; r_json := %s |}" % (SX.cZ(rs["code"]), SX.cZlist(rs["body"]), SX.copt(_resp_json(rs["body"]), SX.cstr))
    return ("{| s_meth := %s; s_path := %s; s_params := %s; s_data := %s; s_headers := %s; s_raw := %s; s_resp := %s |}"
            % (cm, SX.cstr(q["path"]), SX.copt(q["params"], SX.cnat), SX.copt(q["data"], SX.cnat), SX.copt(q["headers"], SX.cnat),
               SX.cbool(bool(q.get("raw"))), resp))


def _resp_json(body):
    """oracle value for the model (as json.dumps is for request bodies): canonical text of json.loads of the body
    text, None when the body is not utf-8, empty, or not json"""
    try:
        text = bytes(body).decode("utf-8")
        return json.dumps(json.loads(text), sort_keys=True) if text else None
    except ValueError:
        return None


def _pstr(v):
    """a params value as urlencode sees it: str(v) unless it is a str"""
    return v if isinstance(v, str) else str(v)


def _c_pairs(p):
    return SX.clist(SX.cpair(SX.cstr(k), SX.cstr(_pstr(v))) for k, v in p)


def _dict_pairs(p, form):
    """what the python object holds: a dict keeps the last value of a repeated key at the first position"""
    if form == "dict":
        return [[k, v] for k, v in dict((k, v) for k, v in p).items()]
    return p


def _c_op(o):
    t = o["o"]
    if t == "list":
        return "ONewList " + SX.clist(_c_ad(s) for s in o["ads"])
    if t == "hdrs":
        return "ONewHeaders " + SX.clist(SX.cpair(SX.cstr(k), _c_hval(v)) for k, v in o["d"])
    if t == "params":
        return "ONewParams " + _c_pairs(_dict_pairs(o["p"], o["as"]))
    if t == "body":
        if o["t"] == "bytes":
            return f"ONewBody (BBytes {SX.cZlist(o['v'])})"
        if o["t"] == "str":
            return f"ONewBody (BStr {SX.cstr(o['v'])})"
        return f"ONewBody (BJson {SX.cstr(json.dumps(o['v']))} {SX.cbool(bool(o['v']))})"
    if t == "conn":
        w = o["w"]
        if w[0] == "http":
            cw = f"(WHttp {_c_adarg(w[1])})"
        elif w[0] == "basic":
            cw = f"(WBasic {SX.cstr(w[1])} {SX.cstr(w[2])})"
        elif w[0] == "client":
            cw = f"(WClient {SX.cstr(w[1])} {SX.cstr(w[2])} {SX.cstr(w[3])})"
        else:
            cw = f"(WToken {SX.cstr(w[1])})"
        return f"OConn {cw} {_c_cd(o['cd'])}"
    if t == "caller":
        return f"OCaller {_c_pairs(_dict_pairs(o['map'], 'dict'))} {_c_cd(o['cd'])}"
    if t == "clone":
        return f"OClone {SX.cnat(o['m'])} {_c_adarg(o['ad'])}"
    if t == "req":
        return f"ORequest {SX.cnat(o['c'])} {_c_q(o['q'])}"
    if t == "call":
        c = o["comps"]
        cc = "None" if c is None else "(Some " + SX.clist(SX.cstr(x) for x in ([c["s"]] if "s" in c else c["l"])) + ")"
        return f"OCall {SX.cnat(o['m'])} {cc} {_c_q(o['q'])}"
    if t == "add":
        return f"OAddAdapter {SX.cnat(o['c'])} ({_c_ad(o['ad'])})"
    raise ValueError(t)


def coq_case(case, obs):
    return "Prog " + SX.clist(_c_op(o) for o in case["ops"])


def _sx_ad(spec):
    t = spec[0]
    if t == "prefix":
        return [0, SX.s(spec[1])]
    if t == "basic":
        return [1, SX.s(spec[1]), SX.s(spec[2])]
    if t == "client":
        return [2, SX.s(spec[1]), SX.s(spec[2]), SX.s(spec[3])]
    if t == "token":
        return [3, SX.s(spec[1])]
    if t == "tag":
        return [4, spec[1]]
    if t == "route":
        return [0, SX.s("")]         # as _c_ad
    return [99]


def _sx_obj(c):
    if c[0] == 0:
        return [0, [_sx_ad(a) for a in c[1]]]
    if c[0] == 1:
        return [1, [[SX.s(k), v] for k, v in c[1]]]
    if c[0] == 2:
        return [2, [[SX.s(k), SX.s(_pstr(v))] for k, v in c[1]]]
    if c[0] == 3:
        if c[1] == 0:
            return [3, [0, c[2]]]
        if c[1] == 1:
            return [3, [1, SX.s(c[2])]]
        return [3, [2, SX.s(c[2]), 1 if c[3] else 0]]
    return [98]


REQID_CAP = "X-request-id"
_GEN_ID = re.compile(r"^[0-9a-f]{8}-0000-0000-0000-[0-9]{12}$")


def _is_generated_id(v):
    """header value in the canonical form of _canon_hval: a str of the shape _generate_request_id produces"""
    return v[0] == 0 and bool(_GEN_ID.match(SX.unstr(v[1])))


def _sx_req(r):
    hs = []
    for k, v in r["headers"]:
        if k == REQID_CAP and _is_generated_id(v):
            v = [2, []]          # generated id: presence only (the model's HGenId); a caller-supplied id is compared
        hs.append([SX.s(k), v])
    hs.sort(key=lambda kv: kv[0])
    return [SX.s(r.get("murl", r["url"])), SX.s(r["method"]), hs, SX.opt(r["data"]), r["resp"], r.get("ret", [1, SX.s('""')])]


M63 = (1 << 63) - 1


def sx_hash(x):
    """the hash of coq/C17/Run.v hash_sx on a nested list of ints"""
    if isinstance(x, int):
        return ((x % (1 << 63)) * 1000003 + 12345) & M63
    acc = 1442695040888963407
    for e in x:
        acc = (acc * 6364136223846793005 + sx_hash(e)) & M63
    return (acc * 31 + 7) & M63


def full_sx(case, obs):
    """the complete canonical observation (what Run.run_full computes)"""
    ops = []
    for r in obs["ops"]:
        if r[0] == "ok":
            ops.append(SX.ok([]))
        elif r[0] == "req":
            ops.append(SX.ok(_sx_req(r[1])))
        elif r[0] == "err":
            ops.append(SX.err(r[1]))
        elif r[0] == "skip":
            ops.append(SX.err("OtherError"))
        else:
            ops.append([7, r[1]])
    return [ops, [[_sx_obj(c)] for c in obs["final"]]]


def expected_sx(case, obs):
    ops = []
    for r in obs["ops"]:
        if r[0] == "ok":
            ops.append(0)
        elif r[0] == "req":
            ops.append(sx_hash(_sx_req(r[1])))
        elif r[0] in ("err", "skip"):
            ops.append([SX.err(r[1] if r[0] == "err" else "OtherError")[1]])
        else:
            ops.append([7, r[1]])         # request not sent exactly once: never equals a model line
    return SX.dumps([sx_hash(ops), sx_hash([[_sx_obj(c)] for c in obs["final"]]),
                     sum(1 for r in obs["ops"] if r[0] in ("err", "skip"))])


# ------------------------------------------------------------------ oracle (statement, independently of the model)
def _norm_url(u):
    if "://" in u:
        sch, rest = u.split("://", 1)
    else:
        sch, rest = "", u
    while "//" in rest:
        rest = rest.replace("//", "/")
    return sch + "://" + rest


def _is_auth(spec):
    return spec[0] in ("basic", "client", "token")


def oracle(case, obs):
    if "__hang__" in obs:
        return [("hang", "program did not return")]
    out = []
    ops = case["ops"]
    res = obs["ops"]
    objs = []        # declared caller objects (op dicts)
    conns = []       # {"addr":..., "ids": bool, "chain": [adspec]}
    callers = []     # {"map": dict, "conn": conn dict}
    seen = {}
    for idx, ch in obs["changed"]:
        out.append(("caller-object-modified", f"op #{idx} {json.dumps(ops[idx])[:200]} changed the caller's object #{ch} "
                    f"({json.dumps(ops_obj(ops, ch))[:200]}) into {json.dumps(obs['final'][ch])[:200]}"))

    def adlist(ad):
        if ad[0] == "none":
            return []
        if ad[0] == "one":
            return [ad[1]]
        return list(objs[ad[1]]["ads"])

    def parent(cd):
        if cd[0] == "conn":
            return conns[cd[1]]
        return {"addr": cd[1], "ids": True if cd[0] == "addr" else cd[2], "chain": []}

    def check_request(idx, o, r, conn, q, what):
        chain = conn["chain"]
        hd = dict((k, v) for k, v in objs[q["headers"]]["d"]) if q["headers"] is not None else {}
        low = [k.lower() for k in hd]
        n_auth = sum(1 for a in chain if _is_auth(a))
        rs = _q_resp(q)
        raw = bool(q.get("raw"))
        if r[0] == "err":
            excused = (r[1] == "AssertionError" and n_auth >= 1 and (n_auth >= 2 or "authorization" in low))
            # the answer of the server is an error status, or -- decoding asked for -- not json: do_request raises
            # (after the request was sent, once); the statement demands nothing of such calls
            if r[1] == "HTTPError" and rs["code"] >= 400 and r[2] == 1:
                excused = True
            if (r[1] == "ValueError" and not raw and rs["code"] < 400 and r[2] == 1 and rs["body"]
                    and _resp_json(rs["body"]) is None):
                excused = True
            if not excused:
                out.append(("request-raises", f"op #{idx} {what}: {r[1]} for chain {chain}, headers {hd}"))
            return
        if r[0] == "sent":
            out.append(("not-sent-once", f"op #{idx} {what}: {r[1]} Request objects reached the opener"))
            return
        req = r[1]
        got_h = dict((k, v) for k, v in req["headers"])
        # every adapter of the chain exactly once; response processors in reverse order
        tags = [a[1] for a in chain if a[0] == "tag"]
        if "x-tag" not in low:
            v = got_h.get("X-tag")
            applied = v[1] if v and v[0] == 0 else []
            if sorted(applied) != sorted(tags):
                out.append(("adapter-not-once", f"op #{idx} {what}: adapters of the chain {tags}, applied (X-Tag) {applied}"))
            elif req["resp"] != applied[::-1]:
                out.append(("response-order", f"op #{idx} {what}: request order {applied}, response order {req['resp']}"))
        # ... and on the VALUE handed back to the caller, raw_response or not: the marks of the tag adapters around
        # it are those of the chain, each once, the first adapter's outermost (its processor runs last); inside
        # is what the opener answered: the response object itself (raw) / '' / the decoded json
        ret = req.get("ret")
        if ret is not None:
            marks, v = [], ret
            while v[0] == 3:
                marks.append(v[1])
                v = v[2]
            if sorted(marks) != sorted(tags):
                out.append(("response-not-once", f"op #{idx} {what} raw_response={q.get('raw')}: response processors of the chain {tags}, "
                            f"applied to the returned value {marks}"))
            elif marks != tags:
                out.append(("response-order", f"op #{idx} {what} raw_response={q.get('raw')}: chain {tags}, marks around the returned "
                            f"value (outermost first) {marks}"))
            if raw:
                want_v = [2, rs["code"], list(rs["body"])]
            else:
                js = _resp_json(rs["body"])
                want_v = [1, SX.s(js if js is not None else '""')]
            if rs["code"] >= 400 or (not raw and rs["body"] and _resp_json(rs["body"]) is None):
                want_v = None       # an answer the code is expected to refuse: left to the model comparison
            if want_v is not None and v != want_v:
                out.append(("response-value", f"op #{idx} {what} raw_response={q.get('raw')}: returned {json.dumps(v)[:200]} inside the marks, "
                            f"the opener answered {json.dumps(rs)[:200]}"))
        # path prefixes: inner connections outermost
        path = q["path"]
        xpath = q["path"]       # the path exactly as the adapters so far left it (what a routing adapter looks at)
        addr = conn["addr"]
        for a in chain:
            if a[0] == "prefix":
                path = a[1] + path
                xpath = a[1] + (xpath[1:] if xpath and xpath.startswith("/") and a[1].endswith("/") else xpath)
            elif a[0] == "route" and xpath.startswith(a[1]):
                addr = a[2]     # every adapter is applied: the request goes to the address the LAST routing adapter set
        pobj = objs[q["params"]] if q["params"] is not None else None
        if pobj is not None and pobj["p"]:
            pv = dict((k, v) for k, v in pobj["p"]) if pobj["as"] == "dict" else [(k, v) for k, v in pobj["p"]]
            path += "?" + urlencode(pv)
        want = _norm_url(addr + "/" + path)
        have = _norm_url(req["url"])
        if want != have:
            out.append(("url", f"op #{idx} {what}: url {req['url']!r}, expected {addr!r} (address {conn['addr']!r} after the routing adapters) + prefixes of {chain} + {q['path']!r} (+ params) = {want!r}"))
        # exactly one Authorization header, from the authenticating layer
        if "authorization" not in low:
            v = got_h.get("Authorization")
            if n_auth == 1:
                a = [x for x in chain if _is_auth(x)][0]
                okv = False
                if v is not None:
                    try:
                        if a[0] == "token":
                            okv = v[0] == 0 and SX.unstr(v[1]) == "Bearer " + a[1]
                        else:
                            raw = bytes(v[1]) if v[0] == 1 else SX.unstr(v[1]).encode()
                            cred = (a[1] + ":" + a[2]) if a[0] == "basic" else (a[2] + ":" + a[3])
                            okv = raw.startswith(b"Basic ") and base64.b64decode(raw[6:], validate=True).decode("utf-8") == cred
                    except Exception:
                        okv = False
                n_keys = sum(1 for k in got_h if k.lower() == "authorization")
                if not okv or n_keys != 1:
                    out.append(("auth", f"op #{idx} {what}: Authorization header {v} does not carry the credentials of {a}"))
            elif n_auth == 0 and any(k.lower() == "authorization" for k in got_h):
                out.append(("auth-spurious", f"op #{idx} {what}: Authorization header without an authenticating layer"))
        # method and body
        dobj = objs[q["data"]] if q["data"] is not None else None
        if dobj is None:
            wd, truthy = None, False
        elif dobj["t"] == "bytes":
            wd, truthy = list(dobj["v"]), bool(dobj["v"])
        elif dobj["t"] == "str":
            wd, truthy = list(dobj["v"].encode("utf-8")), bool(dobj["v"])
        else:
            wd, truthy = "json", bool(dobj["v"])
        if wd == "json":
            try:
                okb = req["data"] is not None and json.loads(bytes(req["data"]).decode("utf-8")) == dobj["v"]
            except Exception:
                okb = False
        else:
            okb = req["data"] == wd
        if not okb:
            out.append(("body", f"op #{idx} {what}: body {req['data']} for data {json.dumps(dobj)[:200]}"))
        m = q["m"]
        wm = VERBS[m[1]].upper() if m[0] == "verb" else (m[1].upper() if m[1] else ("POST" if truthy else "GET"))
        if req["method"] != wm:
            out.append(("method", f"op #{idx} {what}: method {req['method']}, expected {wm}"))
        # the same request through the same object must not depend on what was derived meanwhile
        key = json.dumps([what, q, conn.get("ver", 0)], sort_keys=True)
        canon = json.dumps([req["url"], req["method"], sorted([k, v] for k, v in req["headers"] if k != REQID_CAP),
                            REQID_CAP in got_h, req["data"], req["resp"], req.get("ret")])
        if key in seen and seen[key][1] != canon:
            out.append(("interference", f"op #{idx} {what}: differs from the same request at op #{seen[key][0]}: {canon[:300]} vs {seen[key][1][:300]}"))
        seen.setdefault(key, (idx, canon))

    for idx, (o, r) in enumerate(zip(ops, res)):
        t = o["o"]
        if t in ("list", "hdrs", "params", "body"):
            objs.append(o)
            continue
        if t == "add":
            # conn.add_adapter(a): a is appended to the list of THAT connection object (all its names see it,
            # nothing else does: connections derived from it earlier hold their own list)
            if r[0] == "ok":
                c = conns[o["c"]]
                c["chain"] = c["chain"] + [o["ad"]]
                c["ver"] = c.get("ver", 0) + 1
            elif r[0] == "err":
                out.append(("add-raises", f"op #{idx} {json.dumps(o)[:300]} raised {r[1]}"))
            continue
        if t in ("conn", "caller", "clone"):
            if r[0] != "ok":
                sig = "clone-list" if t == "clone" and o["ad"][0] == "list" else "derive-raises"
                out.append((sig, f"op #{idx} {json.dumps(o)[:300]} raised {r[1]}"))
                return out       # later indices refer to an object that does not exist
            if t == "conn":
                w = o["w"]
                p = parent(o["cd"])
                own = adlist(w[1]) if w[0] == "http" else [w]
                conns.append({"addr": p["addr"], "ids": p["ids"], "chain": own + p["chain"], "http": w[0] == "http"})
            elif t == "caller":
                p = parent(o["cd"])
                c = p if (o["cd"][0] == "conn" and p.get("http")) else {"addr": p["addr"], "ids": p["ids"], "chain": list(p["chain"]), "http": True}
                conns.append(c)
                callers.append({"map": dict((k, v) for k, v in o["map"]), "conn": c})
            else:
                m = callers[o["m"]]
                c = {"addr": m["conn"]["addr"], "ids": m["conn"]["ids"], "chain": adlist(o["ad"]) + m["conn"]["chain"], "http": True}
                conns.append(c)
                callers.append({"map": m["map"], "conn": c})
            continue
        if t == "req":
            check_request(idx, o, r, conns[o["c"]], o["q"], f"conn#{o['c']}")
        elif t == "call":
            m = callers[o["m"]]
            comps = o["comps"]
            if comps is None:
                conn = m["conn"]
            else:
                cl = [comps["s"]] if "s" in comps else comps["l"]
                match = [c for c in cl if c in m["map"]]
                if len(match) != 1:
                    continue     # the wrapper is not available on this caller (AssertionError): nothing is demanded
                if m["conn"].get("ver", 0):
                    # add_adapter was called on this caller's own connection: whether a prefixed connection made
                    # before that sees the added adapter is not determined by the property (the code keeps the
                    # cached one); compared with the model only
                    continue
                pfx = m["map"][match[0]]
                conn = {"addr": m["conn"]["addr"], "ids": m["conn"]["ids"],
                        "chain": ([["prefix", pfx]] if pfx else []) + m["conn"]["chain"]}
            check_request(idx, o, r, conn, o["q"], f"caller#{o['m']}{json.dumps(comps)}")
    return out


def ops_obj(ops, i):
    n = -1
    for o in ops:
        if o["o"] in ("list", "hdrs", "params", "body"):
            n += 1
            if n == i:
                return o
    return None


def nontrivial(case, obs):
    ops = case["ops"]
    derived_at = {}     # conn index -> op index of the last derivation from it
    nconn = 0
    cconn = []          # caller -> conn index
    depth = []
    last_deriv = -1
    for idx, o in enumerate(ops):
        t = o["o"]
        if t == "conn":
            d = 1 + (depth[o["cd"][1]] if o["cd"][0] == "conn" else 0)
            if o["cd"][0] == "conn":
                last_deriv = idx
            depth.append(d)
        elif t == "caller":
            depth.append(1 + (depth[o["cd"][1]] if o["cd"][0] == "conn" else 0))
            cconn.append(len(depth) - 1)
        elif t == "clone":
            depth.append(1 + depth[cconn[o["m"]]])
            cconn.append(len(depth) - 1)
            last_deriv = idx
        elif t == "req" and depth[o["c"]] >= 2 and 0 <= last_deriv < idx:
            return True
        elif t == "call" and depth[cconn[o["m"]]] >= 2 and 0 <= last_deriv < idx:
            return True
    return False


def outcome(case, obs):
    if "__hang__" in obs:
        return "hang"
    errs = sorted({r[1] for r in obs["ops"] if r[0] == "err"})
    n = sum(1 for r in obs["ops"] if r[0] == "req")
    return ("requests:%s" % ("1-5" if n <= 5 else "6-15" if n <= 15 else "16+")) + ("+" + "+".join(errs) if errs else "")


def shrink_candidates(case):
    ops = case["ops"]
    # drop request-like operations (they create nothing that later operations name), last first
    for i in range(len(ops) - 1, -1, -1):
        if ops[i]["o"] in ("req", "call", "add"):
            yield {**case, "ops": ops[:i] + ops[i + 1:]}
    # drop a trailing operation of any kind
    if len(ops) > 1:
        yield {**case, "ops": ops[:-1]}
    # drop the ambient configuration, or one part of it
    extra = dict((k, v) for k, v in case.items() if k != "ops")
    if case.get("env"):
        yield {"ops": ops, **dict((k, v) for k, v in extra.items() if k != "env")}
        for part in case["env"]:
            if len(case["env"]) > 1:
                yield {"ops": ops, **extra, "env": dict((k, v) for k, v in case["env"].items() if k != part)}
    # drop arguments of requests
    for i, o in enumerate(ops):
        if o["o"] in ("req", "call"):
            for f in ("params", "data", "headers"):
                if o["q"][f] is not None:
                    o2 = copy.deepcopy(o)
                    o2["q"][f] = None
                    yield {**case, "ops": ops[:i] + [o2] + ops[i + 1:]}


TECHNIQUE = ("Coq proof on a hand-written executable Gallina HEAP model (mutable python objects = cells addressed by references, "
             "connection identity = the reference of its own adapter list): (1) refinement of the heap-manipulating request assembly "
             "(RequestArguments copy, adapters writing through the reference, do_request) to a pure specification spec_of; (2) an "
             "invariant over ALL operation sequences without add_adapter (conn.adapters = own adapters of the whole chain, for every "
             "connection, every caller and every cached prefixed connection) giving chain_applied_once / frame / noninterference; "
             "(3) a second, weaker ownership invariant over ALL operation sequences INCLUDING add_adapter (every connection owns its "
             "list cell; cached connections are not nameable) giving frame_any / noninterference_any / add_adapter_effect; (4) "
             "induction over adapter lists for prefix order, tags, the Authorization header; (5) base64 / utf-8 modelled with proved "
             "round trips; (6) the response path (opener answer -> raw / decoded base value -> fold of process_response over the "
             "reversed list) inside the same do_request / spec_of, with fold_left over rev = fold_right and the marks of the "
             "returned value by induction over the adapter list.  Tied to the code per run by the correspondence check (vm_compute of the model vs the implementation on "
             "random programs, incl. programs with add_adapter) and by clauses / literal keys regenerated from the source (ast, "
             "fail closed) on which source_clauses states the obligations.")
LEVEL_TEXT = ("Model-level theorems (coq/C17/Props.v, 38 theorems + 10 examples, all closed), quantified over ALL chains, ALL request "
              "arguments and ALL operation sequences (programs over wrap / Caller / clone(None|adapter|list) / component lookup with "
              "the per-prefix cache / request / new caller objects) -- FULL: chain_applied_once + wrapper_call_chain (a request "
              "= spec_of the adapters of the whole chain, own first then the parent's ..., each once in that order; component "
              "prefix adapter in front, fresh / cached / empty-prefix case alike), adapters_each_once, prefix_order + prefix_join "
              "(inner prefixes outermost), response_reverse_order (order of the process_response CALLS) and, for the VALUE returned "
              "to the caller, respond_chain + raw_and_decoded_alike + response_chain_app + response_processed_once_reverse + "
              "wrapper_response_processed (every successful request / wrapper call in a reachable state, raw_response True or "
              "False: returned value = base value -- the response object itself / '' / json.loads of the utf-8 text -- passed "
              "through process_response of every adapter of the WHOLE chain exactly once over the reversed chain, the first "
              "adapter's processor outermost; marks v = tags of the chain, unmarked v = base) + http_error_raises, one_auth (exactly one "
              "key Authorization in Request.headers holding the value of the one authenticating adapter, wherever it sits; also "
              "when the caller passes 'authorization' in another spelling), auth_decodes + codec_roundtrip (base64 and utf-8 are "
              "MODELLED in Codec.v; b64_dec(b64 x) = x and utf8_decode(utf8 s) = s proved for all byte / code-point strings, so the "
              "value decodes to login:password / id:secret; the decoders are the model's, the encoders are compared with the "
              "standard library on every case), two_auth_refused, no_auth_no_header, request_one_auth + request_shape (the same end to end for every successful request through a connection of a reachable state), url_formula, body_encoding + "
              "body_never_dropped + json_body (every non-None body is sent, falsy ones included: b'' '' {} [] 0 False), frame "
              "(no existing heap cell and no caller object changes), noninterference (requests through existing connections and "
              "wrapper calls on existing callers observe the same after any such sequence), same_objects_reused, clone_list (after "
              "fix 53201f3).  add_adapter is an operation of the model too: frame_any (caller objects are never written by ANY "
              "sequence), noninterference_any (requests through c / wrapper calls on m unchanged unless add_adapter is called on the "
              "object c / m.http_conn itself), derived_is_new_object + derive_then_add (add_adapter on a derived connection or a "
              "clone's connection never reaches the original), add_adapter_effect (the added adapter is applied last, to that "
              "connection only), request_any / wrapper_call_any.  PARTIAL / abstract: json.dumps text and truthiness of a structured "
              "body are oracle values (BJson js t); urlencode is the model's quote_plus (compared, not proved against urllib); the "
              "json.loads of the response text is an oracle value (r_json) and the only process_response that is not the identity "
              "is the harness's TagAdapter (the four adapters of conn_http.py inherit RequestAdapter's `return return_value`, "
              "pinned by the extractor); is_text admits surrogates "
              "(python raises there; not generated).  ONLY TESTED (correspondence + oracle, 700 programs quick / 12000 thorough): "
              "that the model is the code -- urllib's Request header storage (capitalize, later wins), str.upper / "
              "capitalize for non-ASCII, the conn_data forms (address / list / tuple / dict), HttpConn-or-not test of "
              "MCallerHttp.__init__, exception classes; that the prefix of a component method is resolved per caller CLASS (shared mix-in methods, sibling classes, "
              "subclasses, several instances; example prefix_per_caller_example, in general wrapper_call_chain + noninterference on the "
              "model, whose callers carry their own map) and that nothing depends on the logging configuration / environment of the "
              "process (the model has no such input); NOT claimed: tuples as `adapters` (TypeError in the code, outside the "
              "statement), descriptions, auth_type, logging, threads (C16); what error statuses / undecodable bodies do is model = code (HTTPError / ValueError), not a clause of the statement.")
LEVEL_NOTE = ("Trusted: Coq kernel + vm_compute; the hand model's fidelity to ak/conn_http.py and ak/mcaller_http.py (checked by "
              "correspondence on every run and by the regenerated clauses, not proved); urllib.request.Request / urlencode / "
              "json.dumps / json.loads / base64 / str.encode / bytes.decode of the standard library (modelled or passed in as values, compared per case); the ast "
              "extractor, the substitute opener (statuses >= 400 raise HTTPError), TagAdapter / Marked and the harness.  The heap model abstracts python object identity to "
              "allocation order; own_adapters (used for descriptions only) is kept by value.")
DESIGN_REF = "DESIGN.md section 8, C17"
