(* C04/Model.v -- executable model of the tokenizer of ak/llparser.py
   (_Tokenizer.tokenize, lines 240-334), of TElement.get_orig_text (460-517) and
   of the way LLParser.parse feeds the non-skipped tokens to the main loop
   (1649-1652).  Node spans are those of LLP/Parse.v [mk_node] (1686-1709).
   Strings are lists of code points.  No proofs in this file. *)
From Coq Require Import ZArith List Bool.
From AK Require Import Common.Err LLP.Base LLP.Parse gen.C04_Consts.
Import ListNotations.
Open Scope Z_scope.

Notation line := (list Z).

(* ------------------------------------------------------------------ text *)
(* str.split('\n') : always at least one line *)
Fixpoint split_nl (s : list Z) : list line :=
  match s with
  | [] => [[]]
  | c :: r =>
      if c =? 10 then [] :: split_nl r
      else match split_nl r with
           | h :: t => (c :: h) :: t
           | [] => [[c]]
           end
  end.

(* '\n'.join(lines) *)
Fixpoint join_nl (ls : list line) : list Z :=
  match ls with
  | [] => []
  | [l] => l
  | l :: r => l ++ 10 :: join_nl r
  end.

(* str.isspace of one character = what \s matches in a str pattern; the table
   is regenerated from the running interpreter (gen/C04_Consts.v) *)
Definition is_space (c : Z) : bool := existsb (Z.eqb c) space_chars.

(* str.rstrip() *)
Fixpoint rstrip (l : line) : line :=
  match l with
  | [] => []
  | c :: r =>
      match rstrip r with
      | [] => if is_space c then [] else [c]
      | r' => c :: r'
      end
  end.

(* the text handed to parse()/get_orig_text(): a str or a list of str *)
Inductive input := IStr (s : list Z) | ILines (ls : list line).

(* tokenize: str -> (t.rstrip() for t in text.split('\n')); an iterable is taken verbatim *)
Definition tok_lines (i : input) : list line :=
  match i with IStr s => map rstrip (split_nl s) | ILines ls => ls end.
(* get_orig_text: str -> text.split('\n') (NOT stripped); a list verbatim *)
Definition orig_lines (i : input) : list line :=
  match i with IStr s => split_nl s | ILines ls => ls end.

(* ------------------------------------------------------------------ tokenizer *)
(* a compiled span-body pattern: (line, col) -> (match.end(), match.group(match.lastgroup)) *)
Notation bmatcher := (line -> nat -> option (nat * list Z)).

(* prev_end_pos ; (cur_span_symbol, span_body_matcher, cur_span_start_text, cur_span_lines) *)
Record lstate := mkLS { ls_prev : pos; ls_span : option (sym * bmatcher * line * list line) }.

Inductive lexres (A : Type) : Type :=
| LOk (a : A)
| LErr (p : pos) (text : line) (unclosed : bool)   (* LexicalError(src_pos, text) *)
| LHang.                                            (* the real loop does not end *)
Arguments LOk {A} a.
Arguments LErr {A} p text unclosed.
Arguments LHang {A}.

Section Lexer.
  (* self.matcher.match(text_line, col): (lastgroup, end(), group(lastgroup)) *)
  Variable matcher : line -> nat -> option (sym * nat * list Z).
  (* self.span_matchers.get(token_name) *)
  Variable span_of : sym -> option bmatcher.
  (* self.synonyms.get(n, n) ; self.keywords.get((n, v)) *)
  Variable syn : sym -> sym.
  Variable kw : sym -> list Z -> option sym.

  Definition tok_name (g : sym) (v : list Z) : sym :=
    let n := syn g in match kw n v with Some k => k | None => n end.

  (* the  while col < len(text_line)  loop of one line *)
  Fixpoint lex_line (fuel : nat) (lid : Z) (text : line) (col : nat) (st : lstate)
    : lexres (list token * lstate) :=
    if (length text <=? col)%nat then LOk ([], st) else
    match fuel with
    | O => LHang
    | S fuel' =>
        match ls_span st with
        | Some (ssym, bm, stext, slines) =>
            (* inside a span token *)
            match bm text col with
            | None =>
                (* col = len(text_line): the loop ends *)
                LOk ([], mkLS (ls_prev st) (Some (ssym, bm, stext, slines ++ [skipn col text])))
            | Some (e, v) =>
                let newend := (lid, Z.of_nat e + 1) in
                let tk := mkTok (syn ssym) (join_nl (slines ++ [v])) (ls_prev st) newend in
                match lex_line fuel' lid text e (mkLS newend None) with
                | LOk (toks, st') => LOk (tk :: toks, st')
                | other => other
                end
            end
        | None =>
            match matcher text col with
            | None => LErr (lid, Z.of_nat col) text false
            | Some (g, e, v) =>
                if (e <=? col)%nat then LHang      (* empty match: col never advances *)
                else
                  match span_of g with
                  | Some bm =>
                      lex_line fuel' lid text e (mkLS (ls_prev st) (Some (g, bm, text, [])))
                  | None =>
                      let newend := (lid, Z.of_nat e + 1) in
                      let tk := mkTok (tok_name g v) v (ls_prev st) newend in
                      match lex_line fuel' lid text e (mkLS newend None) with
                      | LOk (toks, st') => LOk (tk :: toks, st')
                      | other => other
                      end
                  end
            end
        end
    end.

  Definition line_fuel (text : line) : nat := (2 * length text + 2)%nat.

  (* if cur_span_symbol is None and text_line: prev_end_pos = SrcPos(src_name, line_id, 1) *)
  (* [line_start_reset] (gen/C04_Consts.v) records whether this statement is present in the source *)
  Definition line_start (lid : Z) (text : line) (st : lstate) : lstate :=
    if line_start_reset then
      match ls_span st, text with
      | None, _ :: _ => mkLS (lid, 1) None
      | _, _ => st
      end
    else st.

  (* for line_id, text_line in enumerate(lines, start=1) *)
  Fixpoint lex_lines (lid : Z) (ls : list line) (st : lstate) : lexres (list token * lstate) :=
    match ls with
    | [] => LOk ([], st)
    | text :: rest =>
        match lex_line (line_fuel text) lid text 0 (line_start lid text st) with
        | LOk (toks, st1) =>
            match lex_lines (lid + 1) rest st1 with
            | LOk (toks', st2) => LOk (toks ++ toks', st2)
            | other => other
            end
        | other => other
        end
    end.

  Definition init_state : lstate := mkLS (1, 1) None.

  (* all tokens, skipped ones included, $END$ last *)
  Definition tokenize (ls : list line) : lexres (list token) :=
    match lex_lines 1 ls init_state with
    | LOk (toks, st) =>
        match ls_span st with
        | Some (_, _, stext, _) => LErr (ls_prev st) stext true       (* span is never closed *)
        | None => LOk (toks ++ [mkTok END_TOKEN [] (ls_prev st) (ls_prev st)])
        end
    | LErr p t u => LErr p t u
    | LHang => LHang
    end.
End Lexer.

(* parse(): tokens whose name is in skip_tokens are dropped *)
Definition drop_skipped (skip : list sym) (toks : list token) : list token :=
  filter (fun t => negb (mem (tname t) skip)) toks.

(* ------------------------------------------------------------------ get_orig_text *)
Definition pos_leb (p q : pos) : bool :=
  (fst p <? fst q) || ((fst p =? fst q) && (snd p <=? snd q)).

(* s[a:b] for 0 <= a, 0 <= b *)
Definition slice (l : line) (a b : nat) : line := firstn (b - a) (skipn a l).

Definition get_orig_text (lines : list line) (sp : span) : res (list Z) :=
  if negb (pos_leb (fst sp) (snd sp)) then Err AssertErr else
  let sl := fst (fst sp) - 1 in let sc := snd (fst sp) - 1 in
  let el := fst (snd sp) - 1 in let ec := snd (snd sp) - 1 in
  if (sl <? 0) || (sc <? 0) || (el <? 0) || (ec <? 0) then Err AssertErr else
  let sl := Z.to_nat sl in let sc := Z.to_nat sc in
  let el := Z.to_nat el in let ec := Z.to_nat ec in
  if (length lines <=? el)%nat then Err AssertErr else
  let l1 := nth el lines [] in
  if (sl =? el)%nat then
    if (length l1 <? ec)%nat then Err AssertErr else Ok (slice l1 sc ec)
  else
    let l0 := nth sl lines [] in
    if (length l0 <? sc)%nat then Err AssertErr else
    if (length l1 <? ec)%nat then Err AssertErr else
    Ok (join_nl (skipn sc l0 :: firstn (el - sl - 1) (skipn (S sl) lines) ++ [firstn ec l1])).

(* ------------------------------------------------------------------ the lexicon of the harness *)
(* one alternative  (?P<name>...)  of the tokenizer pattern; alternatives are
   tried in order and the first that matches wins (Python's  |  ) *)
Inductive pat :=
| PLit (s : list Z)        (* an escaped literal *)
| PRange (lo hi : Z)       (* [lo-hi]+ *)
| PSpace                   (* \s+ *)
| PEol (s : list Z)        (* literal followed by .*  : up to the end of the line (not over a newline) *)
| PQuoted (q : Z).         (* quote, any characters but the quote (the named group), quote: the value is the inside, the lexeme has the quotes *)

Fixpoint prefixb (s l : list Z) : bool :=
  match s, l with
  | [], _ => true
  | a :: s', b :: l' => (a =? b) && prefixb s' l'
  | _ :: _, [] => false
  end.

Fixpoint span_while (f : Z -> bool) (l : list Z) : nat :=
  match l with
  | c :: r => if f c then S (span_while f r) else O
  | [] => O
  end.

Definition in_range (lo hi c : Z) : bool := (lo <=? c) && (c <=? hi).
Definition is_not (q c : Z) : bool := negb (c =? q).

(* length of the match of an alternative at the start of [rest], and its value *)
Definition match_pat (p : pat) (rest : list Z) : option (nat * list Z) :=
  match p with
  | PLit s => if prefixb s rest then Some (length s, s) else None
  | PRange lo hi =>
      let n := span_while (in_range lo hi) rest in
      if (n =? 0)%nat then None else Some (n, firstn n rest)
  | PSpace =>
      let n := span_while is_space rest in
      if (n =? 0)%nat then None else Some (n, firstn n rest)
  | PEol s =>
      if prefixb s rest then
        let n := (length s + span_while (is_not 10) (skipn (length s) rest))%nat in
        Some (n, firstn n rest)
      else None
  | PQuoted q =>
      match rest with
      | c :: r =>
          if c =? q then
            let k := span_while (is_not q) r in
            match nth_error r k with
            | Some _ => Some (S (S k), firstn k r)     (* the character that stopped the scan is q *)
            | None => None
            end
          else None
      | [] => None
      end
  end.

Notation lexicon := (list (sym * pat)).

Fixpoint first_match (lx : lexicon) (rest : list Z) : option (sym * nat * list Z) :=
  match lx with
  | [] => None
  | (g, p) :: more =>
      match match_pat p rest with
      | Some (n, v) => Some (g, n, v)
      | None => first_match more rest
      end
  end.

Definition lex_matcher (lx : lexicon) (text : line) (col : nat) : option (sym * nat * list Z) :=
  match first_match lx (skipn col text) with
  | Some (g, n, v) => Some (g, (col + n)%nat, v)
  | None => None
  end.

(* span body pattern  (?P<B>(?s:.*?))closer : up to the first occurrence of the closer *)
Fixpoint find_sub (closer rest : list Z) : option nat :=
  if prefixb closer rest then Some O else
  match rest with
  | [] => None
  | _ :: r => match find_sub closer r with Some k => Some (S k) | None => None end
  end.

Definition close_matcher (closer : list Z) : bmatcher :=
  fun text col =>
    let rest := skipn col text in
    match find_sub closer rest with
    | Some k => Some ((col + k + length closer)%nat, firstn k rest)
    | None => None
    end.

Fixpoint assoc {A} (l : list (sym * A)) (k : sym) : option A :=
  match l with
  | [] => None
  | (k', v) :: r => if sym_eqb k' k then Some v else assoc r k
  end.

(* tokenizer configuration: pattern alternatives, span_matchers (opener group -> closer),
   synonyms, keywords *)
Record lexcfg := mkCfg {
  c_lex : lexicon;
  c_spans : list (sym * list Z);
  c_syn : list (sym * sym);
  c_kw : list (sym * (list Z * sym));
}.

Definition cfg_span_of (c : lexcfg) (g : sym) : option bmatcher :=
  match assoc (c_spans c) g with Some closer => Some (close_matcher closer) | None => None end.
Definition cfg_syn (c : lexcfg) (g : sym) : sym :=
  match assoc (c_syn c) g with Some n => n | None => g end.
Fixpoint kw_get (l : list (sym * (list Z * sym))) (n : sym) (v : list Z) : option sym :=
  match l with
  | [] => None
  | (n', (v', k)) :: r => if sym_eqb n' n && sym_eqb v' v then Some k else kw_get r n v
  end.
Definition cfg_kw (c : lexcfg) : sym -> list Z -> option sym := kw_get (c_kw c).

Definition cfg_tokenize (c : lexcfg) (ls : list line) : lexres (list token) :=
  tokenize (lex_matcher (c_lex c)) (cfg_span_of c) (cfg_syn c) (cfg_kw c) ls.

(* _Tokenizer.get_all_token_names: pattern groups minus synonym keys, plus synonym values, plus keyword tokens *)
Definition cfg_terminals (c : lexcfg) : list sym :=
  let groups := map fst (c_lex c) in
  let t1 := filter (fun g => match assoc (c_syn c) g with Some _ => false | None => true end) groups in
  let t2 := fold_left (fun acc kv => add_set (snd kv) acc) (c_syn c) (fold_left (fun acc g => add_set g acc) t1 []) in
  fold_left (fun acc e => add_set (snd (snd e)) acc) (c_kw c) t2.

(* ------------------------------------------------------------------ operations of the public tree API *)
(* TElement.clone (519-525): every element, leaf or not, is rebuilt with
   start_pos=self.start_pos, end_pos=self.end_pos passed explicitly (the constructor
   derives nothing from the children), the children are cloned recursively *)
Fixpoint clone (t : tree) : tree :=
  match t with
  | Leaf n v sp => Leaf n v sp
  | Node n ch sp => Node n (map clone ch) sp
  end.

(* LLParser._process_seq_telement (1987-2014), run on the completed element of a ProdSequence
   symbol S -> (S__ELEMENT, S) | () before it is handed to its parent: the value becomes
   [the only child of the S__ELEMENT] + the (already flattened) value of the tail element;
   the positions, computed when the element was created, are left alone.  As the elements are
   completed bottom-up this is a function of the finished tree.  (An element that has not the
   shape the assertions of the method demand is left as it is.) *)
Fixpoint flatten_seq (seqs : list sym) (t : tree) : tree :=
  match t with
  | Leaf _ _ _ => t
  | Node n ch sp =>
      let ch' := map (flatten_seq seqs) ch in
      if mem n seqs then
        match ch' with
        | [Node _ [x] _; Node _ tl _] => Node n (x :: tl) sp
        | _ => Node n ch' sp
        end
      else Node n ch' sp
  end.

(* TElement.find_all(exclude_root=False) / iter_all: the elements in depth-first order, an
   element before its descendants *)
Fixpoint preorder (t : tree) : list tree :=
  t :: match t with
       | Leaf _ _ _ => []
       | Node _ ch _ => flat_map preorder ch
       end.

(* StdCleanuper._cleanup, ListProds/MapProds.transform_t_elem (2506-2585, 1054-1124, 1281-1344)
   work in place: they re-assign name, value and _is_leaf of elements of the raw tree, never
   start_pos/end_pos, and create no element.  Hence every element reachable in the cleaned tree
   is an element of the raw tree with the positions it had there.  WHICH elements survive (and
   under which name) is the subject of C05; here the surviving elements are given by their
   depth-first indices in the raw tree. *)
Definition surviving (t : tree) (ks : list nat) : list (option tree) :=
  map (nth_error (preorder t)) ks.
