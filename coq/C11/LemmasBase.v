(* C11/LemmasBase.v -- induction principles for the nested value / parse tree
   types, facts about the stable insertion sort and the key order. *)
From Coq Require Import ZArith List Bool Lia Sorting.Sorted Sorting.Permutation.
From AK Require Import gen.C11_Consts C11.Model C11.Reader.
Import ListNotations.

(* ------------------------------------------------------------------ *)
(* nested induction                                                     *)

Lemma value_ind' (P : value -> Prop) :
  (forall k, P (VKw k)) -> (forall a, P (VNum a)) -> (forall s, P (VStr s)) ->
  (forall l, Forall P l -> P (VList l)) ->
  (forall d, Forall (fun kv => P (snd kv)) d -> P (VDict d)) ->
  forall v, P v.
Proof.
  intros Hk Hn Hs Hl Hd. fix IH 1. intros v. destruct v as [k|a|s|l|d].
  - apply Hk.
  - apply Hn.
  - apply Hs.
  - apply Hl. induction l as [|x r IHl]; constructor; [apply IH|exact IHl].
  - apply Hd. induction d as [|[k x] r IHd]; constructor; [apply IH|exact IHd].
Qed.

Lemma ptree_ind' (P : ptree -> Prop) :
  (forall s, P (PStr s)) -> (forall a, P (PAtom a)) ->
  (forall l, Forall P l -> P (PList l)) ->
  (forall d, Forall (fun e => P (snd e)) d -> P (PDict d)) ->
  forall t, P t.
Proof.
  intros Hs Ha Hl Hd. fix IH 1. intros t. destruct t as [s|a|l|d].
  - apply Hs.
  - apply Ha.
  - apply Hl. induction l as [|x r IHl]; constructor; [apply IH|exact IHl].
  - apply Hd. induction d as [|[k x] r IHd]; constructor; [apply IH|exact IHd].
Qed.

(* ------------------------------------------------------------------ *)
(* insertion sort: payload independence, permutation, sortedness        *)

Section Sort.
  Context {A B : Type} (h : key * A -> B).
  Let F (kv : key * A) : key * B := (fst kv, h kv).

  Lemma insert_map x l : insert (F x) (map F l) = map F (insert x l).
  Proof.
    induction l as [|y r IH]; cbn [map insert]; [reflexivity|].
    unfold F at 1 2. cbn [fst]. destruct (key_leb (fst x) (fst y)).
    - reflexivity.
    - cbn [map]. rewrite <- IH. reflexivity.
  Qed.

  Lemma isort_map l : isort (map F l) = map F (isort l).
  Proof.
    induction l as [|x r IH]; cbn [map isort fold_right]; [reflexivity|].
    fold (isort (map F r)). fold (isort r). rewrite IH. apply insert_map.
  Qed.
End Sort.

Lemma isort_map_ext {A B} (g : key * A -> key * B) (h : key * A -> B) l :
  (forall kv, g kv = (fst kv, h kv)) -> isort (map g l) = map g (isort l).
Proof.
  intros E. rewrite (map_ext g (fun kv => (fst kv, h kv)) E).
  rewrite (map_ext g (fun kv => (fst kv, h kv)) E). apply isort_map.
Qed.

Lemma insert_perm {A} (x : key * A) l : Permutation (insert x l) (x :: l).
Proof.
  induction l as [|y r IH]; cbn [insert]; [apply Permutation_refl|].
  destruct (key_leb (fst x) (fst y)); [apply Permutation_refl|].
  eapply perm_trans; [apply perm_skip; exact IH|apply perm_swap].
Qed.

Lemma isort_perm {A} (l : list (key * A)) : Permutation (isort l) l.
Proof.
  induction l as [|x r IH]; cbn [isort fold_right]; [apply perm_nil|].
  fold (isort r). eapply perm_trans; [apply insert_perm|apply perm_skip; exact IH].
Qed.

Lemma isort_Forall {A} (P : key * A -> Prop) l : Forall P l -> Forall P (isort l).
Proof.
  intros H. apply Forall_forall. intros x Hx. rewrite Forall_forall in H. apply H.
  eapply Permutation_in; [apply isort_perm|exact Hx].
Qed.

Lemma isort_forallb {A} (p : key * A -> bool) l : forallb p l = true -> forallb p (isort l) = true.
Proof.
  rewrite !forallb_forall. intros H x Hx. apply H.
  eapply Permutation_in; [apply isort_perm|exact Hx].
Qed.

Lemma isort_forallb_eq {A} (p : key * A -> bool) l : forallb p (isort l) = forallb p l.
Proof.
  destruct (forallb p l) eqn:E; [apply isort_forallb; exact E|].
  destruct (forallb p (isort l)) eqn:E2; [|reflexivity].
  rewrite <- E. symmetry. rewrite forallb_forall in *. intros x Hx. apply E2.
  eapply Permutation_in; [apply Permutation_sym, isort_perm|exact Hx].
Qed.

Lemma isort_length {A} (l : list (key * A)) : length (isort l) = length l.
Proof. apply Permutation_length, isort_perm. Qed.

Lemma isort_nil_inv {A} (l : list (key * A)) : isort l = [] -> l = [].
Proof. intros H. apply length_zero_iff_nil. rewrite <- isort_length, H. reflexivity. Qed.

(* ---- the key order is total (given distinct ranks it is Python's tuple order) ---- *)
Definition key_le (a b : key) : Prop := key_leb a b = true.

Lemma str_leb_total a b : str_leb a b = false -> str_leb b a = true.
Proof.
  revert b. induction a as [|x a IH]; intros [|y b]; cbn [str_leb]; try discriminate; try reflexivity.
  destruct (Z.ltb_spec x y); [discriminate|]. destruct (Z.ltb_spec y x); [reflexivity|].
  intros H1. apply IH. exact H1.
Qed.

Lemma key_leb_total a b : key_leb a b = false -> key_leb b a = true.
Proof.
  unfold key_leb.
  destruct (Z.ltb_spec (key_rank a) (key_rank b)); [discriminate|].
  destruct (Z.ltb_spec (key_rank b) (key_rank a)); [reflexivity|].
  destruct a as [x|x|x], b as [y|y|y]; try discriminate; try reflexivity.
  - intros H1. apply Z.leb_le. apply Z.leb_gt in H1. lia.
  - apply str_leb_total.
  - apply str_leb_total.
Qed.

Lemma insert_sorted {A} (x : key * A) l :
  Sorted (fun a b => key_le (fst a) (fst b)) l -> Sorted (fun a b => key_le (fst a) (fst b)) (insert x l).
Proof.
  induction 1 as [|y r Hs IH Hh]; cbn [insert]; [repeat constructor|].
  destruct (key_leb (fst x) (fst y)) eqn:E.
  - constructor; [constructor; assumption|constructor; exact E].
  - constructor; [exact IH|].
    destruct r as [|z r']; cbn [insert]; [constructor; apply key_leb_total; exact E|].
    destruct (key_leb (fst x) (fst z)); constructor.
    + apply key_leb_total; exact E.
    + inversion Hh; assumption.
Qed.

Lemma isort_sorted {A} (l : list (key * A)) : Sorted (fun a b => key_le (fst a) (fst b)) (isort l).
Proof.
  induction l as [|x r IH]; cbn [isort fold_right]; [constructor|].
  fold (isort r). apply insert_sorted. exact IH.
Qed.

(* ------------------------------------------------------------------ *)
(* sep_join / flat                                                      *)

Lemma flat_app a b : flat (a ++ b) = flat a ++ flat b.
Proof. unfold flat. rewrite map_app, concat_app. reflexivity. Qed.

Lemma flat_cons c r : flat (c :: r) = ctext c ++ flat r.
Proof. reflexivity. Qed.

Lemma flat_nil : flat [] = [].
Proof. reflexivity. Qed.

(* ------------------------------------------------------------------ *)
(* with the ranks read from the source the key order is a total preorder,
   antisymmetric on keys: "sorted" determines the sequence of keys          *)

(* tuples (rank, payload) with equal ranks and payloads of different Python
   types would raise TypeError in sorted() *)
Lemma ranks_distinct : rank_num <> rank_str /\ rank_num <> rank_kw /\ rank_str <> rank_kw.
Proof. vm_compute. repeat split; discriminate. Qed.

Lemma str_leb_trans a : forall b c, str_leb a b = true -> str_leb b c = true -> str_leb a c = true.
Proof.
  induction a as [|x a IH]; intros [|y b] [|z c]; cbn [str_leb]; try discriminate; try reflexivity.
  destruct (Z.ltb_spec x y), (Z.ltb_spec y x), (Z.ltb_spec y z), (Z.ltb_spec z y),
           (Z.ltb_spec x z), (Z.ltb_spec z x); try discriminate; try reflexivity; try lia.
  apply IH.
Qed.

Lemma str_leb_antisym a : forall b, str_leb a b = true -> str_leb b a = true -> a = b.
Proof.
  induction a as [|x a IH]; intros [|y b]; cbn [str_leb]; try discriminate; try reflexivity.
  destruct (Z.ltb_spec x y), (Z.ltb_spec y x); try discriminate; try lia.
  intros H1 H2. assert (x = y) by lia. subst. f_equal. apply IH; assumption.
Qed.

Lemma key_leb_trans a b c : key_leb a b = true -> key_leb b c = true -> key_leb a c = true.
Proof.
  pose proof ranks_distinct as (R1 & R2 & R3).
  unfold key_leb. destruct a as [x|x|x], b as [y|y|y], c as [z|z|z]; cbn [key_rank];
    repeat match goal with
           | |- context [(?p <? ?q)%Z] => destruct (Z.ltb_spec p q)
           end; try discriminate; try reflexivity; try lia;
    first [ apply str_leb_trans
          | intros H1 H2; apply Z.leb_le in H1, H2; apply Z.leb_le; lia ].
Qed.

Lemma pystr_inj x y : pystr x = pystr y -> x = y.
Proof. destruct x, y; try reflexivity; discriminate. Qed.

Lemma key_leb_antisym a b : key_leb a b = true -> key_leb b a = true -> a = b.
Proof.
  pose proof ranks_distinct as (R1 & R2 & R3).
  unfold key_leb. destruct a as [x|x|x], b as [y|y|y]; cbn [key_rank];
    repeat match goal with
           | |- context [(?p <? ?q)%Z] => destruct (Z.ltb_spec p q)
           end; try discriminate; try lia; intros H1 H2; f_equal;
    first [ apply Z.leb_le in H1, H2; lia
          | apply str_leb_antisym; assumption
          | apply pystr_inj; apply str_leb_antisym; assumption ].
Qed.

Lemma isort_strongly_sorted {A} (l : list (key * A)) :
  StronglySorted (fun a b => key_le (fst a) (fst b)) (isort l).
Proof.
  apply Sorted_StronglySorted; [|apply isort_sorted].
  intros a b c. unfold key_le. apply key_leb_trans.
Qed.
