(* C18/Run.v -- entry point of the correspondence check.
   Beside the hand model, [run] evaluates the range-text branch of get_attr_origin TRANSLATED from the current
   source (gen/C18_Translated.v, T_range_origin_text with _coord_sort_key) on the recorded origins of every ranged
   attribute of every object the case produces: when it gives the model's range_text everywhere the line is the
   model's observation, else (99 observation).  When the source has left the translator's subset
   (translation_available = false, the proof step is already broken) the hand model is compared alone. *)
From Coq Require Import ZArith List Bool.
From AK Require Export Common.Sx Common.Err C18.Base C18.Model C18.Session.
From AK Require Import gen.C18_Translated.
Import ListNotations.

Definition range_agree_attr (a : value * origin) : bool :=
  match snd a with
  | ORange d =>
      match T_range_origin_text 0 (map (fun kv => coord_text (fst (snd kv)) (snd (snd kv))) d) [] with
      | Ok t => str_eqb t (range_text d)
      | Err _ => false
      end
  | _ => true
  end.
Definition obj_agree (o : option obj) : bool :=
  match o with Some o => forallb range_agree_attr (o_attrs o) | None => true end.
Definition with_translated (items : list (option obj)) (m : sx) : sx :=
  if translation_available then (if forallb obj_agree items then m else SL [SZ 99; m]) else m.

(* one call of read_table on a generated worksheet, then get_attr_origin on every
   produced object for every attribute, without key and with every key of [qkeys]
   (strict and non strict) *)
Inductive case :=
(* the worksheet is titled [wst]; the object class is called XlGen *)
| Read (wst : str) (rows : list (list cval)) (rules : list rule) (nid : nat) (stop : str)
       (ladder : bool) (qkeys : list str)
(* XlsTableReader(rules_1, ..., rules_n).iter_table on a worksheet titled [wst]: several object classes
   (name, rules, _NUM_ID_ATTRS) read from one table, every row yields a tuple; afterwards the caller edits
   values of produced objects in place ([muts]: index of the object in the row-by-row list of all objects,
   attribute, inner key, marker -- Session.OMut) and every object is observed at the END *)
| ReadM (wst : str) (rows : list (list cval)) (objs : list (str * (list rule * nat))) (stop : str)
        (ladder : bool) (qkeys : list str) (muts : list (nat * nat * option str * str))
(* a session: several readings in one process (any entry point: iter_table, read_table, a shared
   XlsObjReadRules, the TableReader mixin of a class hierarchy) and in-place modifications of
   values of produced objects in between; every object of every reading is observed at the END *)
| Session (ops : list op).

Definition sx_strs (l : list str) : sx := SL (map sx_str l).

Definition sx_sval (v : sval) : sx :=
  match v with
  | VNone => SL [SZ 0]
  | VInt z => SL [SZ 1; SZ z]
  | VBool b => SL [SZ 2; sx_bool b]
  | VStr s => SL [SZ 3; sx_str s]
  | VList l => SL [SZ 4; sx_strs l]
  | VSet l => SL [SZ 5; sx_strs l]
  end.

Definition kv_leb {A} (a b : str * A) : bool := str_leb (fst a) (fst b).

Definition sx_value (v : value) : sx :=
  match v with
  | VS v => sx_sval v
  | VDict d => SL [SZ 6; SL (map (fun kv => SL [sx_str (fst kv); sx_sval (snd kv)]) (sort_by kv_leb d))]
  | VTSet l => SL [SZ 7; sx_strs l]
  end.

Definition sx_obj (qkeys : list str) (o : obj) : sx :=
  SL (map (fun i =>
        SL [ match nth_error (o_attrs o) i with Some (v, _) => sx_value v | None => SL [] end;
             sx_res sx_str (get_attr_origin o (Some i) None true);
             SL (map (fun k => sx_res sx_str (get_attr_origin o (Some i) (Some k) true)) qkeys);
             SL (map (fun k => sx_res sx_str (get_attr_origin o (Some i) (Some k) false)) qkeys) ])
      (seq 0 (length (o_attrs o)))
      ++ [sx_res sx_str (get_attr_origin o None None true)]).

(* ... and what depends on the worksheet title: str(obj) up to the logic id, get_attr_origin(..., incl_ws=True)
   for every attribute (without key; with every key, not strict) and for an unknown attribute *)
Definition sx_obj_ws (cname wst : str) (qkeys : list str) (o : obj) : sx :=
  SL [ sx_obj qkeys o;
       sx_str (obj_head cname wst o);
       SL (map (fun i =>
             SL [ sx_res sx_str (get_attr_origin_ws o wst (Some i) None true true);
                  SL (map (fun k => sx_res sx_str (get_attr_origin_ws o wst (Some i) (Some k) true false)) qkeys) ])
           (seq 0 (length (o_attrs o))));
       sx_res sx_str (get_attr_origin_ws o wst None None true true) ].

Definition xlgen : str := [88; 108; 71; 101; 110].

(* the objects of a multi reading, row by row, each with the name of its class *)
Fixpoint with_names {A} (names : list str) (cur : list str) (items : list A) (fuel : nat) : list (str * A) :=
  match items, fuel with
  | [], _ => []
  | _, O => []
  | x :: r, S f =>
      match cur with
      | n :: cur' => (n, x) :: with_names names cur' r f
      | [] => match names with
              | n :: cur' => (n, x) :: with_names names cur' r f
              | [] => []
              end
      end
  end.

(* full observation (used when debugging a disagreement) *)
Definition run_full (c : case) : sx :=
  match c with
  | Read wst rows rules nid stop ladder qkeys =>
      let (items, e) := iter_table_fn (mkConfig rules nid stop ladder) rows in
      SL [ SL (map (sx_option (sx_obj_ws xlgen wst qkeys)) items);
           sx_option (fun e => SZ (err_code e)) e ]
  | ReadM wst rows objs stop ladder qkeys muts =>
      (* = (number of tuples, run_session (multi_ops ...)): LemmasSession.multi_final_spec *)
      let (n, st) := multi_final (mkMConfig (map snd objs) stop ladder) rows qkeys muts in
      SL (SZ (Z.of_nat n) ::
          map (fun rd => SL [ SL (map (fun p => sx_option (sx_obj_ws (fst p) wst qkeys) (snd p))
                                      (with_names (map fst objs) [] (rd_items rd) (length (rd_items rd))));
                              sx_option (fun e => SZ (err_code e)) (rd_err rd) ])
              st)
  | Session ops =>
      SL (map (fun rd => SL [ SL (map (sx_option (sx_obj (rd_qkeys rd))) (rd_items rd));
                              sx_option (fun e => SZ (err_code e)) (rd_err rd) ])
              (run_session ops))
  end.

(* The read-back of a vm_compute result is not tail recursive in coqc, so the text printed
   per shard has to stay small: every yielded object is reduced to a 61-bit polynomial digest
   of its full observation [sx_obj] / [sx_obj_ws]; harness/props/c18.py computes the same digest of
   what the implementation did.  (0) stands for a row that yielded None.
   The digest is h -> (h * hB + x + c) mod 2^61, the reduction done with Z.land: Z.modulo by a 61-bit
   prime made the digest -- not the model -- cost 95% of the evaluation time (0.5 ms per number). *)
Definition hP : Z := 2305843009213693951.         (* 2^61 - 1, used as a bit mask *)
Definition hB : Z := 1000003.
Fixpoint hash_sx (s : sx) (h : Z) {struct s} : Z :=
  match s with
  | SZ z => Z.land (h * hB + z + 7) hP
  | SL l =>
      let fix go (l : list sx) (h : Z) : Z :=
        match l with
        | [] => h
        | x :: r => go r (hash_sx x h)
        end in
      Z.land (go l (Z.land (h * hB + 3) hP) * hB + 5) hP
  end.

Definition run (c : case) : sx :=
  match c with
  | Read wst rows rules nid stop ladder qkeys =>
      (* the module-level iter_table = XlsTableReader(rules).iter_table unpacked
         (LemmasMulti.read_table_one: iter_table_fn cf sh = read_table cf sh) *)
      let (items, e) := iter_table_fn (mkConfig rules nid stop ladder) rows in
      with_translated items
      (SL [ SL (map (fun it => match it with
                              | None => SL [SZ 0]
                              | Some o => SZ (hash_sx (sx_obj_ws xlgen wst qkeys o) 1)
                              end) items);
           sx_option (fun e => SZ (err_code e)) e ])
  | ReadM wst rows objs stop ladder qkeys muts =>
      (* = (number of tuples, run_session (multi_ops ...)): LemmasSession.multi_final_spec *)
      let (n, st) := multi_final (mkMConfig (map snd objs) stop ladder) rows qkeys muts in
      with_translated (flat_map rd_items st)
      (SL (SZ (Z.of_nat n) ::
          map (fun rd => SL [ SL (map (fun p => match snd p with
                                                | None => SL [SZ 0]
                                                | Some o => SZ (hash_sx (sx_obj_ws (fst p) wst qkeys o) 1)
                                                end)
                                      (with_names (map fst objs) [] (rd_items rd) (length (rd_items rd))));
                              sx_option (fun e => SZ (err_code e)) (rd_err rd) ])
              st))
  | Session ops =>
      let st := run_session ops in
      with_translated (flat_map rd_items st)
      (SL (map (fun rd => SL [ SL (map (fun it => match it with
                                                 | None => SL [SZ 0]
                                                 | Some o => SZ (hash_sx (sx_obj (rd_qkeys rd) o) 1)
                                                 end) (rd_items rd));
                              sx_option (fun e => SZ (err_code e)) (rd_err rd) ])
              st))
  end.
