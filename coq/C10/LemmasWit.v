(* C10/LemmasWit.v -- the property in "history" form (a rendering in a reachable
   world against the rendering of a fresh configuration with the same content),
   the part of it that is proved, and the witnesses that refute the rest on the
   faithful model (all by evaluation). *)
From Coq Require Import ZArith List Bool Lia.
From AK Require Import Common.Sx Common.Err C10.Sgr C10.SgrLemmas C10.Base gen.C10_Consts C10.Model
  C10.Lemmas C10.LemmasInv C10.LemmasRun C10.LemmasPure C10.LemmasTop.
Import ListNotations.
Open Scope Z_scope.

(* ---- user content of a configuration: what the program put into it ---- *)
Notation ccontent := (bool * list (list (synt * descr)))%type.

Definition content_step (ct : list (cid * ccontent)) (o : op) : list (cid * ccontent) :=
  match o with
  | ONewConf c nc init => (c, (nc, [init])) :: zdel c ct
  | ORegister c items =>
      match zfind c ct with Some (nc, l) => (c, (nc, l ++ [items])) :: zdel c ct | None => ct end
  | _ => ct
  end.
Definition content (ops : list op) : list (cid * ccontent) := fold_left content_step ops [].

Definition fresh_ops (c : cid) (ct : ccontent) : list op :=
  match snd ct with [] => [] | i :: r => ONewConf c (fst ct) i :: map (ORegister c) r end.

(* ---- run_ops on an appended operation ---- *)
Lemma run_ops_snoc ko fts l : forall w r wf outsf,
  run_ops ko fts w (l ++ [r]) = Ok (wf, outsf) ->
  exists w1 o1 t, run_ops ko fts w l = Ok (w1, o1) /\ step ko fts w1 r = Ok (wf, t) /\ outsf = o1 ++ [t].
Proof.
  induction l as [|o l IH]; intros w r wf outsf; cbn [app run_ops].
  - destruct (step ko fts w r) as [[w1 t]|] eqn:Es; [|discriminate]. cbn [bind fst snd run_ops]. intros [= <- <-].
    exists w, [], t. auto.
  - destruct (step ko fts w o) as [[w1 t1]|]; [|discriminate]. cbn [bind fst snd].
    destruct (run_ops ko fts w1 (l ++ [r])) as [[w2 o2]|] eqn:E; [|discriminate]. cbn [bind fst snd].
    intros [= <- <-]. destruct (IH _ _ _ _ E) as (wa & oa & t & Ea & Es & ->).
    exists wa, (t1 :: oa), t. rewrite Ea. cbn [bind fst snd]. auto.
Qed.

Lemma last_snoc {A} (l : list A) x d : last (l ++ [x]) d = x.
Proof. induction l as [|a l IH]; [reflexivity|]. cbn [app]. destruct (l ++ [x]) eqn:E; [destruct l; discriminate|exact IH]. Qed.

(* ---- the configuration's own state is all a registration looks at ---- *)
Definition core (cf : conf) : bool * list (synt * descr) * list cls := (c_nocolor cf, c_smap cf, c_reg cf).

Lemma core_eq cf cf' : core cf = core cf' -> c_nocolor cf = c_nocolor cf' /\ c_smap cf = c_smap cf' /\ c_reg cf = c_reg cf'.
Proof. unfold core. intros [= A B C]. auto. Qed.

Lemma add_raw_core cf cf' items : core cf = core cf' ->
  core (fst (add_raw cf items)) = core (fst (add_raw cf' items)) /\ snd (add_raw cf items) = snd (add_raw cf' items).
Proof.
  intros H. destruct (core_eq _ _ H) as (A & B & C). unfold add_raw. rewrite B.
  destruct (filter _ items); cbn [fst snd]; [split; [exact H|reflexivity]|].
  unfold core. cbn [c_nocolor c_smap c_reg]. rewrite A, C. split; reflexivity.
Qed.

Lemma register_raw_core f : forall cf cf' K, core cf = core cf' ->
  core (fst (register_raw f cf K)) = core (fst (register_raw f cf' K)) /\
  snd (register_raw f cf K) = snd (register_raw f cf' K).
Proof.
  induction f as [|f IH]; intros cf cf' K H; cbn [register_raw]; [split; [exact H|reflexivity]|].
  destruct (core_eq _ _ H) as (A & B & C). rewrite C.
  destruct (zmem K (c_reg cf')); [split; [exact H|reflexivity]|].
  fold (reg_fold f).
  assert (forall ps s t, core (fst s) = core (fst t) -> snd s = snd t ->
            core (fst (fold_left (reg_fold f) ps s)) = core (fst (fold_left (reg_fold f) ps t)) /\
            snd (fold_left (reg_fold f) ps s) = snd (fold_left (reg_fold f) ps t)) as Hfold.
  { induction ps as [|P ps IHp]; intros s t H1 H2; [auto|]. cbn [fold_left]. apply IHp.
    - unfold reg_fold. cbn zeta. cbn [fst]. apply IH. exact H1.
    - unfold reg_fold. cbn zeta. cbn [snd]. rewrite H2. f_equal. apply IH. exact H1. }
  destruct (Hfold (k_parents (cinfo K)) (cf, false) (cf', false) H eq_refl) as [H1 H2].
  remember (fold_left (reg_fold f) (k_parents (cinfo K)) (cf, false)) as s1.
  remember (fold_left (reg_fold f) (k_parents (cinfo K)) (cf', false)) as t1.
  destruct (k_defaults (cinfo K)) as [d|]; [|auto]. cbn zeta. cbn [fst snd].
  destruct (core_eq _ _ H1) as (A1 & B1 & C1).
  match goal with |- core (fst (add_raw ?x d)) = core (fst (add_raw ?y d)) /\ _ =>
    destruct (add_raw_core x y d) as [E1 E2] end.
  { unfold core. cbn [c_nocolor c_smap c_reg]. rewrite A1, B1, C1. reflexivity. }
  split; [exact E1|]. rewrite H2, E2. reflexivity.
Qed.

Lemma top_colors_core cf cf' K : core cf = core cf' -> top_colors cf K = top_colors cf' K.
Proof.
  intros H. unfold top_colors. destruct (register_raw_core reg_fuel cf cf' K H) as [E _].
  destruct (core_eq _ _ E) as (A & B & _). apply local_colors_same; auto.
Qed.

(* ------------------------------------------------------------------ *)
(* witnesses (faithful model, by evaluation)                            *)

(* a table-like object: one line, a border chunk of the table palette and a
   column title of the title palette *)
Definition wit_tbl : objspec :=
  mkObj table_cls [title_cls] [[IChunk None 1 [43]; IChunk (Some title_cls) 4 [105]]].
(* ColorsConfig({'TABLE.BORDER': 'RECORD.TITLE'}): the parent id only comes into
   existence when TitlePalette registers *)
Definition wit_late_conf : list (synt * descr) := [(25, mkDescr (Some 24) FInherit None)].
Definition wit_late_ops : list op := [ONewConf 0 false wit_late_conf; ORender wit_tbl (Some 0) false PNone 0 [1; 2]].

(* an enum column whose two literals (1 and True) are equal in Python: same vkey.  Before the repair of
   enum-cache-equal-keys the second one was printed with the cached cell of the first *)
Definition wit_ft : list (Z * ftdef) := [(0, [(0, [(0, [(16, [49])])]); (1, [(0, [(12, [84])])])])].
Definition wit_etbl (lit : Z) : objspec := mkObj table_cls [enum_cls] [[IEnum 0 enum_cls 0 lit 0]].
Definition wit_alias_ops : list op := [ONewConf 0 false []; ORender (wit_etbl 0) (Some 0) false PNone 0 [1; 2]].

(* h-doc *)
Definition wit_hobj : objspec := mkObj hcmd_cls [] [[IChunk None 8 [102]]].

(* enum cache keyed by id(palette): the model with keyobj = false *)
Definition wit_ft1 : list (Z * ftdef) := [(0, [(0, [(0, [(16, [65])])])])].
Definition wit_id_ops : list op :=
  [ONewConf 0 false [(19, mkDescr None (FCol 1) None)]; ORender (wit_etbl 0) (Some 0) false PNone 0 [1; 2]; ODrop 0;
   ONewConf 1 false [(19, mkDescr None (FCol 4) None)]].

Definition outs_of (r : res (world * list (list (list Z)))) : option (list (list (list Z))) :=
  match r with Ok wo => Some (snd wo) | Err _ => None end.


(* ------------------------------------------------------------------ *)
(* proved parts in history form                                         *)
Section Hist.
Variable fts : list (Z * ftdef).

(* no_color: equal to the rendering under a fresh configuration, whatever the history *)
Lemma hist_no_color ops w outs obj copt pa mode ids w' t ops' pa' copt' ids' wf outsf :
  Forall op_ok ops -> run_ops true fts w0 ops = Ok (w, outs) ->
  obj_ok obj -> pa <> PSynced -> pa' <> PSynced ->
  step true fts w (ORender obj copt true pa mode ids) = Ok (w', t) ->
  Forall op_ok ops' ->
  run_ops true fts w0 (ops' ++ [ORender obj copt' true pa' mode ids']) = Ok (wf, outsf) ->
  last outsf [] = t.
Proof.
  intros Hok E Hobj Hpa Hpa' Es Hok' Ef.
  pose proof (inv_run fts _ _ _ _ (inv_w0 fts) Hok E) as Hi.
  rewrite (render_no_color fts _ _ _ _ _ _ _ _ Hi Hobj Hpa Es).
  destruct (run_ops_snoc _ _ _ _ _ _ _ Ef) as (w1 & o1 & t' & E1 & Es' & ->).
  pose proof (inv_run fts _ _ _ _ (inv_w0 fts) Hok' E1) as Hi1.
  rewrite last_snoc. exact (render_no_color fts _ _ _ _ _ _ _ _ Hi1 Hobj Hpa' Es').
Qed.

(* colour, one palette: the text only depends on the state of the configuration in force *)
Lemma hist_single_palette ops1 w1 o1 ops2 w2 o2 obj copt mode ids1 ids2 w1' t1 w2' t2 :
  Forall op_ok ops1 -> run_ops true fts w0 ops1 = Ok (w1, o1) ->
  Forall op_ok ops2 -> run_ops true fts w0 ops2 = Ok (w2, o2) ->
  obj_ok obj -> simple_obj obj ->
  core (conf_in_force w1 copt) = core (conf_in_force w2 copt) ->
  step true fts w1 (ORender obj copt false PNone mode ids1) = Ok (w1', t1) ->
  step true fts w2 (ORender obj copt false PNone mode ids2) = Ok (w2', t2) ->
  t1 = t2.
Proof.
  intros H1 E1 H2 E2 Hobj Hs Hc S1 S2.
  pose proof (inv_run fts _ _ _ _ (inv_w0 fts) H1 E1) as Hi1.
  pose proof (inv_run fts _ _ _ _ (inv_w0 fts) H2 E2) as Hi2.
  assert (PNone <> PSynced) as Hpa by discriminate.
  rewrite (render_simple_colour fts _ _ _ _ _ _ _ _ Hi1 Hobj Hs Hpa S1).
  rewrite (render_simple_colour fts _ _ _ _ _ _ _ _ Hi2 Hobj Hs Hpa S2).
  rewrite (top_colors_core _ _ _ Hc). reflexivity.
Qed.

(* colour, compound objects: the top palette has the colours of the configuration
   in force; the sub-palettes' colours are not characterised in closed form *)
Lemma render_colour_top w obj copt mode ids w' outs :
  inv fts w -> obj_ok obj ->
  step true fts w (ORender obj copt false PNone mode ids) = Ok (w', outs) ->
  exists subc, (forall K, cwf (subc K)) /\
    outs = texts_of mode (pure_lines fts (top_colors (conf_in_force w copt) (o_cls obj)) subc (o_lines obj)).
Proof.
  intros Hi Hobj E. assert (PNone <> PSynced) as Hpa by discriminate.
  destruct (render_step fts _ _ _ _ _ _ _ _ _ Hi Hobj Hpa E) as (w1 & cp & w2 & E1 & H1 & H2 & G & ->).
  exists (subcol w2 cp). split; [intros K; apply (subcol_cwf fts); exact H2|].
  rewrite plines_pure. f_equal. f_equal.
  rewrite (grows_cp _ _ _ (proj2 G)) by (left; reflexivity).
  change (pal_of (set_stack w1 [cp]) cp) with (pal_of w1 cp).
  rewrite (mk_palette_col fts _ _ _ _ _ (inv_set_oracle fts w ids Hi) E1). rewrite conf_in_force_oracle. reflexivity.
Qed.

(* whole = lines for every Render of a history *)
Lemma render_texts_equal w obj copt nc pa mode ids w' outs t1 t2 :
  inv fts w -> obj_ok obj -> pa <> PSynced ->
  step true fts w (ORender obj copt nc pa mode ids) = Ok (w', outs) ->
  In t1 outs -> In t2 outs -> t1 = t2.
Proof.
  intros Hi Hobj Hpa E I1 I2.
  destruct (render_step fts _ _ _ _ _ _ _ _ _ Hi Hobj Hpa E) as (w1 & cp & w2 & _ & _ & _ & _ & ->).
  rewrite (texts_all_equal _ _ _ I1), (texts_all_equal _ _ _ I2). reflexivity.
Qed.

Lemma render_strip_pair w1 w2 obj copt1 copt2 nc pa1 pa2 mode1 mode2 ids1 ids2 w1' w2' outs1 outs2 t1 t2 :
  inv fts w1 -> inv fts w2 -> obj_ok obj -> obj_noesc fts obj -> pa1 <> PSynced -> pa2 <> PSynced ->
  step true fts w1 (ORender obj copt1 nc pa1 mode1 ids1) = Ok (w1', outs1) ->
  step true fts w2 (ORender obj copt2 true pa2 mode2 ids2) = Ok (w2', outs2) ->
  In t1 outs1 -> In t2 outs2 -> strip t1 = t2 /\ no_esc t2.
Proof.
  intros Hi1 Hi2 Hobj Hn Hp1 Hp2 S1 S2 I1 I2.
  destruct (render_strip fts _ _ _ _ _ _ _ _ _ _ Hi1 Hobj Hn Hp1 S1 I1) as [A B].
  rewrite (render_no_color fts _ _ _ _ _ _ _ _ Hi2 Hobj Hp2 S2) in I2.
  rewrite (texts_all_equal _ _ _ I2). auto.
Qed.

End Hist.

(* ------------------------------------------------------------------ *)
(* the class of an enum value under Python's == does not enter: the cell cache is keyed by the literal
   (fix of enum-cache-equal-keys).  rekey f changes the vkey field of every enum item; nothing any
   operation prints or does to the world depends on it. *)
Definition rekey_item (f : Z -> Z) (it : item) : item :=
  match it with IEnum ft K vkey lit modi => IEnum ft K (f vkey) lit modi | _ => it end.
Definition rekey (f : Z -> Z) (o : objspec) : objspec :=
  mkObj (o_cls o) (o_subs o) (map (map (rekey_item f)) (o_lines o)).

Section Rekey.
Variable ko : bool.
Variable fts : list (Z * ftdef).
Variable f : Z -> Z.

Lemma render_item_rekey w cp it : render_item ko fts w cp (rekey_item f it) = render_item ko fts w cp it.
Proof. destruct it as [[K|] a t|t|ft K vkey lit modi]; reflexivity. Qed.

Lemma render_line_rekey l : forall w cp, render_line ko fts w cp (map (rekey_item f) l) = render_line ko fts w cp l.
Proof.
  induction l as [|it l IH]; intros w cp; cbn [map render_line]; [reflexivity|].
  rewrite render_item_rekey. destruct (render_item ko fts w cp it) as [wc|e]; cbn [bind]; [|reflexivity].
  rewrite IH. reflexivity.
Qed.

Lemma render_lines_rekey ls : forall w cp,
  render_lines ko fts w cp (map (map (rekey_item f)) ls) = render_lines ko fts w cp ls.
Proof.
  induction ls as [|l ls IH]; intros w cp; cbn [map render_lines]; [reflexivity|].
  rewrite render_line_rekey. destruct (render_line ko fts w cp l) as [wc|e]; cbn [bind]; [|reflexivity].
  rewrite IH. reflexivity.
Qed.

Lemma gen_lines_rekey w cp o : gen_lines ko fts w cp (rekey f o) = gen_lines ko fts w cp o.
Proof.
  unfold gen_lines, rekey. cbn [o_subs o_lines]. destruct (touch_subs ko w cp (o_subs o)) as [w1|e]; cbn [bind]; [|reflexivity].
  apply render_lines_rekey.
Qed.

Lemma consume_rekey w cp o mode : consume ko fts w cp (rekey f o) mode = consume ko fts w cp o mode.
Proof.
  unfold consume. rewrite gen_lines_rekey. destruct (gen_lines ko fts w cp o) as [[w1 ls]|e]; cbn [bind]; [|reflexivity].
  destruct (mode =? 0); [reflexivity|]. destruct (mode =? 1); [reflexivity|]. rewrite gen_lines_rekey. reflexivity.
Qed.

Lemma step_rekey w o copt nc pa mode ids h :
  step ko fts w (ORender (rekey f o) copt nc pa mode ids) = step ko fts w (ORender o copt nc pa mode ids) /\
  step ko fts w (ONext h (rekey f o) ids) = step ko fts w (ONext h o ids) /\
  step ko fts w (OWholeH h (rekey f o) mode ids) = step ko fts w (OWholeH h o mode ids).
Proof.
  split; [|split]; cbn [step].
  - change (o_cls (rekey f o)) with (o_cls o).
    destruct (mk_palette ko (set_oracle w ids) (o_cls o) pa copt nc) as [[w1 cp]|e]; cbn [bind]; [|reflexivity].
    rewrite consume_rekey. reflexivity.
  - destruct (zfind h (w_hcmds w)) as [cp|]; [|reflexivity]. rewrite gen_lines_rekey. reflexivity.
  - destruct (zfind h (w_hcmds w)) as [cp|]; [|reflexivity]. rewrite consume_rekey. reflexivity.
Qed.

End Rekey.
