(* C13/LemSess.v -- sessions of Run.v (several tables alive at once, tables made
   with fmt_obj= from a shared PPTableFormat or from another table's format
   object): every table of every session state is [reachable] with respect to
   ITS OWN records, so the round-trip theorems hold for each of them at any
   moment; operations on one table leave the others as they were *)
From Coq Require Import ZArith List Bool Lia.
From AK Require Import Common.Sx Common.Err C13.Model C13.Run
  C13.LemStr C13.LemFmt C13.LemState C13.LemView C13.LemReach C13.LemEx.
Import ListNotations.
Open Scope Z_scope.

Lemma step_reachable fs rows t o : fields_okb fs = true -> reachable fs rows t ->
  reachable fs rows (fst (step rows t o)).
Proof.
  intros Hfs Hr. destruct o as [|s| |names|lim| |]; cbn [step].
  - unfold obs_print. destruct (print rows t) as [t' r] eqn:E. cbn [fst].
    replace t' with (fst (print rows t)) by (rewrite E; reflexivity). apply R_print, Hr.
  - destruct (set_fmt t s) as [t'|e] eqn:E; cbn [fst]; [apply (R_set fs rows t s t' Hr E)|exact Hr].
  - destruct (set_fmt t (fmt_to_str t)) as [t'|e] eqn:E; cbn [fst];
      [apply (R_set fs rows t _ t' Hr E)|exact Hr].
  - cbn [fst]. apply R_remove, Hr.
  - cbn [fst]. apply R_limits, Hr.
  - destruct (reachable_inv fs rows t Hfs Hr) as [[Ef _] _].
    unfold rebuild. rewrite Ef.
    destruct (ctor fs (Some (fmt_to_str t)) None None) as [t'|e] eqn:E; cbn [fst];
      [apply (R_ctor fs rows _ None None t' E)|exact Hr].
  - cbn [fst]. exact Hr.
Qed.

(* ------------------------------------------------------------------ *)
Definition tab_ok (fs : list field) (rowsets : list (list row)) (o : option table) : Prop :=
  match o with Some tb => reachable fs (nth (tb_k tb) rowsets []) (tb_st tb) | None => True end.
Definition shared_ok (fs : list field) (o : option tstate) : Prop :=
  match o with Some x => reachable fs [] x | None => True end.
Definition sess_ok (fs : list field) (rowsets : list (list row)) (ss : sess) : Prop :=
  Forall (shared_ok fs) (ss_shared ss) /\ Forall (tab_ok fs rowsets) (ss_tabs ss).

Lemma Forall_nth_d {A} (P : A -> Prop) l j d : Forall P l -> P d -> P (nth j l d).
Proof.
  intros H Hd. revert j. induction H as [|x r Hx _ IH]; intros [|j]; cbn [nth]; auto.
Qed.

Lemma Forall_set_nth {A} (P : A -> Prop) l j x : Forall P l -> P x -> Forall P (set_nth l j x).
Proof.
  intros H Hx. revert j. induction H as [|y r Hy Hr IH]; intros [|j]; cbn [set_nth]; constructor; auto.
Qed.

Lemma nth_set_nth_other {A} (l : list A) j j' x d : j' <> j -> nth j' (set_nth l j x) d = nth j' l d.
Proof.
  revert j j'. induction l as [|y r IH]; intros [|j] [|j'] H; cbn [set_nth nth]; try reflexivity; try congruence.
  apply IH. congruence.
Qed.

Lemma src_state_reachable fs rowsets ss s x : sess_ok fs rowsets ss -> src_state ss s = Some x ->
  exists rows', reachable fs rows' x.
Proof.
  intros [Hs Ht]. destruct s as [i|j]; cbn [src_state].
  - intros E. pose proof (Forall_nth_d (shared_ok fs) (ss_shared ss) i None Hs I) as H.
    rewrite E in H. exists []. exact H.
  - pose proof (Forall_nth_d (tab_ok fs rowsets) (ss_tabs ss) j None Ht I) as H.
    destruct (nth j (ss_tabs ss) None) as [tb|]; [|discriminate].
    intros E; inversion E; subst. eexists. exact H.
Qed.

Theorem mstep_ok fs rowsets ss m : fields_okb fs = true -> sess_ok fs rowsets ss ->
  sess_ok fs rowsets (fst (mstep fs rowsets ss m)).
Proof.
  intros Hfs Hss. pose proof Hss as [Hs Ht]. destruct m as [k fmt lim skip|k s lim skip|j o]; cbn [mstep].
  - destruct (ctor fs fmt lim skip) as [t|e] eqn:E; cbn [fst]; split; cbn [add_tab ss_shared ss_tabs]; try exact Hs;
      apply Forall_app; split; try exact Ht; constructor; try constructor.
    cbn [tab_ok tb_k tb_st]. apply (R_ctor fs _ fmt lim skip t E).
  - destruct (src_state ss s) as [x|] eqn:E; cbn [fst]; split; cbn [add_tab ss_shared ss_tabs]; try exact Hs;
      apply Forall_app; split; try exact Ht; constructor; try constructor.
    cbn [tab_ok tb_k tb_st]. destruct (src_state_reachable fs rowsets ss s x Hss E) as [rows' Hr].
    apply (R_obj fs _ rows' x lim skip Hr).
  - pose proof (Forall_nth_d (tab_ok fs rowsets) (ss_tabs ss) j None Ht I) as Hj.
    destruct (nth j (ss_tabs ss) None) as [tb|]; [|exact Hss].
    cbn [tab_ok] in Hj.
    pose proof (step_reachable fs _ (tb_st tb) o Hfs Hj) as Hr.
    destruct (step (nth (tb_k tb) rowsets []) (tb_st tb) o) as [t' x]. cbn [fst] in *.
    split; cbn [set_tab ss_shared ss_tabs]; [exact Hs|].
    apply Forall_set_nth; [exact Ht|]. cbn [tab_ok tb_k tb_st]. exact Hr.
Qed.

Lemma init_sess_ok fs rowsets shared : sess_ok fs rowsets (init_sess fs shared).
Proof.
  split; cbn [init_sess ss_shared ss_tabs]; [|constructor].
  apply Forall_forall. intros o Ho. apply in_map_iff in Ho as (f & <- & _).
  unfold make_shared. destruct (ctor fs f None None) as [t|e] eqn:E; cbn [shared_ok]; [|exact I].
  apply (R_ctor fs [] f None None t E).
Qed.

(* the state-changing part of Run.msteps *)
Fixpoint mrun (fs : list field) (rowsets : list (list row)) (ss : sess) (ops : list mop) : sess :=
  match ops with
  | [] => ss
  | m :: r => mrun fs rowsets (fst (mstep fs rowsets ss m)) r
  end.

Theorem mrun_ok fs rowsets ops : forall ss, fields_okb fs = true -> sess_ok fs rowsets ss ->
  sess_ok fs rowsets (mrun fs rowsets ss ops).
Proof.
  induction ops as [|m r IH]; intros ss Hfs Hss; cbn [mrun]; [exact Hss|].
  apply IH; [exact Hfs|apply mstep_ok; assumption].
Qed.

(* every table of every session: reachable with respect to its own records *)
Theorem session_tables fs rowsets shared ops j tb :
  fields_okb fs = true ->
  nth j (ss_tabs (mrun fs rowsets (init_sess fs shared) ops)) None = Some tb ->
  reachable fs (nth (tb_k tb) rowsets []) (tb_st tb).
Proof.
  intros Hfs E.
  destruct (mrun_ok fs rowsets ops _ Hfs (init_sess_ok fs rowsets shared)) as [_ Ht].
  pose proof (Forall_nth_d (tab_ok fs rowsets) _ j None Ht I) as H. rewrite E in H. exact H.
Qed.

(* the msteps of Run.v really pass through the states of mrun *)
Lemma msteps_length fs rowsets ops : forall ss, length (msteps fs rowsets ss ops) = length ops.
Proof.
  induction ops as [|m r IH]; intros ss; cbn [msteps]; [reflexivity|].
  destruct (mstep fs rowsets ss m) as [ss' x]. cbn [length]. rewrite IH. reflexivity.
Qed.

Lemma msteps_app fs rowsets a : forall b ss,
  msteps fs rowsets ss (a ++ b) = msteps fs rowsets ss a ++ msteps fs rowsets (mrun fs rowsets ss a) b.
Proof.
  induction a as [|m r IH]; intros b ss; [reflexivity|].
  cbn [app msteps mrun]. destruct (mstep fs rowsets ss m) as [ss' x] eqn:E. cbn [fst app].
  rewrite IH. reflexivity.
Qed.

(* ------------------------------------------------------------------ *)
(* no operation touches another table or a shared format object *)
Theorem siblings_untouched fs rowsets ss m j' :
  match m with MOp j _ => j' <> j | _ => (j' < length (ss_tabs ss))%nat end ->
  nth j' (ss_tabs (fst (mstep fs rowsets ss m))) None = nth j' (ss_tabs ss) None /\
  ss_shared (fst (mstep fs rowsets ss m)) = ss_shared ss.
Proof.
  intros H. destruct m as [k fmt lim skip|k s lim skip|j o]; cbn [mstep].
  - destruct (ctor fs fmt lim skip); cbn [fst add_tab ss_tabs ss_shared]; split; try reflexivity;
      apply app_nth1; exact H.
  - destruct (src_state ss s); cbn [fst add_tab ss_tabs ss_shared]; split; try reflexivity;
      apply app_nth1; exact H.
  - destruct (nth j (ss_tabs ss) None) as [tb|]; [|split; reflexivity].
    destruct (step (nth (tb_k tb) rowsets []) (tb_st tb) o) as [t' x]. cbn [fst set_tab ss_tabs ss_shared].
    split; [apply nth_set_nth_other; exact H|reflexivity].
Qed.

(* a table made with fmt_obj=t.fmt from the records of t shows what t shows *)
Theorem view_fmt_obj rows t : t_cols t <> [] -> coherent rows t ->
  snd (print rows (ctor_obj t None None)) = snd (print rows t).
Proof. exact (view_cleared rows t). Qed.

(* ... and made from ANY reachable format object it shows the widths negotiated
   from ITS OWN records, whatever the other table negotiated *)
Theorem view_fmt_obj_own fs rows rows' x lim skip :
  fields_okb fs = true -> reachable fs rows' x -> t_cols (ctor_obj x lim skip) <> [] ->
  snd (print rows (ctor_obj x lim skip)) = expected_view rows (ctor_obj x lim skip).
Proof.
  intros Hfs Hr Hne. apply print_view; [exact Hne|].
  destruct (reachable_inv fs rows' x Hfs Hr) as [Hi _].
  left. apply (ctor_obj_inv fs x lim skip Hi).
Qed.

(* ------------------------------------------------------------------ *)
(* non-vacuity: one PPTableFormat "id:2-8,name:1-20;1:1" shared by a table with short
   and a table with long values; a third table made from the printed first table's
   format object over the long records *)
Definition sw_fields : list field := [mkField [105;100] [] 1 999 2; mkField [110;97;109;101] [] 1 999 4].
Definition sw_short : list row :=
  [[mkCell 0 [1]; mkCell 0 [2]]; [mkCell 1 [1]; mkCell 1 [2]]; [mkCell 2 [1]; mkCell 2 [3]]].
Definition sw_long : list row :=
  [[mkCell 0 [4]; mkCell 0 [10]]; [mkCell 1 [4]; mkCell 1 [11]]; [mkCell 2 [4]; mkCell 2 [9]];
   [mkCell 3 [5]; mkCell 3 [30]]].
Definition sw_fmt : str := [105;100;58;50;45;56;44;110;97;109;101;58;49;45;50;48;59;49;58;49].
Definition sw_ops : list mop :=
  [MNewObj 0 (SShared 0) None None; MNewObj 1 (SShared 0) None None; MOp 0 OPrint; MOp 1 OPrint;
   MNewObj 1 (STable 0) None (Some [[122;122]]); MOp 2 (OSet [59;42]); MOp 2 OPrint; MOp 0 (ORemove [[105;100]]);
   MOp 1 (OLimits (Some (Some 0, Some 2)))].
Definition sw_final : sess := mrun sw_fields [sw_short; sw_long] (init_sess sw_fields [Some sw_fmt]) sw_ops.

Lemma sw_witness :
  fields_okb sw_fields = true /\
  map (fun o => match o with Some tb => fmt_to_str (tb_st tb) | None => [] end) (ss_tabs sw_final) =
    [[110;97;109;101;58;49;45;50;48;59;49;58;49]; [105;100;58;50;45;56;44;110;97;109;101;58;49;45;50;48;59;48;58;50]; [105;100;58;50;45;56;40;53;41;44;110;97;109;101;58;49;45;50;48;40;50;48;41]] /\
  map (fun o => match o with Some t => fmt_to_str t | None => [] end) (ss_shared sw_final) =
    [[105;100;58;50;45;56;44;110;97;109;101;58;49;45;50;48;59;49;58;49]].
Proof. split; [vm_compute; reflexivity|]. split; vm_compute; reflexivity. Qed.
