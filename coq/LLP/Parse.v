(* LLP/Parse.v -- model of the main loop of LLParser.parse (without sequence
   templates): ordered alternatives from the parse table, terminal match,
   expansion, completion with suffix splicing, roll-back to the nearest stack
   element with an untried alternative.  No proofs in this file. *)
From Coq Require Import ZArith List Bool.
From AK Require Import Common.Err LLP.Base.
Import ListNotations.

(* _StackElement; [falts] = prod_rs[cur_prod_id:], its head is the current production *)
Record frame := mkFrame {
  fsym : sym; fstart : nat; fcur : nat; falts : list rule; fvals : list tree }.

Definition cur_prod (f : frame) : list sym := match falts f with r :: _ => rprod r | [] => [] end.

Definition next_matched (f : frame) (v : tree) (newpos : nat) : frame :=
  mkFrame (fsym f) (fstart f) newpos (falts f) (fvals f ++ [v]).

(* rollback: pop until an element has another production, then switch_to_next_prod *)
Fixpoint rollback (st : list frame) : option (list frame) :=
  match st with
  | [] => None
  | f :: rest =>
      match falts f with
      | _ :: ((_ :: _) as more) => Some (mkFrame (fsym f) (fstart f) (fstart f) more [] :: rest)
      | _ => rollback rest
      end
  end.

Definition tok_start (toks : list token) (i : nat) : pos :=
  match nth_error toks i with Some t => tstart t | None => (0, 0)%Z end.
Definition tok_end (toks : list token) (i : nat) : pos :=
  match nth_error toks i with Some t => tend t | None => (0, 0)%Z end.

(* TElement(top.symbol, values, ...) of a completed production *)
Definition mk_node (toks : list token) (f : frame) : tree :=
  match fvals f with
  | [] => let p := tok_start toks (fcur f) in Node (fsym f) [] (p, p)
  | v0 :: _ =>
      if Nat.ltb (fstart f) (fcur f)
      then Node (fsym f) (fvals f) (tok_start toks (fstart f), tok_end toks (fcur f - 1))
      else Node (fsym f) (fvals f) (fst (tree_span v0), snd (tree_span (last (fvals f) v0)))
  end.

(* merge the children of a trailing suffix element into its parent *)
Definition splice (sfxs : list sym) (prod : list sym) (t : tree) : tree :=
  match t with
  | Node n ch sp =>
      match prod with
      | [] => t
      | _ => if mem (last prod []) sfxs
             then Node n (removelast ch ++ tree_children (last ch (Leaf [] [] sp))) sp
             else t
      end
  | _ => t
  end.

Inductive outcome :=
| Running (st : list frame)
| Done (t : tree)
| Failed                      (* ParsingError *)
| Stuck.                      (* a state the real loop cannot be in *)

Section WithParser.
  Variable is_term : sym -> bool.            (* cur_symbol in self.terminals *)
  Variable table : sym -> sym -> list rule.  (* parse_table.get(...), [] = None *)
  Variable sfxs : list sym.                  (* self._suffix_symbols *)
  Variable toks : list token.                (* non-skipped tokens, $END$ last *)

  Definition step (st : list frame) : outcome :=
    match st with
    | [] => Stuck
    | top :: rest =>
        match falts top with
        | [] => Stuck
        | cur :: _ =>
            if Nat.eqb (length (fvals top)) (length (rprod cur)) then
              (* production matched *)
              let t := splice sfxs (rprod cur) (mk_node toks top) in
              match rest with
              | [] => match tree_children t with
                      | [root; _] => Done root
                      | _ => Stuck
                      end
              | par :: rest' => Running (next_matched par t (fcur top) :: rest')
              end
            else
              match nth_error toks (fcur top), nth_error (rprod cur) (length (fvals top)) with
              | Some tk, Some cs =>
                  if is_term cs then
                    if sym_eqb (tname tk) cs
                    then Running (next_matched top (Leaf cs (tvalue tk) (tstart tk, tend tk)) (S (fcur top)) :: rest)
                    else match rollback st with Some st' => Running st' | None => Failed end
                  else
                    match table cs (tname tk) with
                    | [] => match rollback st with Some st' => Running st' | None => Failed end
                    | prods => Running (mkFrame cs (fcur top) (fcur top) prods [] :: st)
                    end
              | _, _ => Stuck
              end
        end
    end.

  (* 2^k steps of the loop *)
  Fixpoint run_pow (k : nat) (st : list frame) : outcome :=
    match k with
    | O => step st
    | S k' => match run_pow k' st with
              | Running st' => run_pow k' st'
              | other => other
              end
    end.

  Definition result_of (o : outcome) : res tree :=
    match o with
    | Running _ => Err Hang
    | Done t => Ok t
    | Failed => Err ParsingErr
    | Stuck => Err OtherErr
    end.

  Definition init_stack (start : sym) : list frame :=
    [mkFrame INIT_SYM 0 0 [mkRule INIT_SYM [start; END_TOKEN] (-1)] []].

  (* parse with a budget of 2^k loop iterations *)
  Definition parse (k : nat) (start : sym) : res tree := result_of (run_pow k (init_stack start)).
End WithParser.
