(* C04/LemmasText.v -- lists, slices, split/join, rstrip, get_orig_text on valid positions *)
From Coq Require Import ZArith List Bool Lia.
From AK Require Import Common.Err LLP.Base gen.C04_Consts C04.Model.
Import ListNotations.
Open Scope Z_scope.

(* 1-based position of 0-based (line index, column index) *)
Definition P (l c : nat) : pos := (Z.of_nat l + 1, Z.of_nat c + 1).

Lemma P_inj : forall l c l' c', P l c = P l' c' -> l = l' /\ c = c'.
Proof. unfold P. intros. inversion H. lia. Qed.

(* ---------------- split / join ---------------- *)
Lemma split_nl_nonempty : forall s, split_nl s <> [].
Proof.
  induction s as [|c r IH]; cbn [split_nl]; try discriminate.
  destruct (c =? 10); try discriminate. destruct (split_nl r); discriminate.
Qed.

Lemma join_split : forall s, join_nl (split_nl s) = s.
Proof.
  induction s as [|c r IH]; cbn [split_nl]; auto.
  destruct (Z.eqb_spec c 10) as [->|N].
  - pose proof (split_nl_nonempty r). destruct (split_nl r) eqn:E; [contradiction|].
    cbn [join_nl app]. cbn [join_nl] in IH. rewrite <- IH. reflexivity.
  - pose proof (split_nl_nonempty r). destruct (split_nl r) as [|h t] eqn:E; [contradiction|].
    destruct t; cbn [join_nl] in *; rewrite <- IH; reflexivity.
Qed.

Lemma split_no_nl : forall s, Forall (fun l => ~ In 10 l) (split_nl s).
Proof.
  induction s as [|c r IH]; cbn [split_nl]. { constructor; auto. }
  destruct (Z.eqb_spec c 10) as [->|N]. { constructor; auto. }
  pose proof (split_nl_nonempty r). destruct (split_nl r) as [|h t]; [contradiction|].
  inversion IH; subst. constructor; auto. intros [E|I]; auto.
Qed.

(* ---------------- rstrip ---------------- *)
Definition prefix_of (a b : line) : Prop := exists t, b = a ++ t.

Lemma rstrip_spec : forall l, exists t, l = rstrip l ++ t /\ forallb is_space t = true.
Proof.
  induction l as [|c r [t [E S]]]; cbn [rstrip]. { exists []. auto. }
  destruct (rstrip r) as [|x r'] eqn:R.
  - destruct (is_space c) eqn:C.
    + exists (c :: r). split; auto. cbn [forallb]. rewrite C. cbn [app] in E. rewrite E. exact S.
    + exists t. split; auto. cbn [app] in *. congruence.
  - exists t. split; auto. cbn [app]. f_equal. exact E.
Qed.

Lemma rstrip_last_not_space : forall l, rstrip l <> [] -> is_space (last (rstrip l) 0) = false.
Proof.
  induction l as [|c r IH]; cbn [rstrip]; intros H. { contradiction. }
  destruct (rstrip r) as [|x r'] eqn:R.
  - destruct (is_space c) eqn:C; [contradiction|]. exact C.
  - cbn [last]. apply IH. discriminate.
Qed.

Lemma rstrip_prefix : forall l, prefix_of (rstrip l) l.
Proof. intros l. destruct (rstrip_spec l) as [t [E _]]. exists t. exact E. Qed.

Lemma rstrip_lines_prefix : forall ls, Forall2 prefix_of (map rstrip ls) ls.
Proof. induction ls; cbn [map]; constructor; auto using rstrip_prefix. Qed.

Lemma prefix_refl_lines : forall ls, Forall2 prefix_of ls ls.
Proof. induction ls; constructor; auto. exists []. symmetry. apply app_nil_r. Qed.

Lemma tok_orig_prefix : forall i, Forall2 prefix_of (tok_lines i) (orig_lines i).
Proof. destruct i; cbn [tok_lines orig_lines]; auto using rstrip_lines_prefix, prefix_refl_lines. Qed.

(* ---------------- slices ---------------- *)
Lemma slice_full : forall l, slice l 0 (length l) = l.
Proof. intros. unfold slice. rewrite Nat.sub_0_r. cbn [skipn]. apply firstn_all. Qed.

Lemma slice_to_end : forall l a, slice l a (length l) = skipn a l.
Proof.
  intros. unfold slice. apply firstn_all2. rewrite skipn_length. lia.
Qed.

Lemma slice_from_0 : forall l b, slice l 0 b = firstn b l.
Proof. intros. unfold slice. rewrite Nat.sub_0_r. reflexivity. Qed.

Lemma skipn_skipn' : forall A (l : list A) a b, skipn a (skipn b l) = skipn (a + b) l.
Proof.
  intros A l a b. revert l. induction b as [|b IH]; intros l.
  - rewrite Nat.add_0_r. reflexivity.
  - destruct l as [|x l]. { rewrite !skipn_nil. reflexivity. }
    rewrite Nat.add_succ_r. cbn [skipn]. apply IH.
Qed.

Lemma slice_skipn : forall l a b, (a <= b)%nat -> slice l a b ++ skipn b l = skipn a l.
Proof.
  intros l a b H. unfold slice.
  replace (skipn b l) with (skipn (b - a) (skipn a l)).
  - apply firstn_skipn.
  - rewrite skipn_skipn'. f_equal. lia.
Qed.

Lemma slice_app : forall l a b c, (a <= b)%nat -> (b <= c)%nat -> slice l a b ++ slice l b c = slice l a c.
Proof.
  intros l a b c H1 H2. unfold slice.
  replace (skipn b l) with (skipn (b - a) (skipn a l)) by (rewrite skipn_skipn'; f_equal; lia).
  replace (c - a)%nat with ((b - a) + (c - b))%nat by lia.
  set (m := skipn a l). clearbody m. generalize (b - a)%nat as n. clear.
  intros n. revert m. induction n as [|n IH]; intros m; cbn [firstn skipn app plus]; auto.
  destruct m; cbn [firstn skipn app]. { rewrite firstn_nil. reflexivity. }
  f_equal. apply IH.
Qed.

Lemma slice_prefix : forall l l' a b, prefix_of l l' -> (b <= length l)%nat -> slice l' a b = slice l a b.
Proof.
  intros l l' a b [t ->] H. unfold slice.
  destruct (Nat.le_gt_cases a (length l)) as [A|A].
  - rewrite skipn_app. replace (a - length l)%nat with 0%nat by lia. cbn [skipn].
    rewrite firstn_app. rewrite skipn_length.
    replace (b - a - (length l - a))%nat with 0%nat by lia. cbn [firstn]. apply app_nil_r.
  - replace (b - a)%nat with 0%nat by lia. reflexivity.
Qed.

Lemma slice_length : forall l a b, (a <= b)%nat -> (b <= length l)%nat -> length (slice l a b) = (b - a)%nat.
Proof. intros. unfold slice. rewrite firstn_length, skipn_length. lia. Qed.

Lemma firstn_prefix : forall l l' n, prefix_of l l' -> (n <= length l)%nat -> firstn n l' = firstn n l.
Proof.
  intros l l' n [t ->] H. rewrite firstn_app. replace (n - length l)%nat with 0%nat by lia.
  cbn [firstn]. apply app_nil_r.
Qed.

Lemma prefix_length : forall l l', prefix_of l l' -> (length l <= length l')%nat.
Proof. intros l l' [t ->]. rewrite app_length. lia. Qed.

Lemma Forall2_prefix_nth : forall ls ols n l, Forall2 prefix_of ls ols -> nth_error ls n = Some l ->
  exists l', nth_error ols n = Some l' /\ prefix_of l l'.
Proof.
  intros ls ols n l F. revert n. induction F as [|a b ls ols Hp F IH]; intros n H.
  - destruct n; discriminate.
  - destruct n; cbn [nth_error] in *. { inversion H; subst. eauto. } apply IH. exact H.
Qed.

Lemma Forall2_length' : forall A B (R : A -> B -> Prop) l l', Forall2 R l l' -> length l = length l'.
Proof. induction 1; cbn [length]; auto. Qed.

(* ---------------- positions ---------------- *)
Definition pos_le (p q : pos) : Prop := fst p < fst q \/ (fst p = fst q /\ snd p <= snd q).
Definition pos_lt (p q : pos) : Prop := fst p < fst q \/ (fst p = fst q /\ snd p < snd q).

Lemma pos_leb_le : forall p q, pos_leb p q = true <-> pos_le p q.
Proof. intros [a b] [c d]. unfold pos_leb, pos_le. cbn [fst snd]. lia. Qed.

Lemma pos_le_refl : forall p, pos_le p p.
Proof. intros [a b]. unfold pos_le. cbn. lia. Qed.

Lemma pos_le_trans : forall p q r, pos_le p q -> pos_le q r -> pos_le p r.
Proof. intros [a b] [c d] [e f]. unfold pos_le. cbn [fst snd]. lia. Qed.

Lemma pos_lt_le : forall p q, pos_lt p q -> pos_le p q.
Proof. intros [a b] [c d]. unfold pos_lt, pos_le. cbn [fst snd]. lia. Qed.

Lemma pos_le_P : forall l c l' c', pos_le (P l c) (P l' c') <-> (l < l' \/ (l = l' /\ c <= c'))%nat.
Proof. intros. unfold pos_le, P. cbn [fst snd]. lia. Qed.

Lemma pos_lt_P : forall l c l' c', pos_lt (P l c) (P l' c') <-> (l < l' \/ (l = l' /\ c < c'))%nat.
Proof. intros. unfold pos_lt, P. cbn [fst snd]. lia. Qed.

(* ---------------- get_orig_text on valid positions ---------------- *)
(* the text between two positions of a document given as lines *)
Definition region (lines : list line) (l0 c0 l1 c1 : nat) : list Z :=
  if (l0 =? l1)%nat then slice (nth l1 lines []) c0 c1
  else join_nl (skipn c0 (nth l0 lines []) :: firstn (l1 - l0 - 1) (skipn (S l0) lines) ++ [firstn c1 (nth l1 lines [])]).

Lemma got_valid : forall lines l0 c0 l1 c1,
  (l1 < length lines)%nat ->
  (l0 < l1 \/ (l0 = l1 /\ c0 <= c1))%nat ->
  (c0 <= length (nth l0 lines []))%nat -> (c1 <= length (nth l1 lines []))%nat ->
  get_orig_text lines (P l0 c0, P l1 c1) = Ok (region lines l0 c0 l1 c1).
Proof.
  intros lines l0 c0 l1 c1 H1 H2 H3 H4.
  unfold get_orig_text.
  assert (E : pos_leb (fst (P l0 c0, P l1 c1)) (snd (P l0 c0, P l1 c1)) = true).
  { apply pos_leb_le. cbn [fst snd]. apply pos_le_P. exact H2. }
  rewrite E. cbn [negb]. unfold P. cbn [fst snd].
  replace (Z.of_nat l0 + 1 - 1) with (Z.of_nat l0) by lia.
  replace (Z.of_nat c0 + 1 - 1) with (Z.of_nat c0) by lia.
  replace (Z.of_nat l1 + 1 - 1) with (Z.of_nat l1) by lia.
  replace (Z.of_nat c1 + 1 - 1) with (Z.of_nat c1) by lia.
  assert (N : (Z.of_nat l0 <? 0) || (Z.of_nat c0 <? 0) || (Z.of_nat l1 <? 0) || (Z.of_nat c1 <? 0) = false).
  { repeat (apply orb_false_intro); apply Z.ltb_ge; lia. }
  rewrite N. rewrite !Nat2Z.id.
  assert (L : (length lines <=? l1)%nat = false) by (apply Nat.leb_gt; lia).
  rewrite L. unfold region.
  destruct (Nat.eqb_spec l0 l1) as [->|NE].
  - assert (C : (length (nth l1 lines []) <? c1)%nat = false) by (apply Nat.ltb_ge; lia).
    rewrite C. reflexivity.
  - assert (C0 : (length (nth l0 lines []) <? c0)%nat = false) by (apply Nat.ltb_ge; lia).
    assert (C1 : (length (nth l1 lines []) <? c1)%nat = false) by (apply Nat.ltb_ge; lia).
    rewrite C0, C1. reflexivity.
Qed.

Lemma nth_error_nth_line : forall (ls : list line) n l, nth_error ls n = Some l -> nth n ls [] = l.
Proof. intros. apply nth_error_nth. exact H. Qed.

Lemma nth_error_lt : forall A (ls : list A) n l, nth_error ls n = Some l -> (n < length ls)%nat.
Proof. intros. apply nth_error_Some. congruence. Qed.
