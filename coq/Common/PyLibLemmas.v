(* Common/PyLibLemmas.v -- facts about the vocabulary of Common/PyLib.v, independent of any translated module. *)
From Coq Require Import ZArith List Bool Lia.
From AK Require Import Common.Sx Common.Err Common.PyLib.
Import ListNotations.
Open Scope Z_scope.

Lemma bind_ok {A B} (x : A) (f : A -> res B) : bind (Ok x) f = f x.
Proof. reflexivity. Qed.

Lemma bind_err {A B} e (f : A -> res B) : bind (Err e) f = Err e.
Proof. reflexivity. Qed.

Lemma bind_ret {A} (r : res A) : bind r (fun x => Ok x) = r.
Proof. destruct r; reflexivity. Qed.

Lemma py_divmod_ok a b : b <> 0 -> py_divmod a b = Ok (a / b, a mod b).
Proof. intros H. unfold py_divmod. destruct (Z.eqb_spec b 0); [contradiction|reflexivity]. Qed.

Lemma py_floordiv_ok a b : b <> 0 -> py_floordiv a b = Ok (a / b).
Proof. intros H. unfold py_floordiv. destruct (Z.eqb_spec b 0); [contradiction|reflexivity]. Qed.

Lemma py_mod_ok a b : b <> 0 -> py_mod a b = Ok (a mod b).
Proof. intros H. unfold py_mod. destruct (Z.eqb_spec b 0); [contradiction|reflexivity]. Qed.

Lemma py_len_chars s : py_len (py_chars s) = py_len s.
Proof. unfold py_len, py_chars. rewrite map_length. reflexivity. Qed.

Lemma py_len_app {A} (a b : list A) : py_len (a ++ b) = py_len a + py_len b.
Proof. unfold py_len. rewrite app_length. lia. Qed.

Lemma py_len_nonneg {A} (l : list A) : 0 <= py_len l.
Proof. unfold py_len. lia. Qed.

Lemma py_list_get_nth {A} (l : list A) i d : 0 <= i < py_len l -> py_list_get l i = Ok (nth (Z.to_nat i) l d).
Proof.
  intros H. unfold py_list_get, py_index_pos.
  destruct (Z.ltb_spec i 0); [lia|].
  destruct (Z.leb_spec 0 i); [|lia]. destruct (Z.ltb_spec i (py_len l)); [|lia]. cbn [andb].
  unfold py_len in H. destruct (nth_error l (Z.to_nat i)) eqn:E.
  - rewrite (nth_error_nth _ _ d E). reflexivity.
  - apply nth_error_None in E. lia.
Qed.

Lemma py_list_get_chars s i : 0 <= i < py_len s -> py_list_get (py_chars s) i = Ok [nth (Z.to_nat i) s 0].
Proof.
  intros H. rewrite (py_list_get_nth _ _ [0]) by (rewrite py_len_chars; exact H).
  unfold py_chars. f_equal. change [0] with ((fun c => [c]) 0). apply map_nth.
Qed.

Lemma py_str_mul_single c n : py_str_mul [c] n = repeat c (Z.to_nat n).
Proof. unfold py_str_mul. induction (Z.to_nat n) as [|k IH]; cbn [repeat concat app]; [reflexivity|]. rewrite IH. reflexivity. Qed.

Lemma py_str_eqb_refl a : py_str_eqb a a = true.
Proof. induction a as [|x a IH]; cbn [py_str_eqb]; [reflexivity|]. rewrite Z.eqb_refl, IH. reflexivity. Qed.

Lemma py_str_eqb_eq a b : py_str_eqb a b = true <-> a = b.
Proof.
  split; [|intros ->; apply py_str_eqb_refl].
  revert b. induction a as [|x a IH]; intros [|y b]; cbn [py_str_eqb]; try discriminate; [reflexivity|].
  intros H. apply andb_prop in H as [H1 H2]. apply Z.eqb_eq in H1. apply IH in H2. congruence.
Qed.

Lemma py_str_eqb_single x c : py_str_eqb [x] [c] = (x =? c).
Proof. cbn [py_str_eqb]. apply andb_true_r. Qed.

Lemma Z_eqb_of_nat a b : (Z.of_nat a =? Z.of_nat b) = Nat.eqb a b.
Proof. destruct (Z.eqb_spec (Z.of_nat a) (Z.of_nat b)), (Nat.eqb_spec a b); try reflexivity; lia. Qed.

Lemma Z_to_nat_sub_of_nat a b : Z.to_nat (Z.of_nat a - Z.of_nat b) = (a - b)%nat.
Proof. lia. Qed.

Lemma rev_py_chars s : rev (py_chars s) = py_chars (rev s).
Proof. unfold py_chars. symmetry. apply map_rev. Qed.
