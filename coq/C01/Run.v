(* C01/Run.v -- correspondence entry point: build a parser from the user's
   grammar, report is_ambiguous and the raw parse tree of each token list.
   [GrammarV] additionally evaluates the hypotheses of the soundness theorem
   (validator [fact_ok] of the factorization etc.) on the grammar at hand and,
   on request, shows the factorized grammar.  No proofs in this file. *)
From Coq Require Import ZArith List Bool.
From AK Require Export LLP.Build C01.Spec.
Import ListNotations.

(* the hypotheses of C01's parse_sound_build, as one executable check:
   the factorization is validated against the user's grammar, no suffix symbol
   is a terminal, the start symbol is one of the user's symbols *)
Definition hyps_ok (ug : ugrammar) (start : sym) (p : parser) : bool :=
  fact_ok ug (p_grammar p) (p_sfxs p)
  && forallb (fun s => negb (mem s (p_terminals p))) (p_sfxs p)
  && mem start (map fst ug).

Inductive case :=
| Grammar (ug : list (sym * list (list sym))) (terminals : list sym) (smart : bool) (start : sym)
          (fuel : nat) (inputs : list (list (sym * list Z)))
| GrammarV (diag : bool) (ug : list (sym * list (list sym))) (terminals : list sym) (smart : bool) (start : sym)
          (fuel : nat) (inputs : list (list (sym * list Z))).

Definition run (c : case) : sx :=
  match c with
  | Grammar ug terminals smart start fuel inputs =>
      match build ug terminals smart start with
      | Err e => SL [SZ 1; SZ (err_code e)]
      | Ok p =>
          SL [SZ 0; sx_bool (is_ambiguous (p_tables p));
              SL (map (fun inp => sx_res sx_tree (p_parse p fuel (mk_toks inp))) inputs)]
      end
  | GrammarV diag ug terminals smart start fuel inputs =>
      match build ug terminals smart start with
      | Err e => SL [SZ 1; SZ (err_code e)]
      | Ok p =>
          SL [SZ 0; sx_bool (is_ambiguous (p_tables p));
              sx_bool (hyps_ok ug start p);
              (if diag then SL [sx_grammar (p_grammar p); sx_list sx_str (sort_syms (p_sfxs p))] else SL []);
              SL (map (fun inp => sx_res sx_tree (p_parse p fuel (mk_toks inp))) inputs)]
      end
  end.
