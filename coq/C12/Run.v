(* C12/Run.v -- entry point of the correspondence check.
   A case is a table description together with what the implementation printed
   (the exact no_color lines, or the exception class).  Printing tens of
   thousands of code points per shard overflows coqc's printer, so the exact
   comparison is done here, inside Coq, and [run] only prints the verdict:
   (1) when the model's lines are identical to the implementation's, otherwise
   (0 i model-line impl-line) for the first differing line i (or the two
   results' shapes).  C12/Lemmas.v proves [run c = SL [SZ 1] <-> render = expected]. *)
From Coq Require Import ZArith List Bool.
From AK Require Export Common.Sx Common.Err C12.Model C12.Hist.
Import ListNotations.

Inductive case :=
| mkCase (t : table) (expect : res (list str))                      (* a printed table *)
| FitCase (chunks : list str) (w : nat) (al : align) (expect : str)   (* FieldType.fit_to_width: the text of the result *)
| ResizeCase (chunks : list str) (n : nat) (expect : str)            (* CHText.resize_chunks_list: the text of the result *)
| HistCase (ts : list table) (ops : list op) (expect : list (res (list str))).
    (* a history (C12/Hist.v): the constructor calls of ts, then ops; one observed event per call *)

Fixpoint str_eqb (a b : str) : bool :=
  match a, b with
  | [], [] => true
  | x :: ar, y :: br => (x =? y)%Z && str_eqb ar br
  | _, _ => false
  end.

(* first index where the two line lists differ *)
Fixpoint first_diff (a b : list str) (i : Z) : option (Z * option str * option str) :=
  match a, b with
  | [], [] => None
  | x :: ar, y :: br => if str_eqb x y then first_diff ar br (i + 1)%Z else Some (i, Some x, Some y)
  | x :: _, [] => Some (i, Some x, None)
  | [], y :: _ => Some (i, None, Some y)
  end.

Definition verdict_ok : sx := SL [SZ 1].

Definition cmp_lists (a b : list str) : sx :=
  match first_diff a b 0 with
  | None => verdict_ok
  | Some (i, x, y) => SL [SZ 0; SZ i; sx_option sx_str x; sx_option sx_str y]
  end.

Definition cmp_res (x y : res (list str)) : sx :=
  match x, y with
  | Ok a, Ok b => cmp_lists a b
  | Err e, Err e' =>
      if err_eqb e e' then verdict_ok else SL [SZ 0; SZ (-1); SZ (err_code e); SZ (err_code e')]
  | Ok a, Err e' => SL [SZ 0; SZ (-2); sx_nat (length a); SZ (err_code e')]
  | Err e, Ok b => SL [SZ 0; SZ (-3); SZ (err_code e); sx_nat (length b)]
  end.

Definition res_eqb (x y : res (list str)) : bool :=
  match x, y with
  | Ok a, Ok b => match first_diff a b 0 with None => true | Some _ => false end
  | Err e, Err e' => err_eqb e e'
  | _, _ => false
  end.

(* first event (number i) where model and implementation differ: (0 -4 i <difference>) *)
Fixpoint cmp_events (a b : list (res (list str))) (i : Z) : sx :=
  match a, b with
  | [], [] => verdict_ok
  | x :: ar, y :: br =>
      if res_eqb x y then cmp_events ar br (i + 1)%Z else SL [SZ 0; SZ (-4); SZ i; cmp_res x y]
  | _ :: _, [] => SL [SZ 0; SZ (-5); SZ i]
  | [], _ :: _ => SL [SZ 0; SZ (-6); SZ i]
  end.

Definition run (c : case) : sx :=
  match c with
  | mkCase t expect => cmp_res (render t) expect
  | FitCase chunks w al expect => cmp_lists [fit_text chunks w al] [expect]
  | ResizeCase chunks n expect => cmp_lists [concat (resize_chunks_list chunks n)] [expect]
  | HistCase ts ops expect => cmp_events (hist_events ts ops) expect 0
  end.
