(* C13/PropsTranslated.v -- the column half of the round trip once more, for ReprColumn.to_fmt_str TRANSLATED from the
   current text of ak/ppobj.py (gen/C13_Translated.v, written by harness/lib/pytranslate.py through c13.gen_consts on every
   run; T_col_to_str fuel c = the method applied to a column with the attributes of c); nothing else.  The parser side
   (_ColumnsParsedFmt._parse_col_fmt, _PPTableParsedFmt) is NOT translated: it builds a record object by attribute
   stores and uses str.split / find / index / strip(), outside the translator's subset (see c13.notes.md).
   A file of its own so that Props.v (hand model) still checks when the source has left the hand model. *)
From Coq Require Import ZArith List.
From AK Require Import Common.Err Common.PyLib gen.C13_Consts C13.Model C13.LemStr C13.LemFmt gen.C13_Translated C13.TransEq.
Import ListNotations.
Open Scope Z_scope.

(* the translated serializer is the hand model's, for every column (any modifier, bounds, negotiated width) *)
Theorem translated_to_fmt_str_eq : forall fuel c, T_col_to_str fuel c = Ok (col_to_str c).
Proof. exact TransEq.translated_to_fmt_str_eq. Qed.
Print Assumptions translated_to_fmt_str_eq.

(* col_roundtrip with the translated serializer: what it writes is parsed back (model's parser) *)
Theorem col_roundtrip_translated : forall fuel c, col_okb c = true ->
  exists s, T_col_to_str fuel c = Ok s /\ parse_col s = Ok (pcol_of c).
Proof. exact col_roundtrip_t. Qed.
Print Assumptions col_roundtrip_translated.

(* non-vacuity: "name/full!:3-10(7)" and "n:5" *)
Example translated_to_fmt_str_runs :
  T_ReprColumn_to_fmt_str 0 [110; 97; 109; 101] (Some [102; 117; 108; 108]) true 3 10 (Some 7)
    = Ok [110; 97; 109; 101; 47; 102; 117; 108; 108; 33; 58; 51; 45; 49; 48; 40; 55; 41] /\
  T_ReprColumn_to_fmt_str 0 [110] None false 5 5 (Some 5) = Ok [110; 58; 53].
Proof. vm_compute. split; reflexivity. Qed.
Print Assumptions translated_to_fmt_str_runs.
