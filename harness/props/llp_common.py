"""Shared pieces of the parser-family checks (C01, C02, C03): grammar / input
generators, implementation runner, Coq serialisation, reference algorithms
(left recursion, LL(1), Earley) written independently of ak/llparser.py."""
import itertools

from harness.lib import sx as SX

RUN_MOD = "C01.Run"
FUEL = 22             # model budget: 2^FUEL loop iterations per parse
T_NAMES = "abcdef"    # terminals: token 'a' matches  a[0-9]*


# ------------------------------------------------------------------ generators
def gen_grammar(rng, *, n_nt=None, allow_leftrec=0.25, ll1_bias=False, max_alts=4, max_len=4):
    n_nt = n_nt or rng.randint(2, 6)
    n_t = rng.randint(2, 5)
    pool = [chr(c) for c in range(ord("A"), ord("Z") + 1)] + ["AA", "AB", "ZA", "E1", "Q_R"]
    nts = rng.sample(pool, n_nt)
    terms = list(T_NAMES[:n_t])
    order = list(nts)           # 'rank' used to keep most grammars free of left recursion
    prods = {}
    for idx, nt in enumerate(order):
        alts = []
        n_alts = rng.randint(1, max_alts)
        while len(alts) < n_alts:
            shape = rng.random()
            if alts and shape < 0.25 and alts[-1]:
                # common prefix with the previous alternative (possibly nested / prefix-of)
                prev = alts[-1]
                k = rng.randint(1, len(prev))
                tail_len = rng.randint(0, 2)
                alt = list(prev[:k]) + [_rand_sym(rng, nts, terms, order, idx, 1, allow_leftrec) for _ in range(tail_len)]
            elif shape < 0.35:
                alt = []
            else:
                ln = rng.randint(1, max_len)
                alt = [_rand_sym(rng, nts, terms, order, idx, pos, allow_leftrec) for pos in range(ln)]
            alt = tuple(alt)
            if alt in alts and (ll1_bias or rng.random() < 0.93):
                continue
            alts.append(alt)
        prods[nt] = alts
    start = rng.choice(nts[:2])
    return {"nts": nts, "terms": terms, "prods": [[nt, [list(a) for a in prods[nt]]] for nt in nts],
            "start": start, "smart": rng.random() < 0.5}


def _rand_sym(rng, nts, terms, order, idx, pos, allow_leftrec):
    if rng.random() < (0.55 if pos else 0.5):
        return rng.choice(terms)
    if pos == 0 and rng.random() > allow_leftrec:
        later = order[idx + 1:]
        if later:
            return rng.choice(later)
        return rng.choice(terms)
    return rng.choice(nts)


def gen_sentence(rng, g, max_depth=7, max_len=10):
    prods = dict((nt, alts) for nt, alts in g["prods"])
    out = []

    def expand(sym, depth):
        if len(out) > max_len or depth > 4 * max_depth:
            return
        if sym not in prods:
            out.append(sym)
            return
        alts = prods[sym]
        if depth > max_depth:
            alts = sorted(alts, key=len)[:1]
        for s in rng.choice(alts):
            expand(s, depth + 1)
    expand(g["start"], 0)
    return out[:max_len]


def gen_inputs(rng, g, n):
    terms = g["terms"]
    res = []
    for _ in range(n):
        r = rng.random()
        if r < 0.55:
            s = gen_sentence(rng, g)
        elif r < 0.8:
            s = gen_sentence(rng, g)
            if s and rng.random() < 0.5:
                s[rng.randrange(len(s))] = rng.choice(terms)
            elif s and rng.random() < 0.5:
                del s[rng.randrange(len(s))]
            else:
                s.insert(rng.randint(0, len(s)), rng.choice(terms))
        else:
            s = [rng.choice(terms) for _ in range(rng.randint(0, 6))]
        # token values: the terminal's letter + optional digits
        res.append([[t, t + (str(rng.randint(0, 99)) if rng.random() < 0.4 else "")] for t in s])
    # de-duplicate, keep order
    seen, out = set(), []
    for s in res:
        k = tuple(map(tuple, s))
        if k not in seen:
            seen.add(k)
            out.append(s)
    return out


# ------------------------------------------------------------------ implementation side
def tokenizer_str(terms):
    return "|".join([r"(?P<SPACE>\s+)"] + [f"(?P<{t}>{t}[0-9]*)" for t in terms])


def tree_obs(t):
    v = t.value
    if v is None:
        return [1, t.name, []]
    if isinstance(v, str):
        return [0, t.name, v]
    return [1, t.name, [tree_obs(c) for c in v]]


def impl_run(case):
    from ak import llparser
    g = case["g"]
    prods = {nt: [tuple(a) if a else None for a in alts] for nt, alts in g["prods"]}
    try:
        p = llparser.LLParser(tokenizer_str(g["terms"]), productions=prods,
                              start_symbol_name=g["start"], smart_factorization=g["smart"])
    except BaseException as e:  # noqa
        if type(e).__name__ == "Hang":
            raise
        return {"ctor": ["err", SX.exc_name(e)]}
    out = {"ctor": ["ok"], "amb": bool(p.is_ambiguous()), "res": []}
    for inp in case["inputs"]:
        text = " ".join(v for _, v in inp)
        try:
            t = p.parse(text, do_cleanup=False)
            out["res"].append(["ok", tree_obs(t)])
        except llparser.Error as e:
            out["res"].append(["err", SX.exc_name(e)])
        except BaseException as e:  # noqa
            if type(e).__name__ == "Hang":
                out["res"].append(["err", "Hang"])
                out["hang_at"] = len(out["res"]) - 1
                # the remaining inputs are not run: mark them
                while len(out["res"]) < len(case["inputs"]):
                    out["res"].append(["err", "NotRun"])
                return out
            out["res"].append(["err", SX.exc_name(e)])
    return out


# ------------------------------------------------------------------ model side
def coq_sym(s):
    return SX.cstr(s)


def coq_case(case, obs):
    g = case["g"]
    ug = SX.clist(
        "(" + coq_sym(nt) + ", " + SX.clist(SX.clist(coq_sym(s) for s in alt) if alt else "(@nil (list Z))" for alt in alts) + ")"
        for nt, alts in g["prods"])
    terms = SX.clist(coq_sym(t) for t in g["terms"])
    inputs = SX.clist(
        (SX.clist("(" + coq_sym(n) + ", " + SX.cstr(v) + ")" for n, v in inp) if inp else "(@nil (list Z * list Z))")
        for inp in case["inputs"]) if case["inputs"] else "(@nil (list (list Z * list Z)))"
    return (f"Grammar {ug} {terms} {SX.cbool(g['smart'])} {coq_sym(g['start'])} "
            f"{FUEL}%nat {inputs}")


def tree_sx(t):
    if t[0] == 0:
        return [0, SX.s(t[1]), SX.s(t[2])]
    return [1, SX.s(t[1]), [tree_sx(c) for c in t[2]]]


def expected_sx(case, obs):
    if obs["ctor"][0] == "err":
        return SX.dumps(SX.err(obs["ctor"][1]))
    res = []
    for r in obs["res"]:
        res.append(SX.ok(tree_sx(r[1])) if r[0] == "ok" else SX.err(r[1]))
    return SX.dumps([0, obs["amb"], res])


# ------------------------------------------------------------------ reference algorithms (independent)
def ref_nullable(prods):
    nul = set()
    changed = True
    while changed:
        changed = False
        for nt, alts in prods.items():
            if nt not in nul and any(all(s in nul for s in a) for a in alts):
                nul.add(nt)
                changed = True
    return nul


def ref_left_recursive(prods):
    """some symbol can reach itself again without consuming a token"""
    nul = ref_nullable(prods)
    edges = {nt: set() for nt in prods}
    for nt, alts in prods.items():
        for a in alts:
            for s in a:
                if s in prods:
                    edges[nt].add(s)
                if s not in nul:
                    break
    # transitive closure
    reach = {nt: set(es) for nt, es in edges.items()}
    changed = True
    while changed:
        changed = False
        for nt in reach:
            new = set()
            for m in reach[nt]:
                new |= reach[m]
            if not new <= reach[nt]:
                reach[nt] |= new
                changed = True
    return any(nt in reach[nt] for nt in reach)


def ref_first_follow(prods, start, end="$END$"):
    nul = ref_nullable(prods)
    first = {nt: set() for nt in prods}

    def first_seq(seq):
        out, allnul = set(), True
        for s in seq:
            if s in prods:
                out |= first[s]
                if s not in nul:
                    allnul = False
                    break
            else:
                out.add(s)
                allnul = False
                break
        return out, allnul
    changed = True
    while changed:
        changed = False
        for nt, alts in prods.items():
            for a in alts:
                f, _ = first_seq(a)
                if not f <= first[nt]:
                    first[nt] |= f
                    changed = True
    follow = {nt: set() for nt in prods}
    follow[start].add(end)
    changed = True
    while changed:
        changed = False
        for nt, alts in prods.items():
            for a in alts:
                for i, s in enumerate(a):
                    if s not in prods:
                        continue
                    f, allnul = first_seq(a[i + 1:])
                    new = set(f)
                    if allnul:
                        new |= follow[nt]
                    if not new <= follow[s]:
                        follow[s] |= new
                        changed = True
    return nul, first, follow, first_seq


def ref_is_ll1(prods, start):
    """predict sets of the alternatives of every symbol pairwise disjoint"""
    nul, first, follow, first_seq = ref_first_follow(prods, start)
    for nt, alts in prods.items():
        preds = []
        for a in alts:
            f, allnul = first_seq(a)
            p = set(f)
            if allnul:
                p |= follow[nt]
            preds.append(p)
        for i, j in itertools.combinations(range(len(preds)), 2):
            if preds[i] & preds[j]:
                return False
    return True


def ref_reachable_productive(prods, start):
    """every nonterminal reachable from start (used only for statistics)"""
    seen, todo = set(), [start]
    while todo:
        s = todo.pop()
        if s in seen or s not in prods:
            continue
        seen.add(s)
        for a in prods[s]:
            todo.extend(a)
    return seen


def earley_recognize(prods, start, toks):
    """Earley recogniser with nullable handling (Aycock-Horspool style completion)."""
    nul = ref_nullable(prods)
    n = len(toks)
    chart = [set() for _ in range(n + 1)]
    START = "\0S"
    chart[0].add((START, (start,), 0, 0))
    for i in range(n + 1):
        todo = list(chart[i])
        while todo:
            lhs, rhs, dot, org = todo.pop()
            if dot < len(rhs):
                s = rhs[dot]
                if s in prods:
                    for a in prods[s]:
                        it = (s, tuple(a), 0, i)
                        if it not in chart[i]:
                            chart[i].add(it)
                            todo.append(it)
                    if s in nul:
                        it = (lhs, rhs, dot + 1, org)
                        if it not in chart[i]:
                            chart[i].add(it)
                            todo.append(it)
                elif i < n and toks[i] == s:
                    chart[i + 1].add((lhs, rhs, dot + 1, org))
            else:
                for (l2, r2, d2, o2) in list(chart[org]):
                    if d2 < len(r2) and r2[d2] == lhs:
                        it = (l2, r2, d2 + 1, o2)
                        if it not in chart[i]:
                            chart[i].add(it)
                            todo.append(it)
    return (START, (start,), 1, 0) in chart[n]


def check_derivation(prods, start, tree, toks):
    """C01 statement on one returned tree. -> list of problems"""
    problems = []
    if tree[1] != start:
        problems.append(f"root is {tree[1]!r}, not the start symbol {start!r}")
    leaves = []

    def walk(t):
        if "__" in t[1]:
            problems.append(f"helper symbol {t[1]!r} in the tree")
        if t[0] == 0:
            leaves.append([t[1], t[2]])
            if t[1] in prods:
                problems.append(f"leaf named like a non-terminal {t[1]!r}")
            return
        sig = [c[1] for c in t[2]]
        if t[1] not in prods or sig not in [list(a) for a in prods[t[1]]]:
            problems.append(f"node {t[1]!r} -> {sig} is not a production of the grammar")
        for c in t[2]:
            walk(c)
    walk(tree)
    if leaves != [list(x) for x in toks]:
        problems.append(f"leaves {leaves} differ from the tokens {toks}")
    return problems
