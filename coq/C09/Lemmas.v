(* C09/Lemmas.v -- proofs about the model of the escape-sequence part of ak/color.py *)
From Coq Require Import ZArith List Bool Lia.
From AK Require Import Common.Sx Common.Err gen.C09_Consts C09.Model C09.Term C09.Spec C09.Run.
Import ListNotations.
Open Scope Z_scope.

(* ================================================================== *)
(* 0. generic helpers                                                   *)

Definition zrange (lo : Z) (n : nat) : list Z := map (fun i => lo + Z.of_nat i) (seq 0 n).

Lemma zrange_forall (P : Z -> bool) lo n :
  forallb P (zrange lo n) = true -> forall z, lo <= z < lo + Z.of_nat n -> P z = true.
Proof.
  intros H z Hz. rewrite forallb_forall in H. apply H.
  unfold zrange. apply in_map_iff. exists (Z.to_nat (z - lo)). split; [lia|].
  apply in_seq. lia.
Qed.

Lemma str_eqb_eq a : forall b, str_eqb a b = true -> a = b.
Proof.
  induction a as [|x a IH]; intros [|y b]; cbn [str_eqb]; try discriminate; [reflexivity|].
  intros H. apply andb_prop in H as [H1 H2]. apply Z.eqb_eq in H1. subst. f_equal. auto.
Qed.

Lemma str_eqb_refl a : str_eqb a a = true.
Proof. induction a as [|x a IH]; cbn [str_eqb]; [reflexivity|]. rewrite Z.eqb_refl. exact IH. Qed.

Lemma lookup_map {A B} (f : A -> B) s (tbl : list (list Z * A)) :
  lookup s (map (fun p => (fst p, f (snd p))) tbl) = option_map f (lookup s tbl).
Proof.
  induction tbl as [|[n v] r IH]; [reflexivity|]. cbn [map lookup fst snd].
  destruct (str_eqb s n); [reflexivity|exact IH].
Qed.

Lemma lookup_in {A} s (tbl : list (list Z * A)) v : lookup s tbl = Some v -> In (s, v) tbl.
Proof.
  induction tbl as [|[n w] r IH]; [discriminate|]. cbn [lookup].
  destruct (str_eqb s n) eqn:E.
  - intros H. injection H as ->. apply str_eqb_eq in E. subst. left. reflexivity.
  - intros H. right. auto.
Qed.

Lemma colour_eqb_eq a b : colour_eqb a b = true -> a = b.
Proof.
  destruct a, b; cbn; try discriminate; try reflexivity; intros H; apply Z.eqb_eq in H; subst; reflexivity.
Qed.

Lemma cmd_eqb_eq a b : cmd_eqb a b = true -> a = b.
Proof.
  destruct a, b; cbn; try discriminate; try reflexivity; intros H; apply colour_eqb_eq in H; subst; reflexivity.
Qed.

(* colour command for the foreground / background *)
Definition setc (is_bg : bool) (c : colour) : cmd := if is_bg then SetBg c else SetFg c.

(* one emitted parameter: well formed and understood by the terminal as [c] *)
Definition R (code : list Z) (c : cmd) : Prop := parse_param code = Some c /\ wf_param code.

Definition Rb (code : list Z) (c : cmd) : bool :=
  match parse_param code with Some c' => cmd_eqb c' c | None => false end && wf_pb code false.

Lemma Rb_R code c : Rb code c = true -> R code c.
Proof.
  unfold Rb, R. intros H. apply andb_prop in H as [H1 H2]. split; [|exact H2].
  destruct (parse_param code) as [c'|]; [|discriminate]. apply cmd_eqb_eq in H1. subst. reflexivity.
Qed.

(* ================================================================== *)
(* 1. obligations on the constants read from ak/color.py               *)

Lemma seq_open_ok : seq_open = [27; 91].      Proof. reflexivity. Qed.
Lemma seq_sep_ok : seq_sep = [59].            Proof. reflexivity. Qed.
Lemma seq_close_ok : seq_close = [109].       Proof. reflexivity. Qed.
Lemma seq_reset_ok : seq_reset = [27; 91; 48; 109]. Proof. reflexivity. Qed.
Lemma strip_open_ok : strip_open = [27; 91].  Proof. reflexivity. Qed.
Lemma strip_close_ok : strip_close = 109.     Proof. reflexivity. Qed.
Lemma guard_ok : name_lookup_guarded = true.  Proof. reflexivity. Qed.
Lemma int_conv_ok : idx_int_conv = true.      Proof. reflexivity. Qed.
Lemma comp_guard_ok : comp_guarded = true.    Proof. reflexivity. Qed.
Lemma seq_len_ok : seq_len = 3%nat.           Proof. reflexivity. Qed.

(* every character a parameter string can contain is in the class of the strip
   pattern, the closing character is not *)
Definition is_param_char (c : Z) : bool := is_digit c || (c =? 58) || (c =? 59).

Lemma class_covers : forall c, is_param_char c = true -> in_class c = true.
Proof.
  assert (forallb in_class (zrange 48 12) = true) as H by (vm_compute; reflexivity).
  intros c Hc. apply (zrange_forall _ _ _ H).
  unfold is_param_char, is_digit in Hc. cbn. lia.
Qed.

Lemma class_not_close : in_class 109 = false.
Proof. vm_compute. reflexivity. Qed.

(* the name table of the code is the ANSI table: every name gives 3d / 4d, which
   the terminal reads as "named colour d", d the standard index of the name *)
Definition fgbg (is_bg : bool) : list Z := if is_bg then bg_id else fg_id.
Definition Fcode (b : bool) (d : list Z) : option cmd * bool :=
  (parse_param (fgbg b ++ d), wf_pb (fgbg b ++ d) false).
Definition Gcode (b : bool) (k : Z) : option cmd * bool := (Some (setc b (Named k)), true).

Lemma table_eq b :
  map (fun p => (fst p, Fcode b (snd p))) colors_tbl = map (fun p => (fst p, Gcode b (snd p))) ansi_names.
Proof. destruct b; vm_compute; reflexivity. Qed.

Lemma table_spec b s :
  option_map (Fcode b) (lookup s colors_tbl) = option_map (Gcode b) (lookup s ansi_names).
Proof. rewrite <- !lookup_map. rewrite table_eq. reflexivity. Qed.

Lemma table_fwd b s k : lookup s ansi_names = Some k ->
  exists d, lookup s colors_tbl = Some d /\ R (fgbg b ++ d) (setc b (Named k)).
Proof.
  intros H. pose proof (table_spec b s) as E. rewrite H in E. cbn [option_map] in E.
  destruct (lookup s colors_tbl) as [d|]; [|discriminate]. exists d. split; [reflexivity|].
  cbn [option_map] in E. unfold Fcode, Gcode in E. injection E as E1 E2. split; assumption.
Qed.

Lemma table_bwd b s d : lookup s colors_tbl = Some d ->
  exists k, lookup s ansi_names = Some k /\ R (fgbg b ++ d) (setc b (Named k)).
Proof.
  intros H. pose proof (table_spec b s) as E. rewrite H in E. cbn [option_map] in E.
  destruct (lookup s ansi_names) as [k|]; [|discriminate]. exists k. split; [reflexivity|].
  cbn [option_map] in E. unfold Fcode, Gcode in E. injection E as E1 E2. split; assumption.
Qed.

Lemma table_none s : lookup s colors_tbl = None <-> lookup s ansi_names = None.
Proof.
  pose proof (table_spec false s) as E.
  destruct (lookup s colors_tbl), (lookup s ansi_names); cbn in E; try discriminate; split; auto; discriminate.
Qed.

(* int codes: for every n in 0..255 the int branch emits 38:5:n / 48:5:n *)
Lemma int_branch_ok b n : int_lo <= n <= int_hi ->
  exists code, int_branch (fgbg b) n = Ok code /\ R code (setc b (Idx n)).
Proof.
  intros Hn.
  assert (forall b, forallb (fun n => match int_branch (fgbg b) n with
                                      | Ok code => Rb code (setc b (Idx n)) | Err _ => false end)
                            (zrange int_lo (Z.to_nat (int_hi - int_lo + 1))) = true) as H
    by (intros [|]; vm_compute; reflexivity).
  pose proof (zrange_forall _ _ _ (H b) n) as Hz. cbv beta in Hz.
  destruct (int_branch (fgbg b) n) as [code|e].
  - exists code. split; [reflexivity|]. apply Rb_R. apply Hz. unfold int_lo, int_hi in *. lia.
  - assert (false = true) by (apply Hz; unfold int_lo, int_hi in *; lia). discriminate.
Qed.

Lemma int_branch_err fb n : ~ (int_lo <= n <= int_hi) -> int_branch fb n = Err ValueErr.
Proof.
  intros H. unfold int_branch.
  destruct (n <? int_lo) eqn:E1; [reflexivity|]. destruct (n >? int_hi) eqn:E2; [reflexivity|].
  exfalso. apply H. rewrite Z.ltb_ge in E1. rewrite Z.gtb_ltb, Z.ltb_ge in E2. lia.
Qed.

Lemma int_range_ok : int_lo = 0 /\ int_hi = 255. Proof. split; reflexivity. Qed.

(* ================================================================== *)
(* 2. _make_seq_element                                                 *)

Lemma mse_str s b :
  make_seq_element (CStr s) b =
  match lookup s colors_tbl with
  | Some d => Ok (fgbg b ++ d)
  | None =>
      if starts_with gray_prefix s then
        let shade := match py_int (skipn (length gray_prefix) s) with
                     | Some v => v | None => gray_except end in
        if (shade <? gray_lo) || (shade >? gray_hi) then Err ValueErr
        else int_branch (fgbg b) (gray_base + shade)
      else Err ValueErr
  end.
Proof. destruct b; reflexivity. Qed.

Lemma ansi_no_g t : lookup (103 :: t) ansi_names = None.
Proof. reflexivity. Qed.

Lemma mse_gray t b :
  make_seq_element (CStr (103 :: t)) b =
  let shade := match py_int t with Some v => v | None => gray_except end in
  if (shade <? gray_lo) || (shade >? gray_hi) then Err ValueErr
  else int_branch (fgbg b) (gray_base + shade).
Proof.
  rewrite mse_str. assert (lookup (103 :: t) colors_tbl = None) as -> by (apply table_none, ansi_no_g).
  reflexivity.
Qed.

Lemma mse_not_g s b : lookup s colors_tbl = None -> (forall t, s <> 103 :: t) ->
  make_seq_element (CStr s) b = Err ValueErr.
Proof.
  intros H Hg. rewrite mse_str, H.
  destruct s as [|c r]; [reflexivity|].
  unfold starts_with. cbn [gray_prefix length firstn str_eqb].
  destruct (Z.eqb_spec 103 c) as [<-|_]; [exfalso; apply (Hg r); reflexivity|reflexivity].
Qed.

Lemma mse_seq il l b :
  make_seq_element (CSeq il l) b =
  if negb (Nat.eqb (length l) seq_len) then Err ValueErr
  else match any_out l with
       | Err e => Err e
       | Ok true => Err ValueErr
       | Ok false =>
           match l with
           | [EInt r; EInt g; EInt bl] =>
               int_branch (fgbg b) (cube_base + r * cube_r + g * cube_g + bl * cube_b)
           | _ => Err ValueErr
           end
       end.
Proof. destruct b, il; reflexivity. Qed.

Lemma mse_int n b : make_seq_element (CInt n) b = int_branch (fgbg b) n.
Proof. destruct b; reflexivity. Qed.

Lemma comp_in z : comp_lo <= z <= comp_hi -> (z <? comp_lo) || (z >? comp_hi) = false.
Proof. intros H. rewrite Z.gtb_ltb. apply orb_false_iff. split; apply Z.ltb_ge; lia. Qed.

Lemma comp_out z : ~ (comp_lo <= z <= comp_hi) -> (z <? comp_lo) || (z >? comp_hi) = true.
Proof.
  intros H. rewrite Z.gtb_ltb. apply orb_true_iff.
  destruct (Z.ltb_spec z comp_lo); [left; reflexivity|]. right. apply Z.ltb_lt. lia.
Qed.

Lemma comp_range_ok : comp_lo = 0 /\ comp_hi = 5. Proof. split; reflexivity. Qed.

Lemma mse_cube il r g bl b : 0 <= r <= 5 -> 0 <= g <= 5 -> 0 <= bl <= 5 ->
  make_seq_element (CSeq il [EInt r; EInt g; EInt bl]) b =
  int_branch (fgbg b) (16 + 36 * r + 6 * g + bl).
Proof.
  intros Hr Hg Hb. rewrite mse_seq. cbn [length any_out].
  destruct comp_range_ok as [Elo Ehi].
  rewrite !comp_in by lia.
  replace (cube_base + r * cube_r + g * cube_g + bl * cube_b) with (16 + 36 * r + 6 * g + bl)
    by (unfold cube_base, cube_r, cube_g, cube_b; lia).
  reflexivity.
Qed.

(* int(str(k)) = k on the grey ramp *)
Lemma py_int_dec k : 0 <= k <= 255 -> py_int (dec k) = Some k.
Proof.
  intros Hk.
  assert (forallb (fun k => match py_int (dec k) with Some v => v =? k | None => false end)
                  (zrange 0 256) = true) as H by (vm_compute; reflexivity).
  pose proof (zrange_forall _ _ _ H k) as Hz. cbv beta in Hz.
  destruct (py_int (dec k)) as [v|].
  - f_equal. apply Z.eqb_eq. apply Hz. lia.
  - assert (false = true) by (apply Hz; lia). discriminate.
Qed.

Lemma gray_consts_ok : gray_lo = 0 /\ gray_hi = 24 /\ gray_base = 232 /\ gray_except = -1.
Proof. repeat split; reflexivity. Qed.

(* every documented colour specification is accepted and emits a parameter that
   the terminal reads as the colour the specification denotes *)
Lemma elem_denotes c col b : denotes c col -> c <> CNone ->
  exists code, make_seq_element c b = Ok code /\ R code (setc b col).
Proof.
  intros D Hn. destruct D as [|s k Hk|n Hn'|il r g bl Hr Hg Hb|k Hk].
  - congruence.
  - destruct (table_fwd b s k Hk) as [d [Hd HR]]. exists (fgbg b ++ d).
    rewrite mse_str, Hd. split; [reflexivity|exact HR].
  - rewrite mse_int. apply int_branch_ok. destruct int_range_ok as [-> ->]. lia.
  - rewrite mse_cube by assumption. apply int_branch_ok. destruct int_range_ok as [-> ->]. lia.
  - rewrite mse_gray, py_int_dec by lia. cbv zeta.
    destruct gray_consts_ok as [-> [-> [-> _]]].
    replace ((k <? 0) || (k >? 24)) with false
      by (symmetry; rewrite Z.gtb_ltb; apply orb_false_iff; split; apply Z.ltb_ge; lia).
    apply int_branch_ok. destruct int_range_ok as [-> ->]. lia.
Qed.

(* whatever is accepted (bools aside) emits a well-formed parameter that the
   terminal understands as some colour *)
Lemma mse_bool bb b : make_seq_element (CBool bb) b = int_branch (fgbg b) (if bb then 1 else 0).
Proof. destruct b, bb; reflexivity. Qed.

Lemma elem_ok c b code : make_seq_element c b = Ok code ->
  exists col, R code (setc b col).
Proof.
  intros H. destruct c as [|s|n|bb|il l| |]; try discriminate.
  - rewrite mse_str in H. destruct (lookup s colors_tbl) as [d|] eqn:El.
    + injection H as <-. destruct (table_bwd b s d El) as [k [_ HR]]. eauto.
    + destruct (starts_with gray_prefix s); [|discriminate]. cbv zeta in H.
      destruct ((_ <? gray_lo) || (_ >? gray_hi)); [discriminate|].
      match type of H with int_branch _ ?n = _ =>
        destruct (Z_le_dec int_lo n) as [H1|H1]; [destruct (Z_le_dec n int_hi) as [H2|H2]|];
        [destruct (int_branch_ok b n (conj H1 H2)) as [code' [E HR]]; rewrite E in H; injection H as <-; eauto
        |rewrite int_branch_err in H by lia; discriminate ..] end.
  - rewrite mse_int in H.
    destruct (Z_le_dec int_lo n) as [H1|H1]; [destruct (Z_le_dec n int_hi) as [H2|H2]|];
      [destruct (int_branch_ok b n (conj H1 H2)) as [code' [E HR]]; rewrite E in H; injection H as <-; eauto
      |rewrite int_branch_err in H by lia; discriminate ..].
  - rewrite mse_bool in H.
    match type of H with int_branch _ ?n = _ =>
      destruct (Z_le_dec int_lo n) as [H1|H1]; [destruct (Z_le_dec n int_hi) as [H2|H2]|];
      [destruct (int_branch_ok b n (conj H1 H2)) as [code' [E HR]]; rewrite E in H; injection H as <-; eauto
      |rewrite int_branch_err in H by lia; discriminate ..] end.
  - rewrite mse_seq in H. destruct (negb _); [discriminate|].
    destruct (any_out l) as [[|]|]; try discriminate.
    destruct l as [|[r| |] [|[g| |] [|[bl| |] [|? ?]]]]; try discriminate.
    match type of H with int_branch _ ?n = _ =>
      destruct (Z_le_dec int_lo n) as [H1|H1]; [destruct (Z_le_dec n int_hi) as [H2|H2]|];
      [destruct (int_branch_ok b n (conj H1 H2)) as [code' [E HR]]; rewrite E in H; injection H as <-; eauto
      |rewrite int_branch_err in H by lia; discriminate ..] end.
Qed.

(* ---- exactly the accepted values; everything else raises ValueError ---- *)

Lemma any_out_total l : exists bb, any_out l = Ok bb.
Proof.
  induction l as [|e l IH]; [exists false; reflexivity|].
  destruct e as [z|ok|]; cbn [any_out]; rewrite ?comp_guard_ok.
  - destruct ((z <? comp_lo) || (z >? comp_hi)); [exists true; reflexivity|exact IH].
  - exists true; reflexivity.
  - exists true; reflexivity.
Qed.

Lemma any_out_false l : any_out l = Ok false ->
  Forall (fun e => match e with EInt z => comp_lo <= z <= comp_hi | _ => False end) l.
Proof.
  induction l as [|e l IH]; intros H; [constructor|].
  destruct e as [z|ok|]; cbn [any_out] in H; rewrite ?comp_guard_ok in H; [|discriminate ..].
  destruct (Z_le_dec comp_lo z) as [H1|H1]; [destruct (Z_le_dec z comp_hi) as [H2|H2]|].
  - constructor; [lia|]. rewrite comp_in in H by lia. auto.
  - rewrite comp_out in H by lia. discriminate.
  - rewrite comp_out in H by lia. discriminate.
Qed.

Lemma not_accepted_err c b : ~ accepted c -> make_seq_element c b = Err ValueErr.
Proof.
  intros Hna. destruct c as [|s|n|bb|il l| |].
  - destruct b; reflexivity.
  - cbn [accepted] in Hna.
    destruct (lookup s colors_tbl) as [d|] eqn:El.
    { destruct (table_bwd b s d El) as [k [Hk _]]. exfalso. apply Hna. left. eauto. }
    destruct s as [|c t]; [apply mse_not_g; [exact El|intros t; discriminate]|].
    destruct (Z.eq_dec c 103) as [->|Hc]; [|apply mse_not_g; [exact El|intros t' E; congruence]].
    rewrite mse_gray. cbv zeta. destruct gray_consts_ok as [-> [-> [-> ->]]].
    destruct (py_int t) as [v|] eqn:Ev; [|reflexivity].
    destruct (Z.ltb_spec v 0); [reflexivity|]. rewrite Z.gtb_ltb. destruct (Z.ltb_spec 24 v); [reflexivity|].
    cbn [orb]. apply int_branch_err. destruct int_range_ok as [-> ->].
    intros Hr. apply Hna. right. exists t, v. repeat split; try assumption; lia.
  - rewrite mse_int. apply int_branch_err. destruct int_range_ok as [-> ->]. exact Hna.
  - exfalso. apply Hna. exact I.
  - cbn [accepted] in *. rewrite mse_seq, seq_len_ok.
    destruct (Nat.eqb (length l) 3) eqn:El; [|reflexivity]. cbn [negb].
    destruct (any_out_total l) as [bb Ebb]. rewrite Ebb. destruct bb; [reflexivity|].
    pose proof (any_out_false l Ebb) as Hin. destruct comp_range_ok as [Elo Ehi]. rewrite Elo, Ehi in Hin.
    destruct l as [|[r| |] [|[g| |] [|[bl| |] [|? ?]]]]; try reflexivity; try discriminate.
    exfalso. apply Hna. exists r, g, bl.
    inversion Hin as [|? ? Q1 Hin1]; inversion Hin1 as [|? ? Q2 Hin2]; inversion Hin2 as [|? ? Q3 _].
    repeat split; try reflexivity; lia.
  - destruct b; reflexivity.
  - destruct b; reflexivity.
Qed.

Lemma accepted_ok c b : accepted c -> exists code, make_seq_element c b = Ok code.
Proof.
  intros Ha. destruct c as [|s|n|bb|il l| |]; cbn [accepted] in Ha; try contradiction.
  - destruct Ha as [[k Hk]|[t [v [-> [Hv Hr]]]]].
    + destruct (elem_denotes (CStr s) (Named k) b (DName s k Hk)) as [code [E _]]; [discriminate|eauto].
    + rewrite mse_gray, Hv. cbv zeta. destruct gray_consts_ok as [-> [-> [-> _]]].
      replace ((v <? 0) || (v >? 24)) with false
        by (symmetry; rewrite Z.gtb_ltb; apply orb_false_iff; split; apply Z.ltb_ge; lia).
      destruct (int_branch_ok b (232 + v)) as [code [E _]]; [destruct int_range_ok as [-> ->]; lia|eauto].
  - destruct (elem_denotes (CInt n) (Idx n) b (DInt n Ha)) as [code [E _]]; [discriminate|eauto].
  - rewrite mse_bool. destruct (int_branch_ok b (if bb then 1 else 0)) as [code [E _]];
      [destruct int_range_ok as [-> ->]; destruct bb; lia|eauto].
  - destruct Ha as [r [g [bl [-> [Hr [Hg Hb]]]]]].
    destruct (elem_denotes _ _ b (DCube il r g bl Hr Hg Hb)) as [code [E _]]; [discriminate|eauto].
Qed.

Lemma denotes_accepted c col : denotes c col -> c <> CNone -> accepted c.
Proof.
  intros D Hn. destruct D as [|s k Hk|n Hn'|il r g bl Hr Hg Hb|k Hk]; cbn [accepted].
  - congruence.
  - left. eauto.
  - exact Hn'.
  - exists r, g, bl. repeat split; try reflexivity; lia.
  - right. exists (dec k), k. repeat split; try lia. apply py_int_dec. lia.
Qed.

(* ================================================================== *)
(* 3. make: the list of parameters and the commands they denote        *)

Definition eff_cmds (a : fmtargs) : list cmd :=
  map snd (filter (fun p => fst p)
    (combine [a_bold a; a_faint a; a_underline a; a_blink a; a_crossed a]
             [SetBold; SetFaint; SetUnderline; SetBlink; SetCrossed])).

Lemma eff_R a : Forall2 R (eff_codes a) (eff_cmds a).
Proof.
  destruct a as [c bgc b1 b2 b3 b4 b5 nc]. unfold eff_codes, eff_cmds.
  cbn [a_bold a_faint a_underline a_blink a_crossed].
  destruct b1, b2, b3, b4, b5; cbn; repeat (constructor; [apply Rb_R; vm_compute; reflexivity|]); constructor.
Qed.

(* commands of an optional colour argument *)
Definition ocmd (c : color) (b : bool) (col : colour) : list cmd :=
  match c with CNone => [] | _ => [setc b col] end.

Lemma opt_code_denotes c col b : denotes c col ->
  exists codes, opt_code c b = Ok codes /\ Forall2 R codes (ocmd c b col).
Proof.
  intros D. destruct c as [|s|n|bb|il l| |];
    [exists []; split; [reflexivity|apply Forall2_nil]| ..];
    (edestruct (elem_denotes _ col b D) as [code [E HR]]; [discriminate|];
     exists [code]; unfold opt_code; rewrite E; split; [reflexivity|apply Forall2_cons; [exact HR|apply Forall2_nil]]).
Qed.

Lemma opt_code_ok c b codes : opt_code c b = Ok codes -> exists cmds, Forall2 R codes cmds.
Proof.
  intros H.
  destruct c as [|s|n|bb|il l| |];
    [injection H as <-; exists []; apply Forall2_nil| ..];
    (unfold opt_code in H;
     match type of H with bind ?m _ = _ => destruct m as [code|e] eqn:E; [|discriminate] end;
     injection H as <-; destruct (elem_ok _ b code E) as [col HR];
     exists [setc b col]; apply Forall2_cons; [exact HR|apply Forall2_nil]).
Qed.

Lemma Forall2_app' {A B} (P : A -> B -> Prop) l1 l2 m1 m2 :
  Forall2 P l1 m1 -> Forall2 P l2 m2 -> Forall2 P (l1 ++ l2) (m1 ++ m2).
Proof. induction 1; cbn; [auto|constructor; auto]. Qed.

Lemma codes_denotes a cf cb : a_nocolor a = false -> denotes (a_color a) cf -> denotes (a_bg a) cb ->
  exists codes, color_codes a = Ok codes /\
    Forall2 R codes (ocmd (a_color a) false cf ++ ocmd (a_bg a) true cb ++ eff_cmds a).
Proof.
  intros Hn Df Db. unfold color_codes. rewrite Hn.
  destruct (opt_code_denotes _ _ false Df) as [l1 [E1 R1]].
  destruct (opt_code_denotes _ _ true Db) as [l2 [E2 R2]].
  rewrite E1, E2. cbn [bind]. exists (l1 ++ l2 ++ eff_codes a). split; [reflexivity|].
  apply Forall2_app'; [exact R1|]. apply Forall2_app'; [exact R2|]. apply eff_R.
Qed.

Lemma codes_ok a codes : color_codes a = Ok codes -> exists cmds, Forall2 R codes cmds.
Proof.
  intros H. unfold color_codes in H. destruct (a_nocolor a) eqn:En.
  - injection H as <-. exists []. constructor.
  - destruct (opt_code (a_color a) false) as [l1|] eqn:E1; [|discriminate].
    destruct (opt_code (a_bg a) true) as [l2|] eqn:E2; [|discriminate].
    cbn [bind] in H. injection H as <-.
    destruct (opt_code_ok _ _ _ E1) as [m1 R1].
    destruct (opt_code_ok _ _ _ E2) as [m2 R2].
    exists (m1 ++ m2 ++ eff_cmds a).
    apply Forall2_app'; [exact R1|]. apply Forall2_app'; [exact R2|]. apply eff_R.
Qed.

Lemma denotes_none col : denotes CNone col -> col = Default.
Proof. inversion 1. reflexivity. Qed.

Lemma cmds_attrs a cf cb : denotes (a_color a) cf -> denotes (a_bg a) cb ->
  fold_left apply_cmd (ocmd (a_color a) false cf ++ ocmd (a_bg a) true cb ++ eff_cmds a) dflt =
  mkAttrs cf cb (a_bold a) (a_faint a) (a_underline a) (a_blink a) (a_crossed a).
Proof.
  intros Df Db.
  assert ((ocmd (a_color a) false cf = [] /\ cf = Default) \/ ocmd (a_color a) false cf = [SetFg cf]) as [[-> ->]| ->]
    by (destruct (a_color a); try (right; reflexivity); left; split; [reflexivity|apply denotes_none; exact Df]);
  (assert ((ocmd (a_bg a) true cb = [] /\ cb = Default) \/ ocmd (a_bg a) true cb = [SetBg cb]) as [[-> ->]| ->]
    by (destruct (a_bg a); try (right; reflexivity); left; split; [reflexivity|apply denotes_none; exact Db]));
  unfold eff_cmds; destruct (a_bold a), (a_faint a), (a_underline a), (a_blink a), (a_crossed a); reflexivity.
Qed.

(* ================================================================== *)
(* 4. the terminal on emitted sequences                                 *)

Lemma run_app st x y :
  trun st (x ++ y) = let '(st1, o1) := trun st x in let '(st2, o2) := trun st1 y in (st2, o1 ++ o2).
Proof.
  revert st. induction x as [|c x IH]; intros st; cbn [app trun].
  - destruct (trun st y). reflexivity.
  - destruct (step st c) as [st1 o1]. rewrite IH.
    destruct (trun st1 x) as [st2 o2]. destruct (trun st2 y) as [st3 o3]. rewrite app_assoc. reflexivity.
Qed.

Lemma run_text a bd t : esc_free t -> trun (mkT LText a bd) t = (mkT LText a bd, paint a t).
Proof.
  induction 1 as [|c t Hc _ IH]; [reflexivity|].
  cbn [trun]. unfold step at 1. cbn [t_lx t_at t_bad].
  destruct (Z.eqb_spec c 27) as [E|_]; [contradiction|]. rewrite IH. reflexivity.
Qed.

Definition param_byte (c : Z) : Prop := in_range 48 63 c = true.

Lemma run_params ps : forall acc a bd, Forall param_byte ps ->
  trun (mkT (LCsi acc) a bd) ps = (mkT (LCsi (rev ps ++ acc)) a bd, []).
Proof.
  induction ps as [|c ps IH]; intros acc a bd H; [reflexivity|].
  inversion H as [|? ? Hc Hps]; subst. cbn [trun]. unfold step at 1. cbn [t_lx t_at t_bad].
  unfold param_byte in Hc. rewrite Hc. rewrite IH by exact Hps.
  cbn [rev]. rewrite <- app_assoc. reflexivity.
Qed.

Lemma run_csi a bd body a' : Forall param_byte body -> sgr a body = Some a' ->
  trun (mkT LText a bd) ([27; 91] ++ body ++ [109]) = (mkT LText a' bd, []).
Proof.
  intros Hb Hs. cbn [app trun]. unfold step at 1. cbn [t_lx t_at t_bad]. change (27 =? 27) with true. cbv iota.
  unfold step at 1. cbn [t_lx t_at t_bad]. change (91 =? 91) with true. cbv iota.
  rewrite run_app, run_params by exact Hb. cbn [trun]. unfold step. cbn [t_lx t_at t_bad].
  change (in_range 48 63 109) with false. change (109 =? 109) with true. cbv iota.
  rewrite app_nil_r, rev_involutive, Hs. reflexivity.
Qed.

Lemma split_on_nosep sep x : ~ In sep x -> split_on sep x = [x].
Proof.
  induction x as [|c x IH]; intros H; [reflexivity|]. cbn [split_on].
  destruct (Z.eqb_spec c sep) as [->|_]; [exfalso; apply H; left; reflexivity|].
  rewrite IH; [reflexivity|]. intros Hin. apply H. right. exact Hin.
Qed.

Lemma split_on_app sep x rest : ~ In sep x -> split_on sep (x ++ sep :: rest) = x :: split_on sep rest.
Proof.
  induction x as [|c x IH]; intros H; cbn [app split_on].
  - rewrite Z.eqb_refl. reflexivity.
  - destruct (Z.eqb_spec c sep) as [->|_]; [exfalso; apply H; left; reflexivity|].
    rewrite IH; [reflexivity|]. intros Hin. apply H. right. exact Hin.
Qed.

Lemma split_join sep codes : codes <> [] -> Forall (fun c => ~ In sep c) codes ->
  split_on sep (join [sep] codes) = codes.
Proof.
  induction codes as [|x r IH]; intros Hne H; [congruence|].
  inversion H as [|? ? Hx Hr]; subst. destruct r as [|y r].
  - cbn [join]. apply split_on_nosep. exact Hx.
  - change (join [sep] (x :: y :: r)) with (x ++ sep :: join [sep] (y :: r)).
    rewrite split_on_app by exact Hx. f_equal. apply IH; [discriminate|exact Hr].
Qed.

(* characters of a well-formed parameter *)
Lemma wf_chars s : forall st, wf_pb s st = true -> Forall (fun c => is_digit c = true \/ c = 58) s.
Proof.
  induction s as [|c s IH]; intros st H; [constructor|]. cbn [wf_pb] in H.
  destruct (is_digit c) eqn:Ed.
  - constructor; [left; exact Ed|exact (IH _ H)].
  - revert H. destruct (Z.eqb_spec c 58) as [->|_]; [|discriminate].
    destruct st; [|discriminate]. cbn [andb]. intros H.
    constructor; [right; reflexivity|exact (IH _ H)].
Qed.

Lemma wf_nonempty p : wf_param p -> p <> [].
Proof. intros H ->. discriminate. Qed.

Lemma digit_range c : is_digit c = true -> 48 <= c <= 57.
Proof. unfold is_digit. lia. Qed.

Lemma wf_no_sep p : wf_param p -> ~ In 59 p.
Proof.
  intros H Hin. apply wf_chars in H. rewrite Forall_forall in H.
  destruct (H _ Hin) as [Hd|Hd]; [apply digit_range in Hd; lia|discriminate].
Qed.

Lemma wf_param_bytes p : wf_param p -> Forall param_byte p.
Proof.
  intros H. apply wf_chars in H. eapply Forall_impl; [|exact H].
  intros c [Hd| ->]; [apply digit_range in Hd; unfold param_byte, in_range; lia|reflexivity].
Qed.

Lemma join_forall (P : Z -> Prop) sep codes :
  P sep -> Forall (Forall P) codes -> Forall P (join [sep] codes).
Proof.
  intros Hs. induction 1 as [|x r Hx Hr IH]; [constructor|].
  destruct r as [|y r]; [exact Hx|].
  change (join [sep] (x :: y :: r)) with (x ++ sep :: join [sep] (y :: r)).
  apply Forall_app. split; [exact Hx|]. constructor; [exact Hs|exact IH].
Qed.

Lemma R_codes_wf codes cmds : Forall2 R codes cmds -> Forall wf_param codes.
Proof. induction 1 as [|? ? ? ? [_ Hw]]; constructor; auto. Qed.

Lemma apply_params_R codes cmds : Forall2 R codes cmds ->
  forall a, apply_params a codes = Some (fold_left apply_cmd cmds a).
Proof.
  induction 1 as [|code c codes cmds [Hp _] _ IH]; intros a; [reflexivity|].
  cbn [apply_params fold_left]. rewrite Hp. apply IH.
Qed.

Lemma prefix_run codes cmds a bd : codes <> [] -> Forall2 R codes cmds ->
  trun (mkT LText a bd) (seq_open ++ join seq_sep codes ++ seq_close) =
  (mkT LText (fold_left apply_cmd cmds a) bd, []).
Proof.
  intros Hne HR. rewrite seq_open_ok, seq_sep_ok, seq_close_ok.
  pose proof (R_codes_wf _ _ HR) as Hw.
  apply run_csi.
  - apply join_forall; [reflexivity|]. eapply Forall_impl; [|exact Hw]. apply wf_param_bytes.
  - unfold sgr. rewrite split_join; [apply apply_params_R; exact HR|exact Hne|].
    eapply Forall_impl; [|exact Hw]. apply wf_no_sep.
Qed.

Lemma reset_run a bd : trun (mkT LText a bd) seq_reset = (mkT LText dflt bd, []).
Proof. reflexivity. Qed.

(* ================================================================== *)
(* 5. strip_colors on emitted sequences                                 *)

Definition strips (p : list Z) : Prop := forall rest, strip_k (p ++ rest) O = strip_k rest O.

Lemma strip_drop x : forall y, strip_k (x ++ y) (length x) = strip_k y O.
Proof. induction x as [|c x IH]; intros y; [reflexivity|]. cbn [app length strip_k]. apply IH. Qed.

Lemma param_char_class c : is_param_char c = true -> in_class c = true /\ c <> 109.
Proof.
  intros H. split; [apply class_covers; exact H|].
  unfold is_param_char, is_digit in H. lia.
Qed.

Lemma scan_params body rest : Forall (fun c => is_param_char c = true) body ->
  forall pos last, scan (body ++ 109 :: rest) pos last = Some (S (pos + length body)).
Proof.
  induction 1 as [|c body Hc _ IH]; intros pos last; cbn [app scan length].
  - rewrite strip_close_ok. change (109 =? 109) with true. cbv iota. rewrite class_not_close.
    f_equal. lia.
  - destruct (param_char_class c Hc) as [Hin Hne]. rewrite Hin, strip_close_ok.
    destruct (Z.eqb_spec c 109) as [E|_]; [contradiction|]. rewrite IH. f_equal. lia.
Qed.

Lemma strip_k_cons0 c r :
  strip_k (c :: r) O =
  match match_len (c :: r) with Some n => strip_k r (pred n) | None => c :: strip_k r O end.
Proof. reflexivity. Qed.

Lemma strips_csi body : Forall (fun c => is_param_char c = true) body -> strips ([27; 91] ++ body ++ [109]).
Proof.
  intros Hb rest.
  replace (([27; 91] ++ body ++ [109]) ++ rest) with (27 :: 91 :: body ++ 109 :: rest)
    by (cbn [app]; rewrite <- app_assoc; reflexivity).
  rewrite strip_k_cons0. unfold match_len. rewrite strip_open_ok. cbn [match_lit length].
  change (27 =? 27) with true. change (91 =? 91) with true. cbv iota.
  rewrite scan_params by exact Hb. cbn [pred].
  replace (91 :: body ++ 109 :: rest) with ((91 :: body ++ [109]) ++ rest)
    by (cbn [app]; rewrite <- app_assoc; reflexivity).
  replace (2 + length body)%nat with (length (91 :: body ++ [109]))
    by (cbn [length]; rewrite app_length; cbn [length]; lia).
  apply strip_drop.
Qed.

Lemma strips_nil : strips [].
Proof. intros rest. reflexivity. Qed.

Lemma strip_text t rest : esc_free t -> strip_k (t ++ rest) O = t ++ strip_k rest O.
Proof.
  induction 1 as [|c t Hc _ IH]; [reflexivity|]. cbn [app strip_k].
  unfold match_len. rewrite strip_open_ok. cbn [match_lit].
  destruct (Z.eqb_spec 27 c) as [E|_]; [congruence|]. rewrite IH. reflexivity.
Qed.

Lemma wf_param_chars p : wf_param p -> Forall (fun c => is_param_char c = true) p.
Proof.
  intros H. apply wf_chars in H. eapply Forall_impl; [|exact H].
  intros c [Hd| ->]; unfold is_param_char; [rewrite Hd|]; reflexivity.
Qed.

(* ================================================================== *)
(* 6. what make returns                                                 *)

(* [pair_ok p s a]: prefix p takes the terminal from the default state to
   attributes a without showing anything, suffix s takes it back, and
   strip_colors removes both *)
Definition pair_ok (p s : list Z) (a : attrs) : Prop :=
  trun t0 p = (mkT LText a false, []) /\ trun (mkT LText a false) s = (t0, []) /\
  strips p /\ strips s.

Definition shape_ok (p s : list Z) : Prop :=
  (p = [] /\ s = []) \/ (wf_sgr p /\ s = [27; 91; 48; 109]).

Definition pair_of (codes : list (list Z)) : list Z * list Z :=
  match codes with
  | [] => ([], [])
  | _ => (seq_open ++ join seq_sep codes ++ seq_close, seq_reset)
  end.

Lemma make_text a : make a false = bind (color_codes a) (fun codes => Ok (pair_of codes)).
Proof. unfold make, pair_of. destruct (color_codes a) as [[|c r]|e]; reflexivity. Qed.

Lemma codes_pair codes cmds : Forall2 R codes cmds ->
  pair_ok (fst (pair_of codes)) (snd (pair_of codes)) (fold_left apply_cmd cmds dflt) /\
  shape_ok (fst (pair_of codes)) (snd (pair_of codes)).
Proof.
  intros HR. destruct codes as [|c r].
  - inversion HR; subst. cbn. repeat split; try apply strips_nil. left. split; reflexivity.
  - set (codes := c :: r) in *. assert (codes <> []) as Hne by discriminate.
    change (pair_of codes) with (seq_open ++ join seq_sep codes ++ seq_close, seq_reset). cbn [fst snd].
    pose proof (R_codes_wf _ _ HR) as Hw.
    split; [split; [|split; [|split]]|].
    + apply prefix_run; assumption.
    + apply reset_run.
    + rewrite seq_open_ok, seq_sep_ok, seq_close_ok. apply strips_csi.
      apply join_forall; [reflexivity|]. eapply Forall_impl; [|exact Hw]. apply wf_param_chars.
    + rewrite seq_reset_ok. apply (strips_csi [48]). repeat constructor.
    + right. split; [|apply seq_reset_ok]. exists codes. repeat split; try assumption.
Qed.

(* every documented specification: accepted, and the pair sets exactly the
   requested attributes *)
Lemma make_valid a cf cb : valid_args a cf cb ->
  exists p s, make a false = Ok (p, s) /\ pair_ok p s (want a cf cb) /\ shape_ok p s.
Proof.
  intros Hv. rewrite make_text. unfold want. destruct (a_nocolor a) eqn:En.
  - unfold color_codes. rewrite En. cbn [bind]. exists [], [].
    split; [reflexivity|]. exact (codes_pair [] [] (Forall2_nil _)).
  - destruct Hv as [Hv|[Df Db]]; [congruence|].
    destruct (codes_denotes a cf cb En Df Db) as [codes [E HR]]. rewrite E. cbn [bind].
    exists (fst (pair_of codes)), (snd (pair_of codes)).
    split; [destruct (pair_of codes); reflexivity|].
    rewrite <- (cmds_attrs a cf cb Df Db). apply codes_pair. exact HR.
Qed.

(* whatever make accepts *)
Lemma make_ok a p s : make a false = Ok (p, s) ->
  (exists at_, pair_ok p s at_) /\ shape_ok p s.
Proof.
  intros H. rewrite make_text in H.
  destruct (color_codes a) as [codes|e] eqn:E; [|discriminate]. cbn [bind] in H.
  destruct (codes_ok a codes E) as [cmds HR].
  destruct (codes_pair codes cmds HR) as [H1 H2].
  injection H as Hp. rewrite Hp in H1, H2. cbn [fst snd] in H1, H2. split; [eauto|exact H2].
Qed.

(* ================================================================== *)
(* 7. chunks and CHText                                                 *)

(* an annotated chunk: the chunk and the attributes its prefix selects *)
Definition wfc (p : chunk * attrs) : Prop :=
  pair_ok (c_prefix (fst p)) (c_suffix (fst p)) (snd p) /\ esc_free (c_text (fst p)).

Lemma paint_app a x y : paint a (x ++ y) = paint a x ++ paint a y.
Proof. apply map_app. Qed.

Lemma run_chunk ch a : wfc (ch, a) -> trun t0 (chunk_str ch) = (t0, paint a (c_text ch)).
Proof.
  intros [[Hp [Hs _]] Ht]. cbn [fst snd] in *. unfold chunk_str.
  rewrite run_app, Hp, run_app, run_text, Hs by exact Ht. cbn [app]. rewrite app_nil_r. reflexivity.
Qed.

Lemma strip_chunk ch a rest : wfc (ch, a) ->
  strip_k (chunk_str ch ++ rest) O = c_text ch ++ strip_k rest O.
Proof.
  intros [[_ [_ [Sp Ss]]] Ht]. cbn [fst snd] in *. unfold chunk_str.
  rewrite <- !app_assoc. rewrite Sp, strip_text by exact Ht. rewrite Ss. reflexivity.
Qed.

Definition optwfc (cur : option (chunk * attrs)) : Prop :=
  match cur with Some p => wfc p | None => True end.
Definition optpaint (cur : option (chunk * attrs)) : list shown :=
  match cur with Some (c, a) => paint a (c_text c) | None => [] end.
Definition opttext (cur : option chunk) : list Z :=
  match cur with Some c => c_text c | None => [] end.

Definition shown_of (items : list (chunk * attrs)) : list shown :=
  flat_map (fun p => paint (snd p) (c_text (fst p))) items.

Lemma merge_wfc l al c a :
  wfc (l, al) -> wfc (c, a) -> c_prefix c = c_prefix l ->
  a = al /\ wfc (mkChunk (c_prefix l) (c_text l ++ c_text c) (c_suffix l), al).
Proof.
  intros [[Hp [Hs [S1 S2]]] Ht] [[Hp' _] Ht'] E. cbn [fst snd] in *.
  rewrite E in Hp'. rewrite Hp in Hp'. injection Hp' as Ea. split; [symmetry; exact Ea|].
  split; cbn [fst snd c_prefix c_suffix c_text].
  - repeat split; assumption.
  - apply Forall_app. split; assumption.
Qed.

Lemma norm_run items : Forall wfc items -> forall cur, optwfc cur ->
  trun t0 (chtext_str (norm (option_map fst cur) (map fst items))) = (t0, optpaint cur ++ shown_of items).
Proof.
  induction 1 as [|[c a] items Hc _ IH]; intros cur Hcur.
  - destruct cur as [[l al]|]; cbn [map norm option_map fst chtext_str flat_map optpaint shown_of].
    + rewrite !app_nil_r. apply run_chunk. exact Hcur.
    + reflexivity.
  - assert (forall ch a0, wfc (ch, a0) ->
              trun t0 (chtext_str (norm (Some ch) (map fst items))) =
              (t0, paint a0 (c_text ch) ++ shown_of items)) as IHs
      by (intros ch a0 Hw; exact (IH (Some (ch, a0)) Hw)).
    cbn [map norm fst]. unfold shown_of. cbn [flat_map fst snd]. fold (shown_of items).
    destruct (c_text c) as [|z t'] eqn:Et.
    + cbn [paint map app]. apply IH. exact Hcur.
    + rewrite <- Et. destruct cur as [[l al]|]; cbn [option_map fst].
      * destruct (str_eqb (c_prefix c) (c_prefix l)) eqn:Ep.
        -- apply str_eqb_eq in Ep. destruct (merge_wfc l al c a Hcur Hc Ep) as [-> Hm].
           rewrite (IHs _ al Hm). cbn [optpaint c_text]. rewrite paint_app, <- app_assoc. reflexivity.
        -- cbn [chtext_str flat_map]. rewrite run_app, (run_chunk l al Hcur).
           fold (chtext_str (norm (Some c) (map fst items))).
           rewrite (IHs c a Hc). cbn [optpaint]. reflexivity.
      * rewrite (IHs c a Hc). reflexivity.
Qed.

(* every chunk of the normalised text is again prefix/suffix-correct *)
Definition someok (ch : chunk) : Prop := exists a, wfc (ch, a).

Lemma norm_ok cs : Forall someok cs -> forall cur,
  match cur with Some l => someok l | None => True end -> Forall someok (norm cur cs).
Proof.
  induction 1 as [|c cs Hc _ IH]; intros cur Hcur.
  - destruct cur; cbn [norm]; [constructor; [exact Hcur|constructor]|constructor].
  - cbn [norm]. destruct (c_text c) as [|z t'] eqn:Et; [apply IH; exact Hcur|]. rewrite <- Et.
    destruct cur as [l|]; [|apply IH; exact Hc].
    destruct (str_eqb (c_prefix c) (c_prefix l)) eqn:Ep.
    + apply str_eqb_eq in Ep. destruct Hcur as [al Hl]. destruct Hc as [a Hc].
      destruct (merge_wfc l al c a Hl Hc Ep) as [_ Hm]. apply IH. exists al. exact Hm.
    + constructor; [exact Hcur|]. apply IH. exact Hc.
Qed.

Lemma plain_norm cs : forall cur, plain_text (norm cur cs) = opttext cur ++ flat_map c_text cs.
Proof.
  induction cs as [|c cs IH]; intros cur.
  - destruct cur; cbn [norm plain_text flat_map opttext]; rewrite ?app_nil_r; reflexivity.
  - cbn [norm flat_map]. destruct (c_text c) as [|z t'] eqn:Et; [apply IH|]. rewrite <- Et.
    destruct cur as [l|]; [|rewrite IH; reflexivity].
    destruct (str_eqb (c_prefix c) (c_prefix l)).
    + rewrite IH. cbn [opttext c_text]. rewrite <- app_assoc. reflexivity.
    + unfold plain_text. cbn [flat_map]. fold (plain_text (norm (Some c) cs)). rewrite IH. reflexivity.
Qed.

Lemma strip_chunks L : Forall someok L -> forall rest,
  strip_k (chtext_str L ++ rest) O = plain_text L ++ strip_k rest O.
Proof.
  induction 1 as [|ch L [a Hch] _ IH]; intros rest; [reflexivity|].
  unfold chtext_str, plain_text. cbn [flat_map]. fold (chtext_str L). fold (plain_text L).
  rewrite <- !app_assoc. rewrite (strip_chunk ch a _ Hch), IH. reflexivity.
Qed.

Lemma run_chunks L : Forall someok L -> fst (trun t0 (chtext_str L)) = t0.
Proof.
  induction 1 as [|ch L [a Hch] _ IH]; [reflexivity|].
  unfold chtext_str. cbn [flat_map]. fold (chtext_str L).
  rewrite run_app, (run_chunk ch a Hch). destruct (trun t0 (chtext_str L)) as [st o]. exact IH.
Qed.

(* ================================================================== *)
(* 8. the functional form of the specification                          *)

Lemma range24 k : In k (map Z.of_nat (seq 0 24)) <-> 0 <= k <= 23.
Proof.
  rewrite in_map_iff. split.
  - intros [i [<- Hi]]. apply in_seq in Hi. lia.
  - intros H. exists (Z.to_nat k). split; [lia|]. apply in_seq. lia.
Qed.

Lemma in_range_iff lo hi n : in_range lo hi n = true <-> lo <= n <= hi.
Proof. unfold in_range. lia. Qed.

Lemma colour_of_denotes c cl : colour_of c = Some cl -> denotes c cl.
Proof.
  destruct c as [|s|n|bb|il l| |]; cbn [colour_of]; intros H; try discriminate.
  - injection H as <-. constructor.
  - destruct (lookup s ansi_names) as [k|] eqn:El.
    + injection H as <-. constructor. exact El.
    + destruct s as [|c0 t]; [discriminate|]. destruct (Z.eqb_spec c0 103) as [->|_]; [|discriminate].
      destruct (gray_of t) as [k|] eqn:Eg; [|discriminate]. injection H as <-.
      unfold gray_of in Eg. apply find_some in Eg as [Hin He]. apply str_eqb_eq in He. subst t.
      constructor. apply range24. exact Hin.
  - destruct (in_range 0 255 n) eqn:E; [|discriminate]. injection H as <-. constructor.
    apply in_range_iff. exact E.
  - destruct l as [|[r| |] [|[g| |] [|[bl| |] [|? ?]]]]; try discriminate.
    destruct (in_range 0 5 r) eqn:E1; [|discriminate].
    destruct (in_range 0 5 g) eqn:E2; [|discriminate].
    destruct (in_range 0 5 bl) eqn:E3; [|discriminate].
    injection H as <-. constructor; apply in_range_iff; assumption.
Qed.

Lemma gray_of_dec k : 0 <= k <= 23 -> gray_of (dec k) = Some k.
Proof.
  intros Hk.
  assert (forallb (fun k => match gray_of (dec k) with Some v => v =? k | None => false end)
                  (zrange 0 24) = true) as H by (vm_compute; reflexivity).
  pose proof (zrange_forall _ _ _ H k) as Hz. cbv beta in Hz.
  destruct (gray_of (dec k)) as [v|].
  - f_equal. apply Z.eqb_eq. apply Hz. lia.
  - assert (false = true) by (apply Hz; lia). discriminate.
Qed.

Lemma denotes_colour_of c cl : denotes c cl -> colour_of c = Some cl.
Proof.
  intros D. destruct D as [|s k Hk|n Hn|il r g bl Hr Hg Hb|k Hk]; cbn [colour_of].
  - reflexivity.
  - rewrite Hk. reflexivity.
  - replace (in_range 0 255 n) with true by (symmetry; apply in_range_iff; exact Hn). reflexivity.
  - replace (in_range 0 5 r) with true by (symmetry; apply in_range_iff; exact Hr).
    replace (in_range 0 5 g) with true by (symmetry; apply in_range_iff; exact Hg).
    replace (in_range 0 5 bl) with true by (symmetry; apply in_range_iff; exact Hb). reflexivity.
  - rewrite ansi_no_g. change (103 =? 103) with true. cbv iota. rewrite gray_of_dec by exact Hk. reflexivity.
Qed.

Lemma valid_fmt_args a : valid_fmt a -> valid_args a (col (a_color a)) (col (a_bg a)).
Proof.
  intros [H|[Hf Hb]]; [left; exact H|right]. unfold col.
  destruct (colour_of (a_color a)) as [cf|] eqn:Ef; [|congruence].
  destruct (colour_of (a_bg a)) as [cb|] eqn:Eb; [|congruence].
  split; apply colour_of_denotes; assumption.
Qed.

(* ================================================================== *)
(* 9. CHText built from parts                                           *)

Lemma plain_wfc t : esc_free t -> wfc (plain_chunk t, dflt).
Proof. intros Ht. split; [|exact Ht]. cbn. repeat split; apply strips_nil. Qed.

(* valid parts: the chunks with the attributes they were asked for *)
Lemma build_valid items : Forall valid_part items ->
  exists ann, build items = Ok (map fst ann) /\ Forall wfc ann /\
              shown_of ann = flat_map (fun it => paint (req (fst it)) (snd it)) items.
Proof.
  induction 1 as [|[o t] items [Ht Ho] _ [ann [E [Hw Hs]]]]; [exists []; repeat split; constructor|].
  cbn [fst snd] in *. destruct o as [a|].
  - destruct (make_valid a _ _ (valid_fmt_args a Ho)) as [p [s [Em [Hp _]]]].
    exists ((fmt_call (p, s) t, req (Some a)) :: ann). cbn [build map fst]. rewrite Em, E. cbn [bind].
    split; [reflexivity|]. split.
    + constructor; [|exact Hw]. split; [exact Hp|exact Ht].
    + unfold shown_of. cbn [flat_map fst snd c_text fmt_call]. fold (shown_of ann). rewrite Hs. reflexivity.
  - exists ((plain_chunk t, dflt) :: ann). cbn [build map fst]. rewrite E. cbn [bind].
    split; [reflexivity|]. split.
    + constructor; [|exact Hw]. apply plain_wfc. exact Ht.
    + unfold shown_of. cbn [flat_map fst snd c_text plain_chunk req]. fold (shown_of ann). rewrite Hs. reflexivity.
Qed.

(* any parts that were accepted *)
Lemma build_ok items : Forall ok_part items -> forall cs, build items = Ok cs -> Forall someok cs.
Proof.
  induction 1 as [|[o t] items Ht _ IH]; intros cs H.
  - injection H as <-. constructor.
  - unfold ok_part in Ht. cbn [snd] in Ht. cbn [build] in H. destruct o as [a|].
    + destruct (make a false) as [[p s]|e] eqn:Em; [|discriminate].
      destruct (build items) as [cs'|e]; [|discriminate]. cbn [bind] in H. injection H as <-.
      constructor; [|apply IH; reflexivity].
      destruct (make_ok a p s Em) as [[at_ Hp] _]. exists at_. split; [exact Hp|exact Ht].
    + destruct (build items) as [cs'|e]; [|discriminate]. cbn [bind] in H. injection H as <-.
      constructor; [|apply IH; reflexivity]. exists dflt. apply plain_wfc. exact Ht.
Qed.

Lemma term_shows_l items : Forall valid_part items ->
  exists cs, build items = Ok cs /\
    term (chtext_str (chtext_of cs)) = (t0, flat_map (fun it => paint (req (fst it)) (snd it)) items).
Proof.
  intros H. destruct (build_valid items H) as [ann [E [Hw Hs]]]. exists (map fst ann). split; [exact E|].
  pose proof (norm_run ann Hw None I) as Hr. cbn [option_map optpaint app] in Hr.
  unfold term, chtext_of. rewrite Hr, Hs. reflexivity.
Qed.

Lemma firstn_forall {A} (P : A -> Prop) k l : Forall P l -> Forall P (firstn k l).
Proof. intros H. revert k. induction H; intros [|n]; cbn [firstn]; constructor; auto. Qed.

Lemma no_bleed_l items cs : Forall ok_part items -> build items = Ok cs ->
  Forall (fun ch => fst (term (chunk_str ch)) = t0) (chtext_of cs) /\
  forall k, fst (term (chtext_str (firstn k (chtext_of cs)))) = t0.
Proof.
  intros H E. pose proof (norm_ok cs (build_ok items H cs E) None I) as Hn. fold (chtext_of cs) in Hn. split.
  - eapply Forall_impl; [|exact Hn]. intros ch [a Hch]. unfold term. rewrite (run_chunk ch a Hch). reflexivity.
  - intros k. apply run_chunks. apply firstn_forall. exact Hn.
Qed.

Lemma strip_render_l items cs : Forall ok_part items -> build items = Ok cs ->
  strip (chtext_str (chtext_of cs)) = plain_text (chtext_of cs) /\
  plain_text (chtext_of cs) = flat_map snd items.
Proof.
  intros H E. pose proof (norm_ok cs (build_ok items H cs E) None I) as Hn. fold (chtext_of cs) in Hn. split.
  - unfold strip. rewrite <- (app_nil_r (chtext_str _)). rewrite (strip_chunks _ Hn). apply app_nil_r.
  - unfold chtext_of. rewrite plain_norm. cbn [opttext app].
    clear H Hn. revert cs E. induction items as [|[o t] items IH]; intros cs E.
    + injection E as <-. reflexivity.
    + cbn [build] in E. destruct o as [a|].
      * destruct (make a false) as [ps|e]; [|discriminate].
        destruct (build items) as [cs'|e]; [|discriminate]. cbn [bind] in E. injection E as <-.
        cbn [flat_map snd c_text fmt_call]. rewrite (IH cs' eq_refl). reflexivity.
      * destruct (build items) as [cs'|e]; [|discriminate]. cbn [bind] in E. injection E as <-.
        cbn [flat_map snd c_text plain_chunk]. rewrite (IH cs' eq_refl). reflexivity.
Qed.

Lemma sgr_wellformed_l a p s : make a false = Ok (p, s) ->
  (p = [] /\ s = []) \/ (wf_sgr p /\ s = [27; 91; 48; 109]).
Proof. intros H. exact (proj2 (make_ok a p s H)). Qed.

(* ================================================================== *)
(* 10. no_color, bytes, invalid values                                  *)

Lemma no_color_l a text : a_nocolor a = true ->
  make a false = Ok ([], []) /\ make a true = Ok ([], []) /\
  chunk_str (fmt_call ([], []) text) = text.
Proof.
  intros H. unfold make, color_codes. rewrite H. cbn [bind]. repeat split.
  unfold chunk_str, fmt_call. cbn [c_prefix c_text c_suffix fst snd app]. apply app_nil_r.
Qed.

Lemma utf8_ascii s : Forall (fun c => c < 128) s -> utf8 s = s.
Proof.
  induction 1 as [|c s Hc _ IH]; [reflexivity|]. unfold utf8 in *. cbn [flat_map]. rewrite IH.
  unfold utf8_char. destruct (Z.ltb_spec c 128); [reflexivity|lia].
Qed.

Lemma utf8_app x y : utf8 (x ++ y) = utf8 x ++ utf8 y.
Proof. apply flat_map_app. Qed.

Lemma wf_sgr_ascii p : wf_sgr p -> Forall (fun c => c < 128) p.
Proof.
  intros [params [_ [Hw ->]]]. apply Forall_app. split; [repeat constructor; lia|].
  apply Forall_app. split; [|repeat constructor; lia].
  apply join_forall; [lia|]. eapply Forall_impl; [|exact Hw]. intros q Hq.
  apply wf_chars in Hq. eapply Forall_impl; [|exact Hq].
  intros c [Hd| ->]; [apply digit_range in Hd|]; lia.
Qed.

Lemma shape_ascii p s : shape_ok p s -> Forall (fun c => c < 128) p /\ Forall (fun c => c < 128) s.
Proof.
  intros [[-> ->]|[Hw ->]]; [split; constructor|]. split; [apply wf_sgr_ascii; exact Hw|repeat constructor; lia].
Qed.

Lemma make_bytes a :
  make a true = bind (color_codes a) (fun codes =>
                  Ok (utf8 (fst (pair_of codes)), utf8 (snd (pair_of codes)))).
Proof. unfold make, pair_of. destruct (color_codes a) as [[|c r]|e]; reflexivity. Qed.

Lemma bytes_same_l a text :
  match make a false with
  | Ok ps => make a true = Ok ps /\
             fst ps ++ utf8 text ++ snd ps = utf8 (chunk_str (fmt_call ps text))
  | Err e => make a true = Err e
  end.
Proof.
  assert (forall codes, color_codes a = Ok codes ->
            make a false = Ok (fst (pair_of codes), snd (pair_of codes))) as Em
    by (intros codes Ec; rewrite make_text, Ec; cbn [bind]; destruct (pair_of codes); reflexivity).
  rewrite make_text, make_bytes. destruct (color_codes a) as [codes|e] eqn:Ec; cbn [bind]; [|reflexivity].
  destruct (shape_ascii _ _ (proj2 (make_ok a _ _ (Em codes eq_refl)))) as [Hp Hs].
  rewrite (utf8_ascii _ Hp), (utf8_ascii _ Hs). split; [destruct (pair_of codes); reflexivity|].
  unfold chunk_str, fmt_call. cbn [c_prefix c_text c_suffix fst snd].
  rewrite !utf8_app, (utf8_ascii _ Hp), (utf8_ascii _ Hs). reflexivity.
Qed.

Lemma utf8_no_esc s : Forall (fun c => 0 <= c) s -> esc_free s -> ~ In 27 (utf8 s).
Proof.
  intros Hpos Hesc. unfold utf8. rewrite in_flat_map. intros [c [Hin Hb]].
  unfold esc_free in Hesc. rewrite Forall_forall in Hpos, Hesc. specialize (Hpos c Hin). specialize (Hesc c Hin). cbv beta in *.
  unfold utf8_char in Hb.
  pose proof (Z.mod_pos_bound c 64 ltac:(lia)). pose proof (Z.mod_pos_bound (c / 64) 64 ltac:(lia)).
  pose proof (Z.mod_pos_bound (c / 4096) 64 ltac:(lia)).
  pose proof (Z.div_pos c 64 ltac:(lia) ltac:(lia)). pose proof (Z.div_pos c 4096 ltac:(lia) ltac:(lia)).
  pose proof (Z.div_pos c 262144 ltac:(lia) ltac:(lia)).
  destruct (c <? 128); [|destruct (c <? 2048); [|destruct (c <? 65536)]]; cbn [In] in Hb; lia.
Qed.

Lemma opt_code_some c b : c <> CNone -> opt_code c b = bind (make_seq_element c b) (fun p => Ok [p]).
Proof. destruct c; congruence || reflexivity. Qed.

Lemma opt_code_accepted c b : none_or accepted c -> exists l, opt_code c b = Ok l.
Proof.
  intros [->|Ha]; [exists []; reflexivity|].
  destruct (accepted_ok c b Ha) as [code E]. exists [code].
  rewrite opt_code_some by (intros ->; exact Ha). rewrite E. reflexivity.
Qed.

Lemma opt_code_invalid c b : ~ none_or accepted c -> opt_code c b = Err ValueErr.
Proof.
  intros Hna. rewrite opt_code_some by (intros ->; apply Hna; left; reflexivity).
  rewrite not_accepted_err; [reflexivity|]. intros Ha. apply Hna. right. exact Ha.
Qed.

Lemma make_invalid_l a b : a_nocolor a = false ->
  (~ none_or accepted (a_color a)) \/ (none_or accepted (a_color a) /\ ~ none_or accepted (a_bg a)) ->
  make a b = Err ValueErr.
Proof.
  intros En H. unfold make, color_codes. rewrite En. destruct H as [Hf|[Hf Hb]].
  - rewrite (opt_code_invalid _ false Hf). reflexivity.
  - destruct (opt_code_accepted _ false Hf) as [l ->]. cbn [bind].
    rewrite (opt_code_invalid _ true Hb). reflexivity.
Qed.

Lemma make_accepts_l a b : none_or accepted (a_color a) -> none_or accepted (a_bg a) ->
  exists ps, make a b = Ok ps.
Proof.
  intros Hf Hb. unfold make, color_codes. destruct (a_nocolor a); cbn [bind].
  - destruct b; eexists; reflexivity.
  - destruct (opt_code_accepted _ false Hf) as [l1 ->]. destruct (opt_code_accepted _ true Hb) as [l2 ->].
    cbn [bind]. destruct b; eexists; reflexivity.
Qed.

(* a single chunk rendered on its own: str(ColorFmt(a)(text)), also for an empty text *)
Lemma chunk_shows_l a text : valid_fmt a -> esc_free text ->
  exists ps, make a false = Ok ps /\
    term (chunk_str (fmt_call ps text)) = (t0, paint (req (Some a)) text) /\
    strip (chunk_str (fmt_call ps text)) = text.
Proof.
  intros Hv Ht. destruct (make_valid a _ _ (valid_fmt_args a Hv)) as [p [s [Em [Hp _]]]].
  exists (p, s). split; [exact Em|].
  assert (wfc (fmt_call (p, s) text, req (Some a))) as Hw by (split; [exact Hp|exact Ht]).
  split.
  - unfold term. rewrite (run_chunk _ _ Hw). reflexivity.
  - unfold strip. rewrite <- (app_nil_r (chunk_str _)). rewrite (strip_chunk _ _ _ Hw). apply app_nil_r.
Qed.
