"""C20  Short uuid strings are a bijective encoding of UUIDs  (ak/short_uuid.py)"""
import ast
import os

from harness.lib import sx as SX

ID = "C20"
COQ_DIR = "C20"
RUN_MOD = "C20.Run"
MODEL_TARGETS = ["C20/Run.vo"]
PROOF_TARGETS = ["C20/Lemmas.vo"]
PROPS = ["C20/Props.v"]
ALLOWED_AXIOMS = []
IMPL_TIMEOUT = 5.0
RULE = ("boundary values 0, 2^128-1, 57^k, 57^k +-1, random 128-bit values; every single-digit string "
        "(22 positions x 57 letters); lengths 0/21/23; excluded alphanumerics, punctuation and non-ASCII at "
        "every position; encodings of numbers in [2^128, 57^22); canonical/braces/urn/32-hex forms; non-str "
        "arguments.  Non-trivial = distinct case that reaches the codec (to_short of a non-zero value, "
        "from_short of a 22-character string, or from_str).")
TRUSTED_BASE = [
    "uuid.UUID(int=n) raises ValueError exactly when not 0 <= n < 2**128 (CPython Lib/uuid.py), uuid.UUID(str) "
    "is an oracle value passed to the model for uuid_from_str and assumed to reject every string shorter than 32 characters",
    "gen/C20_Consts.v: _ALPHABET, _SHORT_GUID_LEN and the exception classes caught around the decoder are read from ak/short_uuid.py by harness/props/c20.py:gen_consts (ast, fail-closed)",
]
ASSUMPTIONS = ["arguments of uuid_to_short_str are uuid.UUID objects (0 <= int < 2**128)"]
MODELLED = "ak/short_uuid.py completely (uuid.UUID itself is trusted)"

ALPHA57 = "23456789ABCDEFGHJKLMNPQRSTUVWXYZabcdefghijkmnopqrstuvwxyz"


class ExtractError(Exception):
    pass


# ------------------------------------------------------------------ constants
def gen_consts(repo):
    src = open(os.path.join(repo, "ak", "short_uuid.py")).read()
    tree = ast.parse(src)
    alphabet = None
    short_len = None
    caught = None
    for node in tree.body:
        if isinstance(node, ast.Assign) and len(node.targets) == 1 and isinstance(node.targets[0], ast.Name):
            name = node.targets[0].id
            if name == "_ALPHABET":
                try:
                    val = eval(compile(ast.Expression(node.value), "<alphabet>", "eval"), {"list": list, "__builtins__": {}})
                except Exception as e:
                    raise ExtractError(f"_ALPHABET is not a literal expression: {e}")
                if isinstance(val, str):
                    val = list(val)
                if not (isinstance(val, list) and all(isinstance(c, str) and len(c) == 1 for c in val)):
                    raise ExtractError("_ALPHABET is not a list of characters")
                alphabet = val
            elif name == "_SHORT_GUID_LEN":
                if not (isinstance(node.value, ast.Constant) and isinstance(node.value.value, int)):
                    raise ExtractError("_SHORT_GUID_LEN is not an int literal")
                short_len = node.value.value
        if isinstance(node, ast.FunctionDef) and node.name == "uuid_from_short_str":
            tries = [n for n in node.body if isinstance(n, ast.Try)]
            if len(tries) != 1 or len(tries[0].handlers) != 1:
                raise ExtractError("uuid_from_short_str: expected exactly one try with one handler")
            h = tries[0].handlers[0]
            # the handler must translate into ValueError
            if not (len(h.body) == 1 and isinstance(h.body[0], ast.Raise) and isinstance(h.body[0].exc, ast.Call)
                    and isinstance(h.body[0].exc.func, ast.Name) and h.body[0].exc.func.id == "ValueError"):
                raise ExtractError("uuid_from_short_str: handler does not raise ValueError")
            t = h.type
            if t is None:
                raise ExtractError("bare except")
            names = [t] if isinstance(t, ast.Name) else list(t.elts) if isinstance(t, ast.Tuple) else None
            if names is None or not all(isinstance(n, ast.Name) for n in names):
                raise ExtractError("unrecognised except clause")
            caught = [n.id for n in names]
    if alphabet is None or short_len is None or caught is None:
        raise ExtractError("could not find _ALPHABET / _SHORT_GUID_LEN / except clause")
    emap = {"ValueError": "ValueErr", "KeyError": "KeyErr", "IndexError": "IndexErr", "TypeError": "TypeErr",
            "LookupError": "KeyErr; IndexErr", "Exception": "ValueErr; KeyErr; IndexErr; AssertErr; AttrErr; TypeErr; OtherErr"}
    for c in caught:
        if c not in emap:
            raise ExtractError(f"unknown exception class {c}")
    if not 0 <= short_len <= 200:
        raise ExtractError("unreasonable _SHORT_GUID_LEN")
    text = ("(* generated from ak/short_uuid.py by harness/props/c20.py -- do not edit *)\n"
            "From Coq Require Import ZArith List.\nFrom AK Require Import Common.Err.\nImport ListNotations.\n"
            f"Definition alphabet : list Z := {SX.cZlist(ord(c) for c in alphabet)}.\n"
            f"Definition short_len : nat := {short_len}%nat.\n"
            f"Definition caught : list err := [{'; '.join(emap[c] for c in caught)}].\n")
    return {"C20_Consts": text}


# ------------------------------------------------------------------ cases
def enc57(n, alpha=ALPHA57, width=22):
    out = ""
    while n:
        n, d = divmod(n, len(alpha))
        out += alpha[d]
    return out + alpha[0] * (width - len(out))


def gen_cases(rng, tier):
    big = tier == "thorough"
    cases = []
    M = 1 << 128

    def to_short(u):
        cases.append({"k": "to_short", "u": u})

    def from_short(s):
        cases.append({"k": "from_short", "s": s})

    def from_str(s):
        cases.append({"k": "from_str", "s": s})
    for u in [0, 1, 56, 57, 58, M - 1, M - 2, M >> 1]:
        to_short(u)
    for k in range(1, 22):
        for d in (-1, 0, 1):
            v = 57 ** k + d
            if 0 <= v < M:
                to_short(v)
    for _ in range(4000 if big else 300):
        to_short(rng.getrandbits(rng.choice([8, 16, 32, 64, 100, 127, 128])))
    # every single-digit string
    for pos in range(22):
        for ch in ALPHA57:
            s = ALPHA57[0] * pos + ch + ALPHA57[0] * (21 - pos)
            from_short(s)
    # wrong lengths
    for n in (0, 1, 21, 23, 32, 36):
        from_short(ALPHA57[3] * n)
    # foreign characters at every position
    foreign = "01IOl-_ {}é中\U0001f600\n"
    for pos in range(22):
        for ch in (foreign if big else rng.sample(foreign, 5)):
            base = enc57(rng.getrandbits(120))
            from_short(base[:pos] + ch + base[pos + 1:])
    # numbers >= 2^128 that still have 22 digits
    top = 57 ** 22
    for v in [M, M + 1, top - 1, top - 57, (M + top) // 2]:
        from_short(enc57(v))
    for _ in range(2000 if big else 120):
        from_short(enc57(rng.randrange(M, top)))
    for _ in range(3000 if big else 200):
        from_short(enc57(rng.getrandbits(128)))
    for _ in range(2000 if big else 100):
        from_short("".join(rng.choice(ALPHA57) for _ in range(22)))
    # near the 2^128 boundary
    for d in range(-3, 4):
        from_short(enc57(M + d))
    # non-str arguments
    for tag in ("none", "int", "bytes", "list"):
        cases.append({"k": "from_short", "s": None, "nonstr": tag})
    # uuid_from_str
    import uuid as _u
    for _ in range(1500 if big else 120):
        v = rng.getrandbits(128)
        u = _u.UUID(int=v)
        form = rng.choice(["canon", "hex", "braces", "urn", "short", "upper"])
        s = {"canon": str(u), "hex": u.hex, "braces": "{" + str(u) + "}", "urn": u.urn,
             "short": enc57(v), "upper": str(u).upper()}[form]
        from_str(s)
    for s in ["", "x", "0" * 22, "0" * 32, "g" * 32, "-" * 22, str(_u.UUID(int=5))[:-1], enc57(M), enc57(7) + "2"]:
        from_str(s)
    return cases


def kind(case):
    return case["k"]


# ------------------------------------------------------------------ implementation
NONSTR = {"none": None, "int": 1234567890123456789012, "bytes": b"2" * 22, "list": list("2" * 22)}


def _call(f, *a):
    try:
        return ["ok", f(*a).int]
    except BaseException as e:  # noqa
        if type(e).__name__ == "Hang":
            raise
        return ["err", SX.exc_name(e)]


def _alpha(su):
    a = getattr(su, "_ALPHABET", None)
    try:
        a = "".join(a)
    except Exception:
        return None
    return a if len(a) == 57 and len(set(a)) == 57 else None


def impl_run(case):
    import uuid
    from ak import short_uuid as su
    k = case["k"]
    if k == "to_short":
        u = uuid.UUID(int=case["u"])
        try:
            s = su.uuid_to_short_str(u)
        except Exception as e:
            return {"r": ["err", SX.exc_name(e)]}
        if not isinstance(s, str):
            return {"r": ["err", "NotAString"]}
        return {"r": ["ok", s], "back": _call(su.uuid_from_short_str, s), "alpha": _alpha(su)}
    if k == "from_short":
        arg = case["s"] if case["s"] is not None else NONSTR[case["nonstr"]]
        return {"r": _call(su.uuid_from_short_str, arg), "alpha": _alpha(su)}
    if k == "from_str":
        try:
            std = uuid.UUID(case["s"]).int
        except ValueError:
            std = None
        return {"r": _call(su.uuid_from_str, case["s"]), "std": std, "alpha": _alpha(su)}
    raise ValueError(k)


# ------------------------------------------------------------------ model side
def coq_case(case, obs):
    k = case["k"]
    if k == "to_short":
        return f"ToShort {SX.cZ(case['u'])}"
    if k == "from_short":
        if case["s"] is None:
            return "FromShort PNotStr"
        return f"FromShort (PStr {SX.cstr(case['s'])})"
    return f"FromStr {SX.copt(obs['std'], SX.cZ)} {SX.cstr(case['s'])}"


def expected_sx(case, obs):
    r = obs["r"]
    if case["k"] == "to_short":
        return SX.dumps(r[1]) if r[0] == "ok" else SX.dumps(SX.err(r[1]))
    return SX.dumps(SX.ok(r[1]) if r[0] == "ok" else SX.err(r[1]))


# ------------------------------------------------------------------ oracle (statement, independently)
def _ref_decode(s, alpha=None):
    """what the property demands of uuid_from_short_str"""
    alpha = alpha or ALPHA57
    if not isinstance(s, str) or len(s) != 22 or any(c not in alpha for c in s):
        return ["err", "ValueError"]
    v = 0
    for c in reversed(s):
        v = v * 57 + alpha.index(c)
    if v >= 1 << 128:
        return ["err", "ValueError"]
    return ["ok", v]


def oracle(case, obs):
    if "__hang__" in obs:
        return [("hang", "call did not return")]
    out = []
    k = case["k"]
    r = obs["r"]
    if k == "to_short":
        if r[0] != "ok":
            return [("encode-raises", f"uuid_to_short_str({case['u']}) raised {r[1]}")]
        s = r[1]
        alpha = obs.get("alpha") or ALPHA57
        if len(s) != 22 or len(set(alpha)) != 57 or any(c not in alpha for c in s):
            out.append(("shape", f"encoding {s!r} of {case['u']} is not 22 letters of a 57-letter alphabet"))
        if obs["back"] != ["ok", case["u"]]:
            out.append(("roundtrip", f"from_short(to_short({case['u']})) = {obs['back']}"))
    elif k == "from_short":
        arg = case["s"]
        want = _ref_decode(arg, obs.get('alpha'))
        if want != r:
            sig = "reject-not-valueerror" if want[0] == "err" and r[0] == "err" else \
                  "accepts-invalid" if want[0] == "err" else "decode-wrong"
            out.append((sig, f"uuid_from_short_str({arg!r}) gave {r}, the property demands {want}"))
    else:
        s = case["s"]
        want = ["ok", obs["std"]] if obs["std"] is not None else _ref_decode(s, obs.get('alpha'))
        if want != r:
            sig = "from-str-reject-not-valueerror" if want[0] == "err" and r[0] == "err" else "from-str-wrong"
            out.append((sig, f"uuid_from_str({s!r}) gave {r}, the property demands {want}"))
    return out


def nontrivial(case, obs):
    k = case["k"]
    if k == "to_short":
        return case["u"] > 0
    if k == "from_short":
        return isinstance(case["s"], str) and len(case["s"]) == 22
    return True


def outcome(case, obs):
    if "__hang__" in obs:
        return "hang"
    r = obs["r"]
    return case["k"] + ":" + (r[0] if r[0] == "ok" else r[1])


TECHNIQUE = "Coq proof (induction over digit lists / fuel) on a hand-written Gallina model + per-run correspondence check (vm_compute vs implementation) + constants regenerated from the source"
LEVEL_TEXT = ("Full: roundtrip, shape, injective, accept_iff, surjective_on_valid, reject_value_error, from_str_both are "
              "proved in Coq for ALL 2^128 uuids and ALL strings (unbounded lists of code points) about the model of "
              "ak/short_uuid.py; alphabet, length and the caught exception classes are re-read from the source on every "
              "run, so NoDup alphabet, 2^128 <= 57^22 and 'KeyError is translated' are re-proved against the current "
              "code; the model is compared with the implementation on ~2300 boundary/exhaustive-per-digit cases per run.")
LEVEL_NOTE = ("Trusted: Coq kernel + vm_compute; the hand model's fidelity (checked by correspondence, not proved); "
              "uuid.UUID(int=)/uuid.UUID(str) of the standard library; the ast extractor and harness. "
              "Print Assumptions: closed under the global context for every theorem.")
DESIGN_REF = "DESIGN.md section 8, C20"
