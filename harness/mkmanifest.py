"""Regenerate MANIFEST.json from the property modules (python -m harness.mkmanifest)."""
import importlib
import json
import os

VERIF = os.path.dirname(os.path.dirname(os.path.abspath(__file__)))
PENDING_REASON = "check not built yet (work in progress; see DESIGN.md section 8 for the plan)"


def main():
    ids = [json.loads(l)["id"] for l in open(os.path.join(VERIF, "properties.jsonl")) if l.strip()]
    checks, na = [], []
    overrides = {}
    p = os.path.join(VERIF, "harness", "not_applicable.json")
    if os.path.exists(p):
        overrides = json.load(open(p))
    for pid in ids:
        path = os.path.join(VERIF, "harness", "props", pid.lower() + ".py")
        if pid in overrides or not os.path.exists(path):
            na.append({"property_id": pid, "reason": overrides.get(pid, PENDING_REASON)})
            continue
        mod = importlib.import_module("harness.props." + pid.lower())
        if getattr(mod, "DISABLED", None):
            na.append({"property_id": pid, "reason": mod.DISABLED})
            continue
        checks.append({
            "property_id": pid,
            "quick_cmd": f"bin/check {pid} quick",
            "thorough_cmd": f"bin/check {pid} thorough",
            "evidence_file": f"/verif/evidence/{pid}.json",
            "replay_cmd_template": f"bin/check {pid} --replay {{path}}",
            "engine": "coq-model-correspondence",
            "level_claimed": {"category": "proof", "text": mod.LEVEL_TEXT, "design_ref": mod.DESIGN_REF},
            "level_note": mod.LEVEL_NOTE,
            "technique": mod.TECHNIQUE,
        })
    manifest = {
        "version": 1,
        "setup_cmd": "cd /verif && bin/setup",
        "hooks": {
            "guard": "AK_PY_VERIF",
            "enable": "no source hooks are needed: checks import ak from /repo's working tree (PYTHONPATH=/repo) and substitute harness-side mock objects; AK_PY_VERIF=1 is exported for completeness",
            "baseline_off_cmd": "cd /repo && /venv/bin/python -m pytest -ra -q -p no:cacheprovider --timeout=900 --continue-on-collection-errors",
            "source_commits": [],
            "add_only": True,
        },
        "engines": [{
            "name": "coq-model-correspondence",
            "path": "/verif/bin/check",
            "serves_properties": [c["property_id"] for c in checks],
            "kind_free_text": "Coq 8.16.1 theorems over hand-written executable Gallina models (coq/Cnn), constants regenerated from /repo by ast extractors, and a per-run correspondence check that evaluates the model with vm_compute on the same cases the implementation ran (harness/)",
        }],
        "checks": checks,
        "not_applicable": na,
        "notes": "Every check: A) regenerate constants + full .vo build + Print Assumptions, B) model vs implementation on generated cases, C) independent oracle for failing-input search, D) decision (DESIGN.md section 2). KNOWN_FINDINGS.json lists recorded defects.",
    }
    with open(os.path.join(VERIF, "MANIFEST.json"), "w") as f:
        json.dump(manifest, f, indent=1)
    print(f"MANIFEST.json: {len(checks)} checks, {len(na)} not applicable/pending")


if __name__ == "__main__":
    main()
