(* C01/Spec.v -- the vocabulary of property C01: what a valid derivation of the
   USER's grammar is, and the executable validator [fact_ok] that ties the
   factorized grammar (prods_map, _suffix_symbols) back to the user's
   productions.  Definitions only, no proofs (Run.v evaluates [fact_ok]). *)
From Coq Require Import ZArith List Bool.
From AK Require Import Common.Err LLP.Base LLP.Factor.
Import ListNotations.
Local Open Scope nat_scope.

(* the grammar as the user wrote it:  symbol -> ordered alternatives *)
Notation ugrammar := (list (sym * list (list sym))).

Fixpoint uprods (ug : ugrammar) (s : sym) : list (list sym) :=
  match ug with
  | [] => []
  | (k, ps) :: r => if sym_eqb k s then ps else uprods r s
  end.

(* ---------------- statements about a returned tree ---------------- *)
(* every inner node with the names of its children is one of the user's
   productions of that symbol; a childless node is an empty production *)
Fixpoint valid_tree (ug : ugrammar) (t : tree) : Prop :=
  match t with
  | Leaf _ _ _ => True
  | Node n ch _ => In (map tree_name ch) (uprods ug n) /\
                   fold_right (fun c acc => valid_tree ug c /\ acc) True ch
  end.

(* no helper (suffix) symbol names a node or a leaf *)
Fixpoint no_helper (sfxs : list sym) (t : tree) : Prop :=
  match t with
  | Leaf n _ _ => mem n sfxs = false
  | Node n ch _ => mem n sfxs = false /\
                   fold_right (fun c acc => no_helper sfxs c /\ acc) True ch
  end.

(* leaves are named by terminals, inner nodes by non-terminals *)
Fixpoint kinds_ok (is_term : sym -> bool) (t : tree) : Prop :=
  match t with
  | Leaf n _ _ => is_term n = true
  | Node n ch _ => is_term n = false /\
                   fold_right (fun c acc => kinds_ok is_term c /\ acc) True ch
  end.

(* the leaves left to right: (token name, token value) *)
Fixpoint leaves (t : tree) : list (sym * list Z) :=
  match t with
  | Leaf n v _ => [(n, v)]
  | Node _ ch _ => flat_map leaves ch
  end.

Definition tok_pair (t : token) : sym * list Z := (tname t, tvalue t).

(* ---------------- the validator of a factorization ---------------- *)
Fixpoint concat_opt {A} (l : list (option (list A))) : option (list A) :=
  match l with
  | [] => Some []
  | None :: _ => None
  | Some x :: r => match concat_opt r with Some y => Some (x ++ y) | None => None end
  end.

Fixpoint list_eqb {A} (eqb : A -> A -> bool) (a b : list A) : bool :=
  match a, b with
  | [], [] => true
  | x :: a', y :: b' => eqb x y && list_eqb eqb a' b'
  | _, _ => false
  end.

Section Validator.
  Variable fg : grammar.          (* factorized prods_map *)
  Variable sfxs : list sym.       (* _suffix_symbols *)

  (* all the productions a factorized production stands for: a trailing suffix
     symbol is replaced by every expansion of every production of that symbol
     (in order); [None] = out of fuel *)
  Fixpoint expand (fuel : nat) (p : list sym) : option (list (list sym)) :=
    match fuel with
    | O => None
    | S f =>
        match p with
        | [] => Some [[]]
        | _ :: _ =>
            if mem (last p []) sfxs
            then option_map (map (app (removelast p)))
                   (concat_opt (map (fun r => expand f (rprod r)) (grules fg (last p []))))
            else Some [p]
        end
    end.

  Definition expand_rules (fuel : nat) (rules : list rule) : option (list (list sym)) :=
    concat_opt (map (fun r => expand fuel (rprod r)) rules).

  (* a suffix symbol may only be the last symbol of a production *)
  Definition only_last_sfx (p : list sym) : bool :=
    forallb (fun s => negb (mem s sfxs)) (removelast p).
End Validator.

(* fact_ok ug fg sfxs:
   1. in every production of fg a suffix symbol occurs, if at all, as the last symbol;
   2. no symbol of the user's grammar is a suffix symbol (helper names are fresh);
   3. the keys of fg are pairwise distinct, and those that are not suffix symbols
      are exactly the user's symbols, in the user's order;
   4. for every non-suffix key the productions of fg, with suffix symbols
      expanded, are exactly the user's productions of that symbol, in order. *)
Definition fact_ok (ug : ugrammar) (fg : grammar) (sfxs : list sym) : bool :=
  forallb (fun kv => forallb (fun r => only_last_sfx sfxs (rprod r)) (snd kv)) fg
  && forallb (fun kv => negb (mem (fst kv) sfxs)) ug
  && nodup_syms (gkeys fg)
  && list_eqb sym_eqb (filter (fun k => negb (mem k sfxs)) (gkeys fg)) (map fst ug)
  && forallb (fun kv =>
       if mem (fst kv) sfxs then true
       else match expand_rules fg sfxs (S (length fg)) (snd kv) with
            | Some es => list_eqb (list_eqb sym_eqb) es (uprods ug (fst kv))
            | None => false
            end) fg.
