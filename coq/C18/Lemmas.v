(* C18/Lemmas.v -- proofs about the model of ak/xlsread.py: binding, object
   construction, the row loop (origin_consistent, rows_in_order). *)
From Coq Require Import ZArith List Bool Lia.
From AK Require Import Common.Sx Common.Err C18.Base gen.C18_Consts C18.Model.
Import ListNotations.

(* ------------------------------------------------------------------ *)
(* obligations on the literals read from the source: an origin marker can never be
   mistaken for a cell coordinate (coordinates start with a letter A-Z) *)
Definition not_coord_start (s : str) : bool :=
  match s with
  | [] => true
  | c :: _ => (c <? 65)%Z || (90 <? c)%Z
  end.

Lemma markers_not_coords :
  forallb not_coord_start [marker_na; marker_skipped; marker_range_empty; marker_key_na] = true.
Proof. vm_compute. reflexivity. Qed.

(* ------------------------------------------------------------------ *)
(* generic list facts                                                  *)

Lemma str_eqb_eq a b : str_eqb a b = true <-> a = b.
Proof.
  revert b. induction a as [|x a IH]; intros [|y b]; cbn [str_eqb]; split; intros H;
    try reflexivity; try discriminate.
  - apply andb_prop in H as [H1 H2]. apply Z.eqb_eq in H1. apply IH in H2. congruence.
  - injection H as -> ->. rewrite Z.eqb_refl. cbn. apply IH. reflexivity.
Qed.

Lemma str_eqb_refl a : str_eqb a a = true.
Proof. apply str_eqb_eq. reflexivity. Qed.

Lemma str_eqb_neq a b : str_eqb a b = false <-> a <> b.
Proof.
  split.
  - intros H E. apply str_eqb_eq in E. congruence.
  - intros H. destruct (str_eqb a b) eqn:E; [|reflexivity]. apply str_eqb_eq in E. contradiction.
Qed.

Lemma map_res_Forall2 {A B} (f : A -> res B) l l' :
  map_res f l = Ok l' -> Forall2 (fun x y => f x = Ok y) l l'.
Proof.
  revert l'. induction l as [|x l IH]; intros l' H; cbn [map_res] in H.
  - injection H as <-. constructor.
  - destruct (f x) as [y|e] eqn:E; [|discriminate].
    destruct (map_res f l) as [ys|e]; [|discriminate].
    injection H as <-. constructor; [exact E|apply IH; reflexivity].
Qed.

Lemma Forall2_nth_l {A B} (R : A -> B -> Prop) l l' i x :
  Forall2 R l l' -> nth_error l i = Some x -> exists y, nth_error l' i = Some y /\ R x y.
Proof.
  intros H. revert i. induction H as [|a b l l' Hab H IH]; intros [|i] Hi; cbn in *; try discriminate.
  - injection Hi as <-. eauto.
  - apply IH. exact Hi.
Qed.

Lemma Forall2_nth_r {A B} (R : A -> B -> Prop) l l' i y :
  Forall2 R l l' -> nth_error l' i = Some y -> exists x, nth_error l i = Some x /\ R x y.
Proof.
  intros H. revert i. induction H as [|a b l l' Hab H IH]; intros [|i] Hi; cbn in *; try discriminate.
  - injection Hi as <-. eauto.
  - apply IH. exact Hi.
Qed.

Lemma Forall2_impl {A B} (R S : A -> B -> Prop) l l' :
  (forall x y, R x y -> S x y) -> Forall2 R l l' -> Forall2 S l l'.
Proof. intros H. induction 1; constructor; auto. Qed.

Lemma Forall2_length' {A B} (R : A -> B -> Prop) l l' : Forall2 R l l' -> length l = length l'.
Proof. induction 1; cbn; congruence. Qed.

(* ------------------------------------------------------------------ *)
(* col_names_ids: the bound index carries the requested title          *)

Lemma last_index_some name names pos found i :
  last_index name names pos found = Some i ->
  found = Some i \/ exists j, i = (pos + j)%nat /\ nth_error names j = Some name.
Proof.
  revert pos found. induction names as [|n r IH]; intros pos found H; cbn [last_index] in H.
  - left. exact H.
  - apply IH in H as [H|[j [-> Hj]]].
    + destruct (str_eqb n name) eqn:E.
      * injection H as <-. right. exists 0%nat. split; [lia|]. apply str_eqb_eq in E. subst. reflexivity.
      * left. exact H.
    + right. exists (S j). split; [lia|exact Hj].
Qed.

Lemma last_index_spec name names pos found :
  last_index name names pos found =
  match last_index name names pos None with Some p => Some p | None => found end.
Proof.
  revert pos found. induction names as [|n r IH]; intros pos found; cbn [last_index]; [reflexivity|].
  destruct (str_eqb n name); [|apply IH].
  rewrite (IH (S pos) (Some pos)). destruct (last_index name r (S pos) None); reflexivity.
Qed.

Lemma last_index_none name names pos :
  last_index name names pos None = None -> ~ In name names.
Proof.
  revert pos. induction names as [|n r IH]; intros pos H; cbn [last_index] in H; [intros []|].
  rewrite last_index_spec in H.
  destruct (last_index name r (S pos) None) eqn:E; [discriminate|].
  destruct (str_eqb n name) eqn:E2; [discriminate|].
  apply str_eqb_neq in E2. intros [->|Hin]; [congruence|]. exact (IH _ E Hin).
Qed.

Lemma col_id_some names name i : col_id names name = Some i -> nth_error names i = Some name.
Proof.
  unfold col_id. intros H. apply last_index_some in H as [H|[j [-> Hj]]]; [discriminate|exact Hj].
Qed.

Lemma col_id_none names name : col_id names name = None -> ~ In name names.
Proof. apply last_index_none. Qed.

(* ------------------------------------------------------------------ *)
(* binding of the rules to the title row                               *)

Definition cpos (x : cell) : nat * nat := (c_row x, c_col x).

Definition bind_ok (known names : list str) (ru : rule) (b : binding) : Prop :=
  match ru, b with
  | RPlain col _ _, BCol i => nth_error names i = Some col
  | RPlain col _ def, BMissing d' => def = Some d' /\ ~ In col names
  | RExt d, BExt d' => d' = d
  | RRange _ _ _, BRange rn ids =>
      rn = range_scan known names false /\ Forall2 (fun n i => col_id names n = Some i) rn ids
  | RPlain _ _ _, BRange _ _ => True          (* column '*' with a single-cell reader: never builds *)
  | _, _ => False
  end.

Lemma opt_list_Forall2 {A B} (f : A -> option B) l ids :
  opt_list (map f l) = Some ids -> Forall2 (fun n i => f n = Some i) l ids.
Proof.
  revert ids. induction l as [|x l IH]; intros ids H; cbn in H.
  - injection H as <-. constructor.
  - destruct (f x) eqn:E; [|discriminate]. destruct (opt_list (map f l)); [|discriminate].
    injection H as <-. constructor; auto.
Qed.

Lemma bind_range_ok known names hd b :
  bind_range known names hd = Ok b ->
  exists ids, b = BRange (range_scan known names false) ids /\
              Forall2 (fun n i => col_id names n = Some i) (range_scan known names false) ids.
Proof.
  unfold bind_range. intros H.
  destruct (is_nil (range_scan known names false) && negb hd); [discriminate|].
  destruct (opt_list _) as [ids|] eqn:E; [|discriminate].
  injection H as <-. exists ids. split; [reflexivity|]. apply opt_list_Forall2. exact E.
Qed.

Lemma bind_rule_ok known names ru b :
  bind_rule known names ru = Ok b -> bind_ok known names ru b.
Proof.
  destruct ru as [col cv def|d|isd cv hd]; cbn [bind_rule]; intros H.
  - destruct (str_eqb col star).
    + apply bind_range_ok in H as [ids [-> _]]. exact I.
    + destruct (col_id names col) as [i|] eqn:E.
      * injection H as <-. cbn. apply col_id_some. exact E.
      * destruct def as [d|]; [|discriminate]. injection H as <-. cbn.
        split; [reflexivity|apply col_id_none; exact E].
  - injection H as <-. reflexivity.
  - apply bind_range_ok in H as [ids [-> H]]. cbn. split; [reflexivity|exact H].
Qed.

Lemma bind_all_ok known rules names bs :
  bind_all_k known rules names = Ok bs -> Forall2 (bind_ok known names) rules bs.
Proof.
  unfold bind_all_k. intros H. apply map_res_Forall2 in H.
  eapply Forall2_impl; [|exact H]. intros ru b. apply bind_rule_ok.
Qed.

(* ------------------------------------------------------------------ *)
(* cells_from_row, XlsObject.__init__                                  *)

Lemma nth_res_ok {A} (l : list A) i x : nth_res l i = Ok x -> nth_error l i = Some x.
Proof. unfold nth_res. destruct (nth_error l i); intros H; [injection H as <-; reflexivity|discriminate]. Qed.

Definition src_ok (row : list cell) (b : binding) (s : src) : Prop :=
  match b, s with
  | BCol i, SCell x => nth_error row i = Some x
  | BMissing d, SMissing d' => d' = d
  | BExt d, SExt d' => d' = d
  | BRange rn ids, SRange rn' cells =>
      rn' = rn /\ Forall2 (fun i x => nth_error row i = Some x) ids cells
  | _, _ => False
  end.

Lemma src_of_ok row b s : src_of row b = Ok s -> src_ok row b s.
Proof.
  destruct b as [i|d|d|rn ids]; cbn [src_of]; intros H.
  - destruct (nth_res row i) as [x|e] eqn:E; [|discriminate]. injection H as <-. cbn.
    apply nth_res_ok. exact E.
  - injection H as <-. reflexivity.
  - injection H as <-. reflexivity.
  - destruct (map_res (nth_res row) ids) as [cs|e] eqn:E; [|discriminate]. injection H as <-. cbn.
    split; [reflexivity|]. apply map_res_Forall2 in E.
    eapply Forall2_impl; [|exact E]. intros i x. apply nth_res_ok.
Qed.

(* What one attribute of a produced object is, relative to the title row [names] and to the
   (possibly ladder-substituted) row of cells [row] the object was built from:
   - a plain attribute read from the cell [x] standing at index i of [row], i being a column whose
     title is the declared column name; its origin is x's coordinate, its value the conversion of x;
   - a missing optional column: the declared default, origin "<skipped column>";
   - an external attribute: the declared default, origin "<n/a>";
   - a ranged attribute: names = the detected range group, cells = the cells of [row] in the
     columns bound to those names; value = the range conversion of these cells, origins = their
     coordinates by title. *)
Definition attr_ok (known names : list str) (row : list cell) (ru : rule) (a : value * origin) : Prop :=
  match ru, snd a with
  | RPlain col cv _, OCell r c =>
      exists i x sv, nth_error row i = Some x /\ c_row x = r /\ c_col x = c /\
                     nth_error names i = Some col /\
                     val_from_cell cv x = Ok sv /\ fst a = VS sv
  | RPlain col _ def, OSkipped => exists d, def = Some d /\ fst a = VS d /\ ~ In col names
  | RExt d, ONa => fst a = VS d
  | RRange isdict cv _, ORange d =>
      exists ids cells,
        let rn := range_scan known names false in
        Forall2 (fun n i => col_id names n = Some i) rn ids /\
        Forall2 (fun i x => nth_error row i = Some x) ids cells /\
        range_value isdict cv rn cells = Ok (fst a) /\
        d = dict_of (combine rn (map cpos cells))
  | _, _ => False
  end.

Lemma build_attr_ok known names row ru b s a :
  bind_ok known names ru b -> src_ok row b s -> build_attr ru s = Ok a ->
  attr_ok known names row ru a.
Proof.
  intros Hb Hs Ha.
  destruct ru as [col cv def|d|isd cv hd]; destruct s as [x|d'|d'|rn cells]; cbn [build_attr] in Ha;
    try discriminate.
  - (* plain, cell *)
    destruct b as [i|?|?|? ?]; cbn in Hs; try contradiction.
    destruct (val_from_cell cv x) as [sv|e] eqn:E; [|discriminate]. injection Ha as <-.
    assert (Hn : nth_error names i = Some col) by exact Hb.
    cbn. exists i, x, sv. repeat split; auto.
  - (* plain, missing *)
    destruct b as [?|d0|?|? ?]; cbn in Hs; try contradiction. subst d'.
    injection Ha as <-. unfold bind_ok in Hb. destruct Hb as [-> Hn]. cbn. eauto.
  - (* external *)
    destruct b as [?|?|d0|? ?]; cbn in Hs; try contradiction. subst d'.
    injection Ha as <-. unfold bind_ok in Hb. subst d0. reflexivity.
  - (* range *)
    destruct b as [?|?|?|rn0 ids]; cbn in Hs; try contradiction. destruct Hs as [-> Hs].
    destruct (range_value isd cv rn0 cells) as [v|e] eqn:E; [|discriminate]. injection Ha as <-.
    unfold bind_ok in Hb. destruct Hb as [-> Hb]. cbn. exists ids, cells. repeat split; auto.
Qed.

Lemma build_all_ok known names row :
  forall rules bs srcs attrs,
    Forall2 (bind_ok known names) rules bs ->
    Forall2 (fun b s => src_of row b = Ok s) bs srcs ->
    map_res (fun p => build_attr (fst p) (snd p)) (combine rules srcs) = Ok attrs ->
    Forall2 (attr_ok known names row) rules attrs.
Proof.
  induction rules as [|ru rules IH]; intros bs srcs attrs Hb Hs Ha.
  - cbn in Ha. injection Ha as <-. constructor.
  - inversion Hb as [|? b ? bs' Hb1 Hb2]; subst. inversion Hs as [|? s ? srcs' Hs1 Hs2]; subst.
    cbn [combine map_res fst snd] in Ha.
    destruct (build_attr ru s) as [a|e] eqn:E; [|discriminate].
    destruct (map_res _ (combine rules srcs')) as [as'|e] eqn:E2; [|discriminate].
    injection Ha as <-. constructor.
    + eapply build_attr_ok; eauto. apply src_of_ok. exact Hs1.
    + eapply IH; eauto.
Qed.

(* an object that construct returns satisfies attr_ok for every attribute, in _ATTRS order *)
Lemma construct_ok known rules names bs k row o :
  bind_all_k known rules names = Ok bs ->
  construct rules bs k row = Ok (Some o) ->
  Forall2 (attr_ok known names row) rules (o_attrs o).
Proof.
  intros Hb Hc. apply bind_all_ok in Hb. unfold construct in Hc.
  destruct (map_res (src_of row) bs) as [srcs|e] eqn:Es; [|discriminate].
  apply map_res_Forall2 in Es.
  destruct (keys_empty (firstn k srcs)) as [ke|e]; [|discriminate].
  destruct (ke && negb (Nat.eqb k 0)); [discriminate|].
  destruct (Nat.ltb (length rules) k); [discriminate|].
  destruct srcs as [|s0 srcs]; [discriminate|].
  destruct s0 as [x0| | |]; try discriminate.
  destruct (map_res _ (combine rules (SCell x0 :: srcs))) as [attrs|e] eqn:Ea; [|discriminate].
  destruct (negb (Nat.eqb k 0) && forallb is_vnone (firstn k attrs)); [discriminate|].
  injection Hc as <-. cbn [o_attrs].
  eapply build_all_ok; eauto.
Qed.

(* ------------------------------------------------------------------ *)
(* the row loop as a relation: which row each item was built from      *)

Definition cur_row (cf : config) (fcp : option nat) (prev : option (list cell)) (row : list cell)
  : res (list cell) :=
  match cf_ladder cf, fcp, prev with
  | true, Some f, Some p => fill_row f p row
  | _, _, _ => Ok row
  end.

(* one yielded item: the sheet row, the row of cells handed to construct, the item.  The loop is the
   same for a reader with one object (items: option obj, built by [construct]) and for a reader with
   several (items: tuples, built by [construct_all]): the relation is generic in the item type X and
   in the function [ctor] that builds an item from the row of cells. *)
Record step (X : Type) : Type := mkStep { st_raw : list cell; st_cur : list cell; st_item : X }.
Arguments mkStep {X}.
Arguments st_raw {X}.
Arguments st_cur {X}.
Arguments st_item {X}.

Inductive run_gen {X : Type} (cf : config) (ctor : list cell -> res X) (fcp : option nat)
  : option (list cell) -> list (list cell) -> list (step X) -> option err -> Prop :=
| run_nil prev : run_gen cf ctor fcp prev [] [] None
| run_end prev row rest :
    is_end cf row = Ok true -> run_gen cf ctor fcp prev (row :: rest) [] None
| run_end_err prev row rest e :
    is_end cf row = Err e -> run_gen cf ctor fcp prev (row :: rest) [] (Some e)
| run_fill_err prev row rest e :
    is_end cf row = Ok false -> cur_row cf fcp prev row = Err e ->
    run_gen cf ctor fcp prev (row :: rest) [] (Some e)
| run_constr_err prev row rest cur e :
    is_end cf row = Ok false -> cur_row cf fcp prev row = Ok cur ->
    ctor cur = Err e ->
    run_gen cf ctor fcp prev (row :: rest) [] (Some e)
| run_step prev row rest cur o tr e :
    is_end cf row = Ok false -> cur_row cf fcp prev row = Ok cur ->
    ctor cur = Ok o ->
    run_gen cf ctor fcp (Some cur) rest tr e ->
    run_gen cf ctor fcp prev (row :: rest) (mkStep row cur o :: tr) e.

(* the reader with one object *)
Notation run_ok cf bs := (run_gen cf (construct (cf_rules cf) bs (cf_nid cf))).

Lemma iter_rows_run cf bs fcp : forall rows prev,
  exists tr, run_ok cf bs fcp prev rows tr (snd (iter_rows cf bs fcp prev rows)) /\
             fst (iter_rows cf bs fcp prev rows) = map st_item tr.
Proof.
  induction rows as [|row rest IH]; intros prev; cbn [iter_rows].
  - exists []. split; [constructor|reflexivity].
  - destruct (is_end cf row) as [[|]|e] eqn:Ee.
    + exists []. split; [apply run_end; exact Ee|reflexivity].
    + fold (cur_row cf fcp prev row).
      destruct (cur_row cf fcp prev row) as [cur|e] eqn:Ec.
      * destruct (construct (cf_rules cf) bs (cf_nid cf) cur) as [o|e] eqn:Eo.
        -- destruct (IH (Some cur)) as [tr [H1 H2]].
           destruct (iter_rows cf bs fcp (Some cur) rest) as [os e'] eqn:Ei.
           exists (mkStep row cur o :: tr). cbn [fst snd] in *. split.
           ++ eapply run_step; eauto.
           ++ cbn. rewrite H2. reflexivity.
        -- exists []. split; [eapply run_constr_err; eauto|reflexivity].
      * exists []. split; [eapply run_fill_err; eauto|reflexivity].
    + exists []. split; [apply run_end_err; exact Ee|reflexivity].
Qed.

(* the reader with several objects: the same loop with [construct_all] *)
Lemma iter_rows_m_run mc bss fcp : forall rows prev,
  exists tr, run_gen (mc_loop mc) (construct_all (mc_objs mc) bss) fcp prev rows tr
                     (snd (iter_rows_m mc bss fcp prev rows)) /\
             fst (iter_rows_m mc bss fcp prev rows) = map st_item tr.
Proof.
  induction rows as [|row rest IH]; intros prev; cbn [iter_rows_m].
  - exists []. split; [constructor|reflexivity].
  - destruct (is_end (mc_loop mc) row) as [[|]|e] eqn:Ee.
    + exists []. split; [apply run_end; exact Ee|reflexivity].
    + change (match mc_ladder mc, fcp, prev with
              | true, Some f, Some p => fill_row f p row
              | _, _, _ => Ok row
              end) with (cur_row (mc_loop mc) fcp prev row).
      destruct (cur_row (mc_loop mc) fcp prev row) as [cur|e] eqn:Ec.
      * destruct (construct_all (mc_objs mc) bss cur) as [o|e] eqn:Eo.
        -- destruct (IH (Some cur)) as [tr [H1 H2]].
           destruct (iter_rows_m mc bss fcp (Some cur) rest) as [os e'] eqn:Ei.
           exists (mkStep row cur o :: tr). cbn [fst snd] in *. split.
           ++ eapply run_step; eauto.
           ++ cbn. rewrite H2. reflexivity.
        -- exists []. split; [eapply run_constr_err; eauto|reflexivity].
      * exists []. split; [eapply run_fill_err; eauto|reflexivity].
    + exists []. split; [apply run_end_err; exact Ee|reflexivity].
Qed.

(* The loop as a function, generic in the same way (proof device: Model.iter_rows and
   Model.iter_rows_m are its two instances) *)
Fixpoint iter_gen {X : Type} (cf : config) (ctor : list cell -> res X) (fcp : option nat)
         (prev : option (list cell)) (rows : list (list cell)) : list X * option err :=
  match rows with
  | [] => ([], None)
  | row :: rest =>
      match is_end cf row with
      | Err e => ([], Some e)
      | Ok true => ([], None)
      | Ok false =>
          match cur_row cf fcp prev row with
          | Err e => ([], Some e)
          | Ok cur =>
              match ctor cur with
              | Err e => ([], Some e)
              | Ok o => let (os, e) := iter_gen cf ctor fcp (Some cur) rest in (o :: os, e)
              end
          end
      end
  end.

Lemma iter_rows_gen cf bs fcp : forall rows prev,
  iter_rows cf bs fcp prev rows = iter_gen cf (construct (cf_rules cf) bs (cf_nid cf)) fcp prev rows.
Proof.
  induction rows as [|row rest IH]; intros prev; cbn [iter_rows iter_gen]; [reflexivity|].
  destruct (is_end cf row) as [[|]|e]; try reflexivity.
  fold (cur_row cf fcp prev row). destruct (cur_row cf fcp prev row) as [cur|e]; [|reflexivity].
  destruct (construct (cf_rules cf) bs (cf_nid cf) cur) as [o|e]; [|reflexivity].
  rewrite IH. reflexivity.
Qed.

Lemma iter_rows_m_gen mc bss fcp : forall rows prev,
  iter_rows_m mc bss fcp prev rows = iter_gen (mc_loop mc) (construct_all (mc_objs mc) bss) fcp prev rows.
Proof.
  induction rows as [|row rest IH]; intros prev; cbn [iter_rows_m iter_gen]; [reflexivity|].
  destruct (is_end (mc_loop mc) row) as [[|]|e]; try reflexivity.
  change (match mc_ladder mc, fcp, prev with
          | true, Some f, Some p => fill_row f p row
          | _, _, _ => Ok row
          end) with (cur_row (mc_loop mc) fcp prev row).
  destruct (cur_row (mc_loop mc) fcp prev row) as [cur|e]; [|reflexivity].
  destruct (construct_all (mc_objs mc) bss cur) as [o|e]; [|reflexivity].
  rewrite IH. reflexivity.
Qed.

(* ------------------------------------------------------------------ *)
(* cells of the processed rows are cells of the worksheet              *)

Definition cell_at (sh : list (list cval)) (r c : nat) : option cval :=
  match nth_error sh r with Some row => nth_error row c | None => None end.

Definition sheet_cell (sh : list (list cval)) (x : cell) : Prop :=
  cell_at sh (c_row x) (c_col x) = Some (c_val x).

(* every cell of [row] is a cell of the sheet, stands in its own column (counted from c0) and
   comes from a sheet row in [lo, hi] *)
Fixpoint row_ok (sh : list (list cval)) (lo hi c0 : nat) (row : list cell) : Prop :=
  match row with
  | [] => True
  | x :: r => (sheet_cell sh x /\ c_col x = c0 /\ (lo <= c_row x <= hi)%nat) /\ row_ok sh lo hi (S c0) r
  end.

Lemma row_ok_nth sh lo hi : forall row c0 i x,
  row_ok sh lo hi c0 row -> nth_error row i = Some x ->
  sheet_cell sh x /\ c_col x = (c0 + i)%nat /\ (lo <= c_row x <= hi)%nat.
Proof.
  induction row as [|y r IH]; intros c0 [|i] x H Hi; cbn in Hi; try discriminate.
  - injection Hi as <-. destruct H as [[H1 [H2 H3]] _]. repeat split; try tauto; lia.
  - destruct H as [_ H]. destruct (IH _ _ _ H Hi) as [H1 [H2 H3]]. repeat split; try tauto; lia.
Qed.

Lemma row_ok_weaken sh lo hi lo' hi' : (lo' <= lo)%nat -> (hi <= hi')%nat ->
  forall row c0, row_ok sh lo hi c0 row -> row_ok sh lo' hi' c0 row.
Proof.
  intros Hl Hh. induction row as [|y r IH]; intros c0 H; [exact I|].
  destruct H as [[H1 [H2 H3]] H]. split; [repeat split; try tauto; lia|apply IH; exact H].
Qed.

Lemma row_ok_app sh lo hi : forall a b c0,
  row_ok sh lo hi c0 a -> row_ok sh lo hi (c0 + length a) b -> row_ok sh lo hi c0 (a ++ b).
Proof.
  induction a as [|y a IH]; intros b c0 Ha Hb; cbn [app].
  - cbn in Hb. rewrite Nat.add_0_r in Hb. exact Hb.
  - destruct Ha as [H1 Ha]. split; [exact H1|]. apply IH; [exact Ha|].
    cbn [length] in Hb. replace (S c0 + length a)%nat with (c0 + S (length a))%nat by lia. exact Hb.
Qed.

Lemma row_ok_firstn sh lo hi : forall n row c0,
  row_ok sh lo hi c0 row -> row_ok sh lo hi c0 (firstn n row).
Proof.
  induction n as [|n IH]; intros [|y r] c0 H; cbn [firstn]; try exact I.
  destruct H as [H1 H]. split; [exact H1|apply IH; exact H].
Qed.

Lemma row_ok_skipn sh lo hi : forall n row c0,
  row_ok sh lo hi c0 row -> row_ok sh lo hi (c0 + n) (skipn n row).
Proof.
  induction n as [|n IH]; intros row c0 H; cbn [skipn].
  - rewrite Nat.add_0_r. exact H.
  - destruct row as [|y r]; [exact I|]. destruct H as [_ H].
    replace (c0 + S n)%nat with (S c0 + n)%nat by lia. apply IH. exact H.
Qed.

Lemma fill_from_ok sh lo hi : forall cur prev c0 r,
  row_ok sh lo hi c0 prev -> row_ok sh lo hi c0 cur -> fill_from prev cur = Ok r ->
  row_ok sh lo hi c0 r.
Proof.
  induction cur as [|c cs IH]; intros prev c0 r Hp Hc H; cbn [fill_from] in H.
  - injection H as <-. exact I.
  - destruct (cell_empty c).
    + destruct prev as [|p ps]; [discriminate|].
      destruct (fill_from ps cs) as [r'|e] eqn:E; [|discriminate]. injection H as <-.
      destruct Hp as [Hp1 Hp]. destruct Hc as [_ Hc]. split; [exact Hp1|].
      exact (IH ps (S c0) r' Hp Hc E).
    + injection H as <-. exact Hc.
Qed.

Lemma fill_row_ok sh lo hi f prev cur r :
  row_ok sh lo hi 0 prev -> row_ok sh lo hi 0 cur -> fill_row f prev cur = Ok r ->
  row_ok sh lo hi 0 r.
Proof.
  intros Hp Hc H. unfold fill_row in H.
  destruct (fill_from (skipn f prev) (skipn f cur)) as [r'|e] eqn:E; [|discriminate].
  injection H as <-. apply row_ok_app.
  - apply row_ok_firstn. exact Hc.
  - cbn [Nat.add].
    destruct (Nat.le_gt_cases f (length cur)) as [Hle|Hgt].
    + rewrite firstn_length_le by exact Hle.
      eapply fill_from_ok; [| |exact E].
      * apply (row_ok_skipn sh lo hi f prev 0). exact Hp.
      * apply (row_ok_skipn sh lo hi f cur 0). exact Hc.
    + assert (Hs : skipn f cur = []) by (apply skipn_all2; lia).
      rewrite Hs in E. cbn in E. injection E as <-. exact I.
Qed.

(* rows produced by worksheet.iter_rows() *)
Lemma index_row_ok sh r : forall vs c0,
  (forall i v, nth_error vs i = Some v -> cell_at sh r (c0 + i) = Some v) ->
  row_ok sh r r c0 (index_row r c0 vs).
Proof.
  induction vs as [|v vs IH]; intros c0 H; cbn [index_row]; [exact I|].
  split.
  - unfold sheet_cell. cbn. split; [|split; [reflexivity|lia]].
    specialize (H 0%nat v eq_refl). rewrite Nat.add_0_r in H. exact H.
  - apply IH. intros i w Hi. specialize (H (S i) w Hi).
    replace (S c0 + i)%nat with (c0 + S i)%nat by lia. exact H.
Qed.

Lemma index_row_sheet sh r vs :
  nth_error sh r = Some vs -> row_ok sh r r 0 (index_row r 0 vs).
Proof.
  intros H. apply index_row_ok. intros i v Hi. unfold cell_at. rewrite H. exact Hi.
Qed.

Lemma index_rows_nth : forall vrows r0 k,
  nth_error (index_rows r0 vrows) k =
  match nth_error vrows k with Some vs => Some (index_row (r0 + k) 0 vs) | None => None end.
Proof.
  induction vrows as [|vs vrows IH]; intros r0 [|k]; cbn [index_rows nth_error]; try reflexivity.
  - rewrite Nat.add_0_r. reflexivity.
  - rewrite IH. replace (S r0 + k)%nat with (r0 + S k)%nat by lia. reflexivity.
Qed.

Lemma map_cval_index_row r : forall vs c0, map c_val (index_row r c0 vs) = vs.
Proof. induction vs as [|v vs IH]; intros c0; cbn; [reflexivity|]. rewrite IH. reflexivity. Qed.

Lemma index_row_length r : forall vs c0, length (index_row r c0 vs) = length vs.
Proof. induction vs as [|v vs IH]; intros c0; cbn; [reflexivity|]. rewrite IH. reflexivity. Qed.

(* invariant of the loop: the j-th step works on sheet row r0+j, and its cells come from
   sheet rows lo .. r0+j *)
Lemma run_inv {X} sh lo cf (ctor : list cell -> res X) fcp : forall vrows r0 prev tr e,
  (forall k, nth_error vrows k = nth_error sh (r0 + k)) ->
  (lo <= r0)%nat ->
  (forall p, prev = Some p -> row_ok sh lo r0 0 p) ->
  run_gen cf ctor fcp prev (index_rows r0 vrows) tr e ->
  forall j st, nth_error tr j = Some st ->
    (exists vs, nth_error sh (r0 + j) = Some vs /\ st_raw st = index_row (r0 + j) 0 vs) /\
    row_ok sh lo (r0 + j) 0 (st_cur st).
Proof.
  induction vrows as [|vs vrows IH]; intros r0 prev tr e Hsh Hlo Hprev Hrun j st Hj.
  - cbn in Hrun. inversion Hrun; subst. destruct j; discriminate.
  - cbn [index_rows] in Hrun. inversion Hrun; subst; try (destruct j; discriminate).
    assert (Hvs : nth_error sh r0 = Some vs).
    { specialize (Hsh 0%nat). cbn in Hsh. rewrite Nat.add_0_r in Hsh. auto. }
    assert (Hraw : row_ok sh lo r0 0 (index_row r0 0 vs)).
    { eapply row_ok_weaken; [| |apply index_row_sheet; exact Hvs]; lia. }
    assert (Hcur : row_ok sh lo r0 0 cur).
    { match goal with H : cur_row _ _ _ _ = Ok cur |- _ => unfold cur_row in H; rename H into Hc end.
      destruct (cf_ladder cf); [|injection Hc as <-; exact Hraw].
      destruct fcp as [f|]; [|injection Hc as <-; exact Hraw].
      destruct prev as [p|]; [|injection Hc as <-; exact Hraw].
      eapply fill_row_ok; [| |exact Hc]; auto. }
    destruct j as [|j].
    + cbn in Hj. injection Hj as <-. cbn [st_raw st_cur]. rewrite Nat.add_0_r.
      split; [exists vs; auto|exact Hcur].
    + cbn in Hj.
      match goal with H : run_gen _ _ _ (Some cur) _ _ _ |- _ => rename H into Hr end.
      replace (r0 + S j)%nat with (S r0 + j)%nat by lia.
      eapply (IH (S r0) (Some cur)); [| | |exact Hr|exact Hj].
      * intros k. specialize (Hsh (S k)). cbn in Hsh.
        replace (S r0 + k)%nat with (r0 + S k)%nat by lia. exact Hsh.
      * lia.
      * intros p Hp. injection Hp as <-. eapply row_ok_weaken; [| |exact Hcur]; lia.
Qed.

(* ------------------------------------------------------------------ *)
(* the title row (specification level: on cell values)                 *)

Definition vrow_blank (vs : list cval) : bool := forallb val_empty vs.

Fixpoint find_title (sh : list (list cval)) (r : nat) : option (nat * list cval) :=
  match sh with
  | [] => None
  | vs :: rest => if vrow_blank vs then find_title rest (S r) else Some (r, vs)
  end.
(* index and content of the first row that is not blank *)
Definition title_row (sh : list (list cval)) : option (nat * list cval) := find_title sh 0.
Definition sheet_titles (sh : list (list cval)) : list str :=
  match title_row sh with Some (_, vs) => map val_title vs | None => [] end.

Lemma row_empty_index r : forall vs c0, row_empty (index_row r c0 vs) = vrow_blank vs.
Proof.
  induction vs as [|v vs IH]; intros c0; cbn; [reflexivity|]. unfold row_empty in IH. rewrite IH.
  reflexivity.
Qed.

Lemma titles_of_index r : forall vs c0, titles_of (index_row r c0 vs) = map val_title vs.
Proof.
  induction vs as [|v vs IH]; intros c0; cbn; [reflexivity|]. unfold titles_of in IH. rewrite IH.
  reflexivity.
Qed.

Lemma skip_blank_find : forall vrows r0,
  match find_title vrows r0 with
  | None => skip_blank (index_rows r0 vrows) = [] /\ Forall (fun vs => vrow_blank vs = true) vrows
  | Some (t, tvs) =>
      exists body,
        skip_blank (index_rows r0 vrows) = index_row t 0 tvs :: index_rows (S t) body /\
        (r0 <= t)%nat /\ nth_error vrows (t - r0) = Some tvs /\
        (forall k, nth_error body k = nth_error vrows (S (t - r0) + k)) /\
        vrow_blank tvs = false /\
        (forall i vs, (i < t - r0)%nat -> nth_error vrows i = Some vs -> vrow_blank vs = true)
  end.
Proof.
  induction vrows as [|vs vrows IH]; intros r0; cbn [find_title index_rows skip_blank].
  - split; constructor.
  - rewrite row_empty_index. destruct (vrow_blank vs) eqn:E.
    + specialize (IH (S r0)). destruct (find_title vrows (S r0)) as [[t tvs]|].
      * destruct IH as [body [H1 [H2 [H3 [H4 [H5 H6]]]]]]. exists body.
        replace (t - r0)%nat with (S (t - S r0)) by lia.
        repeat split; auto; try lia.
        intros [|i] ws Hi Hw; cbn in Hw; [congruence|]. eapply H6; [|exact Hw]. lia.
      * destruct IH as [H1 H2]. split; [exact H1|constructor; auto].
    + exists vrows. rewrite Nat.sub_diag. repeat split; auto.
      intros i ws Hi. lia.
Qed.

(* read_table, decomposed: no title row / binding fails / the row loop runs *)
Lemma read_table_run known cf sh :
  match title_row sh with
  | None => read_table_k known cf sh = ([], None)
  | Some (t, tvs) =>
      nth_error sh t = Some tvs /\ vrow_blank tvs = false /\
      (forall i vs, (i < t)%nat -> nth_error sh i = Some vs -> vrow_blank vs = true) /\
      let names := map val_title tvs in
      match bind_all_k known (cf_rules cf) names with
      | Err e => read_table_k known cf sh = ([], Some e)
      | Ok bs =>
          exists body tr e,
            (forall k, nth_error body k = nth_error sh (S t + k)) /\
            run_ok cf bs (first_some_pos names 0) None (index_rows (S t) body) tr e /\
            read_table_k known cf sh = (map st_item tr, e)
      end
  end.
Proof.
  unfold title_row, read_table_k, read_cells_k, index_sheet.
  pose proof (skip_blank_find sh 0) as H.
  destruct (find_title sh 0) as [[t tvs]|].
  - destruct H as [body [H1 [_ [H3 [H4 [H5 H6]]]]]]. rewrite Nat.sub_0_r in *.
    repeat split; auto. rewrite H1. rewrite titles_of_index.
    cbv zeta. destruct (bind_all_k known (cf_rules cf) (map val_title tvs)) as [bs|e]; [|reflexivity].
    destruct (iter_rows_run cf bs (first_some_pos (map val_title tvs) 0) (index_rows (S t) body) None)
      as [tr [Hr Hi]].
    exists body, tr, (snd (iter_rows cf bs (first_some_pos (map val_title tvs) 0) None (index_rows (S t) body))).
    split; [exact H4|]. split; [exact Hr|]. rewrite <- Hi.
    destruct (iter_rows _ _ _ _ _); reflexivity.
  - destruct H as [H _]. rewrite H. reflexivity.
Qed.

(* ------------------------------------------------------------------ *)
(* origin_consistent                                                   *)

(* What an attribute of a produced object is, relative to the worksheet [sh] only *)
Definition attr_sheet_ok (sh : list (list cval)) (known : list str) (ru : rule) (a : value * origin) : Prop :=
  match ru, snd a with
  | RPlain col cv _, OCell r c =>
      exists v sv, cell_at sh r c = Some v /\ nth_error (sheet_titles sh) c = Some col /\
                   val_from_val cv v = Ok sv /\ fst a = VS sv
  | RPlain col _ def, OSkipped =>
      exists d, def = Some d /\ fst a = VS d /\ ~ In col (sheet_titles sh)
  | RExt d, ONa => fst a = VS d
  | RRange isdict cv _, ORange d =>
      exists cells,
        let rn := range_scan known (sheet_titles sh) false in
        Forall (sheet_cell sh) cells /\
        Forall2 (fun n x => nth_error (sheet_titles sh) (c_col x) = Some n) rn cells /\
        range_value isdict cv rn cells = Ok (fst a) /\
        d = dict_of (combine rn (map cpos cells))
  | _, _ => False
  end.

Lemma Forall2_compose {A B C} (R : A -> B -> Prop) (S : B -> C -> Prop) :
  forall l1 l2 l3, Forall2 R l1 l2 -> Forall2 S l2 l3 ->
                   Forall2 (fun a c => exists b, R a b /\ S b c) l1 l3.
Proof.
  intros l1 l2 l3 H. revert l3. induction H; intros l3 H2; inversion H2; subst; constructor; eauto.
Qed.

Lemma Forall2_Forall_r {A B} (R : A -> B -> Prop) (P : B -> Prop) l l' :
  (forall x y, R x y -> P y) -> Forall2 R l l' -> Forall P l'.
Proof. intros H. induction 1; constructor; eauto. Qed.

Lemma attr_ok_sheet sh known lo hi row ru a :
  row_ok sh lo hi 0 row ->
  attr_ok known (sheet_titles sh) row ru a -> attr_sheet_ok sh known ru a.
Proof.
  intros Hrow H. unfold attr_ok in H. unfold attr_sheet_ok.
  destruct ru as [col cv def|d|isd cv hd]; destruct (snd a) as [r c| | |dd]; try contradiction; auto.
  - destruct H as [i [x [sv [H1 [H2 [H3 [H4 [H5 H6]]]]]]]].
    destruct (row_ok_nth _ _ _ _ _ _ _ Hrow H1) as [G1 [G2 _]]. cbn in G2. subst r c i.
    exists (c_val x), sv. repeat split; auto.
  - destruct H as [ids [cells [H1 [H2 [H3 H4]]]]]. exists cells. cbv zeta. repeat split; auto.
    + eapply Forall2_Forall_r; [|exact H2]. intros i x Hi.
      destruct (row_ok_nth _ _ _ _ _ _ _ Hrow Hi) as [G1 _]. exact G1.
    + pose proof (Forall2_compose _ _ _ _ _ H1 H2) as H12.
      eapply Forall2_impl; [|exact H12]. intros n x [i [Hn Hx]].
      destruct (row_ok_nth _ _ _ _ _ _ _ Hrow Hx) as [_ [G2 _]]. cbn in G2. rewrite G2.
      apply col_id_some. exact Hn.
Qed.

Lemma sheet_titles_eq sh t tvs : title_row sh = Some (t, tvs) -> sheet_titles sh = map val_title tvs.
Proof. unfold sheet_titles. intros ->. reflexivity. Qed.

Lemma run_construct {X} cf (ctor : list cell -> res X) fcp prev rows tr e :
  run_gen cf ctor fcp prev rows tr e ->
  forall j st, nth_error tr j = Some st ->
    is_end cf (st_raw st) = Ok false /\
    ctor (st_cur st) = Ok (st_item st).
Proof.
  induction 1; intros [|j] st Hj; cbn in Hj; try discriminate.
  - injection Hj as <-. cbn. auto.
  - eapply IHrun_gen; eauto.
Qed.

Lemma origin_consistent_k known cf sh items e j o :
  read_table_k known cf sh = (items, e) -> nth_error items j = Some (Some o) ->
  Forall2 (attr_sheet_ok sh known) (cf_rules cf) (o_attrs o).
Proof.
  intros Hread Hj. pose proof (read_table_run known cf sh) as H.
  destruct (title_row sh) as [[t tvs]|] eqn:Et.
  - destruct H as [H1 [H2 [H3 H4]]]. cbv zeta in H4.
    destruct (bind_all_k known (cf_rules cf) (map val_title tvs)) as [bs|e0] eqn:Eb.
    + destruct H4 as [body [tr [e1 [Hb [Hrun Hr]]]]]. rewrite Hr in Hread.
      injection Hread as <- <-. rewrite nth_error_map in Hj.
      destruct (nth_error tr j) as [st|] eqn:Est; [|discriminate]. cbn in Hj.
      assert (Hnone : forall p : list cell, @None (list cell) = Some p -> row_ok sh (S t) (S t) 0 p)
        by (intros p Hp; discriminate).
      destruct (run_inv sh (S t) cf _ _ body (S t) None tr e1 Hb (le_n _) Hnone Hrun j st Est) as [_ Hrow].
      assert (Hc : construct (cf_rules cf) bs (cf_nid cf) (st_cur st) = Ok (Some o)).
      { injection Hj as Hj. rewrite <- Hj. eapply run_construct; eauto. }
      pose proof (construct_ok _ _ _ _ _ _ _ Eb Hc) as Hok.
      rewrite <- (sheet_titles_eq _ _ _ Et) in Hok.
      eapply Forall2_impl; [|exact Hok]. intros ru a. apply (attr_ok_sheet sh _ _ _ _ _ _ Hrow).
    + rewrite H4 in Hread. injection Hread as <- <-. destruct j; discriminate.
  - rewrite H in Hread. injection Hread as <- <-. destruct j; discriminate.
Qed.

(* ------------------------------------------------------------------ *)
(* rows_in_order                                                       *)

(* the end-of-table rule, on the cell values of a sheet row *)
Definition vis_end (cf : config) (vs : list cval) : res bool :=
  if stop_first cf then
    match vs with [] => Err IndexErr | v :: _ => Ok (val_empty v) end
  else Ok (vrow_blank vs).

Lemma is_end_index cf r vs : is_end cf (index_row r 0 vs) = vis_end cf vs.
Proof.
  unfold is_end, vis_end. destruct (stop_first cf).
  - destruct vs; reflexivity.
  - rewrite row_empty_index. reflexivity.
Qed.

Lemma run_tail {X} cf (ctor : list cell -> res X) fcp prev rows tr e :
  run_gen cf ctor fcp prev rows tr e -> e = None ->
  match nth_error rows (length tr) with None => True | Some row => is_end cf row = Ok true end.
Proof.
  induction 1; intros He; try discriminate.
  - exact I.
  - cbn. assumption.
  - cbn [length nth_error]. apply IHrun_gen. exact He.
Qed.

Lemma run_plain {X} cf (ctor : list cell -> res X) fcp prev rows tr e :
  cf_ladder cf = false -> run_gen cf ctor fcp prev rows tr e ->
  forall j st, nth_error tr j = Some st -> st_cur st = st_raw st.
Proof.
  intros Hl. induction 1; intros [|j] st Hj; cbn in Hj; try discriminate.
  - injection Hj as <-. cbn. unfold cur_row in H0. rewrite Hl in H0. congruence.
  - eapply IHrun_gen; eauto.
Qed.

Lemma run_length {X} cf (ctor : list cell -> res X) fcp prev rows tr e :
  run_gen cf ctor fcp prev rows tr e -> (length tr <= length rows)%nat.
Proof. induction 1; cbn; lia. Qed.

Lemma index_rows_length : forall vrows r0, length (index_rows r0 vrows) = length vrows.
Proof. induction vrows as [|vs vrows IH]; intros r0; cbn; [reflexivity|]. rewrite IH. reflexivity. Qed.

(* the sheet rows an origin may point to *)
Definition origin_rows (lo hi : nat) (og : origin) : Prop :=
  match og with
  | OCell r _ => (lo <= r <= hi)%nat
  | ORange d => Forall (fun kv => (lo <= fst (snd kv) <= hi)%nat) d
  | _ => True
  end.

Lemma assoc_set_in {A} k (v : A) : forall d kv, In kv (assoc_set k v d) -> kv = (k, v) \/ In kv d.
Proof.
  induction d as [|[k' v'] d IH]; intros kv H; cbn [assoc_set] in H.
  - destruct H as [<-|[]]. auto.
  - destruct (str_eqb k k').
    + destruct H as [<-|H]; [auto|right; right; exact H].
    + destruct H as [<-|H]; [right; left; reflexivity|].
      destruct (IH _ H); [auto|right; right; assumption].
Qed.

Lemma dict_of_in {A} (l : list (str * A)) kv : In kv (dict_of l) -> In kv l.
Proof.
  unfold dict_of.
  assert (G : forall l d, In kv (fold_left (fun d kv => assoc_set (fst kv) (snd kv) d) l d) ->
                          In kv d \/ In kv l).
  { clear. induction l as [|[k v] l IH]; intros d H; cbn [fold_left] in H; [auto|].
    apply IH in H as [H|H]; [|right; right; exact H].
    cbn [fst snd] in H. apply assoc_set_in in H as [->|H]; [right; left; reflexivity|auto]. }
  intros H. apply G in H as [[]|H]. exact H.
Qed.

Lemma attr_ok_rows sh known names lo hi row ru a :
  row_ok sh lo hi 0 row -> attr_ok known names row ru a -> origin_rows lo hi (snd a).
Proof.
  intros Hrow H. unfold attr_ok in H. unfold origin_rows.
  destruct ru as [col cv def|d|isd cv hd]; destruct (snd a) as [r c| | |dd]; try contradiction; auto.
  - destruct H as [i [x [sv [H1 [H2 _]]]]].
    destruct (row_ok_nth _ _ _ _ _ _ _ Hrow H1) as [_ [_ G]]. subst r. exact G.
  - destruct H as [ids [cells [_ [H2 [_ ->]]]]]. apply Forall_forall. intros [k [r c]] Hin.
    apply dict_of_in in Hin. apply in_combine_r in Hin. apply in_map_iff in Hin as [x [Hx Hin]].
    unfold cpos in Hx. injection Hx as <- <-. cbn.
    apply In_nth_error in Hin as [n Hn].
    destruct (Forall2_nth_r _ _ _ _ _ H2 Hn) as [i [_ Hi]].
    destruct (row_ok_nth _ _ _ _ _ _ _ Hrow Hi) as [_ [_ G]]. exact G.
Qed.

Lemma rows_in_order_k known cf sh items e :
  read_table_k known cf sh = (items, e) ->
  match title_row sh with
  | None => items = [] /\ e = None
  | Some (t, tvs) =>
      (* item j belongs to sheet row t+1+j, which is not an end row; its origins lie in that row
         (ladder: in rows t+1 .. t+1+j) *)
      (forall j item, nth_error items j = Some item ->
         exists vs, nth_error sh (S t + j) = Some vs /\ vis_end cf vs = Ok false /\
           forall o, item = Some o ->
             Forall (fun a => origin_rows (if cf_ladder cf then S t else (S t + j)%nat) (S t + j) (snd a))
                    (o_attrs o)) /\
      (* and a reading that ends normally ends at the end of the sheet or at an end row *)
      (e = None ->
       match nth_error sh (S t + length items) with
       | None => True
       | Some vs => vis_end cf vs = Ok true
       end)
  end.
Proof.
  intros Hread. pose proof (read_table_run known cf sh) as H.
  destruct (title_row sh) as [[t tvs]|] eqn:Et.
  - destruct H as [H1 [H2 [H3 H4]]]. cbv zeta in H4.
    destruct (bind_all_k known (cf_rules cf) (map val_title tvs)) as [bs|e0] eqn:Eb.
    + destruct H4 as [body [tr [e1 [Hb [Hrun Hr]]]]]. rewrite Hr in Hread.
      injection Hread as <- <-. split.
      * intros j item Hj. rewrite nth_error_map in Hj.
        destruct (nth_error tr j) as [st|] eqn:Est; [|discriminate]. cbn in Hj. injection Hj as Hj.
        assert (Hnone : forall p : list cell, @None (list cell) = Some p -> row_ok sh (S t) (S t) 0 p)
          by (intros p Hp; discriminate).
        destruct (run_inv sh (S t) cf _ _ body (S t) None tr e1 Hb (le_n _) Hnone Hrun j st Est)
          as [[vs [Hvs Hraw]] Hrow].
        destruct (run_construct _ _ _ _ _ _ _ Hrun j st Est) as [Hend Hc].
        exists vs. split; [exact Hvs|]. split; [rewrite Hraw, is_end_index in Hend; exact Hend|].
        intros o Ho. subst item. rewrite Ho in Hc.
        pose proof (construct_ok _ _ _ _ _ _ _ Eb Hc) as Hok.
        assert (Hrow' : row_ok sh (if cf_ladder cf then S t else (S t + j)%nat) (S t + j) 0 (st_cur st)).
        { destruct (cf_ladder cf) eqn:El; [exact Hrow|].
          rewrite (run_plain _ _ _ _ _ _ _ El Hrun j st Est), Hraw.
          apply index_row_sheet. exact Hvs. }
        clear - Hok Hrow'. induction Hok; constructor; auto.
        eapply attr_ok_rows; eauto.
      * intros He. pose proof (run_tail _ _ _ _ _ _ _ Hrun He) as Ht.
        rewrite map_length. rewrite index_rows_nth in Ht. rewrite <- Hb.
        destruct (nth_error body (length tr)) as [vs|]; [|exact I].
        rewrite is_end_index in Ht. exact Ht.
    + rewrite H4 in Hread. injection Hread as <- <-. split; [|discriminate].
      intros [|j] item Hj; discriminate.
  - rewrite H in Hread. injection Hread as <- <-. auto.
Qed.

(* ------------------------------------------------------------------ *)
(* get_attr_origin renders the recorded origin                         *)

Definition origin_text (og : origin) : str :=
  match og with
  | OCell r c => coord_text r c
  | ONa => marker_na
  | OSkipped => marker_skipped
  | ORange d => range_text d
  end.

Lemma origin_text_l o i v og :
  nth_error (o_attrs o) i = Some (v, og) ->
  get_attr_origin o (Some i) None true = Ok (origin_text og) /\
  forall k strict,
    get_attr_origin o (Some i) (Some k) strict =
    match og with
    | ORange d => match assoc_get k d with
                  | Some (r, c) => Ok (coord_text r c)
                  | None => if strict then Err ValueErr else Ok marker_key_na
                  end
    | _ => Err ValueErr
    end.
Proof.
  intros H. unfold get_attr_origin. rewrite H. destruct og; split; try reflexivity; intros k strict; reflexivity.
Qed.

(* the per-key origins and the values of a CellRangeDict attribute are built from the same
   (title, cell) pairs *)
Lemma assoc_set_rel {A B} (R : A -> B -> Prop) k a b : forall d1 d2,
  Forall2 (fun x y => fst x = fst y /\ R (snd x) (snd y)) d1 d2 -> R a b ->
  Forall2 (fun x y => fst x = fst y /\ R (snd x) (snd y)) (assoc_set k a d1) (assoc_set k b d2).
Proof.
  induction d1 as [|[k1 a1] d1 IH]; intros d2 H Hab; inversion H as [|? [k2 b2] ? d2' [Hk Hr] Hrest]; subst;
    cbn [assoc_set].
  - constructor; [split; auto|constructor].
  - cbn in Hk. subst k2. destruct (str_eqb k k1).
    + constructor; [split; auto|exact Hrest].
    + constructor; [split; auto|]. apply IH; assumption.
Qed.

Lemma dict_of_rel {A B} (R : A -> B -> Prop) (l1 : list (str * A)) (l2 : list (str * B)) :
  Forall2 (fun x y => fst x = fst y /\ R (snd x) (snd y)) l1 l2 ->
  Forall2 (fun x y => fst x = fst y /\ R (snd x) (snd y)) (dict_of l1) (dict_of l2).
Proof.
  unfold dict_of. intros H.
  assert (G : forall (l1 : list (str * A)) (l2 : list (str * B)) d1 d2,
             Forall2 (fun x y => fst x = fst y /\ R (snd x) (snd y)) l1 l2 ->
             Forall2 (fun x y => fst x = fst y /\ R (snd x) (snd y)) d1 d2 ->
             Forall2 (fun x y => fst x = fst y /\ R (snd x) (snd y))
                     (fold_left (fun d kv => assoc_set (fst kv) (snd kv) d) l1 d1)
                     (fold_left (fun d kv => assoc_set (fst kv) (snd kv) d) l2 d2)).
  { clear. intros l1 l2 d1 d2 Hl. revert d1 d2.
    induction Hl as [|x y l1 l2 [Hk Hr] Hl IH]; intros d1 d2 Hd; cbn [fold_left]; [exact Hd|].
    apply IH. rewrite Hk. apply assoc_set_rel; assumption. }
  apply G; [exact H|constructor].
Qed.

Lemma assoc_get_rel {A B} (R : A -> B -> Prop) k : forall (d1 : list (str * A)) (d2 : list (str * B)) a,
  Forall2 (fun x y => fst x = fst y /\ R (snd x) (snd y)) d1 d2 ->
  assoc_get k d1 = Some a -> exists b, assoc_get k d2 = Some b /\ R a b.
Proof.
  induction d1 as [|[k1 a1] d1 IH]; intros d2 a H Ha; [discriminate|].
  inversion H as [|? [k2 b2] ? d2' [Hk Hr] Hrest]; subst. cbn in Hk. subst k2.
  cbn [assoc_get] in *. destruct (str_eqb k k1).
  - injection Ha as <-. eauto.
  - eapply IH; eauto.
Qed.

Lemma range_key_dict cv rn cells dv k r c :
  length rn = length cells ->
  range_value true cv rn cells = Ok (VDict dv) ->
  assoc_get k (dict_of (combine rn (map cpos cells))) = Some (r, c) ->
  exists x sv, In x cells /\ cpos x = (r, c) /\ val_from_cell cv x = Ok sv /\
               assoc_get k dv = Some sv.
Proof.
  intros Hl Hv Hk. unfold range_value in Hv.
  destruct (map_res (val_from_cell cv) cells) as [vs|e] eqn:E; [|discriminate].
  injection Hv as <-. apply map_res_Forall2 in E.
  set (R := fun (p : nat * nat) (sv : sval) =>
              exists x, In x cells /\ cpos x = p /\ val_from_cell cv x = Ok sv).
  assert (H : Forall2 (fun x y => fst x = fst y /\ R (snd x) (snd y))
                      (combine rn (map cpos cells)) (combine rn vs)).
  { assert (G : forall (cs : list cell) (vs : list sval) (rn : list str),
               Forall2 (fun x y => val_from_cell cv x = Ok y) cs vs -> (forall x, In x cs -> In x cells) ->
               Forall2 (fun x y => fst x = fst y /\ R (snd x) (snd y))
                       (combine rn (map cpos cs)) (combine rn vs)).
    { clear. intros cs vs rn H. revert rn. induction H as [|x y cs vs Hxy H IH]; intros rn Hin.
      - destruct rn; constructor.
      - destruct rn as [|n rn]; [constructor|]. cbn [map combine]. constructor.
        + split; [reflexivity|]. exists x. cbn. repeat split; auto. apply Hin. left. reflexivity.
        + apply IH. intros z Hz. apply Hin. right. exact Hz. }
    apply G; auto. }
  apply (dict_of_rel R) in H.
  destruct (assoc_get_rel R k _ _ _ H Hk) as [sv [H1 [x [H2 [H3 H4]]]]].
  exists x, sv. auto.
Qed.
