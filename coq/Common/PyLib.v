(* Common/PyLib.v -- the target vocabulary of harness/lib/pytranslate.py (Python ast -> Gallina).
   Each definition gives the meaning of ONE Python construct of the supported
   subset (CPython 3 semantics), on the representations
     int -> Z     bool -> bool     str, bytes -> list Z (code points / byte values)
     list[T], tuple used as a sequence -> list T
     dict[K, V] -> list (K * V) in insertion order
     a value whose type is not known statically -> pyval;  "str or not" -> pyobj
     exceptions -> Common.Err.res
   A one-character string is a str of length 1 (Python has no char type): the
   elements of list("ab") and the items of a `for c in "ab"` are [97] and [98].
   Operations on pyval that leave the modelled part of Python (float arithmetic,
   comparison of containers, objects of other classes) return Err OtherErr: never a
   definite wrong answer.
   This file is part of the trusted base of every `*_translated` theorem; it is
   compared with CPython by `python -m harness.lib.pytranslate --selftest`.
   No proofs here (lemmas: PyLibLemmas.v). *)
From Coq Require Import ZArith List Bool.
From AK Require Import Common.Sx Common.Err.
Import ListNotations.
Open Scope Z_scope.

(* an argument of unknown type: all the subset can do with it is isinstance(_, str) *)
Inductive pyobj := PyStr (s : list Z) | PyOther.

(* how a block containing `return` ends: with the function's result, or normally *)
Inductive flow (R S : Type) : Type := Return (r : R) | Next (s : S).
Arguments Return {R S} r.
Arguments Next {R S} s.

(* ---- truth values, numbers ---- *)
Definition py_truthy_int (n : Z) : bool := negb (n =? 0).
Definition py_truthy_list {A} (l : list A) : bool := match l with [] => false | _ :: _ => true end.

(* //, %, divmod: floor division, remainder with the sign of the divisor (= Z.div / Z.modulo);
   ZeroDivisionError has no code of its own in Common/Err.v *)
Definition py_floordiv (a b : Z) : res Z := if b =? 0 then Err OtherErr else Ok (a / b).
Definition py_mod (a b : Z) : res Z := if b =? 0 then Err OtherErr else Ok (a mod b).
Definition py_divmod (a b : Z) : res (Z * Z) := if b =? 0 then Err OtherErr else Ok (a / b, a mod b).

(* ---- sequences ---- *)
Definition py_len {A} (l : list A) : Z := Z.of_nat (length l).
Definition py_chars (s : list Z) : list (list Z) := map (fun c => [c]) s.   (* list(s), iter(s) *)
Definition py_join (sep : list Z) (parts : list (list Z)) : list Z :=
  match parts with
  | [] => []
  | p :: r => p ++ flat_map (fun q => sep ++ q) r
  end.
Definition py_str_mul (s : list Z) (n : Z) : list Z := concat (repeat s (Z.to_nat n)).   (* n <= 0 gives "" *)

Fixpoint py_str_eqb (a b : list Z) : bool :=
  match a, b with
  | [], [] => true
  | x :: a', y :: b' => (x =? y) && py_str_eqb a' b'
  | _, _ => false
  end.

(* seq[i]: negative i counts from the end, IndexError outside *)
Definition py_index_pos (len i : Z) : option nat :=
  let j := if i <? 0 then i + len else i in
  if (0 <=? j) && (j <? len) then Some (Z.to_nat j) else None.
Definition py_list_get {A} (l : list A) (i : Z) : res A :=
  match py_index_pos (py_len l) i with
  | Some k => match nth_error l k with Some x => Ok x | None => Err IndexErr end
  | None => Err IndexErr
  end.
Definition py_str_get (s : list Z) (i : Z) : res (list Z) :=
  match py_list_get s i with Ok c => Ok [c] | Err e => Err e end.

(* seq[lo:hi] (step 1), bounds clamped as Python does; None = omitted *)
Definition py_clamp (len : Z) (i : option Z) (dflt : Z) : Z :=
  match i with
  | None => dflt
  | Some i => let j := if i <? 0 then i + len else i in Z.max 0 (Z.min len j)
  end.
Definition py_slice {A} (l : list A) (lo hi : option Z) : list A :=
  let n := py_len l in
  let a := py_clamp n lo 0 in
  let b := py_clamp n hi n in
  firstn (Z.to_nat (b - a)) (skipn (Z.to_nat a) l).

Definition py_range (lo hi : Z) : list Z := map (fun k => lo + Z.of_nat k) (seq 0 (Z.to_nat (hi - lo))).

Fixpoint py_enumerate_from {A} (start : Z) (l : list A) : list (Z * A) :=
  match l with
  | [] => []
  | x :: r => (start, x) :: py_enumerate_from (start + 1) r
  end.

(* x in seq, seq.index(x) (first position, ValueError when absent) *)
Definition py_in {A} (eqb : A -> A -> bool) (x : A) (l : list A) : bool := existsb (eqb x) l.
Fixpoint py_list_index_from {A} (eqb : A -> A -> bool) (x : A) (l : list A) (pos : Z) : res Z :=
  match l with
  | [] => Err ValueErr
  | y :: r => if eqb y x then Ok pos else py_list_index_from eqb x r (pos + 1)
  end.
Definition py_list_index {A} (eqb : A -> A -> bool) (l : list A) (x : A) : res Z := py_list_index_from eqb x l 0.

(* str.rjust / str.ljust (TypeError unless the fill is one character),
   str.strip / lstrip / rstrip with an explicit set of characters *)
Definition py_rjust (s : list Z) (w : Z) (fill : list Z) : res (list Z) :=
  match fill with [c] => Ok (repeat c (Z.to_nat (w - py_len s)) ++ s) | _ => Err TypeErr end.
Definition py_ljust (s : list Z) (w : Z) (fill : list Z) : res (list Z) :=
  match fill with [c] => Ok (s ++ repeat c (Z.to_nat (w - py_len s))) | _ => Err TypeErr end.
Fixpoint py_lstrip (s chars : list Z) : list Z :=
  match s with
  | [] => []
  | c :: r => if existsb (Z.eqb c) chars then py_lstrip r chars else s
  end.
Definition py_rstrip (s chars : list Z) : list Z := rev (py_lstrip (rev s) chars).
Definition py_strip (s chars : list Z) : list Z := py_rstrip (py_lstrip s chars) chars.

(* ---- dict as the list of (key, value) in insertion order; a later pair with
   the same key wins (dict(pairs), dict comprehension); d[k] raises KeyError *)
Fixpoint py_dict_find {K V} (eqb : K -> K -> bool) (d : list (K * V)) (k : K) (found : option V) : option V :=
  match d with
  | [] => found
  | (k', v) :: r => py_dict_find eqb r k (if eqb k' k then Some v else found)
  end.
Definition py_dict_get {K V} (eqb : K -> K -> bool) (d : list (K * V)) (k : K) : res V :=
  match py_dict_find eqb d k None with Some v => Ok v | None => Err KeyErr end.
Definition py_dict_has {K V} (eqb : K -> K -> bool) (d : list (K * V)) (k : K) : bool :=
  match py_dict_find eqb d k None with Some _ => true | None => false end.

(* ---- objects, exceptions ---- *)
Definition py_isinstance_str (o : pyobj) : bool := match o with PyStr _ => true | PyOther => false end.

(* except (C1, C2, ...): does the clause catch e?  (running out of fuel is not an exception) *)
Definition py_catches (classes : list err) (e : err) : bool :=
  match e with Hang => false | _ => existsb (err_eqb e) classes end.

(* ================================================================== *)
(* values whose type is not known statically                            *)

(* a float is tracked as an exact fraction when it was given as one (n / d), and as
   "some float" after arithmetic (IEEE rounding is not modelled) *)
Inductive pyval :=
| VNone
| VBool (b : bool)
| VInt (z : Z)
| VFloat (q : option (Z * positive))
| VStr (s : list Z)
| VTuple (l : list pyval)
| VList (l : list pyval)
| VOther (hashable : bool).      (* an object of any other class: only this much is known *)

Definition py_int_of_bool (b : bool) : Z := if b then 1 else 0.

Definition py_is_none (v : pyval) : bool := match v with VNone => true | _ => false end.

(* bool(v); not known for objects of other classes (__bool__ / __len__) *)
Definition py_truthy (v : pyval) : res bool :=
  match v with
  | VNone => Ok false
  | VBool b => Ok b
  | VInt z => Ok (negb (z =? 0))
  | VFloat (Some (n, _)) => Ok (negb (n =? 0))
  | VFloat None => Err OtherErr
  | VStr s => Ok (py_truthy_list s)
  | VTuple l | VList l => Ok (py_truthy_list l)
  | VOther _ => Err OtherErr
  end.

Definition py_hashable (v : pyval) : res bool :=
  match v with
  | VList _ => Ok false
  | VOther h => Ok h
  | VTuple [] => Ok true
  | VTuple _ => Err OtherErr      (* depends on the elements: not modelled *)
  | _ => Ok true
  end.

(* v in d, d[v] for a dict with str keys: TypeError for an unhashable v *)
Definition py_strdict_has_dyn {V} (d : list (list Z * V)) (v : pyval) : res bool :=
  match v with
  | VStr s => Ok (py_dict_has py_str_eqb d s)
  | _ => match py_hashable v with
         | Ok true => Ok false
         | Ok false => Err TypeErr
         | Err e => Err e
         end
  end.
Definition py_strdict_get_dyn {V} (d : list (list Z * V)) (v : pyval) : res V :=
  match v with
  | VStr s => py_dict_get py_str_eqb d s
  | _ => match py_hashable v with
         | Ok true => Err KeyErr
         | Ok false => Err TypeErr
         | Err e => Err e
         end
  end.

(* len(v), iter(v) *)
Definition py_len_dyn (v : pyval) : res Z :=
  match v with
  | VStr s => Ok (py_len s)
  | VTuple l | VList l => Ok (py_len l)
  | VOther _ => Err OtherErr
  | _ => Err TypeErr
  end.
Definition py_iter_dyn (v : pyval) : res (list pyval) :=
  match v with
  | VStr s => Ok (map (fun c => VStr [c]) s)
  | VTuple l | VList l => Ok l
  | VOther _ => Err OtherErr
  | _ => Err TypeErr
  end.

(* numbers: int, bool, tracked float -> fraction *)
Definition py_as_frac (v : pyval) : option (Z * positive) :=
  match v with
  | VInt z => Some (z, 1%positive)
  | VBool b => Some (py_int_of_bool b, 1%positive)
  | VFloat (Some q) => Some q
  | _ => None
  end.
Definition py_is_number (v : pyval) : bool :=
  match v with VInt _ | VBool _ | VFloat _ => true | _ => false end.
Definition py_as_int (v : pyval) : option Z :=
  match v with VInt z => Some z | VBool b => Some (py_int_of_bool b) | _ => None end.

Fixpoint py_str_ltb (a b : list Z) : bool :=
  match a, b with
  | _, [] => false
  | [], _ :: _ => true
  | x :: a', y :: b' => (x <? y) || ((x =? y) && py_str_ltb a' b')
  end.

(* a < b (the other orderings are derived by the translator): numbers exactly, str by code
   points; None, or a number against a str: TypeError; the rest is not modelled *)
Definition py_lt_dyn (a b : pyval) : res bool :=
  match py_as_frac a, py_as_frac b with
  | Some (n1, d1), Some (n2, d2) => Ok (n1 * Zpos d2 <? n2 * Zpos d1)
  | _, _ =>
      match a, b with
      | VStr s, VStr t => Ok (py_str_ltb s t)
      | VFloat None, _ | _, VFloat None | VOther _, _ | _, VOther _ => Err OtherErr
      | VTuple _, VTuple _ | VList _, VList _ => Err OtherErr
      | _, _ => Err TypeErr
      end
  end.
Definition py_le_dyn (a b : pyval) : res bool :=
  match py_as_frac a, py_as_frac b with
  | Some (n1, d1), Some (n2, d2) => Ok (n1 * Zpos d2 <=? n2 * Zpos d1)
  | _, _ =>
      match a, b with
      | VStr s, VStr t => Ok (negb (py_str_ltb t s))
      | VFloat None, _ | _, VFloat None | VOther _, _ | _, VOther _ => Err OtherErr
      | VTuple _, VTuple _ | VList _, VList _ => Err OtherErr
      | _, _ => Err TypeErr
      end
  end.

(* a == b on scalars (never raises in Python; containers and other objects are not modelled) *)
Definition py_eq_dyn (a b : pyval) : res bool :=
  match py_as_frac a, py_as_frac b with
  | Some (n1, d1), Some (n2, d2) => Ok (n1 * Zpos d2 =? n2 * Zpos d1)
  | _, _ =>
      match a, b with
      | VNone, VNone => Ok true
      | VStr s, VStr t => Ok (py_str_eqb s t)
      | VFloat None, _ | _, VFloat None | VOther _, _ | _, VOther _ => Err OtherErr
      | VTuple _, _ | _, VTuple _ | VList _, _ | _, VList _ => Err OtherErr
      | _, _ => Ok false
      end
  end.

(* a + b, a - b, a * b *)
Definition py_arith_dyn (op : Z -> Z -> Z) (a b : pyval) : res pyval :=
  match py_as_int a, py_as_int b with
  | Some x, Some y => Ok (VInt (op x y))
  | _, _ =>
      if py_is_number a && py_is_number b then Ok (VFloat None)
      else match a, b with
           | VOther _, _ | _, VOther _ => Err OtherErr
           | _, _ => Err TypeErr
           end
  end.
Definition py_add_dyn (a b : pyval) : res pyval :=
  match a, b with
  | VStr s, VStr t => Ok (VStr (s ++ t))
  | VTuple s, VTuple t => Ok (VTuple (s ++ t))
  | VList s, VList t => Ok (VList (s ++ t))
  | _, _ => py_arith_dyn Z.add a b
  end.
Definition py_sub_dyn (a b : pyval) : res pyval := py_arith_dyn Z.sub a b.
Definition py_mul_dyn (a b : pyval) : res pyval :=
  match a, b with
  | VStr s, VInt n | VInt n, VStr s => Ok (VStr (py_str_mul s n))
  | VStr s, VBool c | VBool c, VStr s => Ok (VStr (py_str_mul s (py_int_of_bool c)))
  | VTuple _, (VInt _ | VBool _) | (VInt _ | VBool _), VTuple _
  | VList _, (VInt _ | VBool _) | (VInt _ | VBool _), VList _ => Err OtherErr
  | _, _ => py_arith_dyn Z.mul a b
  end.

(* ================================================================== *)
(* str(int), int(str), format                                           *)

(* decimal digits of n >= 0, least significant first; fuel = binary length *)
Fixpoint py_digits_le (fuel : nat) (n : Z) : list Z :=
  match fuel with
  | O => []
  | S f => if n <? 10 then [48 + n] else (48 + n mod 10) :: py_digits_le f (n / 10)
  end.
Definition py_str_of_nat (n : Z) : list Z := rev (py_digits_le (S (Z.to_nat (Z.log2 n))) n).
Definition py_str_of_int (n : Z) : list Z :=
  if n <? 0 then 45 :: py_str_of_nat (- n) else py_str_of_nat n.
Definition py_str_of_bool (b : bool) : list Z :=
  if b then [84; 114; 117; 101] else [70; 97; 108; 115; 101].

(* str(v), f"{v}" *)
Definition py_str_of_dyn (v : pyval) : res (list Z) :=
  match v with
  | VNone => Ok [78; 111; 110; 101]
  | VBool b => Ok (py_str_of_bool b)
  | VInt z => Ok (py_str_of_int z)
  | VStr s => Ok s
  | _ => Err OtherErr               (* repr of floats / containers / objects: not modelled *)
  end.

(* int(s) for a str s.  Modelled for ASCII text: optional blanks (\t \n \v \f \r space) around,
   optional sign, decimal digits with single underscores between them; everything else is
   ValueError.  NOT modelled: CPython also accepts non-ASCII decimal digits and blanks, and
   refuses more than 4300 digits. *)
Definition py_is_digit (c : Z) : bool := (48 <=? c) && (c <=? 57).
Definition py_is_space (c : Z) : bool := ((9 <=? c) && (c <=? 13)) || (c =? 32).
Fixpoint py_drop_space (s : list Z) : list Z :=
  match s with
  | c :: r => if py_is_space c then py_drop_space r else s
  | [] => []
  end.
Inductive py_dstate := PDStart | PDDigit | PDUnder.
Fixpoint py_digs (s : list Z) (acc : Z) (st : py_dstate) : option Z :=
  match s with
  | [] => match st with PDDigit => Some acc | _ => None end
  | c :: r =>
      if py_is_digit c then py_digs r (acc * 10 + (c - 48)) PDDigit
      else if c =? 95 then
        match st with PDDigit => py_digs r acc PDUnder | _ => None end
      else None
  end.
Definition py_int_of_str (s : list Z) : res Z :=
  let t := rev (py_drop_space (rev (py_drop_space s))) in
  let r := match t with
           | 43 :: r => py_digs r 0 PDStart
           | 45 :: r => match py_digs r 0 PDStart with Some v => Some (- v) | None => None end
           | _ => py_digs t 0 PDStart
           end in
  match r with Some v => Ok v | None => Err ValueErr end.

(* int(v) *)
Definition py_int_of_dyn (v : pyval) : res Z :=
  match v with
  | VInt z => Ok z
  | VBool b => Ok (py_int_of_bool b)
  | VStr s => py_int_of_str s
  | VFloat _ | VOther _ => Err OtherErr
  | _ => Err TypeErr
  end.

(* format(x, "[[fill]align][0][width]"): align 60 '<', 62 '>', 94 '^', 61 '=' (pad after the sign) *)
Definition py_pad (fill align width : Z) (sign body : list Z) : list Z :=
  let k := Z.to_nat (width - py_len sign - py_len body) in
  if align =? 60 then sign ++ body ++ repeat fill k
  else if align =? 62 then repeat fill k ++ sign ++ body
  else if align =? 94 then repeat fill (Nat.div2 k) ++ sign ++ body ++ repeat fill (k - Nat.div2 k)
  else sign ++ repeat fill k ++ body.
Definition py_format_int (fill align width n : Z) : list Z :=
  py_pad fill align width (if n <? 0 then [45] else []) (py_str_of_nat (Z.abs n)).
Definition py_format_str (fill align width : Z) (s : list Z) : list Z :=
  py_pad fill align width [] s.

(* s.startswith(p), s.endswith(p) *)
Fixpoint py_startswith (s p : list Z) : bool :=
  match p, s with
  | [], _ => true
  | x :: p', y :: s' => (x =? y) && py_startswith s' p'
  | _ :: _, [] => false
  end.
Definition py_endswith (s p : list Z) : bool := py_startswith (rev s) (rev p).

(* s.encode() = UTF-8; a lone surrogate raises UnicodeEncodeError, a ValueError *)
Definition py_utf8_char (c : Z) : list Z :=
  if c <? 128 then [c]
  else if c <? 2048 then [192 + c / 64; 128 + c mod 64]
  else if c <? 65536 then [224 + c / 4096; 128 + (c / 64) mod 64; 128 + c mod 64]
  else [240 + c / 262144; 128 + (c / 4096) mod 64; 128 + (c / 64) mod 64; 128 + c mod 64].
Definition py_is_surrogate (c : Z) : bool := (55296 <=? c) && (c <=? 57343).
Definition py_encode_utf8 (s : list Z) : res (list Z) :=
  if existsb py_is_surrogate s then Err ValueErr else Ok (flat_map py_utf8_char s).

(* a, b, c = seq: ValueError unless it has exactly the number of items *)
Definition py_unpack {A} (n : nat) (l : list A) : res (list A) :=
  if Nat.eqb (length l) n then Ok l else Err ValueErr.

(* any(p(x) for x in l), all(...): left to right, stop at the first true / false, errors propagate *)
Fixpoint py_any {A} (p : A -> res bool) (l : list A) : res bool :=
  match l with
  | [] => Ok false
  | x :: r => match p x with Ok true => Ok true | Ok false => py_any p r | Err e => Err e end
  end.
Fixpoint py_all {A} (p : A -> res bool) (l : list A) : res bool :=
  match l with
  | [] => Ok true
  | x :: r => match p x with Ok true => py_all p r | Ok false => Ok false | Err e => Err e end
  end.

(* sorted(l, key=f): the keys are computed first, left to right (an exception of f propagates); the result is
   the stable order by < on the keys (unique when < is a strict weak order, as it is on ints, strs and tuples of them) *)
Fixpoint py_mapM {A B} (f : A -> res B) (l : list A) : res (list B) :=
  match l with
  | [] => Ok []
  | x :: r => match f x with
              | Ok y => match py_mapM f r with Ok ys => Ok (y :: ys) | Err e => Err e end
              | Err e => Err e
              end
  end.
Fixpoint py_insert_keyed {A K} (ltb : K -> K -> bool) (x : K * A) (l : list (K * A)) : list (K * A) :=
  match l with
  | [] => [x]
  | y :: r => if ltb (fst y) (fst x) then y :: py_insert_keyed ltb x r else x :: l
  end.
Definition py_sort_keyed {A K} (ltb : K -> K -> bool) (l : list (K * A)) : list (K * A) :=
  fold_right (py_insert_keyed ltb) [] l.
Definition py_sorted_by {A K} (key : A -> res K) (ltb : K -> K -> bool) (l : list A) : res (list A) :=
  match py_mapM (fun x => match key x with Ok kx => Ok (kx, x) | Err e => Err e end) l with
  | Ok kl => Ok (map snd (py_sort_keyed ltb kl))
  | Err e => Err e
  end.
Definition py_sorted {A} (ltb : A -> A -> bool) (l : list A) : list A :=
  map snd (py_sort_keyed ltb (map (fun x => (x, x)) l)).
