(* C04/LemmasTree.v -- spans of tree nodes (LLP/Parse.v mk_node, step, parse):
   every tree built by the parse loop "covers" a range [i, j) of the non-skipped
   tokens; a leaf carries the span of its token, an inner node the span
   start(token i) .. end(token j-1), an empty node the empty span at start(token i). *)
From Coq Require Import ZArith List Bool Lia.
From AK Require Import Common.Err LLP.Base LLP.Parse.
Import ListNotations.

Section Tree.
  Variable toks : list token.

  Definition node_span (i j : nat) : span :=
    if (i <? j)%nat then (tok_start toks i, tok_end toks (j - 1))
    else (tok_start toks i, tok_start toks i).

  Inductive covers : tree -> nat -> nat -> Prop :=
  | cov_leaf : forall n i tk,
      nth_error toks i = Some tk -> sym_eqb (tname tk) n = true ->
      covers (Leaf n (tvalue tk) (tstart tk, tend tk)) i (S i)
  | cov_node : forall n ch i j,
      covers_list ch i j -> (i < length toks)%nat ->
      covers (Node n ch (node_span i j)) i j
  with covers_list : list tree -> nat -> nat -> Prop :=
  | cl_nil : forall i, covers_list [] i i
  | cl_cons : forall t r i k j, covers t i k -> covers_list r k j -> covers_list (t :: r) i j.

  Scheme covers_mut := Induction for covers Sort Prop
    with covers_list_mut := Induction for covers_list Sort Prop.
  Combined Scheme covers_both from covers_mut, covers_list_mut.

  Lemma nth_error_Some_lt' : forall A (l : list A) n x, nth_error l n = Some x -> (n < length l)%nat.
  Proof. intros. apply nth_error_Some. congruence. Qed.

  Lemma covers_bounds :
    (forall t i j, covers t i j -> (i <= j <= length toks)%nat /\ (i < length toks)%nat) /\
    (forall l i j, covers_list l i j -> (i <= j)%nat /\ ((i <= length toks)%nat -> (j <= length toks)%nat)).
  Proof.
    apply covers_both; intros.
    - apply nth_error_Some_lt' in e. lia.
    - lia.
    - lia.
    - lia.
  Qed.

  Lemma cl_cons_inv : forall t r i j, covers_list (t :: r) i j -> exists k, covers t i k /\ covers_list r k j.
  Proof. intros. inversion H; subst. eauto. Qed.
  Lemma cl_nil_inv : forall i j, covers_list [] i j -> i = j.
  Proof. intros. inversion H; subst. reflexivity. Qed.
  Lemma cov_node_inv : forall n ch sp i j, covers (Node n ch sp) i j ->
    covers_list ch i j /\ sp = node_span i j /\ (i < length toks)%nat.
  Proof. intros. inversion H; subst. auto. Qed.

  Lemma covers_list_app : forall a i k b j, covers_list a i k -> covers_list b k j -> covers_list (a ++ b) i j.
  Proof.
    induction a as [|t a IH]; intros i k b j A B; cbn [app].
    - apply cl_nil_inv in A. subst. exact B.
    - apply cl_cons_inv in A. destruct A as [k' [A1 A2]]. econstructor; eauto.
  Qed.

  Lemma covers_list_snoc_inv : forall a x i j, covers_list (a ++ [x]) i j ->
    exists k, covers_list a i k /\ covers x k j.
  Proof.
    induction a as [|t a IH]; intros x i j H; cbn [app] in H.
    - apply cl_cons_inv in H. destruct H as [k [A B]]. apply cl_nil_inv in B. subst. exists i. split; [constructor|auto].
    - apply cl_cons_inv in H. destruct H as [k [A B]]. apply IH in B. destruct B as [k' [B1 B2]].
      exists k'. split; auto. econstructor; eauto.
  Qed.

  Lemma covers_list_snoc : forall a x i k j, covers_list a i k -> covers x k j -> covers_list (a ++ [x]) i j.
  Proof. intros. eapply covers_list_app; eauto. econstructor; eauto. constructor. Qed.

  (* a tree that matched no token is an empty node at the following token *)
  Lemma covers_empty : forall t i, covers t i i -> exists n ch, t = Node n ch (tok_start toks i, tok_start toks i).
  Proof.
    intros t i H. inversion H; subst.
    - lia.
    - exists n, ch. unfold node_span. rewrite Nat.ltb_irrefl. reflexivity.
  Qed.

  Lemma covers_list_all_empty : forall l i, covers_list l i i ->
    Forall (fun t => tree_span t = (tok_start toks i, tok_start toks i)) l.
  Proof.
    induction l as [|t l IH]; intros i H; constructor.
    - apply cl_cons_inv in H. destruct H as [k [H3 H5]].
      destruct covers_bounds as [B1 B2]. pose proof (B1 _ _ _ H3). pose proof (B2 _ _ _ H5).
      assert (k = i) by lia. subst k. apply covers_empty in H3. destruct H3 as [n [ch ->]]. reflexivity.
    - apply cl_cons_inv in H. destruct H as [k [H3 H5]].
      destruct covers_bounds as [B1 B2]. pose proof (B1 _ _ _ H3). pose proof (B2 _ _ _ H5).
      assert (k = i) by lia. subst k. apply IH. exact H5.
  Qed.

  (* TElement(top.symbol, values, ...) of a completed production *)
  Lemma mk_node_covers : forall f,
    covers_list (fvals f) (fstart f) (fcur f) -> (fstart f < length toks)%nat ->
    covers (mk_node toks f) (fstart f) (fcur f).
  Proof.
    intros f C L. unfold mk_node.
    destruct covers_bounds as [_ B2]. pose proof (B2 _ _ _ C) as [LE _].
    destruct (fvals f) as [|v0 vs] eqn:V.
    - apply cl_nil_inv in C. rewrite C in *.
      replace (tok_start toks (fcur f), tok_start toks (fcur f)) with (node_span (fcur f) (fcur f)).
      + constructor; [constructor|]. lia.
      + unfold node_span. rewrite Nat.ltb_irrefl. reflexivity.
    - destruct (Nat.ltb_spec (fstart f) (fcur f)) as [A|A].
      + replace (tok_start toks (fstart f), tok_end toks (fcur f - 1)) with (node_span (fstart f) (fcur f)).
        * constructor; auto.
        * unfold node_span. replace (fstart f <? fcur f)%nat with true by (symmetry; apply Nat.ltb_lt; exact A). reflexivity.
      + assert (E : fcur f = fstart f) by lia. rewrite E in *.
        pose proof (covers_list_all_empty _ _ C) as F.
        assert (S1 : tree_span v0 = (tok_start toks (fstart f), tok_start toks (fstart f))).
        { inversion F; auto. }
        assert (S2 : tree_span (last (v0 :: vs) v0) = (tok_start toks (fstart f), tok_start toks (fstart f))).
        { rewrite Forall_forall in F. apply F. clear. generalize v0 at 1 3. induction vs; intros d; cbn [last]; auto.
          - left. reflexivity. - destruct vs; [right; left; reflexivity|]. right. apply (IHvs a). }
        rewrite S1, S2. cbn [fst snd].
        replace (tok_start toks (fstart f), tok_start toks (fstart f)) with (node_span (fstart f) (fstart f)).
        * constructor; auto.
        * unfold node_span. rewrite Nat.ltb_irrefl. reflexivity.
  Qed.

  Definition is_node (t : tree) : Prop := match t with Node _ _ _ => True | Leaf _ _ _ => False end.

  Lemma mk_node_is_node : forall f, is_node (mk_node toks f).
  Proof. intros. unfold mk_node. destruct (fvals f); [exact I|]. destruct (fstart f <? fcur f)%nat; exact I. Qed.

  Lemma splice_is_node : forall sfxs prod t, is_node t -> is_node (splice sfxs prod t).
  Proof.
    intros sfxs prod t H. destruct t; [contradiction|]. cbn [splice].
    destruct prod; auto. destruct (mem _ sfxs); exact I.
  Qed.

  (* merging the children of a trailing suffix element keeps the range and the span *)
  Lemma splice_covers : forall sfxs prod t i j,
    covers t i j -> is_node t ->
    (prod <> [] -> mem (last prod []) sfxs = true ->
       tree_children t <> [] /\ is_node (last (tree_children t) t)) ->
    covers (splice sfxs prod t) i j.
  Proof.
    intros sfxs prod t i j C N H. destruct t as [|n ch sp]; [contradiction|]. cbn [splice].
    destruct prod as [|s prod]; auto.
    destruct (mem (last (s :: prod) []) sfxs) eqn:M; auto.
    destruct H as [NE LN]; [discriminate|reflexivity|]. cbn [tree_children] in *.
    apply cov_node_inv in C. destruct C as [H2 [Esp Li]]. subst sp.
    assert (LL : forall d d', last ch d = last ch d').
    { clear -NE. induction ch; intros; [contradiction|]. destruct ch; auto. cbn [last] in *. apply IHch. discriminate. }
    rewrite (LL _ (Node n ch (node_span i j))).
    rewrite (app_removelast_last (Node n ch (node_span i j)) NE) in H2.
    apply covers_list_snoc_inv in H2. destruct H2 as [k [A B]].
    destruct (last ch (Node n ch (node_span i j))) as [|n' ch' sp']; [contradiction|].
    cbn [tree_children]. apply cov_node_inv in B. destruct B as [B _].
    constructor; auto. eapply covers_list_app; eauto.
  Qed.

  (* ---------------- the stack invariant ---------------- *)
  Variable is_term : sym -> bool.
  Variable table : sym -> sym -> list rule.
  Variable sfxs : list sym.
  Hypothesis Hsfx : forall s, mem s sfxs = true -> is_term s = false.

  Definition frame_ok (f : frame) : Prop :=
    covers_list (fvals f) (fstart f) (fcur f) /\ (fstart f < length toks)%nat /\
    (forall k v s, nth_error (fvals f) k = Some v -> nth_error (cur_prod f) k = Some s ->
                   is_term s = false -> is_node v).

  Fixpoint stack_ok (st : list frame) : Prop :=
    match st with
    | [] => True
    | f :: rest =>
        frame_ok f /\
        match rest with
        | [] => fstart f = 0%nat
        | par :: _ => fstart f = fcur par /\
                      nth_error (cur_prod par) (length (fvals par)) = Some (fsym f) /\
                      is_term (fsym f) = false
        end /\ stack_ok rest
    end.

  Lemma rollback_ok : forall st st', stack_ok st -> rollback st = Some st' -> stack_ok st'.
  Proof.
    induction st as [|f rest IH]; intros st' S R; cbn [rollback] in R; [discriminate|].
    destruct S as [[C [L K]] [Lk S]].
    destruct (falts f) as [|r1 [|r2 more]] eqn:A.
    - apply IH; auto.
    - apply IH; auto.
    - inversion R; subst. cbn [stack_ok]. split; [|split; [destruct rest; auto|auto]].
      unfold frame_ok. cbn [fvals fstart fcur]. split; [constructor|]. split; auto.
      intros k v s Hn. destruct k; discriminate.
  Qed.

  Lemma nth_error_snoc_cases : forall A (l : list A) x k v, nth_error (l ++ [x]) k = Some v ->
    (nth_error l k = Some v /\ (k < length l)%nat) \/ (k = length l /\ v = x).
  Proof.
    intros A l x k v H. destruct (Nat.lt_ge_cases k (length l)) as [L|L].
    - left. rewrite nth_error_app1 in H; auto.
    - right. rewrite nth_error_app2 in H; auto.
      destruct (k - length l)%nat eqn:E; cbn [nth_error] in H.
      + inversion H. split; auto. lia.
      + destruct n; discriminate.
  Qed.

  Lemma next_matched_ok : forall f v newpos,
    frame_ok f -> covers v (fcur f) newpos ->
    (forall s, nth_error (cur_prod f) (length (fvals f)) = Some s -> is_term s = false -> is_node v) ->
    frame_ok (next_matched f v newpos).
  Proof.
    intros f v newpos [C [L K]] Cv Kv. unfold frame_ok, next_matched. cbn [fvals fstart fcur].
    split; [eapply covers_list_snoc; eauto|]. split; auto.
    intros k v' s Hn Hs Ht. unfold cur_prod in *. cbn [falts] in Hs.
    apply nth_error_snoc_cases in Hn. destruct Hn as [[Hn _]|[-> ->]]; eauto.
  Qed.

  Lemma step_ok : forall st,
    stack_ok st ->
    match step is_term table sfxs toks st with
    | Running st' => stack_ok st'
    | Done root => exists j, covers root 0 j
    | _ => True
    end.
  Proof.
    intros st S. unfold step. destruct st as [|top rest]; auto.
    destruct (falts top) as [|cur more] eqn:A; auto.
    destruct S as [[C [L K]] [Lk S]].
    destruct (Nat.eqb_spec (length (fvals top)) (length (rprod cur))) as [E|E].
    - (* production matched *)
      assert (CP : cur_prod top = rprod cur) by (unfold cur_prod; rewrite A; reflexivity).
      assert (T : covers (splice sfxs (rprod cur) (mk_node toks top)) (fstart top) (fcur top)).
      { apply splice_covers; [apply mk_node_covers; auto|apply mk_node_is_node|].
        intros NE M.
        assert (V : fvals top <> []). { intros X. rewrite X in E. destruct (rprod cur); [contradiction|discriminate]. }
        assert (CH : tree_children (mk_node toks top) = fvals top).
        { unfold mk_node. destruct (fvals top); [contradiction|]. destruct (fstart top <? fcur top)%nat; reflexivity. }
        rewrite CH. split; auto.
        (* the last child belongs to the suffix symbol, a non-terminal *)
        destruct (exists_last V) as [vs [vl EV]]. destruct (exists_last NE) as [ps [pl EP]].
        rewrite EV. rewrite last_last.
        apply (K (length vs) vl pl).
        - rewrite EV. rewrite nth_error_app2; auto. rewrite Nat.sub_diag. reflexivity.
        - rewrite CP, EP. assert (length vs = length ps).
          { rewrite EV, EP in E. rewrite !app_length in E. cbn [length] in E. lia. }
          rewrite H. rewrite nth_error_app2; auto. rewrite Nat.sub_diag. reflexivity.
        - apply Hsfx. rewrite EP in M. rewrite last_last in M. exact M. }
      destruct rest as [|par rest'].
      + destruct (tree_children (splice sfxs (rprod cur) (mk_node toks top))) as [|root [|x [|y l]]] eqn:TC; auto.
        assert (N : is_node (splice sfxs (rprod cur) (mk_node toks top))) by (apply splice_is_node, mk_node_is_node).
        destruct (splice sfxs (rprod cur) (mk_node toks top)) as [|n ch sp]; [contradiction|].
        cbn [tree_children] in TC. subst ch. apply cov_node_inv in T. destruct T as [T _].
        apply cl_cons_inv in T. destruct T as [k [T _]]. rewrite Lk in T. eauto.
      + destruct Lk as [L1 [L2 L3]]. destruct S as [Fp Sp]. cbn [stack_ok]. split; [|exact Sp].
        apply next_matched_ok; auto.
        * rewrite <- L1. exact T.
        * intros s _ _. apply splice_is_node, mk_node_is_node.
    - destruct (nth_error toks (fcur top)) as [tk|] eqn:NT; auto.
      destruct (nth_error (rprod cur) (length (fvals top))) as [cs|] eqn:NC; auto.
      destruct (is_term cs) eqn:IT.
      + destruct (sym_eqb (tname tk) cs) eqn:SE.
        * cbn [stack_ok]. split; [|split; [destruct rest; auto|auto]].
          apply next_matched_ok; [split; auto|constructor; auto|].
          intros s Hs Ht. unfold cur_prod in Hs. rewrite A in Hs. congruence.
        * destruct (rollback (top :: rest)) as [st'|] eqn:R; auto.
          eapply rollback_ok; [|exact R]. cbn [stack_ok]. repeat split; auto.
      + destruct (table cs (tname tk)) as [|p1 prods] eqn:TB.
        * destruct (rollback (top :: rest)) as [st'|] eqn:R; auto.
          eapply rollback_ok; [|exact R]. cbn [stack_ok]. repeat split; auto.
        * cbn [stack_ok]. split; [|split].
          -- unfold frame_ok. cbn [fvals fstart fcur]. split; [constructor|].
             split; [eapply nth_error_Some_lt'; eauto|]. intros k v s Hn. destruct k; discriminate.
          -- cbn [fstart fsym]. split; auto. split; auto. unfold cur_prod. rewrite A. exact NC.
          -- repeat split; auto.
  Qed.

  Lemma run_pow_ok : forall k st, stack_ok st ->
    match run_pow is_term table sfxs toks k st with
    | Running st' => stack_ok st'
    | Done root => exists j, covers root 0 j
    | _ => True
    end.
  Proof.
    induction k as [|k IH]; intros st S; cbn [run_pow].
    - apply step_ok; auto.
    - pose proof (IH st S) as H1.
      destruct (run_pow is_term table sfxs toks k st) as [st'|t| |]; auto.
      apply IH. exact H1.
  Qed.

  Theorem parse_covers : forall k start root, toks <> [] ->
    parse is_term table sfxs toks k start = Ok root -> exists j, covers root 0 j.
  Proof.
    intros k start root NE H. unfold parse in H.
    assert (S : stack_ok (init_stack start)).
    { cbn [init_stack stack_ok]. split; [|auto]. unfold frame_ok. cbn [fvals fstart fcur].
      split; [constructor|]. split; [destruct toks; [contradiction|cbn [length]; lia]|].
      intros k' v s Hn. destruct k'; discriminate. }
    pose proof (run_pow_ok k _ S) as R.
    destruct (run_pow is_term table sfxs toks k (init_stack start)); cbn [result_of] in H; try discriminate.
    inversion H; subst. exact R.
  Qed.

  (* ---------------- what "covers" says about spans ---------------- *)
  Lemma tok_start_nth : forall i tk, nth_error toks i = Some tk -> tok_start toks i = tstart tk.
  Proof. intros. unfold tok_start. rewrite H. reflexivity. Qed.
  Lemma tok_end_nth : forall i tk, nth_error toks i = Some tk -> tok_end toks i = tend tk.
  Proof. intros. unfold tok_end. rewrite H. reflexivity. Qed.

  Lemma leaf_span_l : forall n v sp i j, covers (Leaf n v sp) i j ->
    exists tk, nth_error toks i = Some tk /\ j = S i /\ v = tvalue tk /\ sp = (tstart tk, tend tk) /\
               sym_eqb (tname tk) n = true.
  Proof. intros. inversion H; subst. exists tk. auto. Qed.

  Lemma node_span_l : forall n ch sp i j, covers (Node n ch sp) i j -> (i < j)%nat ->
    exists a b, nth_error toks i = Some a /\ nth_error toks (j - 1) = Some b /\ sp = (tstart a, tend b).
  Proof.
    intros n ch sp i j H L. destruct covers_bounds as [B1 _]. pose proof (B1 _ _ _ H) as [B _].
    apply cov_node_inv in H. destruct H as [_ [-> Li]].
    destruct (nth_error toks i) as [a|] eqn:Na; [|apply nth_error_None in Na; lia].
    destruct (nth_error toks (j - 1)) as [b|] eqn:Nb; [|apply nth_error_None in Nb; lia].
    exists a, b. repeat split; auto. unfold node_span.
    replace (i <? j)%nat with true by (symmetry; apply Nat.ltb_lt; exact L).
    rewrite (tok_start_nth _ _ Na), (tok_end_nth _ _ Nb). reflexivity.
  Qed.

  Lemma empty_node_span_l : forall n ch sp i, covers (Node n ch sp) i i ->
    exists a, nth_error toks i = Some a /\ sp = (tstart a, tstart a).
  Proof.
    intros n ch sp i H. apply cov_node_inv in H. destruct H as [_ [-> Li]].
    destruct (nth_error toks i) as [a|] eqn:Na; [|apply nth_error_None in Na; lia].
    exists a. split; auto. unfold node_span. rewrite Nat.ltb_irrefl. rewrite (tok_start_nth _ _ Na). reflexivity.
  Qed.

  (* every node of the tree is covered, inside the range of its parent *)
  Inductive subtree : tree -> tree -> Prop :=
  | sub_refl : forall t, subtree t t
  | sub_child : forall s c n ch sp, In c ch -> subtree s c -> subtree s (Node n ch sp).

  Lemma covers_list_in : forall l i j c, covers_list l i j -> In c l ->
    exists i' j', covers c i' j' /\ (i <= i')%nat /\ (j' <= j)%nat.
  Proof.
    induction l as [|t l IH]; intros i j c H I; [contradiction|].
    apply cl_cons_inv in H. destruct H as [k [H3 H5]]. destruct covers_bounds as [B1 B2].
    pose proof (B1 _ _ _ H3) as [Bt _]. pose proof (B2 _ _ _ H5) as [Bl _].
    destruct I as [->|I].
    - exists i, k. split; [auto|lia].
    - destruct (IH _ _ _ H5 I) as [i' [j' [C [A B]]]]. exists i', j'. split; [auto|lia].
  Qed.

  Lemma covers_subtree : forall s t, subtree s t -> forall i j, covers t i j ->
    exists i' j', covers s i' j' /\ (i <= i')%nat /\ (j' <= j)%nat.
  Proof.
    induction 1; intros i j C.
    - exists i, j. split; [auto|lia].
    - apply cov_node_inv in C. destruct C as [H5 _]. destruct (covers_list_in _ _ _ _ H5 H) as [i1 [j1 [C1 [A1 B1]]]].
      destruct (IHsubtree _ _ C1) as [i2 [j2 [C2 [A2 B2]]]]. exists i2, j2. split; [auto|lia].
  Qed.
End Tree.
