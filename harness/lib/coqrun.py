"""Building the Coq development and evaluating models with vm_compute."""
import fcntl
import os
import re
import shutil
import subprocess
import time
from concurrent.futures import ThreadPoolExecutor

VERIF = os.path.dirname(os.path.dirname(os.path.dirname(os.path.abspath(__file__))))
COQ = os.path.join(VERIF, "coq")
WORK = os.path.join(VERIF, ".work")
JOBS = int(os.environ.get("VERIF_JOBS", "12"))

COQPROJECT_HEADER = "-R . AK\n-arg -w -arg -notation-overridden,-deprecated-hint-without-locality,-deprecated-instance-without-locality\n"

FORBIDDEN = re.compile(
    r"\b(Admitted|admit|Axiom|Axioms|Parameter|Parameters|Conjecture|Conjectures|"
    r"Admit\s+Obligations|bypass_check|native_compute)\b|Unset\s+Guard|"
    r"Unset\s+Positivity|Unset\s+Universe\s+Checking|type-in-type|impredicative-set")


class Lock:
    def __enter__(self):
        os.makedirs(COQ, exist_ok=True)
        self.f = open(os.path.join(COQ, ".lock"), "w")
        fcntl.flock(self.f, fcntl.LOCK_EX)
        return self

    def __exit__(self, *a):
        fcntl.flock(self.f, fcntl.LOCK_UN)
        self.f.close()


def all_v_files():
    out = []
    for root, dirs, files in os.walk(COQ):
        dirs[:] = [d for d in dirs if not d.startswith(".")]
        for f in files:
            if f.endswith(".v"):
                out.append(os.path.relpath(os.path.join(root, f), COQ))
    return sorted(out)


def _write_if_changed(path, text):
    try:
        with open(path) as f:
            if f.read() == text:
                return False
    except FileNotFoundError:
        pass
    os.makedirs(os.path.dirname(path), exist_ok=True)
    with open(path, "w") as f:
        f.write(text)
    return True


def write_gen(name, text):
    """write coq/gen/<name>.v if its content changed (keeps make incremental)"""
    return _write_if_changed(os.path.join(COQ, "gen", name + ".v"), text)


def ensure_makefile():
    """(re)generate _CoqProject and Makefile.coq when the file list changed.
    Call with the Lock held."""
    text = COQPROJECT_HEADER + "\n".join(all_v_files()) + "\n"
    changed = _write_if_changed(os.path.join(COQ, "_CoqProject"), text)
    mk = os.path.join(COQ, "Makefile.coq")
    if changed or not os.path.exists(mk):
        subprocess.run(["coq_makefile", "-f", "_CoqProject", "-o", "Makefile.coq"],
                       cwd=COQ, check=True, stdout=subprocess.DEVNULL, stderr=subprocess.DEVNULL)


def make(targets, timeout=1500, jobs=None):
    """Full .vo build of the given targets (paths relative to coq/, '.vo').
    Returns (ok, log).  Takes the lock."""
    with Lock():
        ensure_makefile()
        cmd = ["timeout", str(timeout), "make", "-f", "Makefile.coq", "-k",
               "-j", str(jobs or JOBS)] + list(targets)
        p = subprocess.run(cmd, cwd=COQ, stdout=subprocess.PIPE, stderr=subprocess.STDOUT, text=True)
        return p.returncode == 0, p.stdout


def _big_stack():
    """coqc prints long vm_compute results recursively: give it the largest stack the system allows"""
    import resource
    try:
        soft, hard = resource.getrlimit(resource.RLIMIT_STACK)
        want = hard if hard != resource.RLIM_INFINITY else resource.RLIM_INFINITY
        resource.setrlimit(resource.RLIMIT_STACK, (want, hard))
    except Exception:
        pass


def coqc(path, timeout=600, cwd=None, top=None):
    cmd = ["timeout", str(timeout), "coqc", "-R", COQ, "AK",
           "-w", "-notation-overridden,-deprecated-hint-without-locality,-deprecated-instance-without-locality"]
    if top:
        cmd += ["-top", top]
    cmd.append(path)
    p = subprocess.run(cmd, cwd=cwd or COQ, stdout=subprocess.PIPE, stderr=subprocess.STDOUT, text=True,
                       preexec_fn=_big_stack)
    return p.returncode, p.stdout


def check_props(props_rel, timeout=600):
    """Compile a Props.v (after its dependencies were made) in a scratch place
    and collect `Print Assumptions` output.
    Returns dict(ok, log, theorems=[names], assumptions={thm: 'closed' | [axioms]})."""
    src = os.path.join(COQ, props_rel)
    wd = workdir()
    top = "Chk_" + re.sub(r"\W", "_", props_rel[:-2])
    dst = os.path.join(wd, top + ".v")
    shutil.copy(src, dst)
    rc, out = coqc(dst, timeout=timeout, cwd=wd, top=top)
    text = open(src).read()
    thms = re.findall(r"^\s*(?:Theorem|Lemma|Example|Corollary|Fact|Remark)\s+([\w']+)", text, re.M)
    printed = re.findall(r"^\s*Print\s+Assumptions\s+([\w'.]+)\s*\.", text, re.M)
    # split the output into one block per Print Assumptions, in order
    blocks = re.split(r"(?m)^(?=Closed under the global context|Axioms:)", out)
    blocks = [b for b in blocks if b.startswith("Closed under") or b.startswith("Axioms:")]
    assumptions = {}
    for name, b in zip(printed, blocks):
        if b.startswith("Closed under"):
            assumptions[name] = "closed"
        else:
            axs = re.findall(r"(?m)^([\w'.]+)\s*:", b[len("Axioms:"):])
            assumptions[name] = axs
    ok = rc == 0 and len(blocks) == len(printed)
    return {"ok": ok, "log": out, "theorems": thms, "printed": printed, "assumptions": assumptions}


def coqchk(props_rel, timeout=2400):
    """Re-check the compiled Props module and everything it depends on with the independent checker
    (`coqchk -o`), after building its .vo.  Returns dict(ok, axioms=[...], log, seconds)."""
    t0 = time.time()
    vo = props_rel[:-2] + ".vo"
    ok_m, log_m = make([vo])
    if not ok_m:
        return {"ok": False, "axioms": None, "log": log_m[-1500:], "seconds": round(time.time() - t0, 1)}
    logical = "AK." + props_rel[:-2].replace("/", ".")
    p = subprocess.run(["timeout", str(timeout), "coqchk", "-silent", "-o", "-R", COQ, "AK", logical],
                       cwd=COQ, stdout=subprocess.PIPE, stderr=subprocess.STDOUT, text=True)
    out = p.stdout
    m = re.search(r"\* Axioms:(.*?)\n\s*\n\* Constants/Inductives relying on type-in-type:(.*?)\n\s*\n"
                  r"\* Constants/Inductives relying on unsafe \(co\)fixpoints:(.*?)\n\s*\n"
                  r"\* Inductives whose positivity is assumed:(.*?)\n", out, re.S)
    axioms = None
    clean = False
    if m:
        parts = [x.strip() for x in m.groups()]
        axioms = [] if parts[0] == "<none>" else [l.strip() for l in parts[0].split("\n") if l.strip()]
        clean = all(x == "<none>" for x in parts[1:])
    return {"ok": p.returncode == 0 and m is not None and clean, "axioms": axioms, "log": out[-1500:],
            "seconds": round(time.time() - t0, 1)}


def grep_forbidden(rel_dirs):
    """Scan .v sources (comments stripped) for forbidden vernacular. -> list of 'file:line: text'"""
    hits = []
    for d in rel_dirs:
        base = os.path.join(COQ, d)
        paths = []
        if os.path.isfile(base):
            paths = [base]
        else:
            for root, _, files in os.walk(base):
                paths += [os.path.join(root, f) for f in files if f.endswith(".v")]
        for p in sorted(paths):
            text = strip_comments(open(p).read())
            for i, line in enumerate(text.split("\n"), 1):
                if FORBIDDEN.search(line):
                    hits.append(f"{os.path.relpath(p, COQ)}:{i}: {line.strip()}")
    return hits


def strip_comments(text):
    out, depth, i, n = [], 0, 0, len(text)
    in_str = False
    while i < n:
        c = text[i]
        if depth == 0 and c == '"':
            in_str = not in_str
            out.append(c)
            i += 1
        elif not in_str and text.startswith("(*", i):
            depth += 1
            i += 2
        elif not in_str and depth and text.startswith("*)", i):
            depth -= 1
            i += 2
        else:
            out.append(c if depth == 0 else ("\n" if c == "\n" else ""))
            i += 1
    return "".join(out)


_workdir = None


def workdir():
    global _workdir
    if _workdir is None:
        _workdir = os.path.join(WORK, f"{os.getpid()}_{int(time.time())}")
        os.makedirs(_workdir, exist_ok=True)
    return _workdir


def cleanup():
    global _workdir
    if _workdir and os.path.isdir(_workdir):
        shutil.rmtree(_workdir, ignore_errors=True)
    _workdir = None


CASE_HEADER = """From Coq Require Import ZArith List String.
From AK Require Import Common.Sx Common.Err {run_mod}.
Import ListNotations.
Set Printing Width 1000000.
Set Printing Depth 1000000.
"""


def _eval_shard(args):
    idx, run_mod, terms, timeout, prelude = args
    wd = workdir()
    top = f"Cases_{idx}"
    path = os.path.join(wd, top + ".v")
    with open(path, "w") as f:
        f.write(CASE_HEADER.format(run_mod=run_mod))
        if prelude:
            f.write(prelude + "\n")
        f.write("Definition cases : list case := [\n")
        f.write(";\n".join(terms))
        f.write("\n].\n")
        f.write("Eval vm_compute in (show_lines (map run cases)).\n")
    rc, out = coqc(path, timeout=timeout, cwd=wd, top=top)
    if rc != 0 and "Stack overflow" in out and len(terms) > 1:
        # the printed result of the shard was too long for coqc's stack: evaluate it in two halves
        h = len(terms) // 2
        _, l1, e1 = _eval_shard((f"{idx}a", run_mod, terms[:h], timeout, prelude))
        _, l2, e2 = _eval_shard((f"{idx}b", run_mod, terms[h:], timeout, prelude))
        if l1 is not None and l2 is not None:
            return idx, l1 + l2, ""
        return idx, None, e1 or e2
    if rc != 0:
        return idx, None, out
    m = re.search(r'=\s*"(.*)"\s*:\s*string', out, re.S)
    if not m:
        return idx, None, out
    lines = m.group(1).split("\n")
    if lines and lines[-1] == "":
        lines.pop()
    if len(lines) != len(terms):
        return idx, None, f"expected {len(terms)} lines, got {len(lines)}\n" + out[:2000]
    return idx, lines, ""


def eval_cases(run_mod, terms, shard=300, timeout=900, prelude=""):
    """Evaluate `run` of module `run_mod` (e.g. 'C20.Run') on Coq case terms.
    Returns (lines or None-per-failed-shard list, errors)."""
    shards = [terms[i:i + shard] for i in range(0, len(terms), shard)]
    jobs = [(i, run_mod, sh, timeout, prelude) for i, sh in enumerate(shards)]
    results = [None] * len(terms)
    errors = []
    with ThreadPoolExecutor(max_workers=JOBS) as ex:
        for idx, lines, errtxt in ex.map(_eval_shard, jobs):
            if lines is None:
                errors.append((idx * shard, min(len(terms), (idx + 1) * shard), errtxt))
            else:
                results[idx * shard: idx * shard + len(lines)] = lines
    return results, errors
