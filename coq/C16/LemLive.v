(* C16/LemLive.v -- no deadlock: in every state satisfying the invariant in which
   some thread still has work, some thread can make a step that changes the state *)
From Coq Require Import ZArith List Bool Lia Permutation.
From AK Require Import C16.Instr gen.C16_Consts C16.Model C16.LemList C16.LemInv.
Import ListNotations.
Open Scope Z_scope.

Lemma set_nth_changes {A} (l : list A) t x y :
  nth_error l t = Some x -> y <> x -> set_nth l t y <> l.
Proof.
  intros Hn Hne E. pose proof (nth_error_set_nth_eq l t y x Hn) as H.
  rewrite E, Hn in H. congruence.
Qed.

Lemma thread_done_dec (th : thread) : {code th = [] /\ todo th = []} + {~ (code th = [] /\ todo th = [])}.
Proof.
  destruct (code th); [|right; intros [H _]; discriminate].
  destruct (todo th); [left; auto|right; intros [_ H]; discriminate].
Qed.

Section Live.
Variable cp : str.
Variables (prog cs0 : list instr) (r0 : nat).
Hypothesis Hprog : prog = ICheck :: IAcquire :: cs0 ++ [IRelease; IEmit r0].
Variable c0 : Z.
Variable Rs : list (list headers).

Lemma code_neq (th th' : thread) : code th' <> code th -> th' <> th.
Proof. intros H E. apply H. rewrite E. reflexivity. Qed.

Lemma threads_neq st lk c l : l <> threads st -> mkS lk c l <> st.
Proof. intros H E. apply H. rewrite <- E. reflexivity. Qed.

Lemma lock_neq st lk c l : lk <> lock st -> mkS lk c l <> st.
Proof. intros H E. apply H. rewrite <- E. reflexivity. Qed.

Lemma progress_l st :
  Inv cp prog cs0 r0 c0 Rs st -> ~ finished st -> exists t, step cp prog st t <> st.
Proof.
  intros (Hlen & k & cval & Hctr & Hperm & Hhist & Hout & Hlock) Hnf.
  destruct (lock st) as [t0|] eqn:Hl.
  - (* the holder of the lock can move *)
    destruct Hlock as (th0 & Hn & Hsup & rest & off & ar & ar' & Hc & Hcv & Hregs & Habs & Hr0).
    exists t0. unfold step. rewrite Hn, Hc.
    destruct rest as [|j rest]; cbn [app].
    + rewrite Hl. apply lock_neq. rewrite Hl. discriminate.
    + apply abs_cs_head in Habs as [(r & -> & _)|(r & k1 & -> & _ & _)].
      * rewrite Hctr. apply threads_neq. apply (set_nth_changes _ _ th0); [exact Hn|].
        apply code_neq. cbn [code]. rewrite Hc. cbn [app]. intros E.
        apply (f_equal (@length instr)) in E. cbn [length] in E. lia.
      * apply threads_neq. apply (set_nth_changes _ _ th0); [exact Hn|].
        apply code_neq. cbn [code]. rewrite Hc. cbn [app]. intros E.
        apply (f_equal (@length instr)) in E. cbn [length] in E. lia.
  - (* nobody holds the lock: any thread with work can move *)
    unfold finished in Hnf.
    apply (neg_Forall_Exists_neg thread_done_dec) in Hnf.
    apply Exists_exists in Hnf as (th & Hin & Hwork).
    apply In_nth_error in Hin as (t & Hn).
    exists t. unfold step. rewrite Hn.
    assert (Ho : outside prog cs0 r0 th) by (apply (Hout t th); [discriminate|exact Hn]).
    destruct Ho as [Hc|Hc|Hc Hs|Hc Hs|Hc Hs]; rewrite Hc.
    + destruct (todo th) as [|h rest] eqn:Ht; [exfalso; apply Hwork; auto|].
      apply threads_neq. apply (set_nth_changes _ _ th); [exact Hn|].
      apply code_neq. cbn [code]. rewrite Hc, Hprog. discriminate.
    + rewrite Hprog, Hctr.
      destruct (supplied_test (hdrs th)); apply threads_neq;
        apply (set_nth_changes _ _ th); try exact Hn;
        apply code_neq; cbn [code]; rewrite Hc, Hprog; discriminate.
    + apply threads_neq. apply (set_nth_changes _ _ th); [exact Hn|].
      apply code_neq. cbn [finish code]. rewrite Hc. discriminate.
    + rewrite Hl. apply lock_neq. rewrite Hl. discriminate.
    + apply threads_neq. apply (set_nth_changes _ _ th); [exact Hn|].
      apply code_neq. cbn [finish code]. rewrite Hc. discriminate.
Qed.

End Live.
