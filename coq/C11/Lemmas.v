(* C11/Lemmas.v -- proofs about the model of ak/ppobj.py PrettyPrinter:
   obligations on the constants read from the source, lines_lossless, the
   round trip, key order, lists. *)
From Coq Require Import ZArith List Bool Lia Sorting.Sorted Sorting.Permutation.
From AK Require Import gen.C11_Consts C11.Model C11.Reader C11.LemmasBase C11.LemmasLex C11.LemmasParse.
Import ListNotations.

(* ------------------------------------------------------------------ *)
(* obligations on the constants read from the source                    *)

(* the tables hold the literals of the two languages *)
Lemma lit_json_spec :
  lit Json KwTrue = [116; 114; 117; 101]%Z /\ lit Json KwFalse = [102; 97; 108; 115; 101]%Z /\
  lit Json KwNone = [110; 117; 108; 108]%Z.
Proof. vm_compute. repeat split. Qed.

Lemma lit_py_spec :
  lit Py KwTrue = [84; 114; 117; 101]%Z /\ lit Py KwFalse = [70; 97; 108; 115; 101]%Z /\
  lit Py KwNone = [78; 111; 110; 101]%Z.
Proof. vm_compute. repeat split. Qed.

(* ------------------------------------------------------------------ *)
(* lines_lossless: joining the lines with "\n" gives the chunk texts in
   order with one "\n" per line break; nothing is lost at a line boundary  *)

Definition ends_text (cs : list chunk) : Prop :=
  match last cs None with Some _ => True | None => False end.

Lemma sep_join_false {X} (sep : list X) p r : sep_join sep false (p :: r) = sep ++ sep_join sep true (p :: r).
Proof. reflexivity. Qed.

Lemma group_none r cur : group (None :: r) cur = rev cur :: group r [].
Proof. reflexivity. Qed.
Lemma group_some t r cur : group (Some t :: r) cur = group r (t :: cur).
Proof. reflexivity. Qed.

Lemma group_nonempty cs : forall cur, ends_text cs -> group cs cur <> [].
Proof.
  induction cs as [|c r IH]; intros cur H; [contradiction|].
  destruct c as [t|]; cbn [group]; [|discriminate].
  destruct r as [|c2 r2]; [cbn; discriminate|]. apply IH. exact H.
Qed.

Lemma ends_text_tail c c2 r : ends_text (c :: c2 :: r) -> ends_text (c2 :: r).
Proof. intros H; exact H. Qed.

Lemma group_flat cs : forall cur, ends_text cs ->
  join_nl (map (@concat Z) (group cs cur)) = concat (rev cur) ++ flat cs.
Proof.
  unfold join_nl. induction cs as [|c r IH]; intros cur H; [contradiction|].
  destruct c as [t|].
  - rewrite group_some. destruct r as [|c2 r2].
    + cbn [group map sep_join rev app]. rewrite concat_app. cbn [concat flat map ctext]. rewrite !app_nil_r. reflexivity.
    + rewrite IH by (eapply ends_text_tail; exact H). cbn [rev]. rewrite concat_app. cbn [concat].
      rewrite app_nil_r, <- app_assoc. reflexivity.
  - destruct r as [|c2 r2]; [contradiction|].
    rewrite group_none. cbn [map sep_join app]. pose proof (group_nonempty (c2 :: r2) [] H) as Hne.
    destruct (group (c2 :: r2) []) as [|g gs] eqn:Eg; [congruence|].
    cbn [map]. rewrite sep_join_false. rewrite <- (map_cons (@concat Z) g gs), <- Eg.
    rewrite IH by exact H. reflexivity.
Qed.

Lemma last_snoc2 {X} (l : list X) a b d : last (l ++ [a; b]) d = b.
Proof. change [a; b] with ([a] ++ [b]). rewrite app_assoc. apply last_last. Qed.

Lemma gen_ends m v off : ends_text (gen m v off).
Proof.
  unfold ends_text.
  destruct v as [k|a|s|l|d]; try exact I.
  - destruct l as [|x l']; [exact I|]. rewrite gen_list_eq by discriminate.
    destruct (forallb is_simple (x :: l')).
    + destruct (_ <? _)%Z.
      * unfold list_one. rewrite app_assoc, last_last. exact I.
      * unfold list_wrap. rewrite app_assoc, last_last. exact I.
    + unfold list_multi. rewrite app_assoc, last_snoc2. exact I.
  - destruct d as [|p d']; [exact I|]. rewrite gen_dict_eq by discriminate.
    destruct (_ && _).
    + unfold dict_one. rewrite app_assoc, last_last. exact I.
    + unfold dict_multi. rewrite app_assoc, last_snoc2. exact I.
Qed.

Lemma lines_lossless_l m v : plain_text m v = flat (gen m v 0).
Proof. unfold plain_text, gen_lines. rewrite group_flat by apply gen_ends. reflexivity. Qed.

(* ------------------------------------------------------------------ *)
(* round trip                                                           *)

Lemma read_flat m v off : wf v = true -> read (flat (gen m v off)) = Some (tree_of m v).
Proof.
  intros Hw. unfold read. rewrite <- (app_nil_r (flat (gen m v off))).
  rewrite (lex_gen m v Hw off [] I). cbn [lex]. rewrite app_nil_r. apply parse_ttoks.
Qed.

Lemma roundtrip_l m v : wf v = true -> read (plain_text m v) = Some (tree_of m v).
Proof. intros Hw. rewrite lines_lossless_l. apply read_flat. exact Hw. Qed.

(* ------------------------------------------------------------------ *)
(* key order                                                            *)

Lemma keys_sorted_l m d :
  exists sd, tree_of m (VDict d) = PDict (map (fun kv => (pkey_of (fst kv), tree_of m (snd kv))) sd)
             /\ Permutation sd d
             /\ StronglySorted (fun a b => key_leb (fst a) (fst b) = true) sd.
Proof.
  exists (isort d). split; [apply tree_of_dict|]. split; [apply isort_perm|apply isort_strongly_sorted].
Qed.

Lemma key_order_l :
  (forall a b, key_leb a b = true \/ key_leb b a = true) /\
  (forall a b c, key_leb a b = true -> key_leb b c = true -> key_leb a c = true) /\
  (forall a b, key_leb a b = true -> key_leb b a = true -> a = b).
Proof.
  split; [|split; [exact key_leb_trans|exact key_leb_antisym]].
  intros a b. destruct (key_leb a b) eqn:E; [left; reflexivity|right; apply key_leb_total; exact E].
Qed.

Lemma key_order_spec_l :
  (forall x y, key_leb (KInt x) (KInt y) = (x <=? y)%Z) /\
  (forall x y, key_leb (KStr x) (KStr y) = str_leb x y) /\
  (forall x y, key_leb (KInt x) (KStr y) = (rank_num <? rank_str)%Z) /\
  (forall x y, key_leb (KStr x) (KInt y) = (rank_str <? rank_num)%Z).
Proof.
  pose proof ranks_distinct as (R1 & R2 & R3).
  unfold key_leb; cbn [key_rank]. repeat split; intros x y; rewrite ?Z.ltb_irrefl; try reflexivity.
Qed.

(* lists: every element, once, in order -- whatever layout was chosen *)
Lemma list_items_l m l off : wf (VList l) = true ->
  read (flat (gen m (VList l) off)) = Some (PList (map (tree_of m) l)).
Proof. intros Hw. rewrite read_flat by exact Hw. reflexivity. Qed.
