"""C15  SQL filters select exactly the intended rows; values are always bound
(ak/mtd_sql.py, ak/mcaller_sql.py)"""
import ast
import os

from harness.lib import sx as SX

ID = "C15"
COQ_DIR = "C15"
RUN_MOD = "C15.Run"
MODEL_TARGETS = ["C15/Run.vo"]
PROOF_TARGETS = ["C15/Lemmas.vo", "C15/LemSession.vo"]
PROPS = ["C15/Props.v"]
ALLOWED_AXIOMS = []
IMPL_TIMEOUT = 10.0
COQ_SHARD = 20     # vm_compute/printing of the result string overflows the stack above ~30k characters
                   # (a session or a sweep compile case prints 1-3k characters)


class ExtractError(Exception):
    pass


# ====================================================================== constants
def _fail(msg):
    raise ExtractError(msg)


def _find(body, cls, name):
    for n in body:
        if isinstance(n, cls) and getattr(n, "name", None) == name:
            return n
    _fail(f"{cls.__name__} {name} not found")


def _is_self_attr(n, attr):
    return (isinstance(n, ast.Attribute) and n.attr == attr and isinstance(n.value, ast.Name)
            and n.value.id == "self")


def _const_str(n, what):
    if isinstance(n, ast.Constant) and isinstance(n.value, str):
        return n.value
    _fail(f"{what}: expected a string literal, got {ast.dump(n)[:80]}")


def _op_in(test, what):
    """`self.op in (<str literals>)` -> list of str"""
    if not (isinstance(test, ast.Compare) and _is_self_attr(test.left, "op") and len(test.ops) == 1
            and isinstance(test.ops[0], ast.In) and isinstance(test.comparators[0], (ast.Tuple, ast.List))):
        _fail(f"{what}: expected `self.op in (...)`, got {ast.dump(test)[:120]}")
    return [_const_str(e, what) for e in test.comparators[0].elts]


def _field_is_none(test, what):
    if not (isinstance(test, ast.Compare) and _is_self_attr(test.left, "field_name") and len(test.ops) == 1
            and isinstance(test.ops[0], ast.Is) and isinstance(test.comparators[0], ast.Constant)
            and test.comparators[0].value is None):
        _fail(f"{what}: expected `self.field_name is None`")


def _ifexp_on_op(n, what):
    """`A if self.op == L else B` -> (L, A, B)"""
    if not (isinstance(n, ast.IfExp) and isinstance(n.test, ast.Compare) and _is_self_attr(n.test.left, "op")
            and len(n.test.ops) == 1 and isinstance(n.test.ops[0], ast.Eq)):
        _fail(f"{what}: expected `x if self.op == lit else y`")
    return (_const_str(n.test.comparators[0], what), _const_str(n.body, what), _const_str(n.orelse, what))


KIND_CODE = {"list": 0, "tuple": 1, "set": 2}
KIND_NAME = {"list": "KList", "tuple": "KTuple", "set": "KSet"}


def _isinstance_kinds(n, what):
    """isinstance(<value>, (list, tuple, ...)) -> kind codes"""
    if not (isinstance(n, ast.Call) and isinstance(n.func, ast.Name) and n.func.id == "isinstance" and len(n.args) == 2):
        _fail(f"{what}: expected isinstance(...)")
    a = n.args[0]
    if not ((isinstance(a, ast.Name) and a.id == "value") or _is_self_attr(a, "value")):
        _fail(f"{what}: isinstance on something else than the value")
    t = n.args[1]
    names = [t] if isinstance(t, ast.Name) else list(t.elts) if isinstance(t, ast.Tuple) else _fail(what)
    out = []
    for x in names:
        if not (isinstance(x, ast.Name) and x.id in KIND_CODE):
            _fail(f"{what}: unexpected class in isinstance: {ast.dump(x)[:60]}")
        out.append(KIND_CODE[x.id])
    return out


def _chain(node):
    """if/elif/.../else -> ([(test, body)], else_body)"""
    out = []
    while True:
        out.append((node.test, node.body))
        if len(node.orelse) == 1 and isinstance(node.orelse[0], ast.If):
            node = node.orelse[0]
        else:
            return out, node.orelse


def _add_chain(n):
    if isinstance(n, ast.BinOp) and isinstance(n.op, ast.Add):
        return _add_chain(n.left) + _add_chain(n.right)
    return [n]


def _join_sep(n, what):
    """`<lit>.join(...)` -> lit"""
    if not (isinstance(n, ast.Call) and isinstance(n.func, ast.Attribute) and n.func.attr == "join"):
        _fail(f"{what}: expected a str.join call")
    return _const_str(n.func.value, what)


def _raises(body, exc):
    return (len(body) >= 1 and isinstance(body[-1], ast.Raise) and isinstance(body[-1].exc, ast.Call)
            and isinstance(body[-1].exc.func, ast.Name) and body[-1].exc.func.id == exc)


def extract(repo):
    src = open(os.path.join(repo, "ak", "mtd_sql.py")).read()
    tree = ast.parse(src)
    K = {}
    # ---- SqlFilterCondition: placeholder type numbers and the clause tables
    base = _find(tree.body, ast.ClassDef, "SqlFilterCondition")
    ns = {}
    table = None
    for n in base.body:
        if isinstance(n, ast.Assign) and len(n.targets) == 1:
            t = n.targets[0]
            if isinstance(t, ast.Tuple) and all(isinstance(e, ast.Name) for e in t.elts):
                try:
                    vals = ast.literal_eval(n.value)
                except Exception:
                    continue
                for e, v in zip(t.elts, vals):
                    ns[e.id] = v
            elif isinstance(t, ast.Name) and t.id.startswith("PLACEHOLDER_TYPE"):
                ns[t.id] = ast.literal_eval(n.value)
            elif isinstance(t, ast.Name) and t.id == "_SQL_CLAUSES":
                if not isinstance(n.value, ast.Dict):
                    _fail("_SQL_CLAUSES is not a dict literal")
                table = {}
                for k, v in zip(n.value.keys, n.value.values):
                    if not (isinstance(k, ast.Name) and k.id in ns and isinstance(ns[k.id], int)):
                        _fail("_SQL_CLAUSES key is not a PLACEHOLDER_TYPE_* name")
                    d = ast.literal_eval(v)
                    if not (isinstance(d, dict) and all(isinstance(a, str) and isinstance(b, str) for a, b in d.items())):
                        _fail("_SQL_CLAUSES entry is not a {str: str} literal")
                    table[ns[k.id]] = d
    if table is None or "PLACEHOLDER_TYPE_QUESTION" not in ns or "PLACEHOLDER_TYPE_PERCENT_S" not in ns:
        _fail("clause tables / placeholder types not found")
    K["ph_question"] = ns["PLACEHOLDER_TYPE_QUESTION"]
    K["ph_percent"] = ns["PLACEHOLDER_TYPE_PERCENT_S"]
    K["tables"] = table
    # ---- SqlFieldValCondition.__init__ : operator normalisation
    fv = _find(tree.body, ast.ClassDef, "SqlFieldValCondition")
    init = _find(fv.body, ast.FunctionDef, "__init__")
    ifs = [n for n in init.body if isinstance(n, ast.If)]
    if len(ifs) != 1:
        _fail("__init__: expected one if-chain")
    chain, els = _chain(ifs[0])
    if len(chain) != 6 or not _raises(els, "ValueError"):
        _fail("__init__: expected 6 branches and a final `raise ValueError`")
    _field_is_none(chain[0][0], "__init__")
    # static text: self.op = " " + op + " "
    st = [n for n in chain[0][1] if isinstance(n, ast.Assign) and _is_self_attr(n.targets[0], "op")]
    if len(st) != 1:
        _fail("__init__: static branch")
    parts = _add_chain(st[0].value)
    if not (len(parts) == 3 and isinstance(parts[1], ast.Name) and parts[1].id == "op"):
        _fail("__init__: static branch is not lit + op + lit")
    K["static_pad"] = (_const_str(parts[0], "static"), _const_str(parts[2], "static"))
    K["init_groups"] = [_op_in(t, "__init__") for t, _ in chain[1:]]
    # branch '=', '!=' : None -> IS [NOT] NULL, list/tuple -> [NOT] IN
    b = chain[1][1]
    if not (len(b) == 1 and isinstance(b[0], ast.If)):
        _fail("__init__: '=' branch")
    c2, e2 = _chain(b[0])
    if len(c2) != 2 or e2:
        _fail("__init__: '=' branch expected if value is None / elif isinstance")
    t0 = c2[0][0]
    if not (isinstance(t0, ast.Compare) and isinstance(t0.left, ast.Name) and t0.left.id == "value"
            and isinstance(t0.ops[0], ast.Is) and isinstance(t0.comparators[0], ast.Constant)
            and t0.comparators[0].value is None):
        _fail("__init__: '=' branch expected `value is None`")

    def only_assign_op(body, what):
        if not (len(body) == 1 and isinstance(body[0], ast.Assign) and _is_self_attr(body[0].targets[0], "op")):
            _fail(what)
        return body[0].value
    K["null_test"] = _ifexp_on_op(only_assign_op(c2[0][1], "__init__: None branch"), "__init__ None")
    K["seq_kinds_eq"] = _isinstance_kinds(c2[1][0], "__init__ '=' isinstance")
    K["seq_test"] = _ifexp_on_op(only_assign_op(c2[1][1], "__init__: list branch"), "__init__ list")
    # branch IN: if not isinstance(value, (list, tuple, set)): raise ValueError
    b = chain[2][1]
    if not (len(b) == 1 and isinstance(b[0], ast.If) and isinstance(b[0].test, ast.UnaryOp)
            and isinstance(b[0].test.op, ast.Not) and _raises(b[0].body, "ValueError") and not b[0].orelse):
        _fail("__init__: IN branch")
    K["seq_kinds_in"] = _isinstance_kinds(b[0].test.operand, "__init__ IN isinstance")
    # ---- SqlFieldValCondition.make_text_update_values
    mt = _find(fv.body, ast.FunctionDef, "make_text_update_values")
    ifs = [n for n in mt.body if isinstance(n, ast.If)]
    if len(ifs) != 1:
        _fail("make_text_update_values: expected one if-chain")
    chain, els = _chain(ifs[0])
    if len(chain) != 4:
        _fail("make_text_update_values: expected 4 branches + else")
    _field_is_none(chain[0][0], "make_text")
    groups = [_op_in(t, "make_text") for t, _ in chain[1:]]
    asserts = [n for n in els if isinstance(n, ast.Assert)]
    if len(asserts) != 1:
        _fail("make_text_update_values: else branch without its assert")
    groups.append(_op_in(asserts[0].test, "make_text else"))
    K["text_groups"] = groups
    b = chain[2][1]
    inner = [n for n in b if isinstance(n, ast.If)]
    if not (len(inner) == 1 and _is_self_attr(inner[0].test, "value")):
        _fail("make_text_update_values: IN branch expected `if self.value:`")
    asg = [n for n in inner[0].body if isinstance(n, ast.Assign)]
    if len(asg) != 1:
        _fail("make_text_update_values: IN branch text")
    parts = _add_chain(asg[0].value)
    if not (len(parts) == 5 and _is_self_attr(parts[0], "field_name") and isinstance(parts[1], ast.Subscript)):
        _fail("make_text_update_values: IN text is not field + clause + '(' + join + ')'")
    K["in_open"] = _const_str(parts[2], "IN text")
    K["in_sep"] = _join_sep(parts[3], "IN text")
    K["in_close"] = _const_str(parts[4], "IN text")
    gen = parts[3].args[0] if parts[3].args else None
    if not (isinstance(gen, ast.GeneratorExp) and isinstance(gen.elt, ast.Subscript)):
        _fail("IN text: join argument")
    sl = gen.elt.slice
    K["ph_key"] = _const_str(sl, "placeholder key")
    asg = [n for n in inner[0].orelse if isinstance(n, ast.Assign)]
    if len(asg) != 1:
        _fail("make_text_update_values: empty IN")
    K["empty_in"] = _ifexp_on_op(asg[0].value, "empty IN")
    # ---- SqlOrCondition.make_text_update_values
    orc = _find(tree.body, ast.ClassDef, "SqlOrCondition")
    mo = _find(orc.body, ast.FunctionDef, "make_text_update_values")
    body = [n for n in mo.body if not (isinstance(n, ast.Expr) and isinstance(n.value, ast.Constant))]
    if not (len(body) == 5 and isinstance(body[0], ast.If) and isinstance(body[0].test, ast.UnaryOp)
            and isinstance(body[0].test.op, ast.Not) and _is_self_attr(body[0].test.operand, "operands")
            and len(body[0].body) == 1 and isinstance(body[0].body[0], ast.Return)
            and isinstance(body[1], ast.Assign) and isinstance(body[2], ast.AugAssign)
            and isinstance(body[3], ast.AugAssign) and isinstance(body[4], ast.Return)):
        _fail("SqlOrCondition.make_text_update_values: unexpected shape")
    K["or_empty"] = _const_str(body[0].body[0].value, "OR empty")
    K["or_open"] = _const_str(body[1].value, "OR open")
    K["or_sep"] = _join_sep(body[2].value, "OR join")
    K["or_close"] = _const_str(body[3].value, "OR close")
    # ---- SqlMethod._execute
    sm = _find(tree.body, ast.ClassDef, "SqlMethod")
    ex = _find(sm.body, ast.FunctionDef, "_execute")
    marker = None
    augs = []
    for n in ast.walk(ex):
        if isinstance(n, ast.If) and isinstance(n.test, ast.Compare) and isinstance(n.test.ops[0], ast.In) \
                and isinstance(n.test.left, ast.Constant) and isinstance(n.test.left.value, str) \
                and isinstance(n.test.comparators[0], ast.Name) and n.test.comparators[0].id == "conn_type_name":
            marker = n.test.left.value
    for n in ex.body:
        for m in ([n] if isinstance(n, ast.AugAssign) else n.body if isinstance(n, ast.If) else []):
            if isinstance(m, ast.AugAssign) and isinstance(m.target, ast.Name) and m.target.id == "sql":
                augs.append(m.value)
    if marker is None or len(augs) != 3:
        _fail("_execute: expected the mysql marker test and three `sql += ...`")
    p = _add_chain(augs[0])
    if len(p) != 2:
        _fail("_execute: WHERE")
    K["kw_where"] = _const_str(p[0], "WHERE")
    K["kw_and"] = _join_sep(p[1], "AND")
    p = _add_chain(augs[1])
    if not (len(p) == 2 and _is_self_attr(p[1], "group_by")):
        _fail("_execute: GROUP BY")
    K["kw_group"] = _const_str(p[0], "GROUP BY")
    p = _add_chain(augs[2])
    if not (len(p) == 2 and isinstance(p[1], ast.Name)):
        _fail("_execute: ORDER BY")
    K["kw_order"] = _const_str(p[0], "ORDER BY")
    K["mysql_marker"] = marker
    return K


def _cs(s):
    return SX.cstr(s)


def _cstrs(l):
    return "[" + "; ".join(_cs(x) for x in l) + "]" if l else "(@nil (list Z))"


def gen_consts(repo):
    K = extract(repo)
    tabs = []
    for pt in sorted(K["tables"]):
        ents = "; ".join(f"({_cs(k)}, {_cs(v)})" for k, v in K["tables"][pt].items())
        tabs.append(f"({SX.cZ(pt)}, [{ents}])")
    L = ["(* generated from ak/mtd_sql.py by harness/props/c15.py -- do not edit *)",
         "From Coq Require Import ZArith List.", "Import ListNotations.", "Open Scope Z_scope.",
         f"Definition ph_question : Z := {SX.cZ(K['ph_question'])}.",
         f"Definition ph_percent : Z := {SX.cZ(K['ph_percent'])}.",
         "Definition clause_tables : list (Z * list (list Z * list Z)) :=\n  [" + ";\n   ".join(tabs) + "].",
         "Definition init_groups : list (list (list Z)) := [" + "; ".join(_cstrs(g) for g in K["init_groups"]) + "].",
         "Definition text_groups : list (list (list Z)) := [" + "; ".join(_cstrs(g) for g in K["text_groups"]) + "].",
         ]
    for name in ("null_test", "seq_test", "empty_in"):
        a, b, c = K[name]
        L.append(f"Definition {name} : list Z * list Z * list Z := ({_cs(a)}, {_cs(b)}, {_cs(c)}).")
    for name in ("seq_kinds_eq", "seq_kinds_in"):
        L.append(f"Definition {name} : list Z := {SX.cZlist(K[name])}.")
    L.append(f"Definition static_pad : list Z * list Z := ({_cs(K['static_pad'][0])}, {_cs(K['static_pad'][1])}).")
    for name in ("ph_key", "in_open", "in_sep", "in_close", "or_empty", "or_open", "or_sep", "or_close",
                 "kw_where", "kw_and", "kw_group", "kw_order", "mysql_marker"):
        L.append(f"Definition {name} : list Z := {_cs(K[name])}.")
    return {"C15_Consts": "\n".join(L) + "\n"}


# ====================================================================== cases
# JSON encoding
#   value : null | int | str | {"list": [scalars]} | {"tuple": [...]} | {"set": [...]}
#   arg   : null | {"s": text} | {"t3": [field, op, value], "as": "tuple"|"list"} | {"t2": [field, value], "as": ..}
#           | {"tn": n} | {"or": [args], "kw": {name: value}} | {"bad": tag}
#           field: str | null ; op: str | {"notstr": 1}
#   query : {"k": "query", "mysql": bool, "select": str, "group_by": str|null, "order_by": str|null,
#            "kw_order": absent | [text|null], "as_scalars": null|bool (ctor), "kw_scalars": absent | bool,
#            "args": [arg], "kw": {name: value}, "schema": "untyped"|"typed", "rows": [[id, name, qty]], "mtd": str}
#   compile: {"k": "compile", "pt": 0|1, "arg": arg}
SELECT = "SELECT id, name, qty FROM t"
# select text -> (field names of the record type, or None when no namedtuple can be made; for every selected column
#                 the column of the stored row (id, name, qty) it shows, or ("c", constant))
SELECTS = {
    SELECT: (["id", "name", "qty"], [0, 1, 2]),
    "SELECT id, qty FROM t": (["id", "qty"], [0, 2]),
    "SELECT id, name AS nm, qty FROM t": (["id", "nm", "qty"], [0, 1, 2]),
    "SELECT id AS k, qty AS q FROM t": (["k", "q"], [0, 2]),
    "SELECT id, name, 1 FROM t": (None, [0, 1, ("c", 1)]),
}
SELECTS_NT = [k for k, v in SELECTS.items() if v[0] is not None]
# the columns _name / _qty hold copies of name / qty: column names that start with an underscore (like the names of the
# request options _order_by / _as_scalars) are ordinary columns for filters
SCHEMAS = {"untyped": "CREATE TABLE t (id, name, qty, _name, _qty)",
           "typed": "CREATE TABLE t (id INTEGER PRIMARY KEY, name TEXT, qty INT, _name TEXT, _qty INT)"}
METHODS = ["list", "all", "one", "one_or_none", "t_list", "t_one", "t_one_or_none"]
OPS = ['=', '!=', 'IN', 'NOT IN', 'IS NULL', 'IS NOT NULL', 'LIKE', 'NOT LIKE', '>', '<', '>=', '<=']
STR_POOL = ["", "a", "A", "ab", "Ab", "b", "a%", "a_b", "%", "_", "O'Reilly", "x' OR '1'='1", "1; DROP TABLE t; --",
            "5", "42", "\u00fcn\u00ef", "?", "\"q\"", "a b", "NULL", "0"]
INT_POOL = [0, 1, 2, 3, 5, 7, 42, -3, 10 ** 12, -1]
LIKE_POOL = ["%", "a%", "%b", "_", "a_", "%'%", "A%", "%a%", "", "a", "%%", "_%_", "5", "4_", "%;%", "%\u00ef"]
STATICS = ["id = qty", "name IS NULL", "(id > 2 OR qty IS NULL)", "1", "name = 'a'", "qty + 0 < id", "0",
           "NOT (id = 1)", "name IS NOT NULL AND id < 4"]
FIELDS = ["name", "qty", "id"]
US_FIELDS = ["_name", "_qty"]
COL_OF = {"id": 0, "name": 1, "qty": 2, "_name": 1, "_qty": 2}     # field -> position in a case row [id, name, qty]

# Values that LOOK like something the compiler itself knows: operators, keywords, placeholders, the literals it
# emits, names of its special keyword arguments, column names.  Besides this fixed list every short string
# literal found in the CURRENT ak/mtd_sql.py is used (so a special case added to the source for some spelling
# of a value is exercised with exactly that spelling), each in several letter cases and paddings.
KW_BASE = OPS + ["NULL", "NOT NULL", "OR", "AND", "NOT", "IS", "IN ()", "NOT IN ()", "?", "%s", "%%s", "0", "1", "FALSE",
                 "TRUE", "(", ")", "()", ", ", " OR ", " AND ", " WHERE ", "WHERE", "PLACEHOLDER", "<>", "==", "= ?", " = ?",
                 " IS NULL", "? OR 1", "id", "name", "qty", "_order_by", "_as_scalars", "DESC", "id DESC", "None",
                 "\u0131s null", "i\u017f null", "\u0131N", "not \u0131n", "L\u0131KE"]


def _variants(v, full=True):
    """spellings of one literal: as is, the other letter case, mixed case, with a trailing blank"""
    if not full:
        return [v]
    out = [v, v.lower() if v.lower() != v else v.upper()]
    if len(v) > 1 and v.lower() != v.upper():
        out.append("".join(c.lower() if i % 2 else c.upper() for i, c in enumerate(v)))
    out.append(v.lower() + " ")
    if v in OPS or v == "NULL":
        out.append(" " + v)
    seen = []
    for x in out:
        if x not in seen:
            seen.append(x)
    return seen


def _source_literals():
    """short string literals of the current ak/mtd_sql.py (docstrings and long texts excluded)"""
    try:
        from harness.lib import implrun
        tree = ast.parse(open(os.path.join(implrun.REPO, "ak", "mtd_sql.py")).read())
    except Exception:
        return []
    out = set()
    for n in ast.walk(tree):
        if isinstance(n, ast.Constant) and isinstance(n.value, str) and 0 < len(n.value) <= 20 and "\n" not in n.value:
            out.add(n.value.strip() or n.value)
    return sorted(out)


def _kw_values():
    """KW_BASE and the SQL-looking literals of the source (no lower-case letter) in all spellings; the other literals
    of the source (identifiers, message fragments) as they are"""
    seen = []
    lits = [(b, True) for b in KW_BASE]
    for x in _source_literals():
        if x not in KW_BASE:
            lits.append((x, x.upper() == x))
    for b, full in lits:
        for x in _variants(b, full):
            if x not in seen:
                seen.append(x)
    return seen


_KW_CACHE = []


def _kw_pool():
    if not _KW_CACHE:
        _KW_CACHE.append(_kw_values())
    return _KW_CACHE[0]


RULE = ("random filter lists (0-4 positional filters + keyword filters + ignored None) over random tables "
        "(0-6 rows of id/name/qty holding NULL, integers, '', quotes, %, _, SQL fragments, non-ASCII) run through "
        "SqlMethod.list/all/one/one_or_none and SqlMethodT.list/one/one_or_none on a real in-memory sqlite3 behind a "
        "recording connection (also a '%s' flavoured one behaving like mysql.connector: one parameter per %s, '?' "
        "rejected); leaves use all 12 operators in random letter case with "
        "scalars, None, lists, tuples, sets (empty/singleton/with None), 2-tuples, static texts, nested _or groups "
        "(also empty, with kwargs); a malformed stream (bad operators, incompatible values, wrong tuple lengths, "
        "None inside _or, non-str operator); direct make().make_text_update_values() calls with both "
        "placeholder styles; a SWEEP over values spelled like the operators / keywords / placeholders / emitted "
        "literals of the compiler (every short string literal of the current ak/mtd_sql.py, in several letter cases "
        "and paddings), each in every argument form (3-tuple with every binding operator, 2-tuple, list form, "
        "IN-list item, keyword filter, _or operand, _or keyword) on tables holding that text and NULLs; and SESSIONS: "
        "1-3 SqlMethod / SqlMethodT objects (different SELECTs, a SqlMethodT sharing a SqlMethod), 2-3 connection "
        "objects of both placeholder styles over one table, 4-10 steps: requests (any method on any connection, "
        "overriding order / scalars), condition objects made once (make / SqlFieldValCondition / _or, also nested in "
        "each other) and used in several requests and in direct make_text_update_values calls of both styles, the "
        "list / set objects given to them emptied, filled or changed between requests; 60 % of the all() results are "
        "consumed LAZILY (1-2 rows taken, then 1-9 further requests - on the same SqlMethod / connection too, several "
        "results open at once - before the rest is taken).  The table has two more columns _name / _qty (copies of name "
        "/ qty): 15 % of the keyword filters and 5 % of the tuple filters are on these underscore-prefixed names, alone "
        "and next to the _order_by / _as_scalars options.  Non-trivial = a statement "
        "with at least one filter was executed on a non-empty table, a compile case that produced text, or a session "
        "with two filtered requests.")


def _pick_scalar(rng, rows=None, col=None):
    r = rng.random()
    if rows and r < 0.7:
        row = rng.choice(rows)
        v = row[COL_OF[col]] if col else rng.choice(row)
        return v
    if r < 0.65:
        return None
    if r < 0.82:
        return rng.choice(INT_POOL)
    if r < 0.87:
        return rng.choice(_kw_pool())
    return rng.choice(STR_POOL)


def _case_op(rng, op):
    r = rng.random()
    if r < 0.6:
        return op
    if r < 0.8:
        return op.lower()
    return "".join(c.lower() if rng.random() < 0.5 else c for c in op)


def _gen_seq(rng, rows, col, kinds=("list", "tuple", "set")):
    k = rng.choice(kinds)
    n = rng.choice([0, 0, 1, 1, 2, 2, 3, 4])
    items = []
    for _ in range(n):
        v = _pick_scalar(rng, rows, col)
        if k == "set" and v in items:
            continue
        items.append(v)
    if k == "set":
        # python set semantics: 1 == True etc. do not occur (only None/int/str); dedupe
        ded = []
        for v in items:
            if v not in ded:
                ded.append(v)
        items = ded
    return {k: items}


def _gen_leaf(rng, rows):
    f = rng.choice(FIELDS)
    if rng.random() < 0.05:
        f = rng.choice(US_FIELDS)
    op = rng.choice(OPS)
    if op in ('=', '!='):
        r = rng.random()
        if r < 0.2:
            v = None
        elif r < 0.45:
            v = _gen_seq(rng, rows, f, ("list", "tuple"))
        else:
            v = _pick_scalar(rng, rows, f)
    elif op in ('IN', 'NOT IN'):
        v = _gen_seq(rng, rows, f)
    elif op in ('IS NULL', 'IS NOT NULL'):
        v = None
    elif op in ('LIKE', 'NOT LIKE'):
        v = rng.choice(LIKE_POOL)
    else:
        v = _pick_scalar(rng, rows, f)
    as_ = rng.choice(["tuple", "tuple", "list"])
    if op == '=' and rng.random() < 0.4:
        return {"t2": [f, v], "as": as_}
    return {"t3": [f, _case_op(rng, op), v], "as": as_}


def _gen_kw(rng, rows, maxn=2):
    kw = {}
    for _ in range(rng.choice([0, 0, 1, 1, 2][:maxn + 3])):
        f = rng.choice(FIELDS)
        if rng.random() < 0.15:
            f = rng.choice(US_FIELDS)
        r = rng.random()
        kw[f] = None if r < 0.2 else _gen_seq(rng, rows, f, ("list", "tuple")) if r < 0.4 else _pick_scalar(rng, rows, f)
    return kw


def _gen_bad(rng, rows):
    f = rng.choice(FIELDS)
    c = rng.randrange(14)
    if c == 0:
        return {"t3": [f, rng.choice(["~", "==", "BETWEEN", "", "<>", " IN", "IS", "NOTIN", "=?"]), 1], "as": "tuple"}
    if c == 1:
        return {"t3": [f, rng.choice(["IN", "not in"]), _pick_scalar(rng, rows, f)], "as": "tuple"}
    if c == 2:
        return {"t3": [f, rng.choice(["IS NULL", "is not null"]), rng.choice([0, "", "x", {"list": []}])], "as": "tuple"}
    if c == 3:
        return {"t3": [f, rng.choice(["LIKE", "NOT LIKE"]), rng.choice([None, 5, {"list": ["a"]}])], "as": "list"}
    if c == 4:
        return {"tn": rng.choice([0, 1, 4, 5])}
    if c == 5:
        return {"t3": [f, {"notstr": 1}, 1], "as": "tuple"}
    if c == 6:
        return {"bad": rng.choice(["int", "dict", "set", "float", "bytes"])}
    if c == 7:
        return {"or": [None], "kw": {}}
    if c == 8:
        return {"t3": [None, "id = qty", rng.choice([1, "x", {"list": []}])], "as": "tuple"}
    if c == 9:
        return {"t3": [None, "id = qty", None], "as": "tuple"}         # accepted: static
    if c == 10:
        return {"or": [_gen_leaf(rng, rows), {"bad": "int"}], "kw": {}}
    if c == 11:
        return {"t3": [f, rng.choice(["=", "!=", ">", "<="]), {"set": [1, 2]}], "as": "tuple"}   # outside the domain
    if c == 12:
        return {"t3": [f, rng.choice([">", "<", ">=", "<="]), {"list": [1]}], "as": "tuple"}      # outside the domain
    return {"t2": [None, rng.choice([None, 1])], "as": "tuple"}


def _gen_arg(rng, rows, depth=0, bad=0.0):
    r = rng.random()
    if r < bad:
        return _gen_bad(rng, rows)
    if r < bad + 0.08:
        return {"s": rng.choice(STATICS)}
    if depth < 3 and r < bad + 0.30:
        n = rng.choice([0, 1, 2, 2, 3])
        return {"or": [_gen_arg(rng, rows, depth + 1, bad) for _ in range(n)],
                "kw": _gen_kw(rng, rows) if rng.random() < 0.35 else {}}
    return _gen_leaf(rng, rows)


def _gen_rows(rng):
    n = rng.choice([0, 1, 2, 3, 4, 5, 6, 6, 6])
    ids = rng.sample(range(1, 10), n)
    rows = []
    for i in ids:
        r = rng.random()
        name = None if r < 0.2 else rng.choice(INT_POOL) if r < 0.3 else rng.choice(_kw_pool()) if r < 0.38 \
            else rng.choice(STR_POOL[:12])
        r = rng.random()
        qty = None if r < 0.2 else rng.choice(STR_POOL) if r < 0.3 else rng.choice(_kw_pool()) if r < 0.35 \
            else (i if r < 0.5 else rng.choice(INT_POOL[:8]))
        rows.append([i, name, qty])
    return rows


def _gen_query(rng, bad):
    rows = _gen_rows(rng)
    nargs = rng.choice([0, 1, 1, 1, 1, 2, 2, 3, 4])
    args = []
    for _ in range(nargs):
        args.append(None if rng.random() < 0.1 else _gen_arg(rng, rows, 0, bad))
    case = {"k": "query", "mysql": rng.random() < 0.25, "select": SELECT,
            "group_by": rng.choice([None, None, None, "id", ""]),
            "order_by": rng.choice([None, None, "id", "id DESC"]),
            "as_scalars": rng.choice([None, None, True, False]),
            "args": args, "kw": _gen_kw(rng, rows) if rng.random() < 0.3 else {},
            "schema": "typed" if rng.random() < 0.3 else "untyped", "rows": rows,
            "mtd": rng.choice(METHODS[:2] * 3 + METHODS)}
    if rng.random() < 0.35:
        case["kw_order"] = [rng.choice([None, "id", "id DESC", "id ASC"])]
    if rng.random() < 0.25:
        case["kw_scalars"] = rng.random() < 0.5
    if rng.random() < 0.2:
        case["select"] = rng.choice(SELECTS_NT if case["mtd"].startswith("t_") else list(SELECTS))
    return case


# ---------------------------------------------------------------------- keyword-like values, every form
def _kw_sweep():
    """for every keyword-like value: a compile case holding the value in the leaf forms, and a request"""
    out = []
    t3 = lambda f, op, v, as_="tuple": {"t3": [f, op, v], "as": as_}
    for n, v in enumerate(_kw_pool()):
        fa = [{"t2": ["name", v], "as": "tuple"}, {"t2": ["qty", v], "as": "list"}, t3("name", "=", v),
              {"or": [t3("qty", "<", v)], "kw": {"name": v}}]
        fb = [t3("name", "!=", v, "list"), t3("qty", ">=", v), t3("name", "like", v),
              t3("name", "NOT LIKE", v), t3("qty", "IN", {"list": [v]}), t3("qty", "not in", {"tuple": [v, None, v]}),
              t3("name", "in", {"set": [v]}), t3("name", "=", {"list": [v, "x"]}), t3("name", "!=", {"tuple": [v]})]
        out.append({"k": "compile", "pt": n % 2, "arg": {"or": fa + [fb[(n + i) % len(fb)] for i in range(3)], "kw": {"qty": v}}})
        low = v.lower() if v.lower() != v else v.upper()
        rows = [[1, v, None], [2, None, v], [3, "x", "x"], [4, low, 5], [5, None, None], [6, v, v], [7, 0, 1]]
        q = {"k": "query", "mysql": n % 3 == 0, "select": SELECT, "group_by": None, "order_by": "id", "as_scalars": None,
             "schema": "typed" if n % 5 == 0 else "untyped", "rows": rows, "mtd": "one_or_none" if n % 7 == 0 else "list"}
        if n % 3 == 0:
            q.update(args=[fa[n % 2]], kw={})
        elif n % 3 == 1:
            q.update(args=[{"or": [t3("id", "<", 0)], "kw": {"name": v}}], kw={"qty": v})
        else:
            q.update(args=[fb[n % len(fb)]], kw={"name": {"tuple": [v, "x"]}} if n % 2 else {"name": v})
        out.append(q)
    return out


# ---------------------------------------------------------------------- sessions (histories on shared objects)
def _own_mutables(a, out, path=()):
    """paths of the list / set values of a prepared filter (depth first; operands, then keywords by name);
    referenced objects are not entered, tuples cannot be changed"""
    if not isinstance(a, dict):
        return
    if "t3" in a or "t2" in a:
        v = a["t3"][2] if "t3" in a else a["t2"][1]
        if isinstance(v, dict) and ("list" in v or "set" in v):
            out.append((path, a["t3"][0] if "t3" in a else a["t2"][0], "list" if "list" in v else "set"))
    elif "or" in a:
        for i, x in enumerate(a["or"]):
            _own_mutables(x, out, path + (i,))
        for k in sorted(a["kw"]):
            v = a["kw"][k]
            if isinstance(v, dict) and ("list" in v or "set" in v):
                out.append((path + ("kw", k), k, "list" if "list" in v else "set"))


def _gen_items(rng, rows, col, kind_):
    items = []
    for _ in range(rng.choice([0, 0, 1, 1, 2, 3])):
        v = _pick_scalar(rng, rows, col if col in COL_OF else None)
        if kind_ == "set" and v in items:
            continue
        items.append(v)
    return items


def _gen_prep(rng, rows, nkept):
    r = rng.random()

    def leaf():
        f = rng.choice(FIELDS)
        op = rng.choice(["IN", "NOT IN", "in", "=", "!=", "Not In"])
        kinds = ("list", "list", "set") if op.upper() in ("IN", "NOT IN") else ("list",)
        k = rng.choice(kinds)
        v = {k: _gen_items(rng, rows, f, k)}
        if op == "=" and rng.random() < 0.4:
            return {"t2": [f, v], "as": rng.choice(["tuple", "list"])}
        return {"t3": [f, op, v], "as": rng.choice(["tuple", "list"])}
    if r < 0.45:
        a = leaf()
        if "t3" in a and rng.random() < 0.3:
            a["ctor"] = 1                       # SqlFieldValCondition(f, op, v) directly
        return a
    if r < 0.75:
        ops = []
        for _ in range(rng.choice([1, 2, 2, 3])):
            q = rng.random()
            if nkept and q < 0.35:
                ops.append({"ref": rng.randrange(nkept)})
            elif q < 0.75:
                ops.append(leaf())
            else:
                ops.append(_gen_arg(rng, rows, 2, 0.0))
        kw = {}
        if rng.random() < 0.4:
            f = rng.choice(FIELDS)
            kw[f] = {"list": _gen_items(rng, rows, f, "list")} if rng.random() < 0.6 else _pick_scalar(rng, rows, f)
        return {"or": ops, "kw": kw}
    if r < 0.95:
        a = _gen_arg(rng, rows, 1, 0.0)
        return {"s": "id = qty"} if a is None else a
    return _gen_bad(rng, rows)


def _vary_value(rng, rows, col, v):
    if v is None:
        return None
    if isinstance(v, dict):
        (k, items), = v.items()
        new = _gen_items(rng, rows, col, k)
        while len(new) == len(items) and rng.random() < 0.7:
            new = _gen_items(rng, rows, col, k)
        return {k: new}
    for _ in range(5):
        w = _pick_scalar(rng, rows, col if col in COL_OF else None)
        if w is not None and type(w) is type(v):
            return w
    return v


def _vary_arg(rng, rows, a):
    """the same filter shape (fields, operators, kinds of values) with other values"""
    if a is None or "s" in a or "tn" in a or "bad" in a or "ref" in a:
        return a
    if "t3" in a:
        f, op, v = a["t3"]
        if isinstance(op, str) and op.upper() in ("LIKE", "NOT LIKE"):
            return dict(a, t3=[f, op, rng.choice(LIKE_POOL) if isinstance(v, str) else v])
        return dict(a, t3=[f, op, _vary_value(rng, rows, f, v)])
    if "t2" in a:
        f, v = a["t2"]
        return dict(a, t2=[f, _vary_value(rng, rows, f, v)])
    return {"or": [_vary_arg(rng, rows, x) for x in a["or"]],
            "kw": {k: _vary_value(rng, rows, k, v) for k, v in a["kw"].items()}}


def _gen_session(rng):
    rows = _gen_rows(rng)
    while len(rows) < 2 and rng.random() < 0.8:
        rows = _gen_rows(rng)
    methods = []
    for _ in range(rng.choice([1, 2, 2, 3])):
        t = rng.random() < 0.2
        methods.append({"select": rng.choice(SELECTS_NT if t else list(SELECTS)) if rng.random() < 0.6 else SELECT,
                        "group_by": rng.choice([None, None, None, "id", ""]),
                        "order_by": rng.choice([None, "id", "id", "id DESC"]),
                        "as_scalars": rng.choice([None, None, True, False]), "t": t})
    plain = [i for i, m in enumerate(methods) if not m["t"] and not m["as_scalars"] and SELECTS[m["select"]][0] is not None]
    if plain and rng.random() < 0.3:
        methods.append({"wrap": rng.choice(plain)})
    conns = rng.choice([[False, True], [True, False], [False, True, False], [True, False, True], [False, False, True]])
    steps = []
    kept = []            # prep args (for the mutable paths)
    ncalls = 0
    want = rng.choice([3, 4, 4, 5, 6, 7])
    last_call = None
    while ncalls < want and len(steps) < 14:
        r = rng.random()
        if r < 0.22 and len(kept) < 4:
            a = _gen_prep(rng, rows, len(kept))
            kept.append(a)
            steps.append({"op": "prep", "arg": a})
            continue
        if r < 0.36 and kept:
            cands = []
            for i, a in enumerate(kept):
                muts = []
                _own_mutables(a, muts)
                cands += [(i, j, m) for j, m in enumerate(muts)]
            if cands:
                i, j, (_, col, kind_) = rng.choice(cands)
                steps.append({"op": "set", "c": i, "seq": j, "items": _gen_items(rng, rows, col, kind_)})
                continue
        if r < 0.44 and kept:
            steps.append({"op": "text", "c": rng.randrange(len(kept)), "pt": rng.choice([0, 1]), "pre": rng.choice([0, 0, 1, 2])})
            continue
        # a request
        if last_call is not None and rng.random() < 0.3:
            # an earlier request again: on another connection, and / or with other values of the same shapes
            # (lists of another length), with or without its order / scalars overrides
            st = dict(last_call)
            q = rng.random()
            if q < 0.6:
                st["args"] = [_vary_arg(rng, rows, a) for a in st["args"]]
                st["kw"] = {k: _vary_value(rng, rows, k, v) for k, v in st["kw"].items()}
            if q > 0.4:
                st["conn"] = (st["conn"] + 1) % len(conns)
            if rng.random() < 0.3:
                st.pop("kw_order", None)
                st.pop("kw_scalars", None)
        else:
            mi = 0 if ncalls < 2 else rng.randrange(len(methods))
            md = methods[mi]
            tm = md.get("t") or "wrap" in md
            args = []
            for _ in range(rng.choice([0, 1, 1, 1, 2, 2, 3])):
                q = rng.random()
                if kept and q < 0.4:
                    args.append({"ref": rng.randrange(len(kept))})
                elif q < 0.47:
                    args.append(None)
                elif kept and q < 0.57:
                    args.append({"or": [{"ref": rng.randrange(len(kept))}, _gen_leaf(rng, rows)], "kw": {}})
                else:
                    args.append(_gen_arg(rng, rows, 0, 0.04))
            st = {"op": "call", "m": mi, "conn": (ncalls % len(conns)) if ncalls < 2 else rng.randrange(len(conns)),
                  "mtd": rng.choice(METHODS[4:] if tm else METHODS[:2] * 3 + METHODS[:4]),
                  "args": args, "kw": _gen_kw(rng, rows) if rng.random() < 0.3 else {}}
            if rng.random() < 0.3:
                st["kw_order"] = [rng.choice([None, "id", "id DESC", "id ASC"])]
            if rng.random() < 0.25 and not tm:
                st["kw_scalars"] = rng.random() < 0.5
        if st["mtd"] == "all" and "lazy" not in st and rng.random() < 0.6:
            st = dict(st, lazy=[rng.choice([1, 1, 2]), rng.choice([1, 1, 2, 3, 9])])
        steps.append(st)
        last_call = st
        ncalls += 1
    return {"k": "session", "schema": "typed" if rng.random() < 0.25 else "untyped", "rows": rows, "methods": methods,
            "conns": conns, "steps": steps}


def _fixed_sessions():
    rows = [[1, "James", 1], [2, "Arnold", 1], [3, "IS NULL", None], [4, None, 7], [5, "is not null", "7"], [6, "", 0]]
    t3 = lambda f, op, v: {"t3": [f, op, v], "as": "tuple"}
    m0 = {"select": SELECT, "group_by": None, "order_by": "id", "as_scalars": None, "t": False}
    m1 = {"select": "SELECT id, qty FROM t", "group_by": None, "order_by": None, "as_scalars": True, "t": False}
    call = lambda m, c, args, kw=None, mtd="list", **x: dict({"op": "call", "m": m, "conn": c, "mtd": mtd, "args": args,
                                                             "kw": kw or {}}, **x)
    out = []
    for conns in ([False, True], [True, False]):
        # one SqlMethod on connections of both kinds, then another object, then the first again
        out.append({"k": "session", "schema": "untyped", "rows": rows, "methods": [m0, m1, {"wrap": 0}], "conns": conns,
                    "steps": [call(0, 0, [t3("name", "LIKE", "%a%"), t3("qty", "IN", {"list": [1, 7]})]),
                              call(0, 1, [t3("name", "LIKE", "%a%"), t3("qty", "IN", {"list": [1, 7]})]),
                              call(1, 1, [], {"name": "IS NULL"}), call(1, 0, [], {"name": "is not null"}),
                              call(2, 1, [t3("qty", "=", None)], mtd="t_list"),
                              call(0, 0, [{"or": [t3("id", ">=", 5)], "kw": {"name": "James"}}], kw_order=["id DESC"]),
                              call(0, 1, [{"t2": ["name", "IS NULL"], "as": "list"}], mtd="one")]})
        # a condition object made while its list is empty; filled, used, emptied, used
        out.append({"k": "session", "schema": "untyped", "rows": rows, "methods": [m0, m1], "conns": conns,
                    "steps": [{"op": "prep", "arg": t3("id", "IN", {"list": []})},
                              {"op": "prep", "arg": {"or": [{"ref": 0}, {"t2": ["name", {"list": []}], "as": "tuple"}], "kw": {}}},
                              call(0, 0, [{"ref": 0}]), {"op": "set", "c": 0, "seq": 0, "items": [1, 2, 4]},
                              call(0, 1, [{"ref": 0}]), {"op": "text", "c": 1, "pt": 1, "pre": 1},
                              {"op": "set", "c": 1, "seq": 0, "items": ["", "IS NULL"]},
                              call(1, 0, [{"ref": 1}, {"ref": 0}]), {"op": "text", "c": 1, "pt": 0, "pre": 0},
                              {"op": "set", "c": 0, "seq": 0, "items": []}, call(1, 1, [{"ref": 1}]),
                              call(0, 0, [{"ref": 0}], mtd="one_or_none")]})
        # results of all() consumed lazily and interleaved: a walk (one row taken, the same SqlMethod asked again on the
        # same connection - also through its SqlMethodT - before the rest is taken), two results open at once (zip)
        out.append({"k": "session", "schema": "untyped", "rows": rows, "methods": [m0, m1, {"wrap": 0}], "conns": conns,
                    "steps": [call(0, 0, [t3("id", "<", 6)], mtd="all", lazy=[1, 2]),
                              call(0, 0, [], {"_qty": 1}, mtd="all", lazy=[1, 9]),
                              call(0, 0, [t3("qty", "=", None)], mtd="list"),
                              call(0, 1, [t3("id", ">", 1)], mtd="all", lazy=[2, 1], kw_order=["id DESC"]),
                              call(0, 1, [t3("id", "IN", {"list": [2, 6]})], mtd="one_or_none", kw_scalars=True),
                              call(2, 1, [], {"_name": "James"}, mtd="t_list"),
                              call(1, 0, [t3("id", ">=", 2)], mtd="all", lazy=[1, 1]),
                              call(1, 0, [t3("id", "<", 3)], mtd="all", lazy=[1, 1]),
                              call(1, 1, [], mtd="all", lazy=[1, 0]),
                              call(0, 0, [], {"id": 4}, mtd="one")]})
    return out




def _fixed_cases():
    rows = [[1, "James", 1], [2, "Arnold", 1], [3, "Harry", None], [4, None, 7], [5, "O'Reilly", "7"], [6, "", 0]]
    out = []

    def q(args, kw=None, mtd="list", **extra):
        c = {"k": "query", "mysql": False, "select": SELECT, "group_by": None, "order_by": "id", "as_scalars": None,
             "args": args, "kw": kw or {}, "schema": "untyped", "rows": rows, "mtd": mtd}
        c.update(extra)
        out.append(c)
    t3 = lambda f, op, v: {"t3": [f, op, v], "as": "tuple"}
    q([])
    q([], {"id": 1}, "one")
    q([], {"id": 10}, "one")
    q([], {"qty": 1}, "one_or_none")
    q([t3("name", "IN", {"list": []})])
    q([t3("name", "NOT IN", {"list": []})])
    q([t3("name", "NOT IN", {"set": []})], schema="typed")
    q([t3("qty", "IN", {"tuple": [None]})])
    q([t3("qty", "NOT IN", {"tuple": [None, 1]})])
    q([t3("qty", "=", None)])
    q([t3("qty", "!=", None)])
    q([t3("name", "=", "x' OR '1'='1")])
    q([t3("name", "=", "O'Reilly")])
    q([t3("name", "like", "%'%")])
    q([t3("name", "not like", "%a%")])
    q([{"or": [], "kw": {}}])
    q([{"or": [t3("id", "=", 2)], "kw": {"name": "James"}}, t3("qty", "=", 1)])
    q([{"or": [{"or": [t3("id", ">", 4), t3("qty", "IS NULL", None)], "kw": {}}, {"s": "id = qty"}], "kw": {}}, None],
      {"name": {"list": ["James", "Harry", ""]}})
    q([{"s": "id = qty"}], {"qty": 1})
    q([t3("qty", ">", None)])
    q([t3("qty", "=", {"tuple": []})], mysql=True)
    q([t3("qty", "=", {"list": [7, "7"]})], mysql=True, schema="typed")
    q([t3("name", "<", 5), t3("qty", ">=", "")])
    q([None, None])
    q([t3("id", "in", {"set": [1, 2, 3]})], kw_order=["id DESC"])
    q([t3("id", "in", {"set": [1, 2, 3]})], kw_order=[None], order_by="id DESC")
    q([t3("id", "<", 4)], group_by="id", mtd="t_list")
    # keyword filters on columns whose names start with an underscore (as the names of the request options do)
    q([], {"_qty": 1})
    q([], {"_name": "James"}, "one")
    q([], {"_qty": None}, "one_or_none")
    q([], {"_qty": {"list": [7, "7"]}, "id": 4}, kw_order=["id DESC"], kw_scalars=True)
    q([t3("_qty", "=", 1)], {"_name": "Arnold", "name": "Arnold"}, mysql=True)
    q([{"or": [t3("id", "=", 3)], "kw": {"_qty": 0}}], {"_name": {"tuple": ["", "Harry"]}}, kw_order=[None])
    q([], {"_name": None}, "t_list", schema="typed")
    q([], {"_qty": "7"}, "all", as_scalars=True)
    for a in [t3("name", "IN", {"list": []}), t3("name", "NOT IN", {"tuple": []}), {"or": [], "kw": {}},
              t3("name", "=", None), t3("name", "!=", None), t3("a.b", "Not In", {"list": [1, None, "x"]}),
              {"s": "a.id = b.parent_id"}, t3("x", "=", {"set": [1]}), None]:
        for pt in (0, 1):
            out.append({"k": "compile", "pt": pt, "arg": a})
    for op in OPS:
        for v in [None, 1, "s", {"list": [1, 2]}, {"tuple": []}, {"set": ["a"]}]:
            for pt in (0, 1):
                out.append({"k": "compile", "pt": pt, "arg": t3("f", op, v)})
    return out


def _interleave(cases, sessions):
    """sessions print several statements each: spread them so that no model shard gets many of them"""
    if not sessions:
        return cases
    step = max(1, len(cases) // len(sessions))
    out = []
    k = 0
    for i, c in enumerate(cases):
        if i % step == 0 and k < len(sessions):
            out.append(sessions[k])
            k += 1
        out.append(c)
    return out + sessions[k:]


def gen_cases(rng, tier):
    big = tier == "thorough"
    cases = _fixed_cases()
    for _ in range(12000 if big else 1000):
        cases.append(_gen_query(rng, 0.0))
    for _ in range(3000 if big else 250):
        cases.append(_gen_query(rng, 0.12))
    for _ in range(3000 if big else 250):
        cases.append({"k": "compile", "pt": rng.choice([0, 1]), "arg": _gen_arg(rng, None, 0, 0.15)})
    cases += _kw_sweep()
    sessions = _fixed_sessions() + [_gen_session(rng) for _ in range(1500 if big else 150)]
    return _interleave(cases, sessions)


def search_cases(rng, tier):
    return [_gen_query(rng, 0.0) for _ in range(3000)] + [_gen_session(rng) for _ in range(300)] + \
           [{"k": "compile", "pt": rng.choice([0, 1]), "arg": _gen_arg(rng, None, 0, 0.0)} for _ in range(1000)]


def kind(case):
    if case["k"] == "session":
        return "session"
    return case["k"] + (":" + case["mtd"] if case["k"] == "query" else f":pt{case['pt']}")


def _shrink_session(case):
    steps = case["steps"]
    for i, st in enumerate(steps):
        if st["op"] != "prep":
            c = dict(case)
            c["steps"] = steps[:i] + steps[i + 1:]
            yield c
    for i, st in enumerate(steps):
        if st["op"] == "call":
            for j in range(len(st["args"])):
                c = dict(case)
                c["steps"] = list(steps)
                c["steps"][i] = dict(st, args=st["args"][:j] + st["args"][j + 1:])
                yield c
            if st["kw"]:
                c = dict(case)
                c["steps"] = list(steps)
                c["steps"][i] = dict(st, kw={})
                yield c
    for i in range(len(case["rows"])):
        c = dict(case)
        c["rows"] = case["rows"][:i] + case["rows"][i + 1:]
        yield c


def shrink_candidates(case):
    if case["k"] == "session":
        yield from _shrink_session(case)
        return
    if case["k"] != "query":
        return
    for i in range(len(case["args"])):
        c = dict(case)
        c["args"] = case["args"][:i] + case["args"][i + 1:]
        yield c
    for k in list(case["kw"]):
        c = dict(case)
        c["kw"] = {a: b for a, b in case["kw"].items() if a != k}
        yield c
    for i, a in enumerate(case["args"]):
        if isinstance(a, dict) and "or" in a:
            for j in range(len(a["or"])):
                c = dict(case)
                c["args"] = list(case["args"])
                c["args"][i] = {"or": a["or"][:j] + a["or"][j + 1:], "kw": a["kw"]}
                yield c
            if a["kw"]:
                c = dict(case)
                c["args"] = list(case["args"])
                c["args"][i] = {"or": a["or"], "kw": {}}
                yield c
            if len(a["or"]) == 1 and not a["kw"]:
                c = dict(case)
                c["args"] = list(case["args"])
                c["args"][i] = a["or"][0]
                yield c
    for i in range(len(case["rows"])):
        c = dict(case)
        c["rows"] = case["rows"][:i] + case["rows"][i + 1:]
        yield c
    for key, val in (("mtd", "list"), ("mysql", False), ("group_by", None), ("as_scalars", None)):
        if case.get(key) != val:
            c = dict(case)
            c[key] = val
            yield c
    for key in ("kw_order", "kw_scalars"):
        if key in case:
            c = dict(case)
            del c[key]
            yield c


# ====================================================================== implementation
BAD_OBJS = {"int": 5, "dict": {"a": 1}, "set": {1, 2}, "float": 1.5, "bytes": b"ab"}


def _mk_value(v, sets):
    """JSON value -> python value; iteration order of every set is recorded in `sets`"""
    if isinstance(v, dict):
        if "list" in v:
            return list(v["list"])
        if "tuple" in v:
            return tuple(v["tuple"])
        if "set" in v:
            s = set(v["set"])
            sets.append(list(s))
            return s
        raise ValueError(v)
    return v


def _mk_values(a, sets):
    """first pass: python values (and recorded set orders) in depth-first order"""
    if a is None or "s" in a or "tn" in a or "bad" in a or "ref" in a:
        return a
    if "t3" in a:
        f, op, v = a["t3"]
        return dict(a, t3=[f, op, _mk_value(v, sets)])
    if "t2" in a:
        f, v = a["t2"]
        return dict(a, t2=[f, _mk_value(v, sets)])
    if "or" in a:
        ops = [_mk_values(x, sets) for x in a["or"]]
        tmp = {k: _mk_value(a["kw"][k], sets) for k in sorted(a["kw"])}     # set orders recorded in sorted-key order
        return {"or": ops, "kw": {k: tmp[k] for k in a["kw"]}}              # passed in the case's (unsorted) order
    raise ValueError(a)


class _SkipStep(Exception):
    """the step refers to an object whose creation raised"""


def _mk_arg(a, SqlMethod, kept=None, made=None):
    """second pass (may raise what SqlMethod._or raises); `made` collects the python containers handed over"""
    def note(x):
        if made is not None:
            import copy
            made.append((x, copy.deepcopy(x)))
        return x
    if a is None:
        return None
    if "s" in a:
        return a["s"]
    if "ref" in a:
        k = kept[a["ref"]]
        if k["obj"] is None:
            raise _SkipStep()
        return k["obj"]
    if "t3" in a:
        f, op, v = a["t3"]
        if isinstance(op, dict):
            op = 5
        if isinstance(v, (list, tuple, set)):
            note(v)
        t = (f, op, v)
        return t if a["as"] == "tuple" else note(list(t))
    if "t2" in a:
        if isinstance(a["t2"][1], (list, tuple, set)):
            note(a["t2"][1])
        t = tuple(a["t2"])
        return t if a["as"] == "tuple" else note(list(t))
    if "tn" in a:
        return tuple(["name"] * a["tn"])
    if "bad" in a:
        return BAD_OBJS[a["bad"]]
    for v in a["kw"].values():
        if isinstance(v, (list, tuple, set)):
            note(v)
    return SqlMethod._or(*[_mk_arg(x, SqlMethod, kept, made) for x in a["or"]], **a["kw"])


def _flat_value(v):
    if isinstance(v, list):
        return {"list": list(v)}
    if isinstance(v, tuple):
        return {"tuple": list(v)}
    if isinstance(v, set):
        return {"set": list(v)}          # the current iteration order
    return v


def _flatten(a, kept):
    """valued filter -> JSON filter with the CURRENT contents of every container; references resolved"""
    if a is None or "s" in a or "tn" in a or "bad" in a:
        return a
    if "ref" in a:
        k = kept[a["ref"]]
        if k["obj"] is None:
            raise _SkipStep()
        return _flatten(k["valued"], kept)
    if "t3" in a:
        f, op, v = a["t3"]
        return {"t3": [f, op, _flat_value(v)], "as": a["as"]}
    if "t2" in a:
        f, v = a["t2"]
        return {"t2": [f, _flat_value(v)], "as": a["as"]}
    return {"or": [_flatten(x, kept) for x in a["or"]], "kw": {k: _flat_value(v) for k, v in a["kw"].items()}}


def _valued_mutables(a, out):
    """the list / set objects of a valued filter, in the order of _own_mutables"""
    if not isinstance(a, dict):
        return
    if "t3" in a or "t2" in a:
        v = a["t3"][2] if "t3" in a else a["t2"][1]
        if isinstance(v, (list, set)):
            out.append(v)
    elif "or" in a:
        for x in a["or"]:
            _valued_mutables(x, out)
        for k in sorted(a["kw"]):
            if isinstance(a["kw"][k], (list, set)):
                out.append(a["kw"][k])


def _enc_param(p):
    if p is None or (isinstance(p, (int, str)) and not isinstance(p, bool)):
        return p
    if isinstance(p, (list, tuple, set)):
        k = "list" if isinstance(p, list) else "tuple" if isinstance(p, tuple) else "set"
        return {k: [_enc_param(x) for x in p]}
    return {"other": type(p).__name__}


def _subst_scalar(v):
    if v is None:
        return None
    if isinstance(v, int):
        return v + 1000003
    return "~" + v[::-1] + "#"


def _subst_value(v):
    if isinstance(v, dict):
        (k, items), = v.items()
        out = []
        for x in items:
            out.append(_subst_scalar(x))
        return {k: out}
    return _subst_scalar(v)


def _subst_arg(a):
    """same condition tree, every operand value replaced by another one of the same shape"""
    if a is None or "s" in a or "tn" in a or "bad" in a or "ref" in a:
        return a
    if "t3" in a:
        f, op, v = a["t3"]
        return dict(a, t3=[f, op, _subst_value(v)])
    if "t2" in a:
        f, v = a["t2"]
        return dict(a, t2=[f, _subst_value(v)])
    return {"or": [_subst_arg(x) for x in a["or"]], "kw": {k: _subst_value(v) for k, v in a["kw"].items()}}


def _leaves(a, out):
    """(field, value) operands whose atoms the oracle needs"""
    if a is None or "s" in a or "tn" in a or "bad" in a or "ref" in a:
        return
    if "t3" in a:
        out.append((a["t3"][0], a["t3"][1], a["t3"][2]))
    elif "t2" in a:
        out.append((a["t2"][0], "=", a["t2"][1]))
    else:
        for x in a["or"]:
            _leaves(x, out)
        for k, v in a["kw"].items():
            out.append((k, "=", v))


def _statics(a, out):
    if isinstance(a, dict):
        if "s" in a:
            out.append(a["s"])
        elif "t3" in a and a["t3"][0] is None and isinstance(a["t3"][1], str):
            out.append(a["t3"][1])
        elif "or" in a:
            for x in a["or"]:
                _statics(x, out)


def _akey(f, op, v):
    import json
    return json.dumps([f, op, v])


class _DriverError(Exception):
    """what a 'format' paramstyle driver (mysql.connector) does with a statement whose %s do not match the parameters"""


def _open_db(schema, rows):
    import sqlite3
    db = sqlite3.connect(":memory:")
    db.execute(SCHEMAS[schema])
    db.executemany("INSERT INTO t (id, name, qty, _name, _qty) VALUES (?, ?, ?, ?, ?)", [tuple(r) + tuple(r[1:]) for r in rows])
    db.commit()
    return db


def _make_conn(db, idx, mysql, execs):
    """a recording connection object over the sqlite db; mysql = it looks and behaves like mysql.connector:
    its class lives in a module 'mysql.connector...', every %s takes one parameter, all parameters must be used,
    and '?' is not a placeholder"""
    class Cur:
        def __init__(self):
            self._c = db.cursor()

        def execute(self, sql, params=()):
            execs.append([idx, sql, [_enc_param(p) for p in params]])
            if mysql:
                if sql.count("%s") != len(params) or "?" in sql:
                    raise _DriverError("Not all parameters were used in the SQL statement")
                sql = sql.replace("%s", "?")
            return self._c.execute(sql, params)

        @property
        def description(self):
            return self._c.description

        def __iter__(self):
            return iter(self._c)

        def close(self):
            self._c.close()

    Conn = type("Conn", (), {"cursor": lambda self: Cur()})
    Conn.__module__ = "mysql.connector.verif" if mysql else "verif.sqlite_recorder"
    return Conn()


def _result_obs(r, mtd, scalars_eff, obs):
    if mtd == "all":
        r = list(r)
    if mtd.startswith("t_"):
        r = list(r.records)

    def rid(x):
        return x if scalars_eff else x[0]
    obs["fields"] = None
    ids = [rid(x) for x in r] if isinstance(r, list) else [] if r is None else [rid(r)]
    if not all(isinstance(i, int) and not isinstance(i, bool) for i in ids):
        obs["res"] = ["err", "NotTheFirstColumn"]          # records where scalars were requested, or the reverse
        return
    if isinstance(r, list):
        obs["res"] = ["rows", [rid(x) for x in r]]
        obs["recs"] = None if scalars_eff else [list(x) for x in r]
        if r and not scalars_eff:
            obs["fields"] = [list(getattr(x, "_fields", ())) or None for x in r][0]
    elif r is None:
        obs["res"] = ["none"]
    else:
        obs["res"] = ["one", rid(r)]
        obs["recs"] = None if scalars_eff else [list(r)]
        if not scalars_eff:
            obs["fields"] = list(getattr(r, "_fields", ())) or None


def _measure(db, leaves, sts, obs):
    """the engine's own truth of every atom (col op ?) and static text, per row"""
    cur = db.cursor()
    obs["stored"] = [list(r) for r in cur.execute("SELECT id, name, qty FROM t ORDER BY id")]
    atoms = {}
    for f_, op, v in leaves:
        if f_ not in COL_OF or not isinstance(op, str):
            continue
        opu = op.upper()
        items = list(v.values())[0] if isinstance(v, dict) else [v]
        if opu in ("LIKE", "NOT LIKE"):
            sqlops = ["LIKE"]
        elif opu in (">", "<", ">=", "<="):
            sqlops = [opu]
        elif opu in ("=", "IN", "NOT IN"):
            sqlops = ["="]
        elif opu == "!=":
            sqlops = ["!=", "="]
        else:
            sqlops = []
        for so in sqlops:
            for x in items:
                key = _akey(f_, so, x)
                if key in atoms or isinstance(x, (dict, list)):
                    continue
                try:
                    atoms[key] = {str(i): t for i, t in cur.execute(f"SELECT id, ({f_} {so} ?) FROM t", [x])}
                except Exception:
                    pass
    stat = {}
    for s in sts:
        try:
            stat[s] = {str(i): t for i, t in cur.execute(f"SELECT id, ({s}) FROM t")}
        except Exception:
            stat[s] = None
    obs["atoms"] = atoms
    obs["statics"] = stat


def _run_query(case, args_json, record_atoms):
    from ak.mtd_sql import SqlMethod
    from ak.mcaller_sql import SqlMethodT
    db = _open_db(case["schema"], case["rows"])
    execs = []
    conn = _make_conn(db, 0, case["mysql"], execs)
    sets = []
    vals = [_mk_values(a, sets) for a in args_json]
    kwv = {k: _mk_value(case["kw_eff"][k], sets) for k in sorted(case["kw_eff"])}
    obs = {"sets": sets}
    mtd = case["mtd"]
    scalars_eff = case.get("kw_scalars", bool(case["as_scalars"])) if not mtd.startswith("t_") else False
    try:
        ctor = {"group_by": case["group_by"], "order_by": case["order_by"]}
        if mtd.startswith("t_"):
            m = SqlMethodT(SqlMethod(case["select"], **ctor))
            f = getattr(m, mtd[2:])
        else:
            if case["as_scalars"] is not None:
                ctor["as_scalars"] = case["as_scalars"]
            m = SqlMethod(case["select"], **ctor)
            f = getattr(m, mtd)
        kw = {k: kwv[k] for k in case["kw_eff"]}      # the case's (unsorted) keyword order
        if "kw_order" in case:
            kw["_order_by"] = case["kw_order"][0]
        if "kw_scalars" in case and not mtd.startswith("t_"):
            kw["_as_scalars"] = case["kw_scalars"]
        args = [_mk_arg(a, SqlMethod) for a in vals]
        _result_obs(f(conn, *args, **kw), mtd, scalars_eff, obs)
    except Exception as e:
        obs["res"] = ["err", SX.exc_name(e)]
    obs["execs"] = [e[1:] for e in execs]
    if record_atoms:
        leaves = []
        for a in args_json:
            _leaves(a, leaves)
        for k, v in case["kw_eff"].items():
            leaves.append((k, "=", v))
        sts = []
        for a in args_json:
            _statics(a, sts)
        _measure(db, leaves, sts, obs)
    db.close()
    return obs


def _run_session(case, subst):
    """one process, one table, the objects of the case created once; every step observed"""
    import copy
    from ak.mtd_sql import SqlFilterCondition, SqlFieldValCondition, SqlMethod
    from ak.mcaller_sql import SqlMethodT
    sa = _subst_arg if subst else (lambda a: a)
    sv = _subst_value if subst else (lambda v: v)
    db = _open_db(case["schema"], case["rows"])
    execs = []
    conns = [_make_conn(db, i, my, execs) for i, my in enumerate(case["conns"])]
    methods = []
    for md in case["methods"]:
        if "wrap" in md:
            methods.append(SqlMethodT(methods[md["wrap"]]))       # shares the SqlMethod object
            continue
        ctor = {"group_by": md["group_by"], "order_by": md["order_by"]}
        if md["t"]:
            methods.append(SqlMethodT(SqlMethod(md["select"], **ctor)))
        else:
            if md["as_scalars"] is not None:
                ctor["as_scalars"] = md["as_scalars"]
            methods.append(SqlMethod(md["select"], **ctor))
    kept = []
    out = []
    all_eff = []
    pending = []          # lazily consumed all() results: [steps still to run before it is finished, generator, head, so, scalars]

    def finish(force):
        for p in list(pending):
            p[0] -= 1
            if force or p[0] < 0:
                pending.remove(p)
                try:
                    _result_obs(p[2] + list(p[1]), "list", p[4], p[3])
                except Exception as e:
                    p[3]["res"] = ["err", SX.exc_name(e)]

    for st in case["steps"]:
        op = st["op"]
        so = {}
        out.append(so)
        if op in ("call", "text"):
            finish(False)
        if op == "prep":
            valued = _mk_values(sa(st["arg"]), [])
            k = {"valued": valued, "obj": None}
            kept.append(k)
            try:
                if valued.get("ctor"):
                    f, o, v = valued["t3"]
                    obj = SqlFieldValCondition(f, o, v)
                else:
                    a = _mk_arg(valued, SqlMethod, kept[:-1])
                    obj = a if isinstance(a, SqlFilterCondition) else SqlFilterCondition.make(a)
                k["obj"] = obj
                so["r"] = ["ok"]
                so["eff"] = _flatten(valued, kept)
            except _SkipStep:
                so["skip"] = 1
            except Exception as e:
                so["r"] = ["err", SX.exc_name(e)]
                try:
                    so["eff"] = _flatten(valued, kept)
                except _SkipStep:
                    so.pop("r")
                    so["skip"] = 1
            continue
        if op == "set":
            k = kept[st["c"]]
            muts = []
            _valued_mutables(k["valued"], muts)
            tgt = muts[st["seq"]]
            items = list(sv({"list": st["items"]}).values())[0]
            if isinstance(tgt, list):
                tgt[:] = items
            else:
                tgt.clear()
                tgt.update(items)
            continue
        if op == "text":
            k = kept[st["c"]]
            if k["obj"] is None:
                so["skip"] = 1
                continue
            so["eff"] = _flatten(k["valued"], kept)
            vals = [7] * st["pre"]
            try:
                text = k["obj"].make_text_update_values(vals, st["pt"])
                so["r"] = ["ok", text, [_enc_param(p) for p in vals]]
            except Exception as e:
                so["r"] = ["err", SX.exc_name(e)]
            continue
        # ---- a request
        md = case["methods"][st["m"]]
        base = case["methods"][md["wrap"]] if "wrap" in md else md
        mtd = st["mtd"]
        tm = mtd.startswith("t_")
        scalars_eff = False if tm else st.get("kw_scalars", bool(base["as_scalars"]))
        valued = [_mk_values(sa(a), []) for a in st["args"]]
        kwv = {k: _mk_value(sv(v), []) for k, v in st["kw"].items()}
        try:
            so["eff"] = [_flatten(a, kept) for a in valued]
        except _SkipStep:
            so["skip"] = 1
            continue
        so["effkw"] = {k: _flat_value(v) for k, v in kwv.items()}
        all_eff.append((so["eff"], so["effkw"]))
        n0 = len(execs)
        made = []
        try:
            kw = dict(kwv)
            made += [(v, copy.deepcopy(v)) for v in kwv.values() if isinstance(v, (list, tuple, set))]
            if "kw_order" in st:
                kw["_order_by"] = st["kw_order"][0]
            if "kw_scalars" in st and not tm:
                kw["_as_scalars"] = st["kw_scalars"]
            f = getattr(methods[st["m"]], mtd[2:] if tm else mtd)
            args = [_mk_arg(a, SqlMethod, kept, made) for a in valued]
            if mtd == "all" and "lazy" in st:
                # the result of all() is consumed LAZILY: st["lazy"] = [items taken now (>= 1: the request is executed),
                # number of later call / text steps that run before the rest is taken]
                it = iter(f(conns[st["conn"]], *args, **kw))
                head = []
                for _ in range(max(1, st["lazy"][0])):
                    try:
                        head.append(next(it))
                    except StopIteration:
                        break
                so["res"] = ["err", "LazyResultNeverFinished"]
                pending.append([st["lazy"][1], it, head, so, scalars_eff])
            else:
                _result_obs(f(conns[st["conn"]], *args, **kw), mtd, scalars_eff, so)
        except Exception as e:
            so["res"] = ["err", SX.exc_name(e)]
        so["execs"] = execs[n0:]
        after = ([_flatten(a, kept) for a in valued], {k: _flat_value(v) for k, v in kwv.items()})
        so["mut"] = bool(after != (so["eff"], so["effkw"]) or any(type(x) is not type(y) or x != y for x, y in made))
    finish(True)
    obs = {"steps": out, "sets": []}
    if not subst:
        leaves = []
        sts = []
        for so in out:
            effs = so.get("eff")
            if effs is None:
                continue
            for a in (effs if isinstance(effs, list) else [effs]):
                _leaves(a, leaves)
                _statics(a, sts)
            for k, v in so.get("effkw", {}).items():
                leaves.append((k, "=", v))
        _measure(db, leaves, sts, obs)
    db.close()
    return obs


def impl_run(case):
    from ak.mtd_sql import SqlFilterCondition, SqlMethod
    if case["k"] == "session":
        obs = _run_session(case, False)
        o2 = _run_session(case, True)
        # non-interference probe: the same history with other operand values of the same shapes
        obs["texts2"] = [([e[1] for e in so["execs"]] if "execs" in so else so.get("r", [None])[:2])
                         for so in o2["steps"]]
        return obs
    if case["k"] == "compile":
        sets = []
        val = _mk_values(case["arg"], sets)
        obs = {"sets": sets}
        try:
            c = SqlFilterCondition.make(_mk_arg(val, SqlMethod))
            vals = []
            text = c.make_text_update_values(vals, case["pt"])
            obs["r"] = ["ok", text, [_enc_param(p) for p in vals]]
        except Exception as e:
            obs["r"] = ["err", SX.exc_name(e)]
        # same shape, other values
        try:
            c2 = SqlFilterCondition.make(_mk_arg(_mk_values(_subst_arg(case["arg"]), []), SqlMethod))
            text2 = c2.make_text_update_values([], case["pt"])
            obs["r2"] = ["ok", text2]
        except Exception as e:
            obs["r2"] = ["err", SX.exc_name(e)]
        return obs
    c = dict(case)
    c["kw_eff"] = case["kw"]
    obs = _run_query(c, case["args"], True)
    # non-interference probe: same condition shapes, different operand values
    c2 = dict(case)
    c2["kw_eff"] = {k: _subst_value(v) for k, v in case["kw"].items()}
    o2 = _run_query(c2, [_subst_arg(a) for a in case["args"]], False)
    obs["execs2"] = [e[0] for e in o2["execs"]]
    return obs


# ====================================================================== model side
def _c_scalar(x):
    if x is None:
        return "SNone"
    if isinstance(x, int):
        return f"(SInt {SX.cZ(x)})"
    return f"(SStr {SX.cstr(x)})"


def _c_scalars(items):
    return "[" + "; ".join(_c_scalar(x) for x in items) + "]" if items else "(@nil scalar)"


def _c_value(v, sets):
    if isinstance(v, dict):
        (k, items), = v.items()
        if k == "set" and sets is not None:     # sets None: the items already are in iteration order
            items = sets.pop(0)
        return f"(VSeq {KIND_NAME[k]} {_c_scalars(items)})"
    return f"(VS {_c_scalar(v)})"


def _c_optstr(s):
    return "None" if s is None else f"(Some {SX.cstr(s)})"


def _c_kw(kw, sets):
    tmp = {k: f"({SX.cstr(k)}, {_c_value(kw[k], sets)})" for k in sorted(kw)}
    ents = [tmp[k] for k in kw]          # unsorted, the model sorts like the code does
    return "[" + "; ".join(ents) + "]" if ents else "(@nil (list Z * pyval))"


def _c_arg(a, sets):
    if a is None:
        return "ANone"
    if "s" in a:
        return f"(AText {SX.cstr(a['s'])})"
    if "t3" in a:
        f, op, v = a["t3"]
        cop = "None" if isinstance(op, dict) else f"(Some ({SX.cstr(op)}, {SX.cstr(op.upper())}))"
        return f"(ATup3 {_c_optstr(f)} {cop} {_c_value(v, sets)})"
    if "t2" in a:
        f, v = a["t2"]
        return f"(ATup2 {_c_optstr(f)} {_c_value(v, sets)})"
    if "tn" in a:
        return "ATupN"
    if "bad" in a:
        return "ABad"
    ops = [_c_arg(x, sets) for x in a["or"]]
    return f"(AOr {'[' + '; '.join(ops) + ']' if ops else '(@nil arg)'} {_c_kw(a['kw'], sets)})"


def _tv_code(t):
    return 2 if t is None else (1 if t else 0)


def _effective_order(case):
    return case["kw_order"][0] if "kw_order" in case else case["order_by"]


def _rows_comparable(schema, rows, statics, res, execs):
    if schema != "untyped":
        return False
    if not rows and (res or [None])[0] == "err" and execs:
        # the engine rejected the executed statement (e.g. a malformed field name gives 'WHERE  = ') and
        # the table is empty: Model.v's evaluator looks at the WHERE clause only per row, so with no row
        # it cannot see the rejection; only the statement text and the bound values are compared
        return False
    return all(v is not None for v in (statics or {}).values())


def _with_rows(case, obs):
    return _rows_comparable(case["schema"], case.get("rows"), obs.get("statics"), obs.get("res"), obs.get("execs"))


def _c_method(md):
    return (f"{{| m_select := {SX.cstr(md['select'])}; m_group := {_c_optstr(md['group_by'])}; "
            f"m_order := {_c_optstr(md['order_by'])} |}}")


def _c_statics(statics):
    st = []
    for text, per in (statics or {}).items():
        ents = "; ".join(f"({SX.cZ(int(i))}, {_tv_code(t)})" for i, t in per.items())
        st.append(f"({SX.cstr(text.strip(' '))}, {'[' + ents + ']' if ents else '(@nil (Z * Z))'})")
    return '[' + '; '.join(st) + ']' if st else '(@nil (list Z * list (Z * Z)))'


def _c_rows(rows_json):
    rows = []
    for i, name, qty in rows_json:
        rows.append(f"{{| r_id := {SX.cZ(i)}; r_cols := [({SX.cstr('id')}, SInt {SX.cZ(i)}); "
                    f"({SX.cstr('name')}, {_c_scalar(name)}); ({SX.cstr('qty')}, {_c_scalar(qty)}); "
                    f"({SX.cstr('_name')}, {_c_scalar(name)}); ({SX.cstr('_qty')}, {_c_scalar(qty)})] |}}")
    return '[' + '; '.join(rows) + ']' if rows else '(@nil row)'


def _is_desc(order):
    return order is not None and order.upper().endswith("DESC")


def _base_method(case, mi):
    md = case["methods"][mi]
    return case["methods"][md["wrap"]] if "wrap" in md else md


def _session_wr(case, obs):
    return case["schema"] == "untyped" and all(v is not None for v in (obs.get("statics") or {}).values())


def _step_order(case, st):
    return st["kw_order"][0] if "kw_order" in st else _base_method(case, st["m"])["order_by"]


def _coq_session(case, obs):
    wr = _session_wr(case, obs)
    ms = "[" + "; ".join(_c_method(_base_method(case, i)) for i in range(len(case["methods"]))) + "]"
    steps = []
    for st, so in zip(case["steps"], obs["steps"]):
        op = st["op"]
        if op == "set":
            continue
        if so.get("skip"):
            steps.append("SSkip")
        elif op == "prep":
            steps.append(f"SPrep {_c_arg(so['eff'], None)}")
        elif op == "text":
            steps.append(f"SText {st['pt']} {_c_arg(so['eff'], None)}")
        else:
            args = [_c_arg(a, None) for a in so["eff"]]
            kwo = f"(Some {_c_optstr(st['kw_order'][0])})" if "kw_order" in st else "None"
            w = wr and _rows_comparable(case["schema"], case["rows"], {}, so.get("res"), so.get("execs"))
            steps.append(f"SCall {st['m']} {SX.cbool(case['conns'][st['conn']])} {kwo} "
                         f"{'[' + '; '.join(args) + ']' if args else '(@nil arg)'} {_c_kw(so['effkw'], None)} "
                         f"{SX.cbool(w)} {SX.cbool(_is_desc(_step_order(case, st)))} {METHODS.index(st['mtd'])}")
    return (f"Session {ms} {_c_statics(obs.get('statics') if wr else None)} {_c_rows(case['rows'] if wr else [])} "
            f"{'[' + '; '.join(steps) + ']' if steps else '(@nil step)'}")


def coq_case(case, obs):
    if case["k"] == "session":
        return _coq_session(case, obs)
    sets = [list(s) for s in obs["sets"]]
    if case["k"] == "compile":
        return f"Compile {case['pt']} {_c_arg(case['arg'], sets)}"
    args = [_c_arg(a, sets) for a in case["args"]]
    kw = _c_kw(case["kw"], sets)
    kwo = f"(Some {_c_optstr(case['kw_order'][0])})" if "kw_order" in case else "None"
    wr = _with_rows(case, obs)
    return (f"Query {SX.cbool(case['mysql'])} {_c_method(case)} {kwo} {'[' + '; '.join(args) + ']' if args else '(@nil arg)'} {kw} "
            f"{SX.cbool(wr)} {_c_statics(obs.get('statics') if wr else None)} {_c_rows(case['rows'] if wr else [])} "
            f"{SX.cbool(_is_desc(_effective_order(case)))} {METHODS.index(case['mtd'])}")


def _sx_param(p):
    if p is None:
        return []
    if isinstance(p, int):
        return [0, p]
    if isinstance(p, str):
        return [1, SX.s(p)]
    (k, items), = p.items()
    return [2, KIND_CODE[k], [_sx_param(x) for x in items]]


def _sx_compile(r):
    if r[0] == "err":
        return SX.err(r[1])
    return SX.ok([SX.s(r[1]), [_sx_param(p) for p in r[2]]])


def _sx_request(ex, res, with_rows, order):
    """ex = executed [sql, params] statements of the request"""
    rec = [SX.s(ex[0][0]), [_sx_param(p) for p in ex[0][1]]] if ex else []
    if not ex:
        out = SX.err(res[1]) if res[0] == "err" else [9]
    elif not with_rows:
        out = []
    elif res[0] == "err":
        out = SX.err(res[1])
    elif res[0] == "rows":
        ids = res[1]
        if order is None:
            ids = sorted(ids)
        out = SX.ok([0, ids])
    elif res[0] == "none":
        out = SX.ok([1])
    else:
        out = SX.ok([2, res[1]])
    return [rec, out]


def expected_sx(case, obs):
    if case["k"] == "compile":
        return SX.dumps(_sx_compile(obs["r"]))
    if case["k"] == "session":
        wr = _session_wr(case, obs)
        out = []
        for st, so in zip(case["steps"], obs["steps"]):
            op = st["op"]
            if op == "set":
                continue
            if so.get("skip"):
                out.append([7])
            elif op == "prep":
                out.append(SX.ok([]) if so["r"][0] == "ok" else SX.err(so["r"][1]))
            elif op == "text":
                r = so["r"]
                if r[0] == "ok" and r[2][:st["pre"]] == [7] * st["pre"]:
                    r = ["ok", r[1], r[2][st["pre"]:]]       # the values already in the list stay in front
                out.append(_sx_compile(r))
            else:
                w = wr and _rows_comparable(case["schema"], case["rows"], {}, so.get("res"), so.get("execs"))
                out.append(_sx_request([e[1:] for e in so["execs"]], so["res"], w, _step_order(case, st)))
        return SX.dumps(out)
    return SX.dumps(_sx_request(obs["execs"], obs["res"], _with_rows(case, obs), _effective_order(case)))


def in_model(case, obs):
    if "__hang__" in obs:
        return False

    def ok_param(p):
        return not (isinstance(p, dict) and "other" in p)
    if case["k"] == "compile":
        return obs["r"][0] == "err" or all(ok_param(p) for p in obs["r"][2])
    if case["k"] == "session":
        for so in obs["steps"]:
            if not all(ok_param(p) for e in so.get("execs", []) for p in e[2]):
                return False
            r = so.get("r")
            if r and r[0] == "ok" and len(r) > 2 and not all(ok_param(p) for p in r[2]):
                return False
        return True
    return all(ok_param(p) for e in obs["execs"] for p in e[1])


# ====================================================================== oracle (the statement, independently)
def _and3(a, b):
    if a is False or b is False:
        return False
    if a is True and b is True:
        return True
    return None


def _or3(a, b):
    if a is True or b is True:
        return True
    if a is False and b is False:
        return False
    return None


def _not3(a):
    return None if a is None else (not a)


def _tv(x):
    return None if x is None else bool(x)


class _Outside(Exception):
    """the filter is not one of the documented forms / outside the claimed domain"""


def _meaning(f, op, v):
    """documented meaning of a (field, op, value) filter"""
    if not isinstance(f, str) or not isinstance(op, str):
        raise _Outside()
    o = op.upper()
    seq = isinstance(v, dict)
    kind = list(v)[0] if seq else None
    if o in ("=", "!="):
        if v is None:
            return ("null", f, o == "=")
        if seq:
            if kind == "set":
                raise _Outside()          # sets are documented only with IN / NOT IN
            return ("in", f, o == "=", v[kind], kind)
        return ("cmp", f, o, v)
    if o in ("IN", "NOT IN"):
        if not seq:
            raise _Outside()
        return ("in", f, o == "IN", v[kind], kind)
    if o in ("IS NULL", "IS NOT NULL"):
        if v is not None:
            raise _Outside()
        return ("null", f, o == "IS NULL")
    if o in ("LIKE", "NOT LIKE"):
        if not isinstance(v, str):
            raise _Outside()
        return ("like", f, o == "LIKE", v)
    if o in (">", "<", ">=", "<="):
        if seq:
            raise _Outside()
        return ("cmp", f, o, v)
    raise _Outside()


def _spec(a):
    """arg -> spec tree ('static', text) | leaf | ('or', [trees])"""
    if a is None or "tn" in a or "bad" in a:
        raise _Outside()
    if "s" in a:
        return ("static", a["s"])
    if "t3" in a:
        f, op, v = a["t3"]
        if f is None:
            raise _Outside()
        return _meaning(f, op, v)
    if "t2" in a:
        f, v = a["t2"]
        return _meaning(f, "=", v)
    return ("or", [_spec(x) for x in a["or"]] + [_meaning(k, "=", a["kw"][k]) for k in sorted(a["kw"])])


def _truth(t, rid, row, obs):
    k = t[0]
    col = COL_OF
    if k == "static":
        return _tv(obs["statics"][t[1]][rid])
    if k == "or":
        r = False
        for x in t[1]:
            r = _or3(r, _truth(x, rid, row, obs))
        return r
    if t[1] not in col:
        raise _Outside()
    if k == "null":
        isn = row[col[t[1]]] is None
        return isn if t[2] else not isn
    if k == "cmp":
        return _tv(obs["atoms"][_akey(t[1], t[2], t[3])][rid])
    if k == "like":
        r = _tv(obs["atoms"][_akey(t[1], "LIKE", t[3])][rid])
        return r if t[2] else _not3(r)
    r = False
    for x in t[3]:
        r = _or3(r, _tv(obs["atoms"][_akey(t[1], "=", x)][rid]))
    return r if t[2] else _not3(r)


def _segments(t, out):
    """bound values in the order the statement must carry them; ('u', items) = any order (set)"""
    k = t[0]
    if k == "cmp":
        out.append(("o", [t[3]]))
    elif k == "like":
        out.append(("o", [t[3]]))
    elif k == "in":
        out.append(("u" if t[4] == "set" else "o", list(t[3])))
    elif k == "or":
        for x in t[1]:
            _segments(x, out)


def _params_match(segs, params):
    i = 0
    key = lambda x: (type(x).__name__, repr(x))
    for mode, items in segs:
        got = params[i:i + len(items)]
        if len(got) != len(items):
            return False
        if mode == "o":
            if [key(x) for x in got] != [key(x) for x in items]:
                return False
        elif sorted(key(x) for x in got) != sorted(key(x) for x in items):
            return False
        i += len(items)
    return i == len(params)


def _same(a, b):
    return type(a) is type(b) and a == b


def _oracle_compile(arg, pt, r, r2):
    out = []
    try:
        t = _spec(arg)
    except _Outside:
        return []
    if r[0] != "ok":
        return [("raises-on-valid-filter", f"make/make_text_update_values raised {r[1]} for a documented filter {arg}")]
    ph = "?" if pt == 0 else "%s"
    other = "%s" if pt == 0 else "?"
    segs = []
    _segments(t, segs)
    if any(isinstance(p, dict) for p in r[2]) or not _params_match(segs, r[2]):
        out.append(("params-mismatch", f"bound values {r[2]} are not the operands in order for {arg} (text {r[1]!r})"))
    if r[1].count(ph) != len(r[2]) or other in r[1]:
        out.append(("placeholder-count", f"{r[1].count(ph)} placeholders {ph!r} but {len(r[2])} bound values in {r[1]!r}"))
    if r2 is not None and list(r2) != ["ok", r[1]]:
        out.append(("value-in-text", f"text depends on operand values: {r[1]!r} vs {r2} for {arg}"))
    return out


def _expected_record(select, stored_row):
    return [stored_row[c] if isinstance(c, int) else c[1] for c in SELECTS[select][1]]


def _oracle_query(case, obs):
    """case: args, kw, mtd, mysql, select, order_by [, kw_order]; obs: stored, atoms, statics, res, execs ([sql, params]),
    execs2, recs, fields"""
    out = []
    try:
        specs = [_spec(a) for a in case["args"] if a is not None]
        specs += [_meaning(k, "=", case["kw"][k]) for k in sorted(case["kw"])]
        stored = {r[0]: r for r in obs["stored"]}
        want = []
        for rid in sorted(stored):
            v = True
            for t in specs:
                v = _and3(v, _truth(t, str(rid), stored[rid], obs))
            if v is True:
                want.append(rid)
    except _Outside:
        return []
    except (KeyError, TypeError):
        return []        # an atom / static could not be measured on the engine: no demand
    res = obs["res"]
    ex = obs["execs"]
    if len(ex) != 1:
        return [("not-one-statement", f"{len(ex)} statements executed; result {res}")]
    sql, params = ex[0]
    order = _effective_order(case)
    if order is not None and order.upper().endswith("DESC"):
        want.reverse()
    mtd = case["mtd"]
    if mtd in ("list", "all", "t_list"):
        exp = ["rows", want]
    elif mtd == "one_or_none":
        exp = ["none"] if not want else ["one", want[0]] if len(want) == 1 else ["err", "ValueError"]
    elif mtd == "one":
        exp = ["one", want[0]] if len(want) == 1 else ["err", "ValueError"]
    elif mtd == "t_one":
        exp = ["rows", want] if len(want) == 1 else ["err", "ValueError"]
    else:
        exp = ["rows", want] if len(want) <= 1 else ["err", "ValueError"]
    got = res
    if got[0] == "rows" and order is None:
        got = ["rows", sorted(got[1])]
    if got != exp:
        sig = "raises-on-valid-filter" if res[0] == "err" and exp[0] != "err" else "wrong-rows"
        out.append((sig, f"{mtd} returned {res}, the filters select {exp} (sql {sql!r}, params {params}, "
                         f"args {case['args']}, kw {case['kw']})"))
    elif obs.get("recs") is not None:
        for rec in obs["recs"]:
            exp_rec = _expected_record(case["select"], stored[rec[0]]) if rec and rec[0] in stored else None
            if exp_rec is None or len(rec) != len(exp_rec) or not all(_same(a, b) for a, b in zip(rec, exp_rec)):
                out.append(("wrong-record", f"record {rec} is not the selected part {exp_rec} of the stored row"))
                break
        if obs["recs"] and obs.get("fields") != SELECTS[case["select"]][0]:
            out.append(("wrong-record", f"record fields {obs.get('fields')} for {case['select']!r}"))
    segs = []
    for t in specs:
        _segments(t, segs)
    if any(isinstance(p, dict) for p in params) or not _params_match(segs, params):
        out.append(("params-mismatch", f"bound values {params} are not the operands in order (sql {sql!r}, args {case['args']}, kw {case['kw']})"))
    ph = "%s" if case["mysql"] else "?"
    other = "?" if case["mysql"] else "%s"
    if sql.count(ph) != len(params) or other in sql:
        out.append(("placeholder-count", f"{sql.count(ph)} placeholders {ph!r} but {len(params)} bound values in {sql!r}"))
    if obs["execs2"] != [sql]:
        out.append(("value-in-text", f"statement text depends on operand values: {sql!r} vs {obs['execs2']}"))
    return out


def _set_path(a, path, items):
    """a copy of filter a with the container at `path` holding `items`"""
    if not path:
        if "t3" in a:
            (k, _), = a["t3"][2].items()
            return dict(a, t3=[a["t3"][0], a["t3"][1], {k: list(items)}])
        (k, _), = a["t2"][1].items()
        return dict(a, t2=[a["t2"][0], {k: list(items)}])
    if path[0] == "kw":
        (k, _), = a["kw"][path[1]].items()
        return {"or": a["or"], "kw": dict(a["kw"], **{path[1]: {k: list(items)}})}
    ops = list(a["or"])
    ops[path[0]] = _set_path(ops[path[0]], path[1:], items)
    return {"or": ops, "kw": a["kw"]}


def _resolve(a, kept):
    if not isinstance(a, dict) or "ref" not in a and "or" not in a:
        return a
    if "ref" in a:
        return _resolve(kept[a["ref"]], kept)
    return {"or": [_resolve(x, kept) for x in a["or"]], "kw": a["kw"]}


def _session_effective(case):
    """what each step means, from the case alone: the filters of a request / text step with every reference
    replaced by the filter the object was made from, holding the contents its lists have at that moment"""
    kept = []
    out = []
    for st in case["steps"]:
        op = st["op"]
        if op == "prep":
            kept.append(st["arg"])
            out.append(_resolve(st["arg"], kept))
        elif op == "set":
            muts = []
            _own_mutables(kept[st["c"]], muts)
            kept[st["c"]] = _set_path(kept[st["c"]], muts[st["seq"]][0], st["items"])
            out.append(None)
        elif op == "text":
            out.append(_resolve(kept[st["c"]], kept))
        else:
            out.append([_resolve(a, kept) for a in st["args"]])
    return out


def _oracle_session(case, obs):
    out = []
    effs = _session_effective(case)
    for i, (st, so, eff) in enumerate(zip(case["steps"], obs["steps"], effs)):
        op = st["op"]
        found = []
        if op == "set":
            continue
        if op == "prep":
            try:
                _spec(eff)
            except _Outside:
                continue
            if so.get("skip") or so["r"][0] != "ok":
                found.append(("raises-on-valid-filter", f"creating a condition object for the documented filter {eff} raised {so.get('r')}"))
        elif op == "text":
            if so.get("skip"):
                continue
            r = so["r"]
            if r[0] == "ok":
                if r[2][:st["pre"]] != [7] * st["pre"]:
                    found.append(("params-mismatch", f"make_text_update_values changed the values already in the list: {r[2]}"))
                r = ["ok", r[1], r[2][st["pre"]:]]
            found += _oracle_compile(eff, st["pt"], r, obs["texts2"][i])
        else:
            if so.get("skip"):
                continue
            md = _base_method(case, st["m"])
            qc = {"args": eff, "kw": st["kw"], "mtd": st["mtd"], "mysql": case["conns"][st["conn"]],
                  "select": md["select"], "order_by": md["order_by"]}
            if "kw_order" in st:
                qc["kw_order"] = st["kw_order"]
            qo = {"stored": obs["stored"], "atoms": obs["atoms"], "statics": obs["statics"], "res": so["res"],
                  "execs": [e[1:] for e in so["execs"]], "execs2": obs["texts2"][i], "recs": so.get("recs"),
                  "fields": so.get("fields")}
            found += _oracle_query(qc, qo)
            if any(e[0] != st["conn"] for e in so["execs"]):
                found.append(("wrong-connection", f"the request was given connection {st['conn']} but executed on {[e[0] for e in so['execs']]}"))
            if so.get("mut"):
                found.append(("argument-mutated", f"the request changed an argument object passed to it: {so['eff']} {so['effkw']}"))
        steps_txt = [x if x["op"] != "call" else {k: v for k, v in x.items() if k != "op"} for x in case["steps"][:i + 1]]
        out += [(sig, f"step {i} of a session ({'mysql' if op == 'call' and case['conns'][st['conn']] else '?'}-style): {msg}; "
                      f"history: {steps_txt}"[:1500]) for sig, msg in found]
    return out


def oracle(case, obs):
    if "__hang__" in obs:
        return [("hang", "call did not return")]
    if case["k"] == "compile":
        return _oracle_compile(case["arg"], case["pt"], obs["r"], obs["r2"])
    if case["k"] == "session":
        return _oracle_session(case, obs)
    return _oracle_query(case, obs)


def nontrivial(case, obs):
    if "__hang__" in obs:
        return False
    if case["k"] == "compile":
        return obs["r"][0] == "ok"
    if case["k"] == "session":
        return sum(1 for so in obs["steps"] if so.get("execs") and " WHERE " in so["execs"][0][1]) >= 2
    return bool(obs["execs"]) and " WHERE " in obs["execs"][0][0] and bool(case["rows"])


def outcome(case, obs):
    if "__hang__" in obs:
        return "hang"
    if case["k"] == "compile":
        return "compile:" + (obs["r"][0] if obs["r"][0] == "ok" else obs["r"][1])
    if case["k"] == "session":
        styles = {case["conns"][st["conn"]] for st, so in zip(case["steps"], obs["steps"])
                  if st["op"] == "call" and so.get("execs")}
        return "session:" + ("both-styles" if len(styles) == 2 else "one-style")
    r = obs["res"]
    return "query:" + (r[1] if r[0] == "err" else r[0])


TRUSTED_BASE = [
    "SQL side of the theorems: Model.v's token-level evaluator of the emitted WHERE fragment (precedence OR < AND < predicate, "
    "three-valued logic, x IN (..) = OR of equalities, IN () false) is the specification of what the engine does with the "
    "statement; it is compared with the real sqlite3 on every run (rows), not proved",
    "a field_name and a static condition text are taken as ONE operand token each, and the text pieces concatenated by the "
    "code are lexed piecewise (every clause literal starts with a blank: obligation clause_leading_blank)",
    "SQLite's value comparison and LIKE are Section variables in where_semantics (arbitrary functions); the concrete "
    "instance used for the row correspondence covers NULL/INTEGER/TEXT in columns without affinity",
    "op.upper() is computed by Python and handed to the model together with op",
    "gen/C15_Consts.v: _SQL_CLAUSES, the operator groups of both if-chains, the literals '0'/'1'/'FALSE', the IS [NOT] NULL / "
    "[NOT] IN rewrites, separators and WHERE/AND/GROUP BY/ORDER BY are read from ak/mtd_sql.py (ast, fail-closed)",
    "iteration order of python sets is observed on the implementation and passed to the model",
    "sessions: the model has no object state; a reference to a kept condition object is handed to the model as the filter "
    "it was made from with the CURRENT contents of its list / set objects (read from the python objects just before the "
    "request; theorem prepared_condition_tracks_its_lists says creation-time decisions do not depend on the contents); "
    "the oracle computes the same from the case alone.  That the implementation keeps no other state is tested, not proved",
    "the '%s' connection is a stand-in over sqlite3 whose class lives in a module named mysql.connector.*: one parameter "
    "per %s, all parameters used, '?' rejected (no real MySQL server)",
]
ASSUMPTIONS = [
    "operands are None, int (64-bit) or str, or list/tuple/set of those; a set with '='/'!=' and a container with an ordering "
    "operator are outside the claimed domain (the engine rejects the binding)",
    "field names and static texts are developer-supplied SQL: a static text with a top-level OR next to other filters is "
    "outside the claimed domain (the code does not parenthesise it)",
    "requested order = ORDER BY text handed to the engine; checked for 'id' / 'id DESC' on a unique integer column",
]
MODELLED = ("ak/mtd_sql.py: SqlFilterCondition.make, SqlFieldValCondition, SqlOrCondition, SqlMethod._execute/list/all/one/"
            "one_or_none (record type creation and records_mmap not modelled); ak/mcaller_sql.py: only the row-count rules of "
            "SqlMethodT.list/one/one_or_none; histories (Run.v `Session`): several requests / make_text_update_values calls on "
            "shared SqlMethod and condition objects as a map of independent steps")
TECHNIQUE = ("Coq proofs (structural induction over condition trees, fuel-indexed recursive-descent evaluator) on a hand-written "
             "Gallina model + per-run correspondence (sql text, bound values, returned rows vs real sqlite3) + constants "
             "regenerated from the source + independent three-valued-logic oracle using the engine's own atom truths")
LEVEL_TEXT = ("Full (about the model, unbounded condition trees / values / tables): leaf_compiles, where_semantics, rows_selected, "
              "placeholders_match (token level), values_never_in_text + same_shape_same_text (for ALL arguments, also rejected "
              "ones), empty_in; the clause tables, operator groups, '0'/'1'/'FALSE', IS [NOT] NULL / [NOT] IN rewrites and "
              "separators are re-read from ak/mtd_sql.py on every run, so consts_ok / leaf_compiles are re-proved against the "
              "current source.  Histories: session_requests_independent / session_call_is_query / session_rows_selected (the k-th "
              "request of any history is the single request of the other theorems - trivial, the model is a pure function), "
              "prepared_condition_tracks_its_lists / prepared_conditions_in_request / prepared_condition_text_is_current (a kept "
              "condition object whose list was changed = the object made now from the current values; text and placeholders "
              "follow the current contents).  That the IMPLEMENTATION has no state between requests (placeholder style, "
              "statement text, order / scalars overrides, record type, connection, cached condition text or values) and does "
              "not change its arguments is tested only (150 sessions per quick run; oracle signatures placeholder-count, "
              "wrong-connection, argument-mutated, wrong-record).  Partial: the text-level count of '?' characters (placeholders_text_statement) is proved only for "
              "the literals (placeholders_text_partial) and tested on every case.  Tested only: that sqlite3 treats the "
              "emitted text like Model.v's token evaluator (rows compared on ~1000 untyped-table queries per quick run), typed "
              "columns (oracle with the engine's own atom truths), the '%s' style end-to-end, record contents, ORDER BY.")
LEVEL_NOTE = ("Trusted: Coq kernel + vm_compute; fidelity of the hand model (correspondence: sql text, bound values, rows / "
              "exception class on every case); the SQL fragment evaluator as specification of the engine; piecewise lexing "
              "(field names and static texts are single operands); ast extractor; harness.  Domain exclusions: set with "
              "'='/'!=', container with an ordering operator, static text with a top-level OR beside other filters.  "
              "Print Assumptions: closed under the global context for every theorem.")
DESIGN_REF = "DESIGN.md section 8, C15"
