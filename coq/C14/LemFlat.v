(* C14/LemFlat.v -- _flatten_dict (nested form = dotted flat form) and the independence
   of the description set from order and batching of registrations. *)
From Coq Require Import ZArith List Bool Lia Permutation FinFun.
From AK Require Import Common.Err C14.Model C14.LemBase C14.LemSpec C14.LemLoop C14.LemHist.
Import ListNotations.
Open Scope Z_scope.

(* ------------------------------------------------------------------ dict_set / dedupe *)
Lemma dict_set_nodup {V} k (v : V) acc : NoDup (map fst acc) -> NoDup (map fst (dict_set k v acc)).
Proof.
  intros H. unfold dict_set. destruct (has_key k acc) eqn:E.
  - rewrite update_keys. exact H.
  - rewrite map_app. cbn [map fst]. eapply Permutation_NoDup; [apply Permutation_cons_append|].
    constructor; [|exact H]. intros Hin. apply has_key_In in Hin. congruence.
Qed.

Lemma fold_dict_set_nodup {V} (l : list (str * V)) : forall acc,
  NoDup (map fst acc) -> NoDup (map fst (fold_left (fun a kv => dict_set (fst kv) (snd kv) a) l acc)).
Proof.
  induction l as [|[k v] r IH]; intros acc H; cbn [fold_left]; [exact H|].
  apply IH. apply dict_set_nodup. exact H.
Qed.

Lemma dedupe_nodup l : NoDup (map fst (dedupe l)).
Proof. apply fold_dict_set_nodup. constructor. Qed.

Lemma fold_dict_set_fresh {V} (l : list (str * V)) : forall acc,
  NoDup (map fst l) -> (forall k, In k (map fst l) -> ~ In k (map fst acc)) ->
  fold_left (fun a kv => dict_set (fst kv) (snd kv) a) l acc = acc ++ l.
Proof.
  induction l as [|[k v] r IH]; intros acc Hnd Hfresh; cbn [fold_left]; [rewrite app_nil_r; reflexivity|].
  cbn [map fst] in Hnd. inversion Hnd as [|? ? Hk Hnd']; subst.
  cbn [fst snd]. unfold dict_set.
  assert (has_key k acc = false) as ->.
  { destruct (has_key k acc) eqn:E; [|reflexivity]. apply has_key_In in E.
    exfalso. apply (Hfresh k); [left; reflexivity|exact E]. }
  rewrite IH; [rewrite <- app_assoc; reflexivity|exact Hnd'|].
  intros k' Hk' Hin. rewrite map_app in Hin. apply in_app_or in Hin as [Hin|[<-|[]]].
  - apply (Hfresh k'); [right; exact Hk'|exact Hin].
  - contradiction.
Qed.

Lemma dedupe_id l : NoDup (map fst l) -> dedupe l = l.
Proof. intros H. unfold dedupe. rewrite fold_dict_set_fresh; auto. Qed.

(* ------------------------------------------------------------------ flatten *)
Definition to_flat (l : list (str * str)) : list (str * cval) := map (fun kv => (fst kv, VStr (snd kv))) l.

Lemma flatten_to_flat l : flatten (to_flat l) = dedupe l.
Proof.
  unfold flatten. cbn [flatten_v]. f_equal.
  induction l as [|[k s] r IH]; cbn [to_flat map fst snd]; [reflexivity|].
  cbn [app]. f_equal. exact IH.
Qed.

Lemma flatten_nodup t : NoDup (map fst (flatten t)).
Proof. unfold flatten. cbn [flatten_v]. apply dedupe_nodup. Qed.

(* the dotted flat form of a nested configuration flattens to the same items *)
Lemma flatten_idem t : flatten (to_flat (flatten t)) = flatten t.
Proof. rewrite flatten_to_flat. apply dedupe_id. apply flatten_nodup. Qed.

Definition dotted (k : str) (kv : str * str) : str * str := (k ++ [46] ++ fst kv, snd kv).

Lemma flatten_group k sub : flatten [(k, VDict sub)] = map (dotted k) (flatten sub).
Proof.
  unfold flatten at 1. cbn [flatten_v]. rewrite app_nil_r.
  change (flatten_v (VDict sub)) with (flatten sub).
  apply dedupe_id. rewrite map_map. cbn [dotted fst].
  rewrite <- (map_map fst (fun a => k ++ [46] ++ a)).
  apply Injective_map_NoDup; [|apply flatten_nodup].
  intros a b H. apply app_inv_head in H. apply app_inv_head in H. exact H.
Qed.

Lemma new_conf_flat nc init builtin :
  new_conf nc (to_flat (flatten init)) builtin = new_conf nc init builtin.
Proof. unfold new_conf. rewrite flatten_idem. reflexivity. Qed.

(* ------------------------------------------------------------------ order and batching *)
Fixpoint items_of (h : list hop) : batch :=
  match h with
  | [] => []
  | HReg items :: r => items ++ items_of r
  | HPal :: r => items_of r
  end.

Lemma union_add_app a : forall S b, union_add S (a ++ b) = union_add (union_add S a) b.
Proof.
  induction a as [|[id init] r IH]; intros S b; cbn [app union_add]; [reflexivity|].
  destruct (has_key id S); [apply IH|]. destruct (parse_init_str init); apply IH.
Qed.

(* batching does not matter at all *)
Lemma union_hops_items h : forall S, union_hops S h = union_add S (items_of h).
Proof.
  induction h as [|[items|] r IH]; intros S; cbn [union_hops items_of]; [reflexivity| |apply IH].
  rewrite union_add_app. apply IH.
Qed.

Lemma valid_hops_items h : valid_hops h <-> valid (items_of h).
Proof.
  unfold valid_hops, valid. induction h as [|[items|] r IH]; cbn [items_of].
  - split; constructor.
  - rewrite Forall_app. split.
    + intros H. inversion H; subst. split; [assumption|apply IH; assumption].
    + intros [H1 H2]. constructor; [exact H1|apply IH; exact H2].
  - split.
    + intros H. inversion H; subst. apply IH. assumption.
    + intros H. constructor; [exact I|apply IH; exact H].
Qed.

Definition parsed (init : str) : option descr :=
  match parse_init_str init with Ok d => Some d | Err _ => None end.

Lemma lookup_union_add items : forall S id, valid items ->
  lookup id (union_add S items) =
  match lookup id S with
  | Some d => Some d
  | None => match lookup id items with Some init => parsed init | None => None end
  end.
Proof.
  induction items as [|[k init] r IH]; intros S id Hv; cbn [union_add].
  - cbn [lookup]. destruct (lookup id S); reflexivity.
  - inversion Hv as [|? ? [d Hd] Hv']; subst. cbn [snd] in Hd. cbn [lookup].
    destruct (has_key k S) eqn:Hk.
    + rewrite IH by exact Hv'. destruct (lookup id S) eqn:L; [reflexivity|].
      destruct (str_eqb id k) eqn:E; [|reflexivity].
      apply str_eqb_eq in E. subst. apply has_key_false in L. congruence.
    + rewrite Hd. rewrite IH by exact Hv'. rewrite lookup_app.
      destruct (lookup id S) eqn:L; [reflexivity|]. cbn [lookup].
      destruct (str_eqb id k) eqn:E; [|reflexivity].
      unfold parsed. rewrite Hd. reflexivity.
Qed.

Lemma In_lookup {V} k (v : V) l : NoDup (map fst l) -> In (k, v) l -> lookup k l = Some v.
Proof.
  induction l as [|[k' v'] r IH]; intros Hnd Hin; [contradiction|].
  cbn [map fst] in Hnd. inversion Hnd as [|? ? Hk Hnd']; subst. cbn [lookup].
  destruct Hin as [[= -> ->]|Hin].
  - rewrite str_eqb_refl. reflexivity.
  - assert (k <> k') as Hne.
    { intros ->. apply Hk. apply in_map_iff. exists (k', v). split; [reflexivity|exact Hin]. }
    apply str_eqb_neq in Hne. rewrite Hne. apply IH; assumption.
Qed.

Lemma lookup_perm {V} (l1 l2 : list (str * V)) k :
  Permutation l1 l2 -> NoDup (map fst l1) -> lookup k l1 = lookup k l2.
Proof.
  intros P Hnd.
  assert (NoDup (map fst l2)) as Hnd2 by (eapply Permutation_NoDup; [apply Permutation_map; exact P|exact Hnd]).
  destruct (lookup k l1) as [v|] eqn:L1.
  - symmetry. apply In_lookup; [exact Hnd2|]. eapply Permutation_in; [exact P|].
    apply lookup_In_pair. exact L1.
  - symmetry. apply lookup_None. intros Hin. apply lookup_None in L1. apply L1.
    eapply Permutation_in; [apply Permutation_sym, Permutation_map; exact P|exact Hin].
Qed.

(* when no id is described twice, any reordering / re-batching of the registrations
   yields the same description set *)
Lemma union_perm h1 h2 :
  valid_hops h1 -> Permutation (items_of h1) (items_of h2) -> NoDup (map fst (items_of h1)) ->
  valid_hops h2 /\ forall id, lookup id (union_hops [] h1) = lookup id (union_hops [] h2).
Proof.
  intros V1 P Hnd.
  assert (valid_hops h2) as V2.
  { apply valid_hops_items. apply valid_hops_items in V1. unfold valid in *.
    eapply Permutation_Forall; eauto. }
  split; [exact V2|]. intros id. rewrite !union_hops_items.
  rewrite !lookup_union_add by (apply valid_hops_items; assumption).
  cbn [lookup]. rewrite (lookup_perm _ _ id P Hnd). reflexivity.
Qed.
