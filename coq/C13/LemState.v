(* C13/LemState.v -- str(t.fmt) fed back through the setter and the constructor,
   at the level of the format state *)
From Coq Require Import ZArith List Bool Lia.
From AK Require Import Common.Sx Common.Err C13.Model C13.LemStr C13.LemFmt.
Import ListNotations.
Open Scope Z_scope.

(* ------------------------------------------------------------------ *)
(* column list *)
Lemma in_join_first (d x : Z) a r : In x a -> In x (join d (a :: r)).
Proof.
  intros H. destruct r as [|b r']; [exact H|].
  change (join d (a :: b :: r')) with (a ++ d :: join d (b :: r')). apply in_or_app. left. exact H.
Qed.

Lemma lacks_join d sep l : (d =? sep) = false -> forallb (lacks d) l = true -> lacks d (join sep l) = true.
Proof.
  intros Hd. induction l as [|a r IH]; [reflexivity|]. cbn [forallb]. intros H.
  apply andb_prop in H as [Ha Hr]. destruct r as [|b r']; [exact Ha|].
  change (join sep (a :: b :: r')) with (a ++ sep :: join sep (b :: r')).
  rewrite lacks_app, lacks_cons, Ha, Hd. cbn [negb andb]. apply IH. exact Hr.
Qed.

Definition pcols_of (cs : list column) : pcols :=
  match cs with [] => PKeep | _ => PList (map pcol_of cs) end.

Lemma map_res_parse_col cs : forallb col_okb cs = true ->
  map_res parse_col (map col_to_str cs) = Ok (map pcol_of cs).
Proof.
  induction cs as [|c r IH]; [reflexivity|]. cbn [forallb map map_res]. intros H.
  apply andb_prop in H as [Hc Hr]. rewrite (parse_col_roundtrip c Hc). rewrite (IH Hr). reflexivity.
Qed.

Lemma forallb_map_lacks d (f : column -> str) cs :
  (forall c, col_okb c = true -> lacks d (f c) = true) ->
  forallb col_okb cs = true -> forallb (lacks d) (map f cs) = true.
Proof.
  intros Hf. induction cs as [|c r IH]; [reflexivity|]. cbn [forallb map]. intros H.
  apply andb_prop in H as [Hc Hr]. rewrite (Hf c Hc). apply IH. exact Hr.
Qed.

Theorem parse_cols_roundtrip cs : forallb col_okb cs = true ->
  parse_cols (cols_to_str cs) = Ok (pcols_of cs).
Proof.
  intros H. destruct cs as [|c r]; [reflexivity|].
  unfold cols_to_str, parse_cols, pcols_of.
  assert (In ch_colon (join ch_comma (map col_to_str (c :: r)))) as Hin.
  { cbn [map]. apply in_join_first. cbn [forallb] in H. apply andb_prop in H as [Hc _].
    apply col_to_str_has_colon. }
  destruct (join ch_comma (map col_to_str (c :: r))) as [|x s] eqn:E; [destruct Hin|].
  assert (str_eqb (x :: s) [ch_star] = false) as Hstar.
  { destruct (str_eqb (x :: s) [ch_star]) eqn:E2; [|reflexivity].
    apply str_eqb_eq in E2. rewrite E2 in Hin. destruct Hin as [Hin|[]]. discriminate. }
  rewrite Hstar. rewrite <- E.
  rewrite split_join; [|discriminate|].
  - rewrite (map_res_parse_col _ H). reflexivity.
  - apply forallb_map_lacks; [|exact H]. intros c0 Hc0. apply col_to_str_lacks_comma. exact Hc0.
Qed.

Lemma cols_to_str_lacks_semi cs : forallb col_okb cs = true -> lacks ch_semi (cols_to_str cs) = true.
Proof.
  intros H. unfold cols_to_str. apply lacks_join; [reflexivity|].
  apply forallb_map_lacks; [|exact H]. intros c Hc. apply col_to_str_lacks_semi. exact Hc.
Qed.

(* ------------------------------------------------------------------ *)
(* limits part *)
Definition norm_limits (lf ll : option Z) : limits :=
  match lf, ll with Some a, Some b => (Some a, Some b) | _, _ => (None, None) end.

Definition vis_of (t : tstate) : option limits :=
  match t_skipped t with
  | Some false => None
  | _ => Some (norm_limits (t_lf t) (t_ll t))
  end.

Lemma parse_vis_pair a b :
  parse_vis (str_of_int a ++ ch_colon :: str_of_int b) = Ok (Some (Some a, Some b)).
Proof.
  unfold parse_vis. destruct (str_of_int_head a) as (c & r & E & Hc).
  assert (str_eqb (str_of_int a ++ ch_colon :: str_of_int b) [ch_star] = false) as E1.
  { rewrite E. cbn [app str_eqb]. replace (c =? ch_star) with false; [reflexivity|].
    destruct Hc as [Hc| ->]; [|reflexivity]. symmetry. apply (digit_props c Hc). }
  rewrite E1.
  assert (exists x y, str_of_int a ++ ch_colon :: str_of_int b = x :: y) as (x & y & E2)
    by (rewrite E; eexists _, _; reflexivity).
  rewrite E2, <- E2.
  rewrite split_on_app by (apply str_of_int_lacks; reflexivity).
  rewrite split_on_none by (apply str_of_int_lacks; reflexivity).
  cbn [map]. unfold strip.
  rewrite !strip_with_id by (apply none_of_edge_ok, str_of_int_nospace).
  rewrite !int_of_str_of_int. reflexivity.
Qed.

Lemma parse_vis_limits t : parse_vis (limits_str t) = Ok (vis_of t).
Proof.
  unfold limits_str, vis_of, norm_limits.
  destruct (t_skipped t) as [[|]|]; try reflexivity;
    destruct (t_lf t) as [a|], (t_ll t) as [b|]; try reflexivity; apply parse_vis_pair.
Qed.

Lemma limits_str_lacks_semi t : lacks ch_semi (limits_str t) = true.
Proof.
  unfold limits_str.
  destruct (t_skipped t) as [[|]|]; try reflexivity;
    destruct (t_lf t) as [a|], (t_ll t) as [b|]; try reflexivity;
    rewrite lacks_app, lacks_cons, !str_of_int_lacks by reflexivity; reflexivity.
Qed.

Theorem parse_fmt_roundtrip t : forallb col_okb (t_cols t) = true ->
  parse_fmt (fmt_to_str t) = Ok (pcols_of (t_cols t), vis_of t).
Proof.
  intros H. unfold parse_fmt, fmt_to_str.
  pose proof (cols_to_str_lacks_semi _ H) as Hc.
  pose proof (limits_str_lacks_semi t) as Hl.
  pose proof (parse_vis_limits t) as Hv.
  destruct (limits_str t) as [|x l] eqn:E.
  - rewrite (split_on_none _ _ Hc). cbn [length nth]. change (3 <? Z.of_nat 1) with false. cbn iota.
    rewrite (parse_cols_roundtrip _ H). rewrite Hv. reflexivity.
  - rewrite (split_on_app _ _ _ Hc). rewrite (split_on_none _ _ Hl). cbn [length nth].
    change (3 <? Z.of_nat 2) with false. cbn iota.
    rewrite (parse_cols_roundtrip _ H). rewrite Hv. reflexivity.
Qed.

(* ------------------------------------------------------------------ *)
(* well-formed states: columns show existing fields with accepted modifiers *)
Definition wf_col (fs : list field) (c : column) : bool :=
  col_okb c && match get_field fs (c_name c) with Some f => mod_ok f (c_mod c) | None => false end.

Definition wf (t : tstate) : bool :=
  negb (has_dup (map f_name (t_fields t))) && forallb (wf_col (t_fields t)) (t_cols t).

Lemma get_field_name fs n f : get_field fs n = Some f -> f_name f = n.
Proof.
  induction fs as [|g r IH]; [discriminate|]. cbn [get_field].
  destruct (str_eqb (f_name g) n) eqn:E; [|exact IH].
  intros H. inversion H; subst. apply str_eqb_eq. exact E.
Qed.

Lemma wf_cols_ok fs cs : forallb (wf_col fs) cs = true -> forallb col_okb cs = true.
Proof.
  induction cs as [|c r IH]; [reflexivity|]. cbn [forallb]. intros H.
  apply andb_prop in H as [Hc Hr]. unfold wf_col in Hc. apply andb_prop in Hc as [Hc _].
  rewrite Hc. apply IH. exact Hr.
Qed.

Lemma col_ok_nonneg c : col_okb c = true -> 0 <= c_min c /\ 0 <= c_max c.
Proof.
  unfold col_okb. intros H. repeat (apply andb_prop in H as [H ?]). split; apply Z.leb_le; assumption.
Qed.

Lemma mk_column_wf fs c : wf_col fs c = true ->
  exists f, get_field fs (c_name c) = Some f /\
  mk_column f (c_mod c) (c_break c) (Some (c_min c)) (Some (c_max c)) = Ok (clone_col c).
Proof.
  unfold wf_col. intros H. apply andb_prop in H as [_ H].
  destruct (get_field fs (c_name c)) as [f|] eqn:E; [|discriminate].
  exists f. split; [reflexivity|]. unfold mk_column. rewrite H. unfold clone_col, dflt.
  rewrite (get_field_name _ _ _ E). reflexivity.
Qed.

Lemma setter_cols_roundtrip fs cs : forallb (wf_col fs) cs = true ->
  setter_cols fs (map pcol_of cs) = Ok (map clone_col cs).
Proof.
  induction cs as [|c r IH]; [reflexivity|]. cbn [forallb map setter_cols]. intros H.
  apply andb_prop in H as [Hc Hr].
  destruct (mk_column_wf fs c Hc) as (f & E1 & E2).
  unfold wf_col in Hc. apply andb_prop in Hc as [Hok _]. destruct (col_ok_nonneg c Hok) as [Hmin Hmax].
  cbn [pcol_of p_name p_min p_max p_mod p_break]. rewrite E1.
  cbn [is_neg]. replace (c_min c <? 0) with false by (symmetry; apply Z.ltb_ge; exact Hmin).
  cbn [andb]. rewrite E2. rewrite (IH Hr). reflexivity.
Qed.

Lemma ctor_cols_roundtrip fs cs : forallb (wf_col fs) cs = true ->
  ctor_cols fs (map pcol_of cs) = Ok (map clone_col cs).
Proof.
  induction cs as [|c r IH]; [reflexivity|]. cbn [forallb map ctor_cols]. intros H.
  apply andb_prop in H as [Hc Hr].
  destruct (mk_column_wf fs c Hc) as (f & E1 & E2).
  unfold wf_col in Hc. apply andb_prop in Hc as [Hok _]. destruct (col_ok_nonneg c Hok) as [Hmin Hmax].
  cbn [pcol_of p_name p_min p_max p_mod p_break]. rewrite E1.
  cbn [is_neg]. replace (c_max c <? 0) with false by (symmetry; apply Z.ltb_ge; exact Hmax).
  rewrite E2. rewrite (IH Hr). reflexivity.
Qed.

Lemma no_path cs : existsb (fun p => match p_path p with Some _ => true | None => false end) (map pcol_of cs) = false.
Proof. induction cs as [|c r IH]; [reflexivity|]. cbn [map existsb pcol_of p_path]. exact IH. Qed.

(* the state after t.fmt = str(t.fmt): same columns without negotiated widths,
   limits kept (up to "one bound missing = no limits"), any_lines_skipped unset *)
Definition setter_limits (t : tstate) : limits :=
  match t_skipped t with
  | Some false => (t_lf t, t_ll t)
  | _ => norm_limits (t_lf t) (t_ll t)
  end.

Definition reformatted (t : tstate) : tstate :=
  mkT (t_fields t) (map clone_col (t_cols t)) (fst (setter_limits t)) (snd (setter_limits t)) None.

Theorem set_fmt_roundtrip t : wf t = true -> set_fmt t (fmt_to_str t) = Ok (reformatted t).
Proof.
  unfold wf. intros H. apply andb_prop in H as [_ H].
  unfold set_fmt. rewrite (parse_fmt_roundtrip t (wf_cols_ok _ _ H)).
  unfold reformatted, setter_limits, vis_of, pcols_of.
  destruct (t_cols t) as [|c r] eqn:Ec.
  - cbn [map]. destruct (t_skipped t) as [[|]|]; cbn [fst snd];
      try destruct (norm_limits (t_lf t) (t_ll t)); reflexivity.
  - rewrite (setter_cols_roundtrip _ _ H).
    destruct (t_skipped t) as [[|]|]; cbn [fst snd];
      try destruct (norm_limits (t_lf t) (t_ll t)); reflexivity.
Qed.

(* the state of PPTable(records, fmt=str(t.fmt), fields=<the same>) *)
Definition ctor_limits (t : tstate) : limits :=
  match t_skipped t with
  | Some false => (None, None)
  | _ => norm_limits (t_lf t) (t_ll t)
  end.

Definition rebuilt (t : tstate) : tstate :=
  mkT (t_fields t) (map clone_col (t_cols t)) (fst (ctor_limits t)) (snd (ctor_limits t)) None.

Theorem ctor_roundtrip t : wf t = true -> t_cols t <> [] ->
  ctor (t_fields t) (Some (fmt_to_str t)) None None = Ok (rebuilt t).
Proof.
  unfold wf. intros H Hne. apply andb_prop in H as [Hd H]. apply negb_true_iff in Hd.
  unfold ctor. rewrite (parse_fmt_roundtrip t (wf_cols_ok _ _ H)). rewrite Hd.
  unfold rebuilt, ctor_limits, vis_of, pcols_of.
  destruct (t_cols t) as [|c r] eqn:Ec; [congruence|].
  rewrite no_path. rewrite (ctor_cols_roundtrip _ _ H).
  destruct (t_skipped t) as [[|]|]; cbn [fst snd];
    try destruct (norm_limits (t_lf t) (t_ll t)); reflexivity.
Qed.

(* "" / ";" / ";;" : nothing but the reset of the negotiated widths *)
Definition cleared (t : tstate) : tstate :=
  mkT (t_fields t) (map clone_col (t_cols t)) (t_lf t) (t_ll t) None.

Theorem empty_fmt t :
  set_fmt t [] = Ok (cleared t) /\ set_fmt t [ch_semi] = Ok (cleared t) /\
  set_fmt t [ch_semi; ch_semi] = Ok (cleared t).
Proof. repeat split. Qed.
