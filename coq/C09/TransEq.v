(* C09/TransEq.v -- _ColorSequences._make_seq_element and _ColorSequences.make, TRANSLATED from the current
   ak/color.py (gen/C09_Translated.v, regenerated on every run by harness/lib/pytranslate.py), are equal to the
   hand model's make_seq_element / make on ALL Python values (Common/PyLib.pyval, seen through the abstraction
   TransInst.color_of); hence the property theorems hold of the translated code (corollaries at the end). *)
From Coq Require Import ZArith List Bool Lia.
From AK Require Import Common.Sx Common.Err Common.PyLib Common.PyLibLemmas.
From AK Require Import gen.C09_Consts C09.Model C09.Term C09.Spec C09.Run C09.Lemmas gen.C09_Translated C09.TransInst.
Import ListNotations.
Open Scope Z_scope.

Lemma translation_is_available : translation_available = true.
Proof. reflexivity. Qed.

(* ------------------------------------------------------------------ *)
(* PyLib's vocabulary against the hand model's own helper functions     *)

Lemma str_eqb_py a : forall b, py_str_eqb a b = str_eqb a b.
Proof. induction a as [|x a IH]; intros [|y b]; cbn [py_str_eqb str_eqb]; try reflexivity; try (rewrite IH; reflexivity). Qed.

Lemma str_eqb_sym a : forall b, str_eqb a b = str_eqb b a.
Proof. induction a as [|x a IH]; intros [|y b]; cbn [str_eqb]; try reflexivity. rewrite Z.eqb_sym, IH. reflexivity. Qed.

Lemma lookup_absent {A} s (tbl : list (list Z * A)) : ~ In s (map fst tbl) -> lookup s tbl = None.
Proof.
  induction tbl as [|[k v] r IH]; intros H; cbn [lookup]; [reflexivity|].
  destruct (str_eqb s k) eqn:E.
  - exfalso. apply H. left. symmetry. apply str_eqb_eq. exact E.
  - apply IH. intros Hin. apply H. right. exact Hin.
Qed.

(* a dict literal without repeated keys: Python's "the later pair wins" finds what the model's first match finds *)
Lemma dict_find_lookup {A} (tbl : list (list Z * A)) : NoDup (map fst tbl) -> forall s found,
  py_dict_find py_str_eqb tbl s found = match lookup s tbl with Some v => Some v | None => found end.
Proof.
  induction tbl as [|[k v] r IH]; intros Hnd s found; cbn [py_dict_find lookup]; [reflexivity|].
  inversion Hnd as [|? ? Hk Hr]; subst. rewrite IH by exact Hr.
  rewrite str_eqb_py, str_eqb_sym. destruct (str_eqb s k) eqn:E; [|reflexivity].
  apply str_eqb_eq in E. subst k. rewrite lookup_absent by exact Hk. reflexivity.
Qed.

Fixpoint keys_nodupb (l : list (list Z)) : bool :=
  match l with [] => true | k :: r => negb (existsb (str_eqb k) r) && keys_nodupb r end.
Lemma keys_nodupb_NoDup l : keys_nodupb l = true -> NoDup l.
Proof.
  induction l as [|k r IH]; cbn [keys_nodupb]; intros H; [constructor|].
  apply andb_prop in H as [H1 H2]. constructor; [|auto]. intros Hin.
  apply negb_true_iff in H1. assert (existsb (str_eqb k) r = true) as E.
  { apply existsb_exists. exists k. split; [exact Hin|apply str_eqb_refl]. }
  congruence.
Qed.

(* the translated class attribute _COLORS is the extracted table, and has no repeated key *)
Lemma colors_eq : T__ColorSequences__COLORS = colors_tbl.
Proof. vm_compute. reflexivity. Qed.
Lemma colors_nodup : NoDup (map fst colors_tbl).
Proof. apply keys_nodupb_NoDup. vm_compute. reflexivity. Qed.

Lemma colors_has s : py_dict_has py_str_eqb T__ColorSequences__COLORS s = match lookup s colors_tbl with Some _ => true | None => false end.
Proof. unfold py_dict_has. rewrite colors_eq, (dict_find_lookup _ colors_nodup). destruct (lookup s colors_tbl); reflexivity. Qed.
Lemma colors_get s : py_dict_get py_str_eqb T__ColorSequences__COLORS s = match lookup s colors_tbl with Some d => Ok d | None => Err KeyErr end.
Proof. unfold py_dict_get. rewrite colors_eq, (dict_find_lookup _ colors_nodup). destruct (lookup s colors_tbl); reflexivity. Qed.

(* str(int) *)
Lemma digits_dec_pos fuel : forall n acc, rev (py_digits_le fuel n) ++ acc = dec_pos fuel n acc.
Proof.
  induction fuel as [|f IH]; intros n acc; cbn [py_digits_le dec_pos]; [reflexivity|].
  destruct (n <? 10); [reflexivity|]. cbn [rev]. rewrite <- app_assoc. apply IH.
Qed.
Lemma str_of_int_dec n : py_str_of_int n = dec n.
Proof.
  unfold py_str_of_int, dec, py_str_of_nat. destruct (n <? 0); [f_equal|];
    rewrite <- digits_dec_pos, app_nil_r; reflexivity.
Qed.

(* int(str) *)
Lemma drop_space_eq s : py_drop_space s = drop_ws s.
Proof. induction s as [|c r IH]; [reflexivity|]. cbn [py_drop_space drop_ws]. change (py_is_space c) with (is_ws c). rewrite IH. reflexivity. Qed.

Definition dst (st : py_dstate) : dstate := match st with PDStart => DStart | PDDigit => DDigit | PDUnder => DUnder end.
Lemma digs_eq s : forall acc st, py_digs s acc st = digs s acc (dst st).
Proof.
  induction s as [|c r IH]; intros acc st; cbn [py_digs digs]; [destruct st; reflexivity|].
  change (py_is_digit c) with (is_digit c). destruct (is_digit c); [apply (IH _ PDDigit)|].
  destruct (c =? 95); [|reflexivity]. destruct st; cbn [dst]; try reflexivity. apply (IH _ PDUnder).
Qed.
Lemma int_of_str_eq s : py_int_of_str s = match py_int s with Some v => Ok v | None => Err ValueErr end.
Proof.
  unfold py_int_of_str, py_int. cbv zeta. rewrite (drop_space_eq s), (drop_space_eq (rev (drop_ws s))).
  destruct (rev (drop_ws (rev (drop_ws s)))) as [|c r]; [reflexivity|].
  destruct (c =? 43) eqn:E1; [apply Z.eqb_eq in E1; subst c; rewrite (digs_eq r 0 PDStart); reflexivity|].
  destruct (c =? 45) eqn:E2; [apply Z.eqb_eq in E2; subst c; rewrite (digs_eq r 0 PDStart); reflexivity|].
  assert (forall (X : Type) (a b d : X), match c with 43 => a | 45 => b | _ => d end = d) as Hm.
  { intros X a b d. destruct c as [|p|p]; try reflexivity.
    do 6 (destruct p as [p|p|]; try reflexivity); cbn in E1, E2; discriminate. }
  rewrite !Hm. rewrite (digs_eq (c :: r) 0 PDStart). reflexivity.
Qed.

Lemma startswith_eq p : forall s, py_startswith s p = starts_with p s.
Proof.
  unfold starts_with. induction p as [|x p IH]; intros s; [destruct s; reflexivity|].
  destruct s as [|y s]; cbn [py_startswith length firstn str_eqb]; [reflexivity|]. rewrite IH, Z.eqb_sym. reflexivity.
Qed.

Lemma join_eq sep l : py_join sep l = join sep l.
Proof.
  induction l as [|x r IH]; [reflexivity|]. destruct r as [|y r]; [cbn; apply app_nil_r|].
  rewrite py_join_cons, IH. reflexivity.
Qed.

Lemma utf8_eq s : flat_map py_utf8_char s = utf8 s.
Proof. reflexivity. Qed.

(* ------------------------------------------------------------------ *)
(* _make_seq_element                                                    *)

Lemma gtb_ltb a b : (a >? b) = (b <? a).
Proof. apply Z.gtb_ltb. Qed.

(* case 4 of the source: an int id *)
Lemma int_tail fb n :
  (if (n <? int_lo) || (int_hi <? n) then Err ValueErr else Ok ((fb ++ idx_infix) ++ py_str_of_int n)) = int_branch fb n.
Proof.
  unfold int_branch. rewrite gtb_ltb, str_of_int_dec, <- app_assoc. reflexivity.
Qed.

Theorem mse_str fuel s b : T_mse fuel (VStr s) b = make_seq_element (CStr s) b.
Proof.
  unfold T_mse, T__ColorSequences__make_seq_element. cbv zeta.
  rewrite colors_has, colors_get.
  unfold make_seq_element. cbv zeta. rewrite guard_ok. cbn [negb andb].
  destruct (lookup s colors_tbl) as [d|]; cbn [bind].
  - destruct b; reflexivity.
  - rewrite startswith_eq. unfold gray_prefix.
    match goal with |- context [starts_with ?p s] => destruct (starts_with p s); [|reflexivity] end.
    rewrite py_slice_tail, int_of_str_eq. cbn [length].
    destruct (py_int (skipn 1 s)) as [v|]; cbn [bind].
    + rewrite !gtb_ltb. unfold gray_lo, gray_hi, gray_base.
      match goal with |- (if ?c then _ else _) = _ => destruct c; [reflexivity|] end. cbv zeta. exact (int_tail _ _).
    + vm_compute. reflexivity.
Qed.

(* elements of a tuple / list: the generator of any() against the model's any_out *)
Definition elem_pred (v_c : pyval) : res bool :=
  match v_c with
  | VInt v_c => Ok ((v_c <? 0) || (5 <? v_c))
  | VBool v_c => Ok ((py_int_of_bool v_c <? 0) || (5 <? py_int_of_bool v_c))
  | _ => Ok true
  end.

Lemma any_eq l : py_any elem_pred l = any_out (map elem_of l).
Proof.
  induction l as [|v r IH]; [reflexivity|]. cbn [py_any map any_out].
  destruct v as [| bb | z | [[n d]|] | s | t | t | h]; cbn [elem_pred elem_of]; rewrite ?comp_guard_ok; try reflexivity.
  - rewrite gtb_ltb. unfold comp_lo, comp_hi. destruct ((py_int_of_bool bb <? 0) || (5 <? py_int_of_bool bb)); [reflexivity|exact IH].
  - rewrite gtb_ltb. unfold comp_lo, comp_hi. destruct ((z <? 0) || (5 <? z)); [reflexivity|exact IH].
Qed.

Lemma any_false_ints l : any_out (map elem_of l) = Ok false ->
  Forall (fun v => exists z, py_as_int v = Some z /\ elem_of v = EInt z) l.
Proof.
  induction l as [|v r IH]; [constructor|]. cbn [map any_out].
  destruct v as [| bb | z | [[n d]|] | s | t | t | h]; cbn [elem_of]; rewrite ?comp_guard_ok; try discriminate.
  - destruct ((py_int_of_bool bb <? comp_lo) || (py_int_of_bool bb >? comp_hi)); [discriminate|].
    intros H. constructor; [exists (py_int_of_bool bb); split; reflexivity|apply IH; exact H].
  - destruct ((z <? comp_lo) || (z >? comp_hi)); [discriminate|].
    intros H. constructor; [exists z; split; reflexivity|apply IH; exact H].
Qed.

Theorem mse_seq_t fuel (il : bool) (l : list pyval) b :
  T_mse fuel (if il then VList l else VTuple l) b = make_seq_element (CSeq il (map elem_of l)) b.
Proof.
  replace (T_mse fuel (if il then VList l else VTuple l) b) with (T_mse fuel (VList l) b) by (destruct il; reflexivity).
  assert (make_seq_element (CSeq il (map elem_of l)) b = make_seq_element (CSeq true (map elem_of l)) b) as Eil.
  { unfold make_seq_element. cbv zeta. rewrite guard_ok. reflexivity. }
  rewrite Eil. clear Eil il.
  unfold T_mse, T__ColorSequences__make_seq_element; cbv zeta.
  unfold make_seq_element; cbv zeta; rewrite guard_ok; cbn [negb andb].
  change (py_any _ l) with (py_any elem_pred l); rewrite any_eq, bind_ret.
  rewrite map_length; unfold py_len.
  match goal with |- context [Z.of_nat (length l) =? ?k] => replace k with (Z.of_nat seq_len) by reflexivity end.
  rewrite Z_eqb_of_nat.
  destruct (Nat.eqb (length l) seq_len) eqn:EL; cbn [negb bind]; [|reflexivity].
  destruct (any_out (map elem_of l)) as [[|]|e] eqn:EA; cbn [bind]; try reflexivity.
  unfold seq_len in EL.
  destruct l as [|x [|y [|z [|w r]]]]; try discriminate EL.
  pose proof (any_false_ints _ EA) as HF.
  inversion HF as [|? ? (zx & Hx & Ex) HF1]; subst.
  inversion HF1 as [|? ? (zy & Hy & Ey) HF2]; subst.
  inversion HF2 as [|? ? (zz & Hz & Ez) _]; subst.
  cbn [map]; rewrite Ex, Ey, Ez.
  rewrite (py_mul_dyn_ints x (VInt _) _ _ Hx eq_refl); cbn [bind].
  rewrite (py_add_dyn_ints (VInt _) (VInt _) _ _ eq_refl eq_refl); cbn [bind].
  rewrite (py_mul_dyn_ints y (VInt _) _ _ Hy eq_refl); cbn [bind].
  rewrite (py_add_dyn_ints (VInt _) (VInt _) _ _ eq_refl eq_refl); cbn [bind].
  rewrite (py_add_dyn_ints (VInt _) z _ _ eq_refl Hz); cbn [bind].
  cbv iota.
  unfold cube_b; rewrite Z.mul_1_r.
  exact (int_tail _ _).
Qed.

Theorem translated_mse_eq fuel v b : T_mse fuel v b = make_seq_element (color_of v) b.
Proof.
  destruct v as [| bb | z | q | s | l | l | h]; cbn [color_of].
  - destruct b; reflexivity.
  - unfold make_seq_element. cbv zeta. rewrite guard_ok, int_conv_ok. cbn [negb andb].
    unfold T_mse, T__ColorSequences__make_seq_element. cbv zeta iota. exact (int_tail _ _).
  - unfold make_seq_element. cbv zeta. rewrite guard_ok. cbn [negb andb].
    unfold T_mse, T__ColorSequences__make_seq_element. cbv zeta iota. exact (int_tail _ _).
  - destruct b; reflexivity.
  - apply mse_str.
  - exact (mse_seq_t fuel false l b).
  - exact (mse_seq_t fuel true l b).
  - destruct h, b; reflexivity.
Qed.

Lemma is_none_color v : py_is_none v = match color_of v with CNone => true | _ => false end.
Proof. destruct v as [| | | | | | |[|]]; reflexivity. Qed.

Lemma opt_code_t fuel v b (codes : list (list Z)) :
  (if negb (py_is_none v)
   then bind (T__ColorSequences__make_seq_element fuel v b) (fun t => Ok (codes ++ [t]))
   else Ok codes) = bind (opt_code (color_of v) b) (fun l => Ok (codes ++ l)).
Proof.
  rewrite is_none_color. change (T__ColorSequences__make_seq_element fuel v b) with (T_mse fuel v b).
  rewrite translated_mse_eq. unfold opt_code.
  destruct (color_of v); cbn [negb bind]; try (rewrite app_nil_r; reflexivity);
    match goal with |- context [make_seq_element ?c b] => destruct (make_seq_element c b); reflexivity end.
Qed.

(* make_bytes: both strings are encoded *)
Definition enc (mk : bool) (ps : list Z * list Z) : res (list Z * list Z) :=
  if mk then bind (py_encode_utf8 (fst ps)) (fun p => bind (py_encode_utf8 (snd ps)) (fun s => Ok (p, s))) else Ok ps.

Lemma tail_t mk (codes : list (list Z)) :
  bind (if py_truthy_list codes
        then Ok (([27; 91] ++ py_join [59] codes) ++ [109], [27; 91; 48; 109])
        else Ok ([], []))
       (fun '(p, s) => bind (py_truthy (VBool mk)) (fun t => if t
          then bind (py_encode_utf8 p) (fun p' => bind (py_encode_utf8 s) (fun s' => Ok (p', s')))
          else Ok (p, s))) = enc mk (pair_of codes).
Proof.
  unfold pair_of, enc. rewrite join_eq. destruct codes as [|c r], mk; cbn [py_truthy_list py_truthy bind fst snd];
    rewrite <- ?app_assoc; reflexivity.
Qed.

Theorem make_gen_t fuel vc vb a mk :
  T_make_args fuel vc vb a mk =
  bind (color_codes (mkArgs (color_of vc) (color_of vb) (a_bold a) (a_faint a) (a_underline a) (a_blink a) (a_crossed a) (a_nocolor a)))
       (fun codes => enc mk (pair_of codes)).
Proof.
  unfold T_make_args, T_make, T__ColorSequences_make. cbv zeta.
  change (py_truthy (VBool (a_nocolor a))) with (Ok (a_nocolor a) : res bool).
  change (py_truthy (VBool (a_bold a))) with (Ok (a_bold a) : res bool).
  change (py_truthy (VBool (a_faint a))) with (Ok (a_faint a) : res bool).
  change (py_truthy (VBool (a_underline a))) with (Ok (a_underline a) : res bool).
  change (py_truthy (VBool (a_blink a))) with (Ok (a_blink a) : res bool).
  change (py_truthy (VBool (a_crossed a))) with (Ok (a_crossed a) : res bool).
  cbn [bind].
  unfold color_codes. cbn [a_color a_bg a_nocolor].
  destruct (a_nocolor a); cbn [negb bind]; [exact (tail_t mk [])|].
  rewrite opt_code_t.
  destruct (opt_code (color_of vc) false) as [l1|e]; cbn [bind]; [|reflexivity].
  rewrite opt_code_t.
  destruct (opt_code (color_of vb) true) as [l2|e]; cbn [bind]; [|reflexivity].
  unfold eff_codes. cbn [a_bold a_faint a_underline a_blink a_crossed].
  destruct (a_bold a), (a_faint a), (a_underline a), (a_blink a), (a_crossed a);
    cbn [bind combine filter map fst snd effect_codes app];
    rewrite ?map_id; rewrite tail_t; repeat rewrite <- app_assoc; rewrite ?app_nil_r; reflexivity.
Qed.

Theorem translated_make_eq fuel vc vb a mk :
  T_make_args fuel vc vb a mk =
  make (mkArgs (color_of vc) (color_of vb) (a_bold a) (a_faint a) (a_underline a) (a_blink a) (a_crossed a) (a_nocolor a)) mk.
Proof.
  rewrite make_gen_t. set (A := mkArgs _ _ _ _ _ _ _ _).
  destruct mk; [|rewrite make_text; reflexivity].
  rewrite make_bytes. destruct (color_codes A) as [codes|e] eqn:Ec; cbn [bind]; [|reflexivity].
  assert (make A false = Ok (fst (pair_of codes), snd (pair_of codes))) as Em
    by (rewrite make_text, Ec; cbn [bind]; destruct (pair_of codes); reflexivity).
  destruct (shape_ascii _ _ (proj2 (make_ok A _ _ Em))) as [Hp Hs].
  unfold enc. rewrite (py_encode_utf8_ascii _ Hp), (py_encode_utf8_ascii _ Hs). cbn [bind].
  rewrite (utf8_ascii _ Hp), (utf8_ascii _ Hs). destruct (pair_of codes); reflexivity.
Qed.

(* ------------------------------------------------------------------ *)
(* hand-model values as Python values (what Run.v feeds the translated functions) *)

Lemma elem_of_val_of e : elem_of (val_of_elem e) = e.
Proof. destruct e as [z|[|]|]; vm_compute; reflexivity. Qed.

Lemma color_of_val_of c : color_of (val_of c) = c.
Proof.
  destruct c as [|s|z|b|[|] l| |]; try reflexivity; cbn [val_of color_of]; f_equal;
    rewrite map_map; rewrite <- (map_id l) at 2; apply map_ext; exact elem_of_val_of.
Qed.

Theorem tr_mse_eq c b : tr_mse c b = make_seq_element c b.
Proof. unfold tr_mse. rewrite translated_mse_eq, color_of_val_of. reflexivity. Qed.

Theorem tr_make_eq a mk : tr_make a mk = make a mk.
Proof. unfold tr_make. rewrite translated_make_eq, !color_of_val_of. destruct a; reflexivity. Qed.

(* ------------------------------------------------------------------ *)
(* the property theorems, for the translated functions                  *)

(* formatter arguments as Python values: colour and background are ANY Python values, the effects and
   no_color are given as bools (the record's own colour fields are not used) *)
Definition abs_args (vc vb : pyval) (a : fmtargs) : fmtargs :=
  mkArgs (color_of vc) (color_of vb) (a_bold a) (a_faint a) (a_underline a) (a_blink a) (a_crossed a) (a_nocolor a).

Definition titem := (option (pyval * pyval * fmtargs) * list Z)%type.
Definition abs_item (it : titem) : option fmtargs * list Z :=
  (match fst it with Some (vc, vb, a) => Some (abs_args vc vb a) | None => None end, snd it).

(* CHText( *parts ) where every ColorFmt is built by the translated make *)
Fixpoint tr_build (fuel : nat) (items : list titem) : res (list chunk) :=
  match items with
  | [] => Ok []
  | (None, t) :: r => bind (tr_build fuel r) (fun cs => Ok (plain_chunk t :: cs))
  | (Some (vc, vb, a), t) :: r =>
      match T_make_args fuel vc vb a false with
      | Err e => Err e
      | Ok ps => bind (tr_build fuel r) (fun cs => Ok (fmt_call ps t :: cs))
      end
  end.

Lemma tr_build_eq fuel items : tr_build fuel items = build (map abs_item items).
Proof.
  induction items as [|[[[[vc vb] a]|] t] r IH]; [reflexivity| |]; cbn [tr_build map abs_item build fst snd].
  - rewrite translated_make_eq, IH. reflexivity.
  - rewrite IH. reflexivity.
Qed.

Lemma term_shows_t fuel items : Forall valid_part (map abs_item items) ->
  exists cs, tr_build fuel items = Ok cs /\
    term (chtext_str (chtext_of cs)) = (t0, flat_map (fun it => paint (req (fst it)) (snd it)) (map abs_item items)).
Proof. rewrite tr_build_eq. apply term_shows_l. Qed.

Lemma no_bleed_t fuel items cs : Forall ok_part (map abs_item items) -> tr_build fuel items = Ok cs ->
  Forall (fun ch => fst (term (chunk_str ch)) = t0) (chtext_of cs) /\
  forall k, fst (term (chtext_str (firstn k (chtext_of cs)))) = t0.
Proof. rewrite tr_build_eq. apply no_bleed_l. Qed.

Lemma strip_render_t fuel items cs : Forall ok_part (map abs_item items) -> tr_build fuel items = Ok cs ->
  strip (chtext_str (chtext_of cs)) = plain_text (chtext_of cs) /\
  plain_text (chtext_of cs) = flat_map snd (map abs_item items).
Proof. rewrite tr_build_eq. apply strip_render_l. Qed.

Lemma sgr_wellformed_t fuel vc vb a p s : T_make_args fuel vc vb a false = Ok (p, s) ->
  (p = [] /\ s = []) \/ (wf_sgr p /\ s = [27; 91; 48; 109]).
Proof. rewrite translated_make_eq. apply sgr_wellformed_l. Qed.

Lemma invalid_raises_t fuel vc vb a b : a_nocolor a = false ->
  (~ none_or accepted (color_of vc)) \/ (none_or accepted (color_of vc) /\ ~ none_or accepted (color_of vb)) ->
  T_make_args fuel vc vb a b = Err ValueErr.
Proof. intros H1 H2. rewrite translated_make_eq. apply make_invalid_l; [exact H1|exact H2]. Qed.
