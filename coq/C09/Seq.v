(* C09/Seq.v -- colored texts are mutable: the operations that change an existing CHText
   and the operation sequences of the correspondence check.
     CHText._append_chunk on a text that already has chunks   (color.py:604-619)
     CHText.__iadd__ with a chunk / str / list / tuple / CHText (color.py:354-366)
     CHText( *parts ), CHText(other)                           (color.py:282-292)
   A text is its chunk list; [append_chunk] is one call of _append_chunk, [iadd] a run of them.
   The machine keeps several texts over one pool of pieces (chunk / str objects that are
   created once and may be added to several texts, several times) and one pool of formatters
   (ColorFmt / ColorBytes objects created once and used for many pieces).
   No proofs in this file (LemmasSeq.v: every reachable text is the text built at once from
   the pieces of its history). *)
From Coq Require Import ZArith List Bool.
From AK Require Import Common.Sx Common.Err C09.Model.
Import ListNotations.
Open Scope Z_scope.

(* the chunk `prev_chunk.clone(prev_chunk.text + chunk.text)` *)
Definition merge (l c : chunk) : chunk := mkChunk (c_prefix l) (c_text l ++ c_text c) (c_suffix l).

(* _append_chunk for a chunk with a non-empty text: merged into the LAST chunk when the
   prefixes are equal, appended otherwise *)
Fixpoint append_last (xs : list chunk) (c : chunk) : list chunk :=
  match xs with
  | [] => [c]
  | l :: r =>
      match r with
      | [] => if str_eqb (c_prefix c) (c_prefix l) then [merge l c] else [l; c]
      | _ :: _ => l :: append_last r c
      end
  end.

Definition append_chunk (xs : list chunk) (c : chunk) : list chunk :=
  match c_text c with
  | [] => xs
  | _ :: _ => append_last xs c
  end.

(* x += [c1, c2, ...]   /   x += other_text  (its chunks, one after the other) *)
Definition iadd (xs : list chunk) (cs : list chunk) : list chunk := fold_left append_chunk cs xs.

(* ------------------------------------------------------------------ *)
(* operation sequences                                                  *)

Inductive op :=
| OAdd (i : nat) (ps : list nat)   (* x_i += piece   /   x_i += [pieces]   /   x_i += (pieces) *)
| OAddText (i j : nat)             (* x_i += x_j     (j = i allowed) *)
| ONew (i : nat) (ps : list nat)   (* x_i = CHText( *pieces ) *)
| OCopy (i j : nat)                (* x_i = CHText(x_j) *)
| OPlus (i j : nat) (ps : list nat)(* x_i = x_j + piece   /   x_j + [pieces]      (__add__: clone, then +=) *)
| ORPlus (i p j : nat)             (* x_i = piece + x_j                           (__radd__ / Chunk.__add__) *)
| ORender (i : nat)                (* observe str(x_i), x_i.plain_text(), len(x_i), strip_colors(str(x_i)) *)
| ORenderPiece (p : nat)           (* observe str(piece), its plain text and len *)
| OBytes (k : nat) (text : list Z). (* observe bytes formatter k applied to text.encode() *)

Fixpoint upd {A} (i : nat) (v : A) (l : list A) : list A :=
  match l with
  | [] => []
  | x :: r => match i with O => v :: r | S i' => x :: upd i' v r end
  end.

Definition sel {A} (d : A) (pool : list A) (ps : list nat) : list A := map (fun p => nth p pool d) ps.

Definition no_chunk : chunk := plain_chunk [].

(* the texts after one operation *)
Definition step_text (pieces : list chunk) (o : op) (ts : list (list chunk)) : list (list chunk) :=
  match o with
  | OAdd i ps => upd i (iadd (nth i ts []) (sel no_chunk pieces ps)) ts
  | OAddText i j => upd i (iadd (nth i ts []) (nth j ts [])) ts
  | ONew i ps => upd i (chtext_of (sel no_chunk pieces ps)) ts
  | OCopy i j => upd i (iadd [] (nth j ts [])) ts
  | OPlus i j ps => upd i (iadd (iadd [] (nth j ts [])) (sel no_chunk pieces ps)) ts
  | ORPlus i p j => upd i (iadd (iadd [] [nth p pieces no_chunk]) (nth j ts [])) ts
  | ORender _ | ORenderPiece _ | OBytes _ _ => ts
  end.

Definition exec_texts (pieces : list chunk) (ops : list op) (ts : list (list chunk)) : list (list chunk) :=
  fold_left (fun ts o => step_text pieces o ts) ops ts.

Definition no_args : fmtargs := mkArgs CNone CNone false false false false false false.

Definition sx_render (x : list chunk) : sx :=
  let s := chtext_str x in
  SL [sx_str s; sx_str (plain_text x); SZ (scrlen x); sx_str (strip s)].

(* what an observing operation shows (before the texts change: observing ops do not change them) *)
Definition observe (fmts : list fmtargs) (pieces : list chunk) (o : op) (ts : list (list chunk)) : option sx :=
  match o with
  | ORender i => Some (sx_render (nth i ts []))
  | ORenderPiece p =>
      let c := nth p pieces no_chunk in
      Some (SL [sx_str (chunk_str c); sx_str (c_text c); SZ (Z.of_nat (length (c_text c)))])
  | OBytes k text =>
      Some (sx_res (fun ps => sx_str (fst ps ++ utf8 text ++ snd ps)) (make (nth k fmts no_args) true))
  | _ => None
  end.

Fixpoint exec (fmts : list fmtargs) (pieces : list chunk) (ops : list op) (ts : list (list chunk)) : list sx :=
  match ops with
  | [] => []
  | o :: r =>
      let rest := exec fmts pieces r (step_text pieces o ts) in
      match observe fmts pieces o ts with
      | Some s => s :: rest
      | None => rest
      end
  end.

(* constructing the formatter pool: ColorFmt(a), ColorBytes(a) for each a, in order; the first
   exception ends the run *)
Fixpoint first_err (fmts : list fmtargs) : option err :=
  match fmts with
  | [] => None
  | a :: r =>
      match make a false with
      | Err e => Some e
      | Ok _ => match make a true with
                | Err e => Some e
                | Ok _ => first_err r
                end
      end
  end.

(* ------------------------------------------------------------------ *)
(* specification vocabulary: the history of a text = the indices of the pieces that were
   put into it, in order (LemmasSeq.v: text i is always chtext_of (its history's pieces)) *)

Definition step_hist (o : op) (hs : list (list nat)) : list (list nat) :=
  match o with
  | OAdd i ps => upd i (nth i hs [] ++ ps) hs
  | OAddText i j => upd i (nth i hs [] ++ nth j hs []) hs
  | ONew i ps => upd i ps hs
  | OCopy i j => upd i (nth j hs []) hs
  | OPlus i j ps => upd i (nth j hs [] ++ ps) hs
  | ORPlus i p j => upd i (p :: nth j hs []) hs
  | ORender _ | ORenderPiece _ | OBytes _ _ => hs
  end.

Definition hist (ops : list op) (hs : list (list nat)) : list (list nat) :=
  fold_left (fun hs o => step_hist o hs) ops hs.

(* the text built at once from the pieces with indices h: CHText( *[pieces[p] for p in h] ) *)
Definition text_of (pieces : list chunk) (h : list nat) : list chunk := chtext_of (sel no_chunk pieces h).
