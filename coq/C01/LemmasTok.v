(* C01/LemmasTok.v -- C01 end to end on a TEXT: tokenizer (C04/Model.v) + skip filter +
   main loop, and the per-call start symbol.  Uses C04's lemma [leaf_text_l] (every token is
   the product of a pattern match, named through synonyms and keywords) and C01's
   [parse_sound_gen]. *)
From Coq Require Import ZArith List Bool Lia.
From AK Require Import LLP.Build C01.Basics C01.Spec C01.Run C01.Lemmas C01.LemmasFact C01.LemmasTable
  C01.FactProps C01.FactAll C01.FactSmart4 C01.LemmasTop C01.RunTok
  gen.C04_Consts C04.Model C04.LemmasText C04.LemmasLex C04.LemmasConc.
Import ListNotations.
Local Open Scope nat_scope.

(* ---------------- the names the tokenizer can produce are the terminals ---------------- *)
Lemma add_set_keeps : forall s x l, In x l -> In x (add_set s l).
Proof. intros s x l H. unfold add_set. destruct (mem s l); [assumption|]. apply in_or_app. now left. Qed.

Lemma add_set_has : forall s l, In s (add_set s l).
Proof.
  intros s l. unfold add_set. destruct (mem s l) eqn:E.
  - now apply mem_In.
  - apply in_or_app. right. now left.
Qed.

Lemma fold_add_in : forall (A : Type) (f : A -> sym) (l : list A) (init : list sym) (x : sym),
  (In x init \/ exists e, In e l /\ f e = x) ->
  In x (fold_left (fun acc e => add_set (f e) acc) l init).
Proof.
  intros A f. induction l as [|a l IH]; intros init x H; cbn [fold_left].
  - destruct H as [H|[e [[] _]]]. assumption.
  - apply IH. destruct H as [H|[e [[<-|He] Hf]]].
    + left. now apply add_set_keeps.
    + left. rewrite <- Hf. apply add_set_has.
    + right. exists e. now split.
Qed.

Lemma assoc_in : forall (A : Type) (l : list (sym * A)) k v, assoc l k = Some v -> exists k', In (k', v) l.
Proof.
  intros A. induction l as [|[k' v'] l IH]; intros k v H; cbn [assoc] in H; [discriminate|].
  destruct (sym_eqb k' k).
  - injection H as <-. exists k'. now left.
  - destruct (IH _ _ H) as [k'' Hin]. exists k''. now right.
Qed.

Lemma kw_get_in : forall l n v k, kw_get l n v = Some k -> exists n' v', In (n', (v', k)) l.
Proof.
  induction l as [|[n' [v' k']] l IH]; intros n v k H; cbn [kw_get] in H; [discriminate|].
  destruct (sym_eqb n' n && sym_eqb v' v).
  - injection H as <-. exists n', v'. now left.
  - destruct (IH _ _ _ H) as [n'' [v'' Hin]]. exists n'', v''. now right.
Qed.

Lemma syn_in_terminals : forall c g, In g (map fst (c_lex c)) -> In (cfg_syn c g) (cfg_terminals c).
Proof.
  intros c g Hg. unfold cfg_terminals, cfg_syn.
  apply fold_add_in with (f := fun e : sym * (list Z * sym) => snd (snd e)). left.
  destruct (assoc (c_syn c) g) as [n|] eqn:E.
  - apply fold_add_in with (f := fun kv : sym * sym => snd kv). right.
    destruct (assoc_in _ _ _ _ E) as [k' Hin]. exists (k', n). now split.
  - apply fold_add_in with (f := fun kv : sym * sym => snd kv). left.
    apply fold_add_in with (f := fun g : sym => g). right. exists g. split; [|reflexivity].
    apply filter_In. split; [assumption|]. now rewrite E.
Qed.

Lemma kw_in_terminals : forall c n v k, cfg_kw c n v = Some k -> In k (cfg_terminals c).
Proof.
  intros c n v k H. unfold cfg_kw in H. destruct (kw_get_in _ _ _ _ H) as [n' [v' Hin]].
  unfold cfg_terminals. apply fold_add_in with (f := fun e : sym * (list Z * sym) => snd (snd e)).
  right. exists (n', (v', k)). now split.
Qed.

Lemma tok_name_in_terminals : forall c g v, In g (map fst (c_lex c)) ->
  In (tok_name (cfg_syn c) (cfg_kw c) g v) (cfg_terminals c).
Proof.
  intros c g v Hg. unfold tok_name. destruct (cfg_kw c (cfg_syn c g) v) as [k|] eqn:E.
  - eapply kw_in_terminals; eassumption.
  - now apply syn_in_terminals.
Qed.

Lemma lex_matcher_group : forall lx text col g e v, lex_matcher lx text col = Some (g, e, v) -> In g (map fst lx).
Proof.
  intros lx text col g e v H. unfold lex_matcher in H.
  destruct (first_match lx (skipn col text)) as [[[g' n] v']|] eqn:F; [|discriminate].
  injection H as -> _ _. destruct (first_match_in _ _ _ _ _ F) as [p [Hin _]].
  apply in_map_iff. exists (g, p). now split.
Qed.

(* every token before $END$ is named by a terminal of the configuration *)
Lemma token_names : forall c ls toks, lexicon_ok (c_lex c) -> cfg_tokenize c ls = LOk toks ->
  exists body p, toks = body ++ [mkTok END_TOKEN [] p p] /\
    Forall (fun t => plain_leaf (lex_matcher (c_lex c)) (cfg_span_of c) (cfg_syn c) (cfg_kw c) ls ls t \/
                     span_leaf (lex_matcher (c_lex c)) (cfg_span_of c) (cfg_syn c) ls ls t) body /\
    Forall (fun t => In (tname t) (cfg_terminals c)) body.
Proof.
  intros c ls toks Hok H. unfold cfg_tokenize in H.
  assert (Hpre : Forall2 prefix_of ls ls).
  { clear. induction ls as [|a l IH]; constructor; [exists []; now rewrite app_nil_r|assumption]. }
  destruct (leaf_text_l _ _ (cfg_syn c) (cfg_kw c) (lex_matcher_ok _ Hok) (cfg_spans_ok c) ls ls toks Hpre H)
    as [body [p [E [F _]]]].
  exists body, p. split; [exact E|]. split; [exact F|].
  eapply Forall_impl; [|exact F]. intros t [Hp|Hs].
  - destruct Hp as (ln & text & col & g & e & v & _ & M & _ & Et & _). subst t. cbn [tname].
    apply tok_name_in_terminals. eapply lex_matcher_group; eassumption.
  - destruct Hs as (l0 & text0 & c0 & g & e0 & v0 & bm & l1 & text1 & c1 & e1 & v1 & sl & _ & M & _ & _ & _ & _ & _ & Et & _).
    subst t. cbn [tname]. apply syn_in_terminals. eapply lex_matcher_group; eassumption.
Qed.

(* ---------------- the skip filter keeps $END$ ---------------- *)
Lemma subset_In : forall a b s, subset a b = true -> In s a -> In s b.
Proof.
  intros a b s H Hs. unfold subset in H. rewrite forallb_forall in H. apply mem_In. now apply H.
Qed.

Lemma drop_skipped_app : forall skip a b, drop_skipped skip (a ++ b) = drop_skipped skip a ++ drop_skipped skip b.
Proof. intros. unfold drop_skipped. apply filter_app. Qed.

Lemma drop_skipped_end : forall skip p, ~ In END_TOKEN skip ->
  drop_skipped skip [mkTok END_TOKEN [] p p] = [mkTok END_TOKEN [] p p].
Proof.
  intros skip p H. unfold drop_skipped. cbn [filter tname].
  apply mem_not_In in H. now rewrite H.
Qed.

(* ---------------- the parse loop started at any non-helper symbol of a built parser ---------------- *)
Theorem parse_sound_at_l : forall ug terminals smart start p k body e s t,
  build ug terminals smart start = Ok p ->
  mem s (p_sfxs p) = false ->
  (forall b, In b body -> tname b <> END_TOKEN) ->
  parse (fun x => mem x (p_terminals p)) (table_get (p_tables p)) (p_sfxs p) (body ++ [e]) k s = Ok t ->
  tree_name t = s /\ valid_tree ug t /\ no_helper (p_sfxs p) t /\
  kinds_ok (fun x => mem x (p_terminals p)) t /\ leaves t = map tok_pair body.
Proof.
  intros ug terminals smart start p k body e s t Hb Hs Hbody Hp.
  destruct (build_inv_names _ _ _ _ _ Hb) as [Hterm _].
  destruct (build_inv _ _ _ _ _ Hb) as [g [sfxs [Hf ->]]].
  cbn [p_grammar p_sfxs p_terminals p_tables p_start] in *.
  pose proof (factorize_sfxs_dunder _ _ _ _ _ Hf) as Hd.
  eapply parse_sound_gen; try eassumption.
  - eapply factorize_ok_l; eassumption.
  - intros nt tok r Hr. eapply table_sub; eassumption.
  - intros x Hx. apply mem_In in Hx. apply Hd in Hx. apply mem_not_In. intros Hin.
    apply in_app_or in Hin as [Hin|[<-|[]]]; [apply Hterm in Hin; congruence|].
    vm_compute in Hx. discriminate.
  - rewrite mem_app. replace (mem END_TOKEN [END_TOKEN]) with true by (symmetry; apply mem_In; now left).
    apply orb_true_r.
Qed.

(* a name without '__' is no helper symbol of a built parser *)
Lemma no_dunder_no_helper : forall ug terminals smart start p s,
  build ug terminals smart start = Ok p -> has_dunder s = false -> mem s (p_sfxs p) = false.
Proof.
  intros ug terminals smart start p s Hb Hs.
  destruct (build_inv _ _ _ _ _ Hb) as [g [sfxs [Hf ->]]]. cbn [p_sfxs].
  apply mem_not_In. intros Hin. apply (factorize_sfxs_dunder _ _ _ _ _ Hf) in Hin. congruence.
Qed.

Lemma build_cfg_inv : forall cfg skip ug smart start p,
  build_cfg cfg skip ug smart start = Ok p ->
  build ug (cfg_terminals cfg) smart start = Ok p /\
  subset (skip_set (cfg_terminals cfg) skip) (cfg_terminals cfg) = true.
Proof.
  intros cfg skip ug smart start p H. unfold build_cfg in H.
  destruct (existsb has_dunder (cfg_terminals cfg)); [discriminate|].
  destruct (subset (skip_set (cfg_terminals cfg) skip) (cfg_terminals cfg)); cbn [negb] in H; [|discriminate].
  now split.
Qed.

(* the root a call asks for *)
Definition call_root (p : parser) (s : option sym) : sym := match s with Some s' => s' | None => p_start p end.

Lemma build_start : forall ug terminals smart start p, build ug terminals smart start = Ok p -> p_start p = start.
Proof. intros ug terminals smart start p H. destruct (build_inv _ _ _ _ _ H) as [g [sfxs [_ ->]]]. reflexivity. Qed.

(* the start symbol of a call that passes the assertions of parse() is no helper symbol *)
Lemma start_ok_no_dunder : forall p s, start_ok p s = true -> has_dunder s = false.
Proof.
  intros p s H. unfold start_ok in H. destruct (mem s (gkeys (p_grammar p))); [|discriminate].
  now apply negb_true_iff in H.
Qed.

Lemma call_root_no_helper : forall ug terminals smart start p s,
  build ug terminals smart start = Ok p ->
  match s with Some s' => start_ok p s' = true | None => True end ->
  mem (call_root p s) (p_sfxs p) = false.
Proof.
  intros ug terminals smart start p s Hb Hs. eapply no_dunder_no_helper; [eassumption|].
  destruct s as [s'|]; cbn [call_root].
  - eapply start_ok_no_dunder; eassumption.
  - rewrite (build_start _ _ _ _ _ Hb). now destruct (build_inv_names _ _ _ _ _ Hb).
Qed.

(* a per-call start symbol with '__' is rejected (AssertionError), whatever the parser and the tokens *)
Lemma dunder_start_rejected : forall p k toks s, has_dunder s = true -> parse_at p k toks (Some s) = Err AssertErr.
Proof.
  intros p k toks s H. unfold parse_at, start_ok. rewrite H. now destruct (mem s (gkeys (p_grammar p))).
Qed.

(* parse(tokens, start_symbol_name=s) for a parser made by the constructor: no hypothesis on s *)
Theorem parse_at_sound_l : forall ug terminals smart start p k body e s t,
  build ug terminals smart start = Ok p ->
  (forall b, In b body -> tname b <> END_TOKEN) ->
  parse_at p k (body ++ [e]) s = Ok t ->
  tree_name t = call_root p s /\ valid_tree ug t /\ no_helper (p_sfxs p) t /\
  kinds_ok (fun x => mem x (p_terminals p)) t /\ leaves t = map tok_pair body.
Proof.
  intros ug terminals smart start p k body e s t Hb Hbody Hp.
  assert (Hs : match s with Some s' => start_ok p s' = true | None => True end).
  { destruct s as [s'|]; [|exact I]. unfold parse_at in Hp. destruct (start_ok p s'); [reflexivity|discriminate]. }
  pose proof (call_root_no_helper _ _ _ _ _ _ Hb Hs) as Hroot.
  eapply parse_sound_at_l; try eassumption.
  unfold parse_at in Hp. destruct s as [s'|]; cbn [call_root].
  - rewrite Hs in Hp. exact Hp.
  - exact Hp.
Qed.

(* ---------------- parse(text) end to end ---------------- *)
Theorem parse_text_sound_l : forall cfg skip ug smart start p k text s t,
  lexicon_ok (c_lex cfg) ->
  mem END_TOKEN (cfg_terminals cfg) = false ->
  build_cfg cfg skip ug smart start = Ok p ->
  parse_text cfg (skip_set (cfg_terminals cfg) skip) p k text s = Ok t ->
  exists all pe,
    cfg_tokenize cfg (tok_lines (IStr text)) = LOk (all ++ [mkTok END_TOKEN [] pe pe]) /\
    Forall (fun tk => plain_leaf (lex_matcher (c_lex cfg)) (cfg_span_of cfg) (cfg_syn cfg) (cfg_kw cfg)
                        (tok_lines (IStr text)) (tok_lines (IStr text)) tk \/
                      span_leaf (lex_matcher (c_lex cfg)) (cfg_span_of cfg) (cfg_syn cfg)
                        (tok_lines (IStr text)) (tok_lines (IStr text)) tk) all /\
    tree_name t = call_root p s /\ valid_tree ug t /\ no_helper (p_sfxs p) t /\
    kinds_ok (fun x => mem x (p_terminals p)) t /\
    leaves t = map tok_pair (filter (fun tk => negb (mem (tname tk) (skip_set (cfg_terminals cfg) skip))) all).
Proof.
  intros cfg skip ug smart start p k text s t Hlex Hend Hb Hp.
  destruct (build_cfg_inv _ _ _ _ _ _ Hb) as [Hb' Hsub].
  set (sk := skip_set (cfg_terminals cfg) skip) in *.
  (* the tokens *)
  assert (Hp' : exists toks, text_tokens cfg sk text = Ok toks /\ parse_at p k toks s = Ok t).
  { unfold parse_text in Hp. destruct s as [s'|].
    - destruct (start_ok p s'); [|discriminate].
      destruct (text_tokens cfg sk text) as [toks|] eqn:E; [|discriminate]. cbn [bind] in Hp. eauto.
    - destruct (text_tokens cfg sk text) as [toks|] eqn:E; [|discriminate]. cbn [bind] in Hp. eauto. }
  destruct Hp' as [toks [Ht Hpa]]. unfold text_tokens in Ht.
  destruct (cfg_tokenize cfg (tok_lines (IStr text))) as [alltoks| |] eqn:Etok; try discriminate.
  injection Ht as <-.
  destruct (token_names _ _ _ Hlex Etok) as [all [pe [-> [Hleaf Hnames]]]].
  exists all, pe. split; [reflexivity|]. split; [exact Hleaf|].
  assert (HendT : ~ In END_TOKEN (cfg_terminals cfg)) by now apply mem_not_In.
  assert (HendS : ~ In END_TOKEN sk) by (intros Hin; apply HendT; eapply subset_In; eassumption).
  rewrite drop_skipped_app, (drop_skipped_end _ _ HendS) in Hpa.
  assert (Hbody : forall b, In b (drop_skipped sk all) -> tname b <> END_TOKEN).
  { intros b Hin. unfold drop_skipped in Hin. apply filter_In in Hin as [Hin _].
    rewrite Forall_forall in Hnames. apply Hnames in Hin. intros Heq. rewrite Heq in Hin. contradiction. }
  exact (parse_at_sound_l _ _ _ _ _ _ _ _ _ _ Hb' Hbody Hpa).
Qed.

(* ---------------- the text is cut into lines at newlines and nowhere else ---------------- *)
(* str.split('\n') is the inverse of '\n'.join on lines that contain no newline: whatever other
   characters the lines contain (form feed, vertical tab, a lone carriage return, U+0085, U+2028 ...:
   the characters at which str.splitlines() would cut as well) *)
Lemma split_nl_app : forall l r, ~ In 10%Z l -> split_nl (l ++ 10%Z :: r) = l :: split_nl r.
Proof.
  induction l as [|c l IH]; intros r H; cbn [app split_nl].
  - reflexivity.
  - destruct (Z.eqb_spec c 10) as [->|Hc]. { exfalso. apply H. now left. }
    rewrite IH. reflexivity. intros Hin. apply H. now right.
Qed.

Lemma split_nl_one : forall s, ~ In 10%Z s -> split_nl s = [s].
Proof.
  induction s as [|c s IH]; intros H; cbn [split_nl].
  - reflexivity.
  - destruct (Z.eqb_spec c 10) as [->|Hc]. { exfalso. apply H. now left. }
    rewrite IH. reflexivity. intros Hin. apply H. now right.
Qed.

Lemma split_join_l : forall ls, ls <> [] -> Forall (fun l => ~ In 10%Z l) ls -> split_nl (join_nl ls) = ls.
Proof.
  induction ls as [|l r IH]; intros Hne H. { contradiction. }
  inversion H as [|? ? Hl Hr]; subst.
  destruct r as [|l2 r2].
  - cbn [join_nl]. now apply split_nl_one.
  - change (join_nl (l :: l2 :: r2)) with (l ++ 10%Z :: join_nl (l2 :: r2)).
    rewrite split_nl_app by assumption. f_equal. apply IH; [discriminate|assumption].
Qed.

Lemma text_lines_l : forall ls, ls <> [] -> Forall (fun l => ~ In 10%Z l) ls ->
  tok_lines (IStr (join_nl ls)) = map rstrip ls.
Proof. intros ls Hne H. cbn [tok_lines]. now rewrite split_join_l. Qed.

Lemma one_line_l : forall text, ~ In 10%Z text -> tok_lines (IStr text) = [rstrip text].
Proof. intros text H. cbn [tok_lines]. now rewrite split_nl_one. Qed.
