"""C03  Left-recursive grammars are rejected; accepted grammars always terminate (ak/llparser.py)"""
import itertools
import random
import signal

from harness.lib import sx as SX
from harness.props import llp_common as L

ID = "C03"
COQ_DIR = "C03"
EXTRA_COQ_DIRS = ["LLP"]
RUN_MOD = "C03.Run"
MODEL_TARGETS = ["C03/Run.vo"]
PROOF_TARGETS = ["C03/LemmasRC.vo", "C03/LemmasParse.vo", "C03/LemmasTerm.vo", "C03/LemmasInst.vo", "C03/LemmasNull.vo"]
PROPS = ["C03/Props.v"]
ALLOWED_AXIOMS = []
IMPL_TIMEOUT = 60.0        # whole case (a batch of up to SWEEP_CHUNK grammars); constructor and parses have their own budgets
CTOR_BUDGET = 2.0          # seconds for one constructor call (normal: < 5 ms)
PARSE_BUDGET = 0.4         # seconds for one parse of a <= 3 token input of a swept grammar (normal: < 1 ms)
PARSE_BUDGET_FULL = 1.0    # seconds for one parse of a random larger grammar (normal: < 10 ms)
CONFIRM_BUDGET = 1.5       # a parse that blew its budget is run once more with this budget before it counts as Hang
MAX_HANGS = 2              # per case: after that many confirmed hangs the remaining parses are not run
COQ_SHARD = 24
SWEEP_CHUNK = 20000
MODEL_PER_CHUNK = 40       # grammars of every sweep chunk that also go through the Coq model

RULE = ("(1) sweep: every grammar of the classes 2x2 (non-terminals A,B, terminals a,b, 1-2 ORDERED alternatives of "
        "length <= 2: 441^2 grammars) and 3x1 (non-terminals A,B,C, terminal a, 1-2 alternatives of length <= 2 as "
        "sets, the order of the two alternatives alternating with the index: 231^3 grammars), each with every start "
        "symbol; both classes are closed under renaming of the non-terminals, so every grammar shape occurs under "
        "every assignment of the names A<B<C (all 2 / 6 permutations); thorough = the whole classes, quick = a random "
        "sample of indices; constructor outcome of every grammar, and for the accepted ones parse of every terminal "
        "string of length <= 2 (2x2) / <= 3 (3x1) under a wall budget.  (2) random larger grammars: a cycle of 1-4 "
        "non-terminals whose links sit behind 0-3 nullable symbols (direct, chained and nested nullables), broken in "
        "about half of the cases by a terminal or a non-nullable symbol in a prefix, plus unrelated productions, "
        "names drawn at random from a pool that mixes early and late letters; and the C01 generator with 25% "
        "left-recursive choices; up to 8 inputs each (sentences, mutated sentences, random strings).  "
        "(2b) such grammars with a parser built WITH synonyms: pattern groups of the tokenizer are named like "
        "non-terminals of the grammar and renamed to the terminals' names (same token names, same verdict).  "
        "(3) histories: all constructor calls of a case run in ONE process, one after another.  In the sweep the "
        "productions object of a grammar is, depending on its index, a new dict (7/16), the SAME dict object as the "
        "grammar constructed before it, emptied and refilled (4/16), the same dict and the same list objects edited by "
        "slice assignment (3/16), a new dict holding the previous list objects (1/16), or a dict created after the "
        "previous one was dropped (1/16: CPython hands out the same id() again), and every fourth run of 32 "
        "consecutive calls keeps one dict object throughout; every fourth index the parser "
        "accepted last parses its inputs once more after the later constructor call.  'hist' cases: 3-7 calls on "
        "related larger grammars (small edits biased to add or remove a zero-token cycle: add / delete an "
        "alternative, put a terminal in front / take it away, toggle an empty alternative, replace a symbol, rename "
        "the non-terminals by a permutation, add / drop a symbol, reorder; earlier versions again; the untouched "
        "object again), each call with one of the object relations above, other start symbol / smart flag now and "
        "then; every call's outcome, is_ambiguous and parses, and the parses of every accepted parser after the last "
        "call, are compared with the model evaluated on the contents of the object at the time of the call.  "
        "Non-trivial = a left-recursive grammar whose every cycle needs a nullable prefix, or an accepted grammar "
        "with a nullable symbol of which at least one input was parsed to a tree; for a history: a call on an object "
        "related to the previous call's object whose verdict differs from the previous call's, and a tree parsed.")
TRUSTED_BASE = [
    "tokenisation is outside this model: the model's parse receives the generator's token list; the implementation "
    "tokenises the rendered text (tokenizer covered by C04)",
    "GrammarError checks of _verify_grammar_structure_part1 (unknown symbols, terminals with productions, $END$/$START$ "
    "used by the user) are outside the model; the theorems assume their outcome as hypotheses (every production symbol "
    "is a terminal or has productions, terminals have none); generated grammars never trigger them",
    "a parse that does not return within the wall budget (0.4 s for the swept grammars / 1 s for the larger ones, confirmed "
    "once with 1.5 s; constructor: 2 s) is taken for a hang; normal parses of the generated inputs take < 10 ms",
    "histories: the model of the class has no state between constructor calls (C03.Run.Session maps the calls "
    "independently); that the implementation has none (no class / module level memory keyed by object identity, by "
    "symbol names, start symbol or shape) is tested by the Session correspondence and the sweep, not proved; re-use of "
    "an id() after the object died is provoked by dropping and re-creating the dict (CPython allocator behaviour, "
    "counted in the evidence: c03_counts.*_reused_ids)",
]
ASSUMPTIONS = ["grammars use plain productions (templates are C05's subject)"]
MODELLED = ("ak/llparser.py: LLParser._verify_grammar_structure_part2 (lines 1876-1950) as LLP/RecCheck.v; the main loop of "
            "parse (1679-1800) as LLP/Parse.v; _get_nullables as LLP/Table.v:nullables; constructor pipeline as LLP/Build.v; "
            "a sequence of constructor calls in one process as C03/Run.v:Session / session_outcomes (stateless)")


# ------------------------------------------------------------------ sweep classes
def _alt_lists(symbols, ordered):
    prods = [()] + [(s,) for s in symbols] + [(s, t) for s in symbols for t in symbols]
    out = [[p] for p in prods]
    if ordered:
        out += [[p, q] for p in prods for q in prods if p != q]
    else:
        k = 0
        for i, p in enumerate(prods):
            for q in prods[i + 1:]:
                out.append([p, q] if k % 2 == 0 else [q, p])
                k += 1
    return out


class SweepClass:
    def __init__(self, name, nts, terms, ordered, max_input):
        self.name, self.nts, self.terms = name, nts, terms
        self.alts = _alt_lists(nts + terms, ordered)
        self.m = len(self.alts)
        self.size = self.m ** len(nts) * len(nts)
        self.perms = list(itertools.permutations(range(len(nts))))
        self.inputs = [list(t) for n in range(max_input + 1) for t in itertools.product(terms, repeat=n)]

    def grammar(self, idx):
        """index -> (productions in dict insertion order, start, smart)"""
        n = len(self.nts)
        h = (idx * 2654435761 + 12345) >> 5
        start = self.nts[idx % n]
        r = idx // n
        digs = []
        for _ in range(n):
            digs.append(r % self.m)
            r //= self.m
        digs.reverse()
        perm = self.perms[h % len(self.perms)]
        prods = [[self.nts[i], [list(a) for a in self.alts[digs[i]]]] for i in perm]
        return prods, start, bool((h >> 9) & 1)


CLASSES = {
    "2x2": SweepClass("2x2", ["A", "B"], ["a", "b"], True, 2),
    "3x1": SweepClass("3x1", ["A", "B", "C"], ["a"], False, 3),
}


def _chunk_indices(case):
    if "idx" in case:
        return case["idx"]
    return range(case["lo"], case["hi"])


def _model_sample(case):
    """positions (within the chunk) of the grammars that also go through the Coq model"""
    n = len(_chunk_indices(case))
    if n <= MODEL_PER_CHUNK:
        return list(range(n))
    rng = random.Random(case.get("lo", 0) * 7919 + n)
    return sorted(rng.sample(range(n), MODEL_PER_CHUNK))


# ------------------------------------------------------------------ random larger grammars
NAME_POOL = (["A", "B", "C", "D", "E", "F", "G", "H", "M", "N", "P", "Q", "S", "T", "U", "V", "W", "X", "Y", "Z"]
             + ["AA", "AZ", "BA", "ZA", "ZZ", "E1", "E2", "Q_R", "K9", "Lx"])


def gen_hidden(rng):
    """a would-be cycle C0 -> pre0 C1 .., C1 -> pre1 C2 .., ..., Ck-1 -> pre C0 .. whose prefixes consist of
    nullable symbols; sometimes broken; names in random order relative to each other"""
    n_cyc = rng.randint(1, 4)
    n_nul = rng.randint(1, 4)
    n_oth = rng.randint(0, 2)
    n_t = rng.randint(2, 4)
    names = rng.sample(NAME_POOL, n_cyc + n_nul + n_oth)
    cyc, nul, oth = names[:n_cyc], names[n_cyc:n_cyc + n_nul], names[n_cyc + n_nul:]
    terms = list(L.T_NAMES[:n_t])
    prods = {}
    # nullable symbols: eps alternative, or a sequence of other nullables (chained), plus non-empty alternatives
    for i, nm in enumerate(nul):
        alts = []
        if i == 0 or rng.random() < 0.6:
            alts.append([])
        else:
            alts.append([rng.choice(nul[:i]) for _ in range(rng.randint(1, 2))])
        for _ in range(rng.randint(0, 2)):
            alts.append([rng.choice(terms)] + [rng.choice(terms + nul[:i] + oth) for _ in range(rng.randint(0, 2))])
        rng.shuffle(alts)
        prods[nm] = alts
    for nm in oth:
        alts = []
        for _ in range(rng.randint(1, 2)):
            alts.append([rng.choice(terms)] + [rng.choice(terms + nul + oth + cyc) for _ in range(rng.randint(0, 2))])
        prods[nm] = alts
    broken = rng.random() < 0.45
    brk = rng.randrange(n_cyc) if broken else -1
    for i, nm in enumerate(cyc):
        nxt = cyc[(i + 1) % n_cyc]
        pre = [rng.choice(nul) for _ in range(rng.randint(0, 3))]
        if i == brk:
            how = rng.random()
            if how < 0.4 or not oth:
                pre.insert(rng.randint(0, len(pre)), rng.choice(terms))
            elif how < 0.8:
                pre.insert(rng.randint(0, len(pre)), rng.choice(oth))
            else:
                pre = [rng.choice(terms)]
        post = [rng.choice(terms + nul + oth) for _ in range(rng.randint(0, 2))]
        rec_alt = pre + [nxt] + post
        alts = [rec_alt]
        # an exit so that sentences exist
        for _ in range(rng.randint(1, 2)):
            alts.append([rng.choice(terms)] + [rng.choice(terms + nul + oth) for _ in range(rng.randint(0, 1))])
        if rng.random() < 0.3:
            alts.append([rng.choice(nul)] + [rng.choice(terms)])
        rng.shuffle(alts)
        # no exact duplicates (the factorization asserts on them in rare shapes; not this property's subject)
        seen, uniq = set(), []
        for a in alts:
            if tuple(a) not in seen:
                seen.add(tuple(a))
                uniq.append(a)
        prods[nm] = uniq
    order = list(prods)
    rng.shuffle(order)
    start = rng.choice(cyc + oth) if rng.random() < 0.8 else rng.choice(order)
    return {"nts": order, "terms": terms, "prods": [[nt, prods[nt]] for nt in order], "start": start,
            "smart": rng.random() < 0.5}


def gen_sentence(rng, g, budget=120, max_len=8):
    """random derivation with a budget of expansions (llp_common.gen_sentence is exponential on
    left-recursive / nullable loops); out of budget -> shortest alternatives, then give up"""
    prods = dict((nt, alts) for nt, alts in g["prods"])
    out = []
    left = [budget]

    def expand(sym, depth):
        if len(out) > max_len or left[0] < -3 * budget or depth > 60:
            return
        if sym not in prods:
            out.append(sym)
            return
        left[0] -= 1
        alts = prods[sym]
        if left[0] < 0 or depth > 12:
            alts = sorted(alts, key=len)[:1]
        for s in rng.choice(alts):
            expand(s, depth + 1)
    expand(g["start"], 0)
    return out[:max_len]


def gen_inputs(rng, g, n):
    terms = g["terms"]
    seen, out = set(), []
    for _ in range(n):
        r = rng.random()
        if r < 0.55:
            s = gen_sentence(rng, g)
        elif r < 0.8:
            s = gen_sentence(rng, g)
            if s and rng.random() < 0.5:
                s[rng.randrange(len(s))] = rng.choice(terms)
            elif s and rng.random() < 0.5:
                del s[rng.randrange(len(s))]
            else:
                s.insert(rng.randint(0, len(s)), rng.choice(terms))
        else:
            s = [rng.choice(terms) for _ in range(rng.randint(0, 6))]
        inp = [[t, t + (str(rng.randint(0, 99)) if rng.random() < 0.4 else "")] for t in s]
        k = tuple(map(tuple, inp))
        if k not in seen:
            seen.add(k)
            out.append(inp)
    return out


# ------------------------------------------------------------------ histories of constructor calls
# how the productions object of a call is obtained from the object of the previous call of the same history
#   fresh    a new dict with new lists (the earlier objects stay alive)
#   same     the SAME dict object, emptied and refilled (new lists)
#   inner    the same dict object AND, for the symbols that stay, the same list objects (edited by slice assignment)
#   shallow  a new dict whose values are the list objects of the previous dict (edited by slice assignment)
#   reuse    every reference to the previous dict is dropped first, then a new one is built (CPython usually hands
#            out the same address again: id() of the new object = id() of the dead one)
#   again    the very same object, untouched
HIST_MODES = (("fresh", 0.18), ("same", 0.30), ("inner", 0.25), ("shallow", 0.10), ("reuse", 0.17))


def _copy_prods(prods):
    return [[nt, [list(a) for a in alts]] for nt, alts in prods]


def _valid_prods(prods, start):
    keys = [nt for nt, _ in prods]
    return (len(set(keys)) == len(keys) and start in keys
            and all(alts and len(set(map(tuple, alts))) == len(alts) for _nt, alts in prods))


def _edit(rng, prods, terms, start):
    """one small random edit of the grammar -> (prods, start, what) (possibly not valid: the caller checks)"""
    p = _copy_prods(prods)
    keys = [nt for nt, _ in p]
    alts_of = {nt: alts for nt, alts in p}
    nul = sorted(L.ref_nullable(alts_of))
    what = rng.choice(["add_rec", "add_rec", "del_alt", "guard", "unguard", "unguard", "toggle_eps", "swap_sym",
                       "rename", "new_sym", "drop_sym", "reorder"])
    if what == "add_rec":
        x = rng.choice(keys)
        y = x if rng.random() < 0.4 else rng.choice(keys)
        pre = [rng.choice(nul) for _ in range(rng.randint(0, 2))] if nul else []
        post = [rng.choice(terms + keys) for _ in range(rng.randint(0, 1))]
        alts_of[x].insert(rng.randint(0, len(alts_of[x])), pre + [y] + post)
    elif what == "del_alt":
        x = rng.choice(keys)
        if len(alts_of[x]) > 1:
            del alts_of[x][rng.randrange(len(alts_of[x]))]
    elif what == "guard":
        a = rng.choice(alts_of[rng.choice(keys)])
        a.insert(rng.randint(0, min(len(a), 2)), rng.choice(terms))
    elif what == "unguard":
        cands = [(a, i) for alts in alts_of.values() for a in alts for i, sy in enumerate(a[:3]) if sy in terms]
        if cands:
            a, i = rng.choice(cands)
            del a[i]
    elif what == "toggle_eps":
        x = rng.choice(keys)
        if [] in alts_of[x]:
            alts_of[x].remove([])
        else:
            alts_of[x].insert(rng.randint(0, len(alts_of[x])), [])
    elif what == "swap_sym":
        cands = [a for alts in alts_of.values() for a in alts if a]
        if cands:
            a = rng.choice(cands)
            a[rng.randrange(min(len(a), 3))] = rng.choice(terms + keys)
    elif what == "rename":
        new = list(keys)
        rng.shuffle(new)
        if rng.random() < 0.3:          # one name from outside
            free = [n for n in NAME_POOL if n not in keys]
            new[rng.randrange(len(new))] = rng.choice(free)
        ren = dict(zip(keys, new))
        p = [[ren[nt], [[ren.get(sy, sy) for sy in a] for a in alts]] for nt, alts in p]
        start = ren[start]
    elif what == "new_sym":
        free = [n for n in NAME_POOL if n not in keys]
        n = rng.choice(free)
        t = rng.choice(terms)
        p.insert(rng.randint(0, len(p)), [n, rng.choice([[[]], [[t]], [[], [t]], [[t], []]])])
        a = rng.choice(alts_of[rng.choice(keys)])
        a.insert(rng.randint(0, min(len(a), 1)), n)
    elif what == "drop_sym":
        cands = [k for k in keys if k != start]
        if cands:
            k = rng.choice(cands)
            p = [[nt, [[sy for sy in a if sy != k] for a in alts]] for nt, alts in p if nt != k]
    else:
        if rng.random() < 0.5:
            rng.shuffle(p)
        else:
            rng.shuffle(alts_of[rng.choice(keys)])
    return p, start, what


def gen_history(rng, n_inputs=3):
    """constructor calls on related grammars: a grammar, small edits of it (biased towards edits that add or remove
    a zero-token cycle), name permutations, earlier versions again; the productions object of a call is related
    to the object of the call before as its mode says"""
    while True:
        g0 = gen_hidden(rng) if rng.random() < 0.8 else L.gen_grammar(rng, n_nt=rng.randint(2, 4), allow_leftrec=0.25)
        if _valid_prods(g0["prods"], g0["start"]):
            break
    terms = list(g0["terms"])
    versions = [(_copy_prods(g0["prods"]), g0["start"])]
    cur = versions[0]
    smart = g0["smart"]
    steps = []
    for i in range(rng.randint(3, 7)):
        mode = "fresh"
        if i > 0:
            r = rng.random()
            if r < 0.10:
                mode = "again"
            else:
                if r < 0.30 and len(versions) > 1:
                    cur = rng.choice([v for v in versions if v is not cur])
                else:
                    was = L.ref_left_recursive(_prods_dict(cur[0]))
                    want_flip = rng.random() < 0.65
                    for _ in range(40):
                        p2, s2, _what = _edit(rng, cur[0], terms, cur[1])
                        if (_valid_prods(p2, s2) and p2 != cur[0]
                                and (not want_flip or L.ref_left_recursive(_prods_dict(p2)) != was)):
                            cur = (p2, s2)
                            versions.append(cur)
                            break
                x, acc = rng.random(), 0.0
                for m, w in HIST_MODES:
                    acc += w
                    if x < acc:
                        mode = m
                        break
        prods, start = cur
        if mode != "again":
            if rng.random() < 0.12:
                start = rng.choice([nt for nt, _ in prods])
            if rng.random() < 0.10:
                smart = not smart
        g = {"terms": terms, "prods": prods, "start": start}
        steps.append({"mode": mode, "prods": _copy_prods(prods), "start": start, "smart": smart,
                      "inputs": gen_inputs(rng, g, n_inputs)})
    return {"k": "hist", "terms": terms, "steps": steps}


def _full_case(rng, g, n_inputs):
    return {"k": "full", "g": g, "inputs": gen_inputs(rng, g, n_inputs)}


def _syn_case(rng, n_inputs):
    """a full case whose parser is built WITH synonyms: pattern groups of the tokenizer carry the names of non-terminals of
    the grammar and are renamed to the terminals' names (g["syn"] = [[group, terminal], ...]).  The token names, hence the
    grammar the constructor has to judge, are exactly those of the plain case: a pattern-group name that `synonyms` renames
    is not a token name, a symbol of the grammar may carry it (and may lie on a left-recursive cycle)."""
    r = rng.random()
    g = gen_hidden(rng) if r < 0.5 else L.gen_grammar(rng, allow_leftrec=0.25 if r < 0.75 else 0.6)
    g = dict(g)
    nts = [nt for nt, _ in g["prods"]]
    rng.shuffle(nts)
    terms = list(g["terms"])
    rng.shuffle(terms)
    k = min(len(nts), len(terms)) if rng.random() < 0.7 else rng.randint(1, min(len(nts), len(terms)))
    g["syn"] = [[nt, t] for nt, t in zip(nts[:k], terms[:k])]
    return _full_case(rng, g, n_inputs)


def gen_cases(rng, tier):
    big = tier == "thorough"
    cases = []
    # (1) sweep
    if big:
        for cname, cls in CLASSES.items():
            for lo in range(0, cls.size, SWEEP_CHUNK):
                cases.append({"k": "sweep", "cls": cname, "lo": lo, "hi": min(cls.size, lo + SWEEP_CHUNK)})
    else:
        for cname, n_chunks, per in (("2x2", 6, 5000), ("3x1", 20, 5000)):
            cls = CLASSES[cname]
            for _ in range(n_chunks):
                cases.append({"k": "sweep", "cls": cname, "idx": sorted(rng.randrange(cls.size) for _ in range(per))})
    # (2) random larger grammars
    for _ in range(6000 if big else 500):
        cases.append(_full_case(rng, gen_hidden(rng), 8))
    for _ in range(2000 if big else 150):
        cases.append(_full_case(rng, L.gen_grammar(rng, allow_leftrec=0.25), 8))
    # (2b) parsers built with synonyms: non-terminals named like renamed pattern groups of the tokenizer
    for _ in range(1500 if big else 120):
        cases.append(_syn_case(rng, 5))
    # (3) histories of constructor calls in one process
    for _ in range(800 if big else 150):
        cases.append(gen_history(rng))
    # the implementation runner cuts the case list into consecutive shards: spread the (expensive) sweep chunks
    rng.shuffle(cases)
    return cases


def search_cases(rng, tier):
    cases = []
    for cname in CLASSES:
        cls = CLASSES[cname]
        for _ in range(10):
            cases.append({"k": "sweep", "cls": cname, "idx": sorted(rng.randrange(cls.size) for _ in range(4000))})
    for _ in range(1500):
        cases.append(_full_case(rng, gen_hidden(rng), 6))
    for _ in range(1500):
        cases.append(gen_history(rng, 2))
    return cases


# ------------------------------------------------------------------ independent reference
def _prods_dict(prods):
    return {nt: [list(a) for a in alts] for nt, alts in prods}


def _has_duplicates(prods):
    return any(len(set(map(tuple, alts))) != len(alts) for _nt, alts in prods)


def ref_hidden_only(prods):
    """left-recursive, but not through first symbols alone: every cycle needs a nullable prefix"""
    if not L.ref_left_recursive(prods):
        return False
    first_only = {nt: [a[:1] for a in alts] for nt, alts in prods.items()}
    # with only the first symbol of every alternative kept no nullable prefix can be skipped ...
    # (a kept first symbol may itself be nullable, but nothing stands behind it any more)
    return not L.ref_left_recursive(first_only)


# ------------------------------------------------------------------ implementation side
def _is_hang(e):
    return type(e).__name__ == "Hang"


def _timed_parse(p, llparser, text, budget):
    """-> ('ok', tree) | ('err', name) ; name 'Hang' when the budget (and the confirmation budget) was blown"""
    for attempt, b in enumerate((budget, CONFIRM_BUDGET)):
        signal.setitimer(signal.ITIMER_REAL, b)
        try:
            try:
                t = p.parse(text, do_cleanup=False)
            finally:
                signal.setitimer(signal.ITIMER_REAL, 0)
            return "ok", t
        except llparser.Error as e:
            return "err", SX.exc_name(e)
        except BaseException as e:  # noqa
            if _is_hang(e) or isinstance(e, (MemoryError, RecursionError)):
                if attempt == 0 and _is_hang(e):
                    continue
                return "err", "Hang"
            return "err", SX.exc_name(e)
    return "err", "Hang"


def _mk_pd(prods):
    return {nt: [tuple(a) if a else None for a in alts] for nt, alts in prods}


def _snapshot(pd):
    """contents of a productions object as the case format"""
    return [[nt, [list(a) if a else [] for a in alts]] for nt, alts in pd.items()]


def _step_prods(st, o):
    """the productions a call of a history was made with: those of the case, unless the object (passed 'again'
    untouched by the harness) had been altered by an earlier constructor call"""
    return o.get("snap", st["prods"]) if isinstance(o, dict) else st["prods"]


class _Objects:
    """the productions objects of the constructor calls made so far in one history"""

    def __init__(self):
        self.pd = None
        self.alive = []        # earlier objects that the 'user' still holds
        self.reused = 0        # how often a re-created dict got the address of the dropped one

    def next(self, mode, prods):
        """-> the object to pass to the constructor; its contents are those of prods, in that order"""
        old = self.pd
        if old is None or mode == "fresh":
            if old is not None:
                self.alive.append(old)
            self.pd = _mk_pd(prods)
        elif mode == "again":
            pass
        elif mode == "same":
            new = _mk_pd(prods)
            old.clear()
            old.update(new)
        elif mode in ("inner", "shallow"):
            lists = dict(old)
            if mode == "inner":
                tgt = old
                old.clear()
            else:
                tgt = {}
                self.alive.append(old)
            for k, alts in _mk_pd(prods).items():
                lst = lists.get(k)
                if lst is None:
                    lst = alts
                else:
                    lst[:] = alts
                tgt[k] = lst
            self.pd = tgt
        elif mode == "reuse":
            want = id(old)
            self.pd = old = lists = None
            held = []
            for _ in range(30):
                cand = _mk_pd(prods)
                if id(cand) == want:
                    self.reused += 1
                    break
                held.append(cand)
            else:
                cand = held.pop()
            self.pd = cand
        else:
            raise ValueError(mode)
        # ('again': the harness does not touch the object; should an earlier constructor call have altered it, the
        # call is judged on what the object holds now, see _snapshot)
        if mode != "again" and _snapshot(self.pd) != [[nt, [list(a) for a in alts]] for nt, alts in prods]:
            raise RuntimeError("harness error: the productions object does not have the contents of the case")
        return self.pd


def _syn_tokenizer(terms, syn):
    """the tokenizer of L.tokenizer_str with the pattern GROUP of some terminals named differently (like non-terminals of
    the grammar) and renamed back to the terminal's name by `synonyms`: the token names are `terms` all the same"""
    group = {t: grp for grp, t in syn}
    return "|".join([r"(?P<SPACE>\s+)"] + [f"(?P<{group.get(t, t)}>{t}[0-9]*)" for t in terms])


def _ctor_pd(llparser, terms, pd, start, smart, syn=None):
    signal.setitimer(signal.ITIMER_REAL, CTOR_BUDGET)
    try:
        try:
            if syn:
                return llparser.LLParser(_syn_tokenizer(terms, syn), synonyms={grp: t for grp, t in syn}, productions=pd,
                                         start_symbol_name=start, smart_factorization=smart), None
            return llparser.LLParser(L.tokenizer_str(terms), productions=pd, start_symbol_name=start,
                                     smart_factorization=smart), None
        finally:
            signal.setitimer(signal.ITIMER_REAL, 0)
    except BaseException as e:  # noqa
        if _is_hang(e) or isinstance(e, MemoryError):
            return None, "Hang"
        return None, SX.exc_name(e)


def _ctor(llparser, terms, prods, start, smart, syn=None):
    return _ctor_pd(llparser, terms, _mk_pd(prods), start, smart, syn)


def sweep_mode(idx, pos=0):
    """how the productions object of the grammar with this index (at this position of its chunk) is related to the
    object of the grammar that was constructed before it in the same chunk (all grammars of a class use the same
    symbol names).  Every fourth run of 32 consecutive calls keeps ONE dict object throughout."""
    h = ((idx * 2654435761 + 977) >> 7) % 16
    mode = ("fresh", "fresh", "fresh", "fresh", "fresh", "fresh", "fresh", "same", "same", "same", "same",
            "inner", "inner", "inner", "shallow", "reuse")[h]
    if (pos // 32) % 4 == 3 and mode in ("fresh", "shallow", "reuse"):
        mode = "same" if h % 2 else "inner"
    return mode


def _parse_all(p, llparser, inputs, budget, hangs_left):
    """-> (results, number of hangs); after a hang the remaining inputs are not run"""
    res, hung = [], 0
    for inp in inputs:
        if hung or hangs_left <= 0:
            res.append(["err", "NotRun"])
            continue
        r = _timed_parse(p, llparser, " ".join(v for _, v in inp), budget)
        if r[0] == "ok":
            res.append(["ok", L.tree_obs(r[1])])
        else:
            res.append(["err", r[1]])
            hung += r[1] == "Hang"
    return res, hung


def _run_history(case, llparser):
    objs = _Objects()
    steps, parsers, hangs_left = [], [], 1      # after the first confirmed hang no further parse of the history is run
    for st in case["steps"]:
        # (no local name for the object: a 'reuse' step needs the previous object to be really dead)
        snap = _snapshot(objs.next(st["mode"], st["prods"]))
        p, err = _ctor_pd(llparser, case["terms"], objs.pd, st["start"], st["smart"])
        parsers.append(p)
        if p is None:
            steps.append({"ctor": ["err", err]})
        else:
            res, hung = _parse_all(p, llparser, st["inputs"], PARSE_BUDGET_FULL, hangs_left)
            hangs_left -= hung
            steps.append({"ctor": ["ok"], "amb": bool(p.is_ambiguous()), "res": res})
        if snap != st["prods"]:
            steps[-1]["snap"] = snap
    # every accepted parser once more, after all the other constructor calls (and after the edits of the objects)
    late = []
    for st, p in zip(case["steps"], parsers):
        if p is None:
            late.append([])
            continue
        res, hung = _parse_all(p, llparser, st["inputs"], PARSE_BUDGET_FULL, hangs_left)
        hangs_left -= hung
        late.append(res)
    return {"steps": steps, "late": late, "reused": objs.reused}


def impl_run(case):
    from ak import llparser
    if case["k"] == "hist":
        return _run_history(case, llparser)
    if case["k"] == "sweep":
        cls = CLASSES[case["cls"]]
        out, ref, hangs, n_parsed, n_trees, ctor_hangs = [], [], [], 0, 0, 0
        objs = _Objects()
        prev = None           # the parser accepted last, parsed with once more after later constructor calls

        def parse_inputs(p, idx, late):
            nonlocal n_parsed, n_trees
            for inp in cls.inputs:
                r = _timed_parse(p, llparser, " ".join(inp), PARSE_BUDGET)
                n_parsed += 1
                if r[0] == "ok":
                    n_trees += 1
                elif r[1] != "ParsingError":
                    hangs.append({"idx": idx, "inp": inp, "err": r[1], "late": late})
                    return

        for pos, idx in enumerate(_chunk_indices(case)):
            prods, start, smart = cls.grammar(idx)
            ref.append("1" if L.ref_left_recursive(_prods_dict(prods)) else "0")
            if ctor_hangs >= MAX_HANGS:
                out.append("?")          # not run: the constructor hung MAX_HANGS times in this chunk already
                continue
            p, err = _ctor_pd(llparser, cls.terms, objs.next(sweep_mode(idx, pos), prods), start, smart)
            if prev is not None and idx % 4 == 0 and len(hangs) < MAX_HANGS:
                parse_inputs(prev[0], prev[1], idx)
            if p is None:
                out.append("R" if err == "GrammarIsRecursive" else "H" if err == "Hang" else "E")
                ctor_hangs += err == "Hang"
                continue
            out.append(".")
            prev = (p, idx)
            if len(hangs) >= MAX_HANGS:
                continue
            parse_inputs(p, idx, None)
        return {"out": "".join(out), "ref": "".join(ref), "hangs": hangs, "parsed": n_parsed, "trees": n_trees,
                "reused": objs.reused}
    g = case["g"]
    p, err = _ctor(llparser, g["terms"], g["prods"], g["start"], g["smart"], g.get("syn"))
    if p is None:
        return {"ctor": ["err", err]}
    res = {"ctor": ["ok"], "amb": bool(p.is_ambiguous()), "res": []}
    for inp in case["inputs"]:
        if "hang_at" in res:
            res["res"].append(["err", "NotRun"])
            continue
        r = _timed_parse(p, llparser, " ".join(v for _, v in inp), PARSE_BUDGET_FULL)
        if r[0] == "ok":
            res["res"].append(["ok", L.tree_obs(r[1])])
        else:
            res["res"].append(["err", r[1]])
            if r[1] == "Hang":
                res["hang_at"] = len(res["res"]) - 1
    return res


# ------------------------------------------------------------------ model side
def _coq_ug(prods):
    return SX.clist(
        "(" + L.coq_sym(nt) + ", " + SX.clist(SX.clist(L.coq_sym(s) for s in alt) if alt else "(@nil (list Z))" for alt in alts) + ")"
        for nt, alts in prods)


def coq_case(case, obs):
    if case["k"] == "sweep":
        cls = CLASSES[case["cls"]]
        idxs = list(_chunk_indices(case))
        items = []
        for pos in _model_sample(case):
            prods, start, smart = cls.grammar(idxs[pos])
            items.append(f"({_coq_ug(prods)}, {SX.cbool(smart)}, {L.coq_sym(start)})")
        return f"Ctors {SX.clist(L.coq_sym(t) for t in cls.terms)} {SX.clist(items)}"
    if case["k"] == "hist":
        calls = []
        obs_steps = obs["steps"] if isinstance(obs, dict) and "steps" in obs else [None] * len(case["steps"])
        for st, o in zip(case["steps"], obs_steps):
            inputs = SX.clist(
                (SX.clist("(" + L.coq_sym(n) + ", " + SX.cstr(v) + ")" for n, v in inp) if inp else "(@nil (list Z * list Z))")
                for inp in st["inputs"]) if st["inputs"] else "(@nil (list (list Z * list Z)))"
            calls.append(f"({_coq_ug(_step_prods(st, o))}, {SX.cbool(st['smart'])}, {L.coq_sym(st['start'])}, {inputs})")
        return f"Session {SX.clist(L.coq_sym(t) for t in case['terms'])} {L.FUEL}%nat {SX.clist(calls)}"
    return L.coq_case(case, obs)


_OUT_CODE = {".": 0, "R": SX.ERR_CODES["GrammarIsRecursive"], "E": SX.ERR_OTHER, "H": SX.ERR_CODES["Hang"], "?": 98}


def expected_sx(case, obs):
    if "__hang__" in obs:        # the worker died / the whole case blew IMPL_TIMEOUT
        if case["k"] == "sweep":
            return SX.dumps([SX.ERR_CODES["Hang"] for _ in _model_sample(case)])
        if case["k"] == "hist":
            return SX.dumps([[SX.err("Hang") + [True] for _ in case["steps"]], [[] for _ in case["steps"]]])
        return SX.dumps(SX.err("Hang") + [True])
    if case["k"] == "sweep":
        return SX.dumps([_OUT_CODE[obs["out"][pos]] for pos in _model_sample(case)])
    if case["k"] == "hist":
        def results(rs):
            return [SX.ok(L.tree_sx(r[1])) if r[0] == "ok" else SX.err(r[1]) for r in rs]
        calls = []
        for o in obs["steps"]:
            if o["ctor"][0] == "err":
                calls.append(SX.err(o["ctor"][1]) + [True])
            else:
                calls.append([0, o["amb"], True, results(o["res"])])
        return SX.dumps([calls, [results(rs) for rs in obs["late"]]])
    # the third field is the model's evaluation of the theorems' hypotheses (part1_okb) on the factorized
    # grammar: expected to hold on every generated grammar
    if obs["ctor"][0] == "err":
        return SX.dumps(SX.err(obs["ctor"][1]) + [True])
    res = []
    for r in obs["res"]:
        res.append(SX.ok(L.tree_sx(r[1])) if r[0] == "ok" else SX.err(r[1]))
    return SX.dumps([0, obs["amb"], True, res])


# ------------------------------------------------------------------ oracle (the statement, independently of the model)
STATS = {"swept": 0, "swept_leftrec": 0, "swept_accepted": 0, "swept_parses": 0, "swept_trees": 0,
         "full_leftrec": 0, "full_hidden": 0, "full_accepted": 0,
         "sweep_reused_ids": 0, "hist": 0, "hist_calls": 0, "hist_flips_shared_object": 0, "hist_reused_ids": 0}


def oracle(case, obs):
    if "__hang__" in obs:
        return [("ctor-hang", "the constructor (or the whole batch) did not return within the budget")]
    out = []
    if case["k"] == "sweep":
        cls = CLASSES[case["cls"]]
        idxs = list(_chunk_indices(case))
        o, ref = obs["out"], obs["ref"]
        STATS["swept"] += len(idxs)
        STATS["swept_leftrec"] += ref.count("1")
        STATS["swept_accepted"] += o.count(".")
        STATS["swept_parses"] += obs["parsed"]
        STATS["swept_trees"] += obs["trees"]
        STATS["sweep_reused_ids"] += obs.get("reused", 0)
        # the reference was evaluated beside the implementation (in the worker); re-evaluate a sample of it here
        for pos in _model_sample(case):
            prods, _s, _m = cls.grammar(idxs[pos])
            if ("1" if L.ref_left_recursive(_prods_dict(prods)) else "0") != ref[pos]:
                raise RuntimeError("harness error: reference left-recursion differs between worker and parent")
        want = ref.replace("1", "R").replace("0", ".")
        if want != o:
            for pos, (w, got) in enumerate(zip(want, o)):
                if w != got and got != "?":
                    prods, start, smart = cls.grammar(idxs[pos])
                    desc = f"class {cls.name} index {idxs[pos]}: productions {prods} start {start} smart={smart}"
                    mode = sweep_mode(idxs[pos], pos)
                    if mode != "fresh" and pos > 0:
                        desc += (f" (productions object: '{mode}' with respect to the object of the call before, which "
                                 f"held {cls.grammar(idxs[pos - 1])[0]}, outcome '{o[pos - 1]}')")
                    if w == "R" and got == ".":
                        out.append(("leftrec-accepted", desc + ": left-recursive, but the constructor accepted it"))
                    elif w == "." and got == "R":
                        out.append(("spurious-recursive", desc + ": not left-recursive, but GrammarIsRecursive was raised"))
                    elif got == "H":
                        out.append(("ctor-hang", desc + ": the constructor did not return"))
                    elif w == "R":
                        # the swept classes have no duplicated alternatives, nothing else makes the constructor fail
                        out.append(("leftrec-other-error", desc + ": left-recursive, but the constructor raised "
                                                                  "another error than GrammarIsRecursive"))
                    if len(out) >= 3:
                        break
        for h in obs["hangs"]:
            prods, start, smart = cls.grammar(h["idx"])
            what = "did not return" if h["err"] == "Hang" else f"raised {h['err']}"
            if h["late"] is not None:
                what += f" (parse made after the later constructor calls up to index {h['late']})"
            sig = "parse-hang" if h["err"] == "Hang" else "parse-error-type"
            out.append((sig, f"class {cls.name} index {h['idx']}: productions {prods} start {start} smart={smart}: "
                             f"accepted, but parse of {' '.join(h['inp'])!r} {what}"))
        return out[:4]
    if case["k"] == "hist":
        return _oracle_history(case, obs)
    g = case["g"]
    prods = _prods_dict(g["prods"])
    rec = L.ref_left_recursive(prods)
    desc = f"productions {g['prods']} start {g['start']} smart={g['smart']}"
    if g.get("syn"):
        desc += f" (parser built with synonyms {dict(map(tuple, g['syn']))}: pattern groups named like symbols of the grammar)"
    if obs["ctor"][0] == "ok":
        STATS["full_accepted"] += 1
        if rec:
            out.append(("leftrec-accepted", desc + ": left-recursive, but the constructor accepted it"))
        for inp, r in zip(case["inputs"], obs["res"]):
            if r == ["err", "Hang"]:
                out.append(("parse-hang", desc + f": accepted, but parse of {' '.join(v for _, v in inp)!r} did not return"))
            elif r[0] == "err" and r[1] not in ("ParsingError", "NotRun"):
                out.append(("parse-error-type", desc + f": parse of {' '.join(v for _, v in inp)!r} raised {r[1]}"))
    else:
        if rec:
            STATS["full_leftrec"] += 1
            if ref_hidden_only(prods):
                STATS["full_hidden"] += 1
        if obs["ctor"][1] == "GrammarIsRecursive" and not rec:
            out.append(("spurious-recursive", desc + ": not left-recursive, but GrammarIsRecursive was raised"))
        elif obs["ctor"][1] == "Hang":
            out.append(("ctor-hang", desc + ": the constructor did not return"))
        elif obs["ctor"][1] != "GrammarIsRecursive" and rec and not _has_duplicates(g["prods"]):
            # (a grammar with a duplicated alternative is rejected by an assertion of the factorization before
            # the recursion check runs; that is outside the statement)
            out.append(("leftrec-other-error", desc + f": left-recursive, but the constructor raised {obs['ctor'][1]}"))
    return out[:3]


def _oracle_history(case, obs):
    """every call of the history is judged on the contents of ITS productions at the time of the call"""
    out = []
    used = [_step_prods(st, o) for st, o in zip(case["steps"], obs["steps"])]
    recs = [L.ref_left_recursive(_prods_dict(pr)) for pr in used]
    STATS["hist"] += 1
    STATS["hist_calls"] += len(recs)
    STATS["hist_reused_ids"] += obs.get("reused", 0)
    for k, (st, o, rec) in enumerate(zip(case["steps"], obs["steps"], recs)):
        before = ", ".join(f"{j}:{s2['mode']}:{'leftrec' if recs[j] else 'ok'}" for j, s2 in enumerate(case["steps"][:k]))
        desc = (f"call {k} of a history (object: '{st['mode']}'; calls before: [{before}]): productions {used[k]} "
                f"start {st['start']} smart={st['smart']}")
        if k and st["mode"] != "fresh" and rec != recs[k - 1]:
            STATS["hist_flips_shared_object"] += 1
        if o["ctor"][0] == "ok":
            if rec:
                out.append(("leftrec-accepted", desc + ": left-recursive, but the constructor accepted it"))
            for when, rs in (("", o["res"]), (" after the later calls of the history", obs["late"][k])):
                for inp, r in zip(st["inputs"], rs):
                    text = " ".join(v for _, v in inp)
                    if r == ["err", "Hang"]:
                        out.append(("parse-hang", desc + f": accepted, but parse of {text!r}{when} did not return"))
                    elif r[0] == "err" and r[1] not in ("ParsingError", "NotRun"):
                        out.append(("parse-error-type", desc + f": parse of {text!r}{when} raised {r[1]}"))
        elif o["ctor"][1] == "GrammarIsRecursive":
            if not rec:
                out.append(("spurious-recursive", desc + ": not left-recursive, but GrammarIsRecursive was raised"))
        elif o["ctor"][1] == "Hang":
            out.append(("ctor-hang", desc + ": the constructor did not return"))
        elif rec:
            out.append(("leftrec-other-error", desc + f": left-recursive, but the constructor raised {o['ctor'][1]}"))
    return out[:4]


def extra_coverage():
    return {"c03_counts": dict(STATS)}


def kind(case):
    if case["k"] == "sweep":
        return "sweep:" + case["cls"]
    if case["k"] == "hist":
        recs = [L.ref_left_recursive(_prods_dict(st["prods"])) for st in case["steps"]]
        flips = sum(1 for k in range(1, len(recs)) if recs[k] != recs[k - 1] and case["steps"][k]["mode"] != "fresh")
        return f"hist:flips-on-related-object={min(flips, 3)}{'+' if flips > 3 else ''}"
    prods = _prods_dict(case["g"]["prods"])
    rec = L.ref_left_recursive(prods)
    return f"full{'+syn' if case['g'].get('syn') else ''}:leftrec={int(rec)} hidden={int(rec and ref_hidden_only(prods))} nullable={int(bool(L.ref_nullable(prods)))}"


def nontrivial(case, obs):
    if "__hang__" in obs:
        return False
    if case["k"] == "sweep":
        return "R" in obs["out"] and "." in obs["out"] and obs["trees"] > 0
    if case["k"] == "hist":
        # a call on an object related to the previous one whose verdict must differ from the previous call's,
        # and an accepted grammar of which an input was parsed to a tree
        recs = [L.ref_left_recursive(_prods_dict(st["prods"])) for st in case["steps"]]
        return (any(recs[k] != recs[k - 1] and case["steps"][k]["mode"] != "fresh" for k in range(1, len(recs)))
                and any(o["ctor"][0] == "ok" and any(r[0] == "ok" for r in o["res"]) for o in obs["steps"]))
    prods = _prods_dict(case["g"]["prods"])
    if obs["ctor"][0] != "ok":
        return ref_hidden_only(prods)
    return bool(L.ref_nullable(prods)) and any(r[0] == "ok" for r in obs["res"])


def outcome(case, obs):
    if "__hang__" in obs:
        return "hang"
    if case["k"] == "sweep":
        return "sweep"
    if case["k"] == "hist":
        return "hist:" + "".join("." if o["ctor"][0] == "ok" else "R" if o["ctor"][1] == "GrammarIsRecursive" else "E"
                                 for o in obs["steps"])[:4]
    if obs["ctor"][0] != "ok":
        return "ctor:" + obs["ctor"][1]
    if any(r == ["err", "Hang"] for r in obs["res"]):
        return "ctor:ok parse:Hang"
    return "ctor:ok parsed=" + ("some" if any(r[0] == "ok" for r in obs["res"]) else "none")


def shrink_candidates(case):
    if case["k"] == "sweep":
        idxs = list(_chunk_indices(case))
        if len(idxs) > 1:
            half = len(idxs) // 2
            yield {"k": "sweep", "cls": case["cls"], "idx": idxs[:half]}
            yield {"k": "sweep", "cls": case["cls"], "idx": idxs[half:]}
        return
    if case["k"] == "hist":
        steps = case["steps"]
        # drop a call (the call behind it then relates to the object of the call before the dropped one; an
        # 'again' call must keep the contents of its predecessor)
        for i in range(len(steps)):
            rest = steps[:i] + steps[i + 1:]
            if len(rest) >= 1 and all(s2["mode"] != "again" or (j > 0 and rest[j - 1]["prods"] == s2["prods"])
                                      for j, s2 in enumerate(rest)):
                yield {"k": "hist", "terms": case["terms"], "steps": rest}
        for i, st in enumerate(steps):
            if len(st["inputs"]) > 1:
                for j in range(len(st["inputs"])):
                    st2 = dict(st)
                    st2["inputs"] = [st["inputs"][j]]
                    yield {"k": "hist", "terms": case["terms"], "steps": steps[:i] + [st2] + steps[i + 1:]}
        return
    g = case["g"]
    if len(case["inputs"]) > 1:
        for i in range(len(case["inputs"])):
            yield {"k": "full", "g": g, "inputs": [case["inputs"][i]]}
    for i, (nt, alts) in enumerate(g["prods"]):
        if len(alts) > 1:
            for j in range(len(alts)):
                g2 = dict(g)
                g2["prods"] = [list(x) for x in g["prods"]]
                g2["prods"][i] = [nt, alts[:j] + alts[j + 1:]]
                yield {"k": "full", "g": g2, "inputs": case["inputs"]}


TECHNIQUE = ("Coq proof (DFS invariant + potential function for the explicit-stack recursion check; stack invariant, spine "
             "bound and a base-B numeral measure for the parse loop) over hand-written Gallina models + per-run "
             "correspondence (vm_compute vs implementation) + exhaustive small-grammar sweep against an independent "
             "cycle detection")
LEVEL_TEXT = ("Full on the models, relative to the factorized grammar fg. First sentence: reccheck_sound, reccheck_complete, "
              "reccheck_total, reccheck_exact are proved for EVERY visiting order (the order is a universally quantified "
              "list that contains the keys, so every assignment of names) and every exact nullable list; nullables_exact "
              "proves the model of _get_nullables exact; rec_check_exact / build_exact: the constructor raises "
              "GrammarIsRecursive iff fg is left-recursive (inductive definition: a cycle of A |> B, A -> pre B post with "
              "pre nullable) and returns a parser iff it is not; the step budget of the model's loop is proved sufficient. "
              "Second sentence: spine_bound (stack elements starting at the same token position form a |> path, at most "
              "#keys+1 of them), stack_depth_bound, parse_terminates (explicit bound: 2^k iterations with k <= B^(D+1)), "
              "accepted_parse_terminates (build = Ok p -> every input: no Hang). session_exact: in a sequence of constructor calls "
              "call k raises GrammarIsRecursive iff ITS grammar is left-recursive (the model keeps no state between calls; "
              "that the implementation keeps none is TESTED: Session correspondence cases and the sweep pass the same "
              "productions object edited in place, objects sharing lists, re-created objects, name permutations and "
              "earlier versions again, all in one process, and re-parse with earlier parsers afterwards). "
              "NOT proved, tested only: that fg is "
              "left-recursive iff the user's grammar is (the oracle decides left recursion on the USER's productions with "
              "an independent algorithm; thorough tier: all 37.4 million grammars of the two swept classes, i.e. every "
              "shape under every name permutation; quick: 130 000 sampled + 650 random larger grammars with hidden "
              "cycles + 150 histories of 3-7 calls); the hypotheses part1_ok (outcome of _verify_grammar_structure_part1, outside the model) are "
              "evaluated by the model on every generated grammar; template productions are outside the model.")
LEVEL_NOTE = ("Trusted: Coq kernel + vm_compute; fidelity of the hand-written models LLP/RecCheck.v, Table.v:nullables, "
              "Parse.v, Build.v (checked on every run by the correspondence: constructor outcome of every case, "
              "is_ambiguous, parse trees / error classes / Hang of the random cases and of every call of the histories); part1 checks and tokenizer outside "
              "the model; a wall budget (0.4 s / 1 s, confirmed with 1.5 s; constructor 2 s) stands for 'does not "
              "return' on the implementation side.  Print Assumptions: closed under the global context for every theorem.")
DESIGN_REF = "DESIGN.md section 8, C03"
