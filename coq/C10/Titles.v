(* C10/Titles.v -- the title block of a table (ak/ppobj.py ReprStructure.gen_title_lines_ch_chunks_all
   1295-1312, _PPTableImpl._make_table_line 1932-1944, _DefaultTitleFieldType.make_desired_cell_ch_chunks
   676-684, FieldType.make_desired_cell_ch_chunks 540-563, FieldType.fit_to_width 590-640 for a text that
   fits) and the record structure the tables of a family share.  Definitions only.

   A field (RecordField) has title_lines, fixed when the field is made.  A table shows some of the
   fields of its record structure (ReprStructure.columns), each with a width.  The title block has as
   many rows as the TALLEST title among the VISIBLE columns; a column whose title is shorter gets ""
   in the rows below it.  The record structure is shared, un-cloned, by every table built with
   fmt_obj=, by the format objects set_fmt() makes, and stays when columns are removed: rendering only
   reads it. *)
From Coq Require Import ZArith List Bool Arith.
From AK Require Import C10.Base gen.C10_Consts C10.Model C10.Layout.
Import ListNotations.
Open Scope Z_scope.

(* an entry of RecordField.title_lines: a str (printed by the title palette's col_title, left-aligned) or
   another simple object (printed as str(value) by accessor a of the title palette: keyword and number
   right-aligned, anything else through 'text', left-aligned) *)
Inductive titem :=
| TStr (t : list Z)
| TObj (a : acc) (right : bool) (t : list Z).

Definition ti_text (ti : titem) : list Z := match ti with TStr t => t | TObj _ _ t => t end.

(* CHText drops chunks with an empty text *)
Definition chunk_opt (sub : option cls) (a : acc) (t : list Z) : list item :=
  match t with [] => [] | _ => [IChunk sub a t] end.

(* make_cell_ch_chunks(title_item, None, width, title_palette, cp) for a text that fits: the filler
   cp.text(' ' * n) comes from the TABLE palette *)
Definition title_cell (w : nat) (ti : titem) : list item :=
  let fill := chunk_opt None acc_text (spaces (w - length (ti_text ti))) in
  match ti with
  | TStr t => chunk_opt (Some title_cls) acc_col_title t ++ fill
  | TObj a true t => fill ++ chunk_opt (Some title_cls) a t
  | TObj a false t => chunk_opt (Some title_cls) a t ++ fill
  end.

Definition sep_item : item := IChunk None acc_border [124].

(* a visible column: (width, title_lines of its field) *)
Notation tcol := (nat * list titem)%type (only parsing).

(* row i of the block: the entry of every visible column, "" where its title has fewer lines *)
Definition title_row (cols : list tcol) (i : nat) : list item :=
  sep_item :: flat_map (fun c => title_cell (fst c) (nth i (snd c) (TStr [])) ++ [sep_item]) cols.

(* num_title_lines = max(len(col.field.title_lines) for col in self.columns)
   (no column at all: Python's max() raises; the generated tables always keep a column) *)
Definition title_height (cols : list tcol) : nat :=
  fold_right (fun c m => Nat.max (length (snd c)) m) O cols.

Definition title_lines (cols : list tcol) : list (list item) :=
  map (title_row cols) (seq 0 (title_height cols)).

(* every title text fits its column (otherwise fit_to_width truncates: not modelled) *)
Definition title_fits (cols : list tcol) : bool :=
  forallb (fun c => forallb (fun ti => Nat.leb (length (ti_text ti)) (fst c)) (snd c)) cols.

(* ------------------------------------------------------------------ *)
(* the tables of one family: a shared record structure (field name -> title_lines) and, per table,
   the visible columns (field name, width).  Operations: render a table (prints its title block),
   give it other columns (set_fmt / fmt = / a new table from fmt_obj + skip_columns), remove columns. *)
Notation tfields := (list (Z * list titem)) (only parsing).
Notation tvis := (list (Z * nat)) (only parsing).

Record tstate := mkTState { ts_fields : tfields; ts_tables : list (Z * tvis) }.

Inductive tsop :=
| TSRender (tb : Z)
| TSSetCols (tb : Z) (vis : tvis)
| TSRemove (tb : Z) (names : list Z).

Definition vis_of (st : tstate) (tb : Z) : tvis :=
  match zfind tb (ts_tables st) with Some v => v | None => [] end.

Definition lines_of (fields : tfields) (name : Z) : list titem :=
  match zfind name fields with Some l => l | None => [] end.

Definition cols_of (fields : tfields) (vis : tvis) : list tcol :=
  map (fun c => (snd c, lines_of fields (fst c))) vis.

Definition ts_step (st : tstate) (o : tsop) : tstate * list (list item) :=
  match o with
  | TSRender tb => (st, title_lines (cols_of (ts_fields st) (vis_of st tb)))
  | TSSetCols tb vis => (mkTState (ts_fields st) ((tb, vis) :: zdel tb (ts_tables st)), [])
  | TSRemove tb names =>
      (mkTState (ts_fields st)
                ((tb, filter (fun c => negb (zmem (fst c) names)) (vis_of st tb)) :: zdel tb (ts_tables st)), [])
  end.

Fixpoint ts_run (st : tstate) (ops : list tsop) : tstate * list (list (list item)) :=
  match ops with
  | [] => (st, [])
  | o :: r =>
      let (st1, out) := ts_step st o in
      let (st2, outs) := ts_run st1 r in
      (st2, out :: outs)
  end.
