(* C06/Inv2.v -- invariants of the two nested traversals, part 2:
   within one branch no RCommit is put into two builds (nor twice into one), and on an
   acyclic history different RCommits belong to different commits. *)
From Coq Require Import ZArith List Bool Lia Arith Sorting.Permutation.
From AK Require Import Common.Sx Common.Err gen.C06_Consts C06.Model C06.Lemmas C06.Inv C06.Spec.
Import ListNotations.
Open Scope nat_scope.

Definition keys {A} (l : list (nat * A)) : list nat := map fst l.
Definition len (s : state) : nat := length (s_rcommits s).
Definition expl (s : state) (k : nat) : bool := rc_explicit (rc_get s k).

Lemma alookup_In {A} k (l : list (nat * A)) : ahas k l = true <-> In k (keys l).
Proof.
  unfold ahas. induction l as [|[k' v] l IH]; cbn [alookup keys map fst In]; [split; [discriminate|tauto]|].
  destruct (Nat.eqb_spec k k') as [->|N]; [split; auto|].
  unfold keys in IH. rewrite IH. split; [auto|intros [E|H]; [congruence|exact H]].
Qed.

Lemma ahas_false {A} k (l : list (nat * A)) : ahas k l = false <-> ~ In k (keys l).
Proof. rewrite <- alookup_In. destruct (ahas k l); split; congruence. Qed.

Lemma alookup_some_in {A} k (l : list (nat * A)) v : alookup k l = Some v -> In (k, v) l.
Proof.
  induction l as [|[k' v'] l IH]; cbn [alookup]; [discriminate|].
  destruct (Nat.eqb_spec k k') as [->|N]; [intros [= ->]; left; reflexivity|intros H; right; auto].
Qed.

Lemma add_uniq_in x y l : In y (add_uniq x l) <-> y = x \/ In y l.
Proof.
  unfold add_uniq. destruct (nmem x l) eqn:E.
  - apply nmem_In in E. split; [auto|intros [->|H]; auto].
  - rewrite in_app_iff. cbn. intuition.
Qed.

Lemma nodup_app {A} (l1 l2 : list A) :
  NoDup l1 -> NoDup l2 -> (forall x, In x l1 -> ~ In x l2) -> NoDup (l1 ++ l2).
Proof.
  induction l1 as [|a l1 IH]; intros D1 D2 Hd; cbn [app]; [exact D2|].
  inversion D1; subst. constructor.
  - rewrite in_app_iff. intros [H|H]; [contradiction|]. exact (Hd a (or_introl eq_refl) H).
  - apply IH; auto. intros x Hx. apply Hd. right. exact Hx.
Qed.

Lemma add_uniq_nodup x l : NoDup l -> NoDup (add_uniq x l).
Proof.
  unfold add_uniq. destruct (nmem x l) eqn:E; [auto|]. apply nmem_false in E. intros H.
  apply nodup_app; [exact H|repeat constructor; auto|]. intros y Hy [<-|[]]. contradiction.
Qed.

(* ------------------------------------------------------------------ *)
(* the inner DFS only extends rcommits_bparents by fresh keys, and the  *)
(* new rcommits are exactly the explicit ones among them                *)

Definition ext (s : state) (bound : nat) (a0 a1 : iacc) : Prop :=
  exists ks, keys (fst (fst a1)) = keys (fst (fst a0)) ++ ks /\
             snd (fst a1) = snd (fst a0) ++ filter (expl s) ks /\
             NoDup ks /\
             Forall (fun k => k < bound /\ ~ In k (keys (fst (fst a0))) /\ is_cur_build s k = false) ks.

Lemma ext_refl s b a : ext s b a a.
Proof. exists []. rewrite !app_nil_r. repeat split; constructor. Qed.

Lemma ext_trans s b a0 a1 a2 : ext s b a0 a1 -> ext s b a1 a2 -> ext s b a0 a2.
Proof.
  intros (k1 & E1 & N1 & D1 & F1) (k2 & E2 & N2 & D2 & F2). exists (k1 ++ k2).
  rewrite E2, E1, N2, N1, filter_app, <- !app_assoc. repeat split.
  - rewrite Forall_forall in F2. apply nodup_app; [exact D1|exact D2|].
    intros x Hx1 Hx. destruct (F2 x Hx) as (_ & Hn & _). apply Hn. rewrite E1. apply in_or_app. auto.
  - apply Forall_app. split; [exact F1|]. eapply Forall_impl; [|exact F2]. cbn beta.
    intros k (Hb & Hn & Hc). repeat split; auto. intros Hin. apply Hn. rewrite E1. apply in_or_app. auto.
Qed.

Lemma ext_mono s b b' a0 a1 : b <= b' -> ext s b a0 a1 -> ext s b' a0 a1.
Proof.
  intros Hle (ks & E & N & D & F). exists ks. repeat split; auto.
  eapply Forall_impl; [|exact F]. cbn beta. intros k (Hb & H). split; [lia|exact H].
Qed.

Definition parents_lt (s : state) : Prop := forall i, Forall (fun p => p < i) (rc_parents (rc_get s i)).

Definition istep (s : state) (f : nat) : iacc -> nat -> iacc :=
  fun (a : iacc) p => let '(bp, _, _) := a in if is_cur_build s p || ahas p bp then a else inner f s a p.

Lemma inner_unfold f s a c :
  inner (S f) s a c =
  let rc := rc_get s c in
  let '(bp, new, hg) := fold_left (istep s f) (rev (rc_parents rc)) a in
  (bp ++ [(c, parent_builds s bp (rc_parents rc))], (if rc_explicit rc then new ++ [c] else new), hg).
Proof. reflexivity. Qed.

Lemma fold_ext s f bound
  (IH : forall a c, ~ In c (keys (fst (fst a))) -> is_cur_build s c = false -> ext s (S c) a (inner f s a c)) :
  forall ps a0 a1, Forall (fun p => p < bound) ps -> ext s bound a0 a1 ->
                   ext s bound a0 (fold_left (istep s f) ps a1).
Proof.
  induction ps as [|p ps IHps]; intros a0 a1 Hps H01; cbn [fold_left]; [exact H01|].
  inversion Hps; subst. apply IHps; [assumption|].
  unfold istep. destruct a1 as [[bp1 new1] hg1].
  destruct (is_cur_build s p) eqn:Ec; cbn [orb]; [exact H01|].
  destruct (ahas p bp1) eqn:Eh; [exact H01|].
  eapply ext_trans; [exact H01|]. eapply ext_mono; [|apply IH].
  - lia.
  - cbn [fst]. apply ahas_false. exact Eh.
  - exact Ec.
Qed.

Lemma inner_ext s : parents_lt s -> forall f a c,
  ~ In c (keys (fst (fst a))) -> is_cur_build s c = false -> ext s (S c) a (inner f s a c).
Proof.
  intros Hp f. induction f as [|f IH]; intros a c Hn Hc.
  - destruct a as [[bp new] hg]. cbn [inner]. exists []. cbn [fst snd]. rewrite !app_nil_r. repeat split; constructor.
  - rewrite inner_unfold. cbn zeta.
    assert (ext s c a (fold_left (istep s f) (rev (rc_parents (rc_get s c))) a)) as HF.
    { apply (fold_ext s f c IH); [|apply ext_refl]. apply Forall_rev. apply Hp. }
    destruct (fold_left (istep s f) (rev (rc_parents (rc_get s c))) a) as [[bp1 new1] hg1].
    destruct HF as (ks & E & N & D & F). cbn [fst snd] in *.
    exists (ks ++ [c]). cbn [fst snd]. unfold keys in *. rewrite map_app, E, <- app_assoc. cbn [map fst].
    split; [reflexivity|]. split.
    + rewrite filter_app, N, <- app_assoc. cbn [filter]. unfold expl. destruct (rc_explicit (rc_get s c)); [reflexivity|rewrite app_nil_r; reflexivity].
    + split.
      * apply nodup_app; [exact D|repeat constructor; auto|]. intros x Hin [<-|[]]. rewrite Forall_forall in F.
        destruct (F c Hin) as (Hlt & _). lia.
      * apply Forall_app. split.
        -- eapply Forall_impl; [|exact F]. cbn beta. intros k (Hb & H). split; [lia|exact H].
        -- constructor; [|constructor]. repeat split; auto.
Qed.

(* find_new: bparents is extended by fresh keys, new = the explicit ones among them *)
Lemma find_new_ext s heads bp new hrb hg :
  parents_lt s -> Forall (fun p => p < len s) heads ->
  find_new s heads = (bp, new, hrb, hg) ->
  exists ks, keys bp = keys (s_bparents s) ++ ks /\ new = filter (expl s) ks /\ NoDup ks /\
             Forall (fun k => k < len s /\ ~ In k (keys (s_bparents s)) /\ is_cur_build s k = false) ks.
Proof.
  intros Hp Hh. unfold find_new.
  pose proof (fold_ext s (S (length (s_rcommits s))) (len s) (inner_ext s Hp _)
                (rev heads) (s_bparents s, [], false) (s_bparents s, [], false)
                (Forall_rev Hh) (ext_refl _ _ _)) as HF.
  change (fun (a : iacc) (p : nat) => let '(bp0, _, _) := a in
            if is_cur_build s p || ahas p bp0 then a else inner (S (length (s_rcommits s))) s a p)
    with (istep s (S (length (s_rcommits s)))).
  destruct (fold_left _ _ _) as [[bp1 new1] hg1]. intros [= <- <- <- <-].
  destruct HF as (ks & E & N & D & F). cbn [fst snd] in *. exists ks. repeat split; auto.
Qed.

(* ------------------------------------------------------------------ *)
(* well-formedness of the state and the "listed once" invariant         *)

Definition builds_listing (rbs : list rbuild) : list nat := concat (map rb_rcommits rbs).

Record WJ (s : state) : Prop := mkWJ {
  w_visited : Forall (fun kv => Forall (fun i => i < len s) (snd kv)) (s_visited s);
  w_selected : Forall (fun kv => snd kv < len s) (s_selected s);
  w_parents : parents_lt s;
  w_bparents : Forall (fun k => k < len s) (keys (s_bparents s));
  w_prev : Forall (fun k => k < len s) (s_prev_builds s);
  j_nodup : NoDup (builds_listing (s_rbuilds s));
  j_where : Forall (fun i => i < len s /\ (In i (keys (s_bparents s)) \/ is_cur_build s i = true))
                   (builds_listing (s_rbuilds s));
  w_anc : Forall (fun k => k < len s) (keys (s_anc s))
}.

Lemma add_cached_lt s p rcps : WJ s -> Forall (fun i => i < len s) rcps -> Forall (fun i => i < len s) (add_cached s p rcps).
Proof.
  intros W H. unfold add_cached. destruct (nmem p (s_done s)); [exact H|].
  destruct (alookup p (s_visited s)) as [rcs|] eqn:E.
  - apply alookup_some_in in E. pose proof (w_visited s W) as V. rewrite Forall_forall in V.
    specialize (V _ E). cbn [snd] in V. clear E. revert rcps H. induction rcs as [|r rcs IH]; intros rcps H; cbn [fold_left]; [exact H|].
    inversion V as [|? ? Hr Hrs]; subst. apply IH; [exact Hrs|]. rewrite Forall_forall in *. intros x Hx.
    apply add_uniq_in in Hx as [->|Hx]; auto.
  - destruct (alookup p (s_selected s)) as [rc|] eqn:E2; [|exact H].
    apply alookup_some_in in E2. pose proof (w_selected s W) as V. rewrite Forall_forall in V.
    specialize (V _ E2). cbn [snd] in V. apply Forall_app. split; [exact H|]. constructor; [exact V|constructor].
Qed.

Lemma rc_get_app_old s rc i : i < len s -> nth i (s_rcommits s ++ [rc]) dummy_rc = rc_get s i.
Proof. intros H. unfold rc_get. apply app_nth1. exact H. Qed.

Lemma parents_lt_add s rc (rcs : list rcommit) :
  parents_lt s -> rcs = s_rcommits s ++ [rc] -> Forall (fun p => p < len s) (rc_parents rc) ->
  forall i, Forall (fun p => p < i) (rc_parents (nth i rcs dummy_rc)).
Proof.
  intros Hp -> Hrc i. destruct (lt_eq_lt_dec i (len s)) as [[Hlt|Heq]|Hgt].
  - rewrite rc_get_app_old by exact Hlt. apply Hp.
  - subst i. unfold len. rewrite nth_middle. exact Hrc.
  - rewrite nth_overflow; [constructor|]. rewrite app_length. cbn. unfold len in Hgt. lia.
Qed.

Lemma Forall_lt_weaken {A} (f : A -> nat) n m (l : list A) : n <= m -> Forall (fun x => f x < n) l -> Forall (fun x => f x < m) l.
Proof. intros Hle. apply Forall_impl. intros; lia. Qed.

(* registering a new RCommit (no build) *)
Lemma WJ_add_rcommit s rc :
  WJ s -> Forall (fun p => p < len s) (rc_parents rc) -> WJ (add_rcommit s rc).
Proof.
  intros W Hrc. destruct W as [V Sl P B Pr N Wh An].
  assert (len (add_rcommit s rc) = S (len s)) as HL by (unfold len; cbn [add_rcommit s_rcommits]; rewrite app_length; cbn; lia).
  constructor; rewrite ?HL; cbn [add_rcommit s_visited s_selected s_bparents s_prev_builds s_rbuilds].
  - eapply Forall_impl; [|exact V]. cbn beta. intros kv. apply Forall_impl. intros; lia.
  - constructor; [cbn [snd]; unfold len; lia|]. eapply Forall_impl; [|exact Sl]. cbn beta. intros; lia.
  - intros i. unfold rc_get. cbn [add_rcommit s_rcommits]. apply (parents_lt_add s rc); auto.
  - eapply Forall_impl; [|exact B]. cbn beta. intros; lia.
  - eapply Forall_impl; [|exact Pr]. cbn beta. intros; lia.
  - exact N.
  - eapply Forall_impl; [|exact Wh]. cbn beta. intros i (Hi & Hw). split; [lia|exact Hw].
  - cbn [add_rcommit s_anc]. eapply Forall_impl; [|exact An]. cbn beta. intros; lia.
Qed.

Lemma is_cur_build_add_rcommit s rc i : is_cur_build (add_rcommit s rc) i = is_cur_build s i.
Proof. reflexivity. Qed.

(* extending rcommits_bparents by fresh keys *)
Lemma WJ_set_bparents s bp hg ks :
  WJ s -> keys bp = keys (s_bparents s) ++ ks -> Forall (fun k => k < len s) ks -> WJ (set_bparents s bp hg).
Proof.
  intros [V Sl P B Pr N Wh An] E Hk.
  constructor; cbn [set_bparents s_visited s_selected s_bparents s_prev_builds s_rbuilds]; auto.
  - rewrite E. apply Forall_app. split; assumption.
  - eapply Forall_impl; [|exact Wh]. cbn beta. intros i (Hi & Hw). split; [exact Hi|].
    destruct Hw as [Hw|Hw]; [left; rewrite E; apply in_or_app; auto|right; exact Hw].
Qed.

Lemma WJ_eq s s' :
  s_visited s' = s_visited s -> s_selected s' = s_selected s -> s_rcommits s' = s_rcommits s ->
  s_bparents s' = s_bparents s -> s_prev_builds s' = s_prev_builds s -> s_rbuilds s' = s_rbuilds s ->
  s_brcommits s' = s_brcommits s -> s_anc s' = s_anc s -> WJ s -> WJ s'.
Proof.
  intros E1 E2 E3 E4 E5 E6 E7 E8 [V Sl P B Pr N Wh An].
  constructor; unfold len, parents_lt, rc_get, is_cur_build in *; rewrite ?E1, ?E2, ?E3, ?E4, ?E5, ?E6, ?E7, ?E8; assumption.
Qed.

Lemma WJ_add_visited s c rcps : WJ s -> Forall (fun i => i < len s) rcps -> WJ (add_visited s c rcps).
Proof.
  intros [V Sl P B Pr N Wh An] Hr.
  constructor; cbn [add_visited s_visited s_selected s_bparents s_prev_builds s_rbuilds]; auto.
Qed.

Lemma WJ_add_rbuild s iid rb anc :
  WJ s -> iid < len s -> ~ In iid (s_prev_builds s) ->
  NoDup (rb_rcommits rb) ->
  (forall x, In x (rb_rcommits rb) -> ~ In x (builds_listing (s_rbuilds s))) ->
  Forall (fun i => i < len s /\ (In i (keys (s_bparents s)) \/ i = iid)) (rb_rcommits rb) ->
  WJ (add_rbuild s iid rb anc).
Proof.
  intros [V Sl P B Pr N Wh An] Hi Hp Dn Hd Hw.
  assert (forall i, is_cur_build s i = true -> is_cur_build (add_rbuild s iid rb anc) i = true) as Hmono.
  { intros i H. unfold is_cur_build in *. cbn [add_rbuild s_brcommits s_prev_builds].
    apply andb_true_iff in H as [H1 H2]. apply andb_true_iff. split; [|exact H2].
    apply nmem_In. apply in_or_app. left. apply nmem_In. exact H1. }
  constructor; cbn [add_rbuild s_visited s_selected s_bparents s_prev_builds s_rbuilds]; auto.
  - unfold builds_listing. rewrite map_app, concat_app. cbn [map concat]. rewrite app_nil_r.
    apply nodup_app; [exact N|exact Dn|]. intros x Hin Hx. exact (Hd x Hx Hin).
  - unfold builds_listing. rewrite map_app, concat_app. cbn [map concat]. rewrite app_nil_r.
    apply Forall_app. split.
    + eapply Forall_impl; [|exact Wh]. cbn beta. intros i (Hi' & [Hw'|Hw']); (split; [exact Hi'|]); [left; exact Hw'|right; apply Hmono, Hw'].
    + eapply Forall_impl; [|exact Hw]. cbn beta. intros i (Hi' & [Hw'|Hw']); (split; [exact Hi'|]); [left; exact Hw'|right]. subst i.
      unfold is_cur_build. cbn [add_rbuild s_brcommits s_prev_builds]. apply andb_true_iff.
      split; [apply nmem_In, in_or_app; right; left; reflexivity|apply negb_true_iff, nmem_false, Hp].
  - cbn [add_rbuild s_anc]. unfold keys. rewrite map_app. apply Forall_app. split; [exact An|]. repeat constructor. exact Hi.
Qed.

Lemma finish_WJ h head s c rcps :
  WJ s -> Forall (fun i => i < len s) rcps -> WJ (finish h head s c rcps) /\ len s <= len (finish h head s c rcps).
Proof.
  intros W Hr. unfold finish.
  destruct (negb (matches h c || nonempty rcps)); [split; [apply (WJ_eq s); try reflexivity; exact W|unfold len; cbn; lia]|].
  destruct (nonempty (c_tags (get_commit h c)) || (c =? head)).
  - destruct (find_new s rcps) as [[[bp new] hrb] hg] eqn:EF.
    destruct (find_new_ext s rcps bp new hrb hg (w_parents s W) Hr EF) as (ks & Ek & En & Dk & Fk).
    assert (Forall (fun k => k < len s) ks) as Hks by (eapply Forall_impl; [|exact Fk]; cbn beta; tauto).
    pose proof (WJ_set_bparents s bp hg ks W Ek Hks) as W1.
    set (s1 := set_bparents s bp hg) in *.
    assert (len s1 = len s) as HL1 by reflexivity.
    match goal with |- context [if ?b then _ else _] => destruct b end.
    + (* a new RBuild *)
      set (rc := mkRC c rcps (matches h c) _).
      assert (WJ (add_rcommit s1 rc)) as W2 by (apply WJ_add_rcommit; [exact W1|rewrite HL1; exact Hr]).
      set (s2 := add_rcommit s1 rc) in *.
      assert (len s2 = S (len s)) as HL2 by (unfold len, s2; cbn [add_rcommit s_rcommits]; rewrite app_length; cbn; unfold len in HL1; lia).
      change (length (s_rcommits s1)) with (len s1). rewrite HL1.
      split; [|unfold len; cbn [set_bnmap add_rbuild s_rcommits]; fold (len s2); fold (len s); lia].
      assert (NoDup new) as Dn by (rewrite En; apply NoDup_filter; exact Dk).
      assert (forall x, In x new -> In x ks) as Hnk by (intros x Hx; rewrite En in Hx; apply filter_In in Hx; tauto).
      pose proof (j_where s W) as JW. rewrite Forall_forall in JW, Fk, Hks.
      match goal with |- WJ (set_bnmap ?sx ?m) => apply (WJ_eq sx); try reflexivity end.
      apply WJ_add_rbuild; cbn [rb_rcommits]; [exact W2|lia| |apply add_uniq_nodup, Dn| |].
      * intros Hin. pose proof (w_prev s W) as Pr0. rewrite Forall_forall in Pr0. specialize (Pr0 _ Hin). lia.
      * intros x Hx Hin. change (s_rbuilds s2) with (s_rbuilds s) in Hin.
        destruct (JW x Hin) as (Hlt & Hw). apply add_uniq_in in Hx as [->|Hx]; [lia|].
        destruct (Fk x (Hnk x Hx)) as (_ & Hnb & Hcb). destruct Hw as [Hw|Hw]; [contradiction|congruence].
      * rewrite Forall_forall. intros x Hx. apply add_uniq_in in Hx as [->|Hx]; [split; [lia|right; reflexivity]|].
        split; [specialize (Hks x (Hnk x Hx)); lia|left].
        change (s_bparents s2) with bp. rewrite Ek. apply in_or_app. right. exact (Hnk x Hx).
    + (* build or head commit that is not a reported build *)
      split; [|destruct rcps; cbn; unfold len; cbn; lia].
      destruct rcps as [|r0 rcps0].
      * apply (WJ_eq s1); try reflexivity; exact W1.
      * apply (WJ_eq (add_visited s1 c (r0 :: rcps0))); try reflexivity. apply WJ_add_visited; [exact W1|rewrite HL1; exact Hr].
  - destruct (matches h c).
    + split; [apply WJ_add_rcommit; [exact W|exact Hr]|unfold len; cbn [add_rcommit s_rcommits]; rewrite app_length; lia].
    + split; [|destruct rcps; cbn; unfold len; cbn; lia].
      destruct rcps as [|r0 rcps0]; [apply (WJ_eq s); try reflexivity; exact W|].
      apply WJ_add_visited; [exact W|exact Hr].
Qed.

(* ------------------------------------------------------------------ *)
(* the outer DFS, a branch, the whole run                               *)

Lemma visit_WJ h head fuel : forall s c, WJ s -> WJ (visit h head fuel s c) /\ len s <= len (visit h head fuel s c).
Proof.
  induction fuel as [|f IH]; intros s c W; cbn [visit].
  - split; [apply (WJ_eq s); try reflexivity; exact W|unfold len; cbn; lia].
  - destruct (cached s c); [split; [exact W|lia]|].
    set (F := fun (a : state * list nat) p => let s' := visit h head f (fst a) p in (s', add_cached s' p (snd a))).
    assert (forall l a, (WJ (fst a) /\ len s <= len (fst a) /\ Forall (fun i => i < len (fst a)) (snd a)) ->
                        (WJ (fst (fold_left F l a)) /\ len s <= len (fst (fold_left F l a)) /\
                         Forall (fun i => i < len (fst (fold_left F l a))) (snd (fold_left F l a)))) as HF.
    { induction l as [|p l IHl]; intros a Ha; cbn [fold_left]; [exact Ha|]. apply IHl.
      destruct Ha as (Wa & La & Fa). destruct (IH (fst a) p Wa) as (W' & L'). unfold F. cbn [fst snd]. split; [|split].
      - exact W'.
      - lia.
      - apply add_cached_lt; [exact W'|]. eapply Forall_impl; [|exact Fa]. cbn beta. intros; lia. }
    specialize (HF (rev (c_parents (get_commit h c))) (s, [])).
    destruct (fold_left F _ (s, [])) as [s1 rcps]. cbn [fst snd] in HF.
    destruct HF as (W1 & L1 & F1); [split; [exact W|split; [lia|constructor]]|].
    destruct (finish_WJ h head s1 c rcps W1 F1) as (W2 & L2). split; [exact W2|lia].
Qed.

Lemma all_rcommits_in rbs x : In x (all_rcommits rbs) <-> In x (builds_listing rbs).
Proof.
  unfold all_rcommits, builds_listing.
  assert (forall acc, In x (fold_left (fun acc rb => fold_left (fun a i => add_uniq i a) (rb_rcommits rb) acc) rbs acc)
                      <-> In x acc \/ In x (concat (map rb_rcommits rbs))) as H.
  { induction rbs as [|rb rbs IH]; intros acc; cbn [fold_left map concat]; [cbn [In]; tauto|].
    rewrite IH, in_app_iff.
    assert (forall l a, In x (fold_left (fun a i => add_uniq i a) l a) <-> In x a \/ In x l) as H2.
    { induction l as [|y l IHl]; intros a; cbn [fold_left In]; [tauto|]. rewrite IHl, add_uniq_in. intuition. }
    rewrite H2. tauto. }
  rewrite H. cbn [In]. tauto.
Qed.

Lemma all_rcommits_nodup rbs : NoDup (all_rcommits rbs).
Proof.
  unfold all_rcommits.
  assert (forall acc, NoDup acc -> NoDup (fold_left (fun acc rb => fold_left (fun a i => add_uniq i a) (rb_rcommits rb) acc) rbs acc)) as H.
  { induction rbs as [|rb rbs IH]; intros acc D; cbn [fold_left]; [exact D|]. apply IH.
    generalize (rb_rcommits rb). intros l. revert acc D. induction l as [|y l IHl]; intros a D; cbn [fold_left]; [exact D|].
    apply IHl, add_uniq_nodup, D. }
  apply H. constructor.
Qed.

(* state between branches *)
Record WG (s : state) : Prop := mkWG {
  g_visited : Forall (fun kv => Forall (fun i => i < len s) (snd kv)) (s_visited s);
  g_selected : Forall (fun kv => snd kv < len s) (s_selected s);
  g_parents : parents_lt s;
  g_prev : Forall (fun k => k < len s) (s_prev_builds s)
}.

Lemma WG_start s : WG s -> WJ (start_branch s).
Proof.
  intros [V Sl P Pr]. constructor; cbn [start_branch s_visited s_selected s_bparents s_prev_builds s_rbuilds s_anc keys map builds_listing concat]; auto; constructor.
Qed.

Lemma WJ_end s : WJ s -> WG (end_branch s).
Proof.
  intros [V Sl P B Pr N Wh An]. constructor; cbn [end_branch s_visited s_selected s_prev_builds]; auto.
  change (len (end_branch s)) with (len s).
  revert Pr. generalize (s_prev_builds s). unfold keys in An. induction (s_anc s) as [|kv l IHl]; intros acc Pr; cbn [fold_left]; [exact Pr|].
  cbn [map] in An. inversion An; subst. apply IHl; [assumption|]. rewrite Forall_forall in *. intros x Hx.
  apply add_uniq_in in Hx as [->|Hx]; auto.
Qed.

Lemma read_branch_once h s head prev fake s' rbs fake' :
  WG s -> read_branch h s head prev fake = (s', rbs, fake') -> WG s' /\ NoDup (builds_listing rbs).
Proof.
  intros G. unfold read_branch.
  destruct (visit_WJ h head (S (length (h_commits h))) (start_branch s) head (WG_start s G)) as (W & _).
  set (s1 := visit h head (S (length (h_commits h))) (start_branch s) head) in *.
  set (nm := match prev with Some p => not_merged s1 p | None => [] end).
  assert (NoDup nm /\ forall x, In x nm -> ~ In x (builds_listing (s_rbuilds s1))) as (Dn & Hd).
  { unfold nm. destruct prev as [p|]; [|split; [constructor|intros x []]]. unfold not_merged. split.
    - apply NoDup_filter, all_rcommits_nodup.
    - intros x Hx. apply filter_In in Hx as [_ Hx]. apply andb_true_iff in Hx as [_ Hx].
      destruct consts_nm as [_ Enm]. rewrite Enm in Hx. cbn [negb orb] in Hx. apply negb_true_iff, nmem_false in Hx.
      intros Hin. apply Hx, all_rcommits_in, Hin. }
  destruct nm as [|n0 nm0] eqn:En; intros [= <- <- <-]; (split; [apply WJ_end, W|]).
  - apply (j_nodup s1 W).
  - unfold builds_listing. rewrite map_app, concat_app. cbn [map concat rb_rcommits]. rewrite app_nil_r.
    apply nodup_app; [apply (j_nodup s1 W)|exact Dn|]. intros x Hin Hx. exact (Hd x Hx Hin).
Qed.

Lemma run_once h : forall bs g,
  WG (g_state g) -> Forall (fun br => NoDup (builds_listing (br_rbuilds br))) (g_branches g) ->
  WG (g_state (fold_left (step_branch h) bs g)) /\
  Forall (fun br => NoDup (builds_listing (br_rbuilds br))) (g_branches (fold_left (step_branch h) bs g)).
Proof.
  induction bs as [|b bs IH]; intros g G F; cbn [fold_left]; [split; assumption|].
  apply IH; unfold step_branch; destruct (match g_min_ts g with Some m => _ | None => false end); try assumption;
    destruct (read_branch h (g_state g) (b_head b) _ (g_fake g)) as [[s rbs] fake] eqn:E;
    destruct (read_branch_once _ _ _ _ _ _ _ _ G E) as (G' & D); cbn [g_state g_branches]; [exact G'|].
  apply Forall_app. split; [exact F|]. constructor; [exact D|constructor].
Qed.

Lemma WG_init : WG init_state.
Proof.
  constructor; cbn; try constructor. intros i. unfold rc_get. cbn. destruct i; constructor.
Qed.

(* within one branch no RCommit is put into two builds (the 'not merged' pseudo build included) *)
Lemma at_most_once_iids h br : In br (g_branches (run_graph h)) -> NoDup (builds_listing (br_rbuilds br)).
Proof.
  intros Hin. destruct (run_once h (sorted_branches (h_remote h) (h_refs h)) (mkG init_state [] None fake_iid_base) WG_init (Forall_nil _)) as (_ & F).
  rewrite Forall_forall in F. apply F, Hin.
Qed.

(* ------------------------------------------------------------------ *)
(* on an acyclic history every commit gets at most one RCommit          *)

Definition cinv (s : state) : Prop :=
  map rc_cid (s_rcommits s) = rev (keys (s_selected s)) /\ NoDup (keys (s_selected s)).

Lemma cinv_eq s s' : s_rcommits s' = s_rcommits s -> s_selected s' = s_selected s -> cinv s -> cinv s'.
Proof. unfold cinv. intros -> ->. tauto. Qed.

Lemma cinv_add s rc : cinv s -> ~ In (rc_cid rc) (keys (s_selected s)) -> cinv (add_rcommit s rc).
Proof.
  intros [E D] Hn. split; cbn [add_rcommit s_rcommits s_selected keys map fst].
  - rewrite map_app, E. cbn [map rev]. reflexivity.
  - constructor; assumption.
Qed.

(* finish only registers commit c, and keeps the invariant when c is not registered yet *)
Lemma finish_sel h head s c rcps :
  (forall k, In k (keys (s_selected (finish h head s c rcps))) -> In k (keys (s_selected s)) \/ k = c) /\
  (cinv s -> ~ In c (keys (s_selected s)) -> cinv (finish h head s c rcps)).
Proof.
  unfold finish.
  destruct (negb (matches h c || nonempty rcps)); [split; [auto|intros C _; apply (cinv_eq s); auto]|].
  destruct (nonempty (c_tags (get_commit h c)) || (c =? head)).
  - destruct (find_new s rcps) as [[[bp new] hrb] hg].
    match goal with |- context [if ?b then _ else _] => destruct b end.
    + split.
      * cbn [set_bnmap add_rbuild add_rcommit set_bparents s_selected keys map fst In]. intros k [<-|H]; auto.
      * intros C Hn. match goal with |- cinv (set_bnmap (add_rbuild (add_rcommit ?s1 ?rc) _ _ _) _) =>
          apply (cinv_eq (add_rcommit s1 rc)); [reflexivity|reflexivity|apply cinv_add; [apply (cinv_eq s); auto|exact Hn]] end.
    + split; [destruct rcps; cbn; auto|]. intros C _. destruct rcps; apply (cinv_eq s); auto.
  - destruct (matches h c).
    + split; [cbn [add_rcommit s_selected keys map fst In]; intros k [<-|H]; auto|]. intros C Hn. apply cinv_add; assumption.
    + split; [destruct rcps; cbn; auto|]. intros C _. destruct rcps; apply (cinv_eq s); auto.
Qed.

Lemma visit_cinv h head : acyclic h -> forall fuel s c,
  cinv s ->
  cinv (visit h head fuel s c) /\
  (forall k, In k (keys (s_selected (visit h head fuel s c))) -> In k (keys (s_selected s)) \/ k <= c).
Proof.
  intros Ha fuel. induction fuel as [|f IH]; intros s c C; cbn [visit].
  - split; [apply (cinv_eq s); auto|cbn; auto].
  - destruct (cached s c) eqn:Ec; [split; auto|].
    set (F := fun (a : state * list nat) p => let s' := visit h head f (fst a) p in (s', add_cached s' p (snd a))).
    assert (forall l a, Forall (fun p => p < c) l ->
              (cinv (fst a) /\ forall k, In k (keys (s_selected (fst a))) -> In k (keys (s_selected s)) \/ k < c) ->
              (cinv (fst (fold_left F l a)) /\
               forall k, In k (keys (s_selected (fst (fold_left F l a)))) -> In k (keys (s_selected s)) \/ k < c)) as HF.
    { induction l as [|p l IHl]; intros a Hl Ha'; cbn [fold_left]; [exact Ha'|]. inversion Hl; subst.
      apply IHl; [assumption|]. destruct Ha' as (Ca & Ka). destruct (IH (fst a) p Ca) as (C' & K'). unfold F. cbn [fst].
      split; [exact C'|]. intros k Hk. destruct (K' k Hk) as [H|H]; [apply Ka, H|right; lia]. }
    specialize (HF (rev (c_parents (get_commit h c))) (s, [])).
    destruct (fold_left F _ (s, [])) as [s1 rcps]. cbn [fst] in HF.
    destruct HF as (C1 & K1).
    { apply Forall_rev. rewrite Forall_forall. intros p Hp. apply (Ha c p Hp). }
    { split; [exact C|auto]. }
    assert (~ In c (keys (s_selected s1))) as Hn.
    { intros Hin. destruct (K1 c Hin) as [H|H]; [|lia].
      apply alookup_In in H. unfold cached in Ec. rewrite H in Ec. rewrite orb_true_r in Ec. discriminate. }
    destruct (finish_sel h head s1 c rcps) as (Kf & Cf). split; [apply Cf; assumption|].
    intros k Hk. destruct (Kf k Hk) as [H| ->]; [|right; lia]. destruct (K1 k H) as [H'|H']; [auto|right; lia].
Qed.

Lemma run_cinv h : acyclic h -> cinv (g_state (run_graph h)).
Proof.
  intros Ha. unfold run_graph.
  assert (cinv (g_state (mkG init_state [] None fake_iid_base))) as C0 by (split; [reflexivity|constructor]).
  revert C0. generalize (mkG init_state [] None fake_iid_base).
  induction (sorted_branches (h_remote h) (h_refs h)) as [|b l IH]; intros g C; cbn [fold_left]; [exact C|].
  apply IH. unfold step_branch. destruct (match g_min_ts g with Some m => _ | None => false end); [exact C|].
  unfold read_branch.
  destruct (visit_cinv h (b_head b) Ha (S (length (h_commits h))) (start_branch (g_state g)) (b_head b)) as (C' & _);
    [apply (cinv_eq (g_state g)); auto|].
  destruct (match match rev (g_branches g) with [] => None | p :: _ => Some (br_rbuilds p) end with
            | Some p => not_merged _ p | None => [] end); cbn [g_state]; apply (cinv_eq _ _ eq_refl eq_refl C').
Qed.

Lemma explicit_inj s i j : cinv s -> expl s i = true -> expl s j = true ->
  rc_cid (rc_get s i) = rc_cid (rc_get s j) -> i = j.
Proof.
  intros [E D] Hi Hj Hc.
  assert (forall k, expl s k = true -> k < length (s_rcommits s)) as Hlt.
  { intros k Hk. destruct (lt_dec k (length (s_rcommits s))) as [H|H]; [exact H|].
    unfold expl, rc_get in Hk. rewrite nth_overflow in Hk by lia. discriminate. }
  assert (NoDup (map rc_cid (s_rcommits s))) as Dm.
  { rewrite E. apply NoDup_rev. exact D. }
  rewrite (NoDup_nth (map rc_cid (s_rcommits s)) (rc_cid dummy_rc)) in Dm.
  apply Dm; rewrite ?map_length; auto. rewrite !map_nth. exact Hc.
Qed.

(* ------------------------------------------------------------------ *)
(* from RCommit ids to listed commits                                   *)

Lemma nodup_app_inv {A} (l1 l2 : list A) :
  NoDup (l1 ++ l2) -> NoDup l1 /\ NoDup l2 /\ forall x, In x l1 -> ~ In x l2.
Proof.
  induction l1 as [|a l1 IH]; cbn [app]; intros D; [repeat split; [constructor|exact D|intros x []]|].
  inversion D; subst. destruct (IH H2) as (D1 & D2 & Hd). repeat split; [|exact D2|].
  - constructor; [|exact D1]. intros H. apply H1, in_or_app. auto.
  - intros x [<-|Hx]; [intros H; apply H1, in_or_app; auto|apply Hd, Hx].
Qed.

Lemma nodup_map_inj_on {A B} (f : A -> B) l :
  (forall x y, In x l -> In y l -> f x = f y -> x = y) -> NoDup l -> NoDup (map f l).
Proof.
  induction l as [|a l IH]; intros Hi D; cbn [map]; [constructor|]. inversion D; subst. constructor.
  - rewrite in_map_iff. intros (y & E & Hy). assert (y = a) by (apply Hi; [right; exact Hy|left; reflexivity|exact E]). subst. contradiction.
  - apply IH; [|assumption]. intros x y Hx Hy. apply Hi; right; assumption.
Qed.

Definition listed_of (s : state) (rb : rbuild) : list nat := ob_listed (out_build s rb).

Lemma listed_of_in s rb c : In c (listed_of s rb) <-> exists i, In i (rb_rcommits rb) /\ expl s i = true /\ rc_cid (rc_get s i) = c.
Proof.
  unfold listed_of, out_build. cbn [ob_listed]. rewrite in_map_iff. split.
  - intros (i & E & Hi). apply filter_In in Hi as [Hi He]. exists i. repeat split; auto.
    eapply Permutation_in; [apply Permutation_sym, stable_sort_perm|exact Hi].
  - intros (i & Hi & He & E). exists i. split; [exact E|]. apply filter_In. split; [|exact He].
    eapply Permutation_in; [apply stable_sort_perm|exact Hi].
Qed.

Lemma listed_nodup s rbs : cinv s -> NoDup (builds_listing rbs) -> NoDup (flat_map (listed_of s) rbs).
Proof.
  intros C. unfold builds_listing. induction rbs as [|rb rbs IH]; cbn [map concat flat_map]; intros D; [constructor|].
  apply nodup_app_inv in D as (D1 & D2 & Hd). apply nodup_app; [|apply IH, D2|].
  - unfold listed_of, out_build. cbn [ob_listed]. apply nodup_map_inj_on.
    + intros x y Hx Hy. apply filter_In in Hx as [_ Hx], Hy as [_ Hy]. apply (explicit_inj s x y C Hx Hy).
    + apply NoDup_filter. eapply Permutation_NoDup; [apply stable_sort_perm|exact D1].
  - intros c Hc Hc2. apply listed_of_in in Hc as (i & Hi & Hei & Eci).
    apply in_flat_map in Hc2 as (rb' & Hrb' & Hc2). apply listed_of_in in Hc2 as (j & Hj & Hej & Ecj).
    assert (i = j) by (apply (explicit_inj s i j C Hei Hej); congruence). subst j.
    apply (Hd i Hi). apply in_concat. exists (rb_rcommits rb'). split; [apply in_map, Hrb'|exact Hj].
Qed.

(* within one branch every commit is listed at most once (all builds, 'not merged' included) *)
Lemma at_most_once_l h br :
  acyclic h -> In br (all_branches h) -> NoDup (flat_map ob_listed (obr_builds br)).
Proof.
  intros Ha. unfold all_branches. rewrite in_map_iff. intros (rbr & <- & Hin). cbn [obr_builds].
  rewrite flat_map_concat_map, map_map, <- flat_map_concat_map.
  change (fun x => ob_listed (out_build (g_state (run_graph h)) x)) with (listed_of (g_state (run_graph h))).
  eapply Permutation_NoDup.
  - apply Permutation_flat_map. unfold rbuilds_list. apply stable_sort_perm.
  - apply listed_nodup; [apply run_cinv, Ha|apply (at_most_once_iids h), Hin].
Qed.
