"""C06  History report attributes every matching commit to the right build per branch  (ak/ghist.py)"""
import ast
import copy
import hashlib
import io
import itertools
import os
import re

from harness.lib import sx as SX

ID = "C06"
COQ_DIR = "C06"
RUN_MOD = "C06.Run"
MODEL_TARGETS = ["C06/Run.vo"]
PROOF_TARGETS = ["C06/Lemmas.vo", "C06/Inv.vo", "C06/Spec.vo", "C06/Inv2.vo", "C06/Inv3.vo", "C06/Inv4.vo",
                 "C06/Attr.vo", "C06/Window.vo", "C06/RefsLemmas.vo"]
PROPS = ["C06/Props.v", "C06/PropsRefs.v"]
ALLOWED_AXIOMS = []
IMPL_TIMEOUT = 20.0
COQ_SHARD = 16
COQ_PRELUDE = "Open Scope Z_scope."

DAY = 86400
WINDOW = 30 * DAY
T0 = 1_700_000_000


class ExtractError(Exception):
    pass


# ------------------------------------------------------------------ constants from the source
def _find(node, cls, name):
    for n in node.body:
        if isinstance(n, cls) and n.name == name:
            return n
    raise ExtractError(f"{name} not found")


def _const_int(node):
    if isinstance(node, ast.Constant) and isinstance(node.value, int) and not isinstance(node.value, bool):
        return node.value
    if isinstance(node, ast.BinOp) and isinstance(node.op, (ast.Mult, ast.Add)):
        a, b = _const_int(node.left), _const_int(node.right)
        return a * b if isinstance(node.op, ast.Mult) else a + b
    if isinstance(node, ast.UnaryOp) and isinstance(node.op, ast.USub):
        return -_const_int(node.operand)
    raise ExtractError("not an integer constant expression: " + ast.dump(node)[:80])


def _joined_tail(node):
    """f"{self.remote_name}<tail>" -> tail"""
    if (isinstance(node, ast.JoinedStr) and len(node.values) == 2
            and isinstance(node.values[0], ast.FormattedValue)
            and isinstance(node.values[0].value, ast.Attribute) and node.values[0].value.attr == "remote_name"
            and isinstance(node.values[1], ast.Constant) and isinstance(node.values[1].value, str)):
        return node.values[1].value
    raise ExtractError("expected f\"{self.remote_name}/...\": " + ast.dump(node)[:120])


def gen_consts(repo):
    src = open(os.path.join(repo, "ak", "ghist.py")).read()
    tree = ast.parse(src)
    cutoff = None
    for n in tree.body:
        if (isinstance(n, ast.Assign) and len(n.targets) == 1 and isinstance(n.targets[0], ast.Name)
                and n.targets[0].id == "_OBSOLETE_BRANCH_CUTOFF_PERIOD"):
            cutoff = _const_int(n.value)
    if cutoff is None:
        raise ExtractError("_OBSOLETE_BRANCH_CUTOFF_PERIOD not found")

    # --- ProjectRepo.iter_release_branches
    f = _find(_find(tree, ast.ClassDef, "ProjectRepo"), ast.FunctionDef, "iter_release_branches")
    loops = [n for n in f.body if isinstance(n, ast.For)]
    if len(loops) != 1:
        raise ExtractError("iter_release_branches: expected one loop")
    ifs = [n for n in loops[0].body if isinstance(n, ast.If)]
    if len(ifs) != 2 or len(loops[0].body) != 2 or any(i.orelse for i in ifs):
        raise ExtractError("iter_release_branches: expected exactly two independent if statements")
    t0 = ifs[0].test
    if not (isinstance(t0, ast.Compare) and len(t0.ops) == 1 and isinstance(t0.ops[0], ast.In)
            and isinstance(t0.comparators[0], (ast.Tuple, ast.List))):
        raise ExtractError("iter_release_branches: master test not recognised")
    master_names = []
    for e in t0.comparators[0].elts:
        tail = _joined_tail(e)
        if not tail.startswith("/"):
            raise ExtractError("master ref name without '/'")
        master_names.append(tail[1:])
    prefix = None
    label = None
    for n in ast.walk(ifs[0]):
        if isinstance(n, ast.Call) and isinstance(n.func, ast.Name) and n.func.id == "BranchName":
            for kw in n.keywords:
                if kw.arg == "sort_prefix":
                    if not (isinstance(kw.value, ast.List) and len(kw.value.elts) == 1
                            and isinstance(kw.value.elts[0], ast.Constant) and isinstance(kw.value.elts[0].value, str)):
                        raise ExtractError("sort_prefix is not a one-string list")
                    prefix = kw.value.elts[0].value
        if isinstance(n, ast.Yield):
            v = n.value
            if not (isinstance(v, ast.Tuple) and len(v.elts) == 3 and isinstance(v.elts[1], ast.Constant)
                    and isinstance(v.elts[1].value, str)):
                raise ExtractError("master yield not recognised")
            label = v.elts[1].value
    if prefix is None or label is None:
        raise ExtractError("master sort prefix / label not found")
    t1 = ifs[1].test
    if not (isinstance(t1, ast.Call) and isinstance(t1.func, ast.Attribute) and t1.func.attr == "startswith"
            and len(t1.args) == 1):
        raise ExtractError("release test not recognised")
    rel = _joined_tail(t1.args[0])
    if not rel.startswith("/"):
        raise ExtractError("release prefix without '/'")
    for n in ast.walk(ifs[1]):
        if isinstance(n, ast.Call) and isinstance(n.func, ast.Name) and n.func.id == "BranchName" and n.keywords:
            raise ExtractError("release BranchName has keywords")

    # --- BranchName._mk_sort_items: the chain of replace(sep, ' ') followed by split()
    bn = _find(tree, ast.ClassDef, "BranchName")
    mk = _find(bn, ast.FunctionDef, "_mk_sort_items")
    seps = []
    for n in ast.walk(mk):
        if isinstance(n, ast.Call) and isinstance(n.func, ast.Attribute) and n.func.attr == "replace":
            if not (len(n.args) == 2 and all(isinstance(a, ast.Constant) and isinstance(a.value, str) for a in n.args)
                    and len(n.args[0].value) == 1 and n.args[1].value == " "):
                raise ExtractError("_mk_sort_items: replace() not of the form replace(<char>, ' ')")
            seps.append(n.args[0].value)
        if isinstance(n, ast.Call) and isinstance(n.func, ast.Attribute) and n.func.attr == "split":
            if n.args or n.keywords:
                raise ExtractError("_mk_sort_items: split() has arguments")
    if not seps:
        raise ExtractError("_mk_sort_items: no separators")
    if not any(isinstance(n, ast.Call) and isinstance(n.func, ast.Name) and n.func.id == "int" for n in ast.walk(mk)):
        raise ExtractError("_mk_sort_items: no int() conversion")

    # --- BranchName.cmp / _cmp_sort_items: the int-vs-str constants
    cmpf = _find(bn, ast.FunctionDef, "cmp")
    inner = _find(cmpf, ast.FunctionDef, "_cmp_sort_items")
    int_vs_str = str_vs_int = None
    for n in inner.body:
        if (isinstance(n, ast.If) and isinstance(n.test, ast.Name) and len(n.body) == 1
                and isinstance(n.body[0], ast.Return)):
            v = _const_int(n.body[0].value)
            if n.test.id == "is_int_0":
                int_vs_str = v
            elif n.test.id == "is_int_1":
                str_vs_int = v
    if int_vs_str is None or str_vs_int is None:
        raise ExtractError("_cmp_sort_items: int/str clauses not recognised")

    # --- BuildNumData fake numbers
    bnd = _find(tree, ast.ClassDef, "BuildNumData")

    def fake(name):
        fn = _find(bnd, ast.FunctionDef, name)
        for n in ast.walk(fn):
            if isinstance(n, ast.Call) and isinstance(n.func, ast.Name) and n.func.id == "cls":
                vals = [_const_int(a) for a in n.args]
                if len(vals) == 3 and len(set(vals)) == 1 and not n.keywords:
                    return vals[0]
        raise ExtractError(name + " not recognised")
    nb, nmg = fake("mk_fake_not_built"), fake("mk_fake_not_merged")

    # --- RGraph: fake build id base, sort call, not-merged comprehension
    rg = _find(tree, ast.ClassDef, "RGraph")
    init = _find(rg, ast.FunctionDef, "__init__")
    base = None
    sort_ok = False
    for n in ast.walk(init):
        if (isinstance(n, ast.Assign) and len(n.targets) == 1 and isinstance(n.targets[0], ast.Attribute)
                and n.targets[0].attr == "_brcommits_counter"):
            base = _const_int(n.value)
        if (isinstance(n, ast.Call) and isinstance(n.func, ast.Attribute) and n.func.attr == "sort"
                and isinstance(n.func.value, ast.Name) and n.func.value.id == "branches_data"):
            kws = {k.arg: k.value for k in n.keywords}
            if set(kws) == {"key"} and isinstance(kws["key"], ast.Lambda) and not n.args:
                b = kws["key"].body
                if (isinstance(b, ast.Subscript) and isinstance(b.slice, ast.Constant) and b.slice.value == 2):
                    sort_ok = True
    if base is None or not sort_ok:
        raise ExtractError("RGraph.__init__: _brcommits_counter / branches_data.sort(key=item[2]) not recognised")
    rb = _find(rg, ast.FunctionDef, "_read_branch")
    nm_explicit = nm_excl = None
    for n in ast.walk(rb):
        if (isinstance(n, ast.Assign) and len(n.targets) == 1 and isinstance(n.targets[0], ast.Name)
                and n.targets[0].id == "not_merged_rcommits"):
            v = n.value
            if not (isinstance(v, ast.DictComp) and len(v.generators) == 1):
                raise ExtractError("not_merged_rcommits is not a one-generator dict comprehension")
            g = v.generators[0]
            it = g.iter
            if not (isinstance(it, ast.Call) and isinstance(it.func, ast.Attribute) and it.func.attr == "items"
                    and isinstance(it.func.value, ast.Name) and it.func.value.id == "all_commits_prev_branch"):
                raise ExtractError("not_merged_rcommits does not iterate all_commits_prev_branch.items()")
            conds = []
            for c in g.ifs:
                conds += c.values if isinstance(c, ast.BoolOp) and isinstance(c.op, ast.And) else [c]
            nm_explicit = nm_excl = False
            for c in conds:
                if isinstance(c, ast.Attribute) and c.attr == "is_explicit":
                    nm_explicit = True
                elif (isinstance(c, ast.Compare) and len(c.ops) == 1 and isinstance(c.ops[0], ast.NotIn)
                      and isinstance(c.comparators[0], ast.Name)
                      and c.comparators[0].id == "all_commits_in_this_branch"):
                    nm_excl = True
                else:
                    raise ExtractError("not_merged_rcommits: unrecognised condition " + ast.dump(c)[:100])
    if nm_explicit is None:
        raise ExtractError("not_merged_rcommits not found")

    def zs(s):
        return SX.cZlist(ord(c) for c in s)
    text = ("(* generated from ak/ghist.py by harness/props/c06.py -- do not edit *)\n"
            "From Coq Require Import ZArith List.\nImport ListNotations.\nOpen Scope Z_scope.\n"
            f"Definition obsolete_cutoff : Z := {SX.cZ(cutoff)}.\n"
            f"Definition master_prefix : list Z := {zs(prefix)}.\n"
            f"Definition master_names : list (list Z) := [{'; '.join(zs(m) for m in master_names)}].\n"
            f"Definition master_label : list Z := {zs(label)}.\n"
            f"Definition release_dir : list Z := {zs(rel[1:])}.\n"
            f"Definition separators : list Z := {zs(''.join(seps))}.\n"
            f"Definition int_vs_str : Z := {SX.cZ(int_vs_str)}.\n"
            f"Definition str_vs_int : Z := {SX.cZ(str_vs_int)}.\n"
            f"Definition fake_not_built : Z := {SX.cZ(nb)}.\n"
            f"Definition fake_not_merged : Z := {SX.cZ(nmg)}.\n"
            f"Definition fake_iid_base : Z := {SX.cZ(base)}.\n"
            f"Definition nm_requires_explicit : bool := {SX.cbool(nm_explicit)}.\n"
            f"Definition nm_excludes_this_branch : bool := {SX.cbool(nm_excl)}.\n")
    return {"C06_Consts": text}


# ------------------------------------------------------------------ mock git objects (harness side)
def tag_str(t):
    if t[0] == "r":
        return f"build_{t[1]}_release_{t[2]}_{t[3]}_success"
    if t[0] == "m":
        return f"build_{t[1]}_master_success"
    return t[1]


def tag_tuple(t, ver):
    """(major, minor, patch, build) the property speaks about, None for a tag that is not a build tag"""
    if t[0] == "r":
        return [int(t[2]), int(t[3]), int(t[1]), int(t[1])]
    if t[0] == "m":
        return [int(ver[0]), int(ver[1]), int(t[1]), int(t[1])]
    return None


def commit_tags(spec):
    out = []
    for t in spec.get("tags", []):
        tt = tag_tuple(t, spec.get("ver"))
        if tt is not None:
            out.append(tt)
    return out


# (none of them starts with 'build_<digits>_': the pattern is anchored at the start of the tag name only)
TAG_NAMESPACES = ["withdrawn", "old", "qa/old", "archive/2019", "x", "build", "release_1_2", "xbuild_1_master_success",
                  "tags", "refs/tags", "success", "build_x_release_1_2", "build_"]


def namespaced_tag(rng, n):
    """a tag kept in a namespace (refs/tags/<dir>/<name>, one or two '/' in the tag name) whose LAST component reads
    like a successful-build tag: the name as a whole is not a build tag (the pattern is matched against the whole tag
    name), whatever its last component says"""
    last = rng.choice([f"build_{n}_release_{rng.choice([1, 2, 10])}_{rng.choice([0, 2, 250])}_success", f"build_{n}_master_success"])
    return rng.choice(TAG_NAMESPACES) + "/" + last


class _Blob:
    def __init__(self, text):
        self.data = text.encode()
        self.hexsha = hashlib.sha1(self.data).hexdigest()

    @property
    def data_stream(self):
        return io.BytesIO(self.data)


class _Tree:
    def __init__(self, files):
        self.files = {k: _Blob(v) for k, v in files.items()}

    def __truediv__(self, path):
        return self.files[path]


class _Author:
    name = "harness"


class _Commit:
    def __init__(self, idx, intid, spec, sha=None):
        self.idx = idx
        self.intid = intid
        self.hexsha = sha if sha is not None else commit_sha(intid)
        self.message = spec["m"]
        self.committed_date = spec["t"]
        self.author = _Author()
        ver = spec.get("ver")
        self.tree = _Tree({"VERSION": f"{ver[0]}.{ver[1]}"} if ver else {})
        self.parents = []

    def __repr__(self):
        return f"C{self.idx}"


class _Ref:
    def __init__(self, name, commit):
        self.name = name
        self.commit = commit
        self.hexsha = commit.hexsha


class _Remote:
    def __init__(self, refs, repo=None):
        self.refs = refs
        self._repo = repo

    def fetch(self):
        if self._repo is not None:
            self._repo.fetches += 1


class MockRepo:
    """the attribute surface ak.ghist reads from a git.Repo (cf. tests/mock_git.py).
    [load] replaces the whole content in place: the ProjectRepo keeps the same repo object while the
    repository changes (new commits, tags, heads, branches); every inner object is created afresh, as
    GitPython does when it re-reads the repository."""

    def __init__(self, case):
        self.git_dir = "/nonexistent/c06"
        self.working_dir = self.git_dir
        self.fetches = 0
        self.load(case)

    def load(self, case):
        ids = case.get("ids") or list(range(len(case["commits"])))
        shas = case_shas(case)
        self.commits = [_Commit(i, ids[i], spec, shas[i]) for i, spec in enumerate(case["commits"])]
        for c, spec in zip(self.commits, case["commits"]):
            c.parents = [self.commits[p] for p in spec["p"]]
        self.by_sha = {c.hexsha: c for c in self.commits}
        remote = case["remote"]
        self.branch_refs = [_Ref(name, self.commits[i]) for name, i in case["refs"]]
        self.remotes = {remote: _Remote([r for r in self.branch_refs if r.name.startswith(remote + "/")], self)}
        self.tag_refs = []
        for c, spec in zip(self.commits, case["commits"]):
            for t in spec.get("tags", []):
                self.tag_refs.append(("refs/tags/" + tag_str(t), c.hexsha))

    def commit(self, hexsha):
        return self.by_sha[hexsha]

    def iter_refs(self, *prefixes):
        for r in self.branch_refs:
            n = "refs/remotes/" + r.name
            if any(n.startswith(p) for p in prefixes):
                yield n, r.hexsha
        for n, h in self.tag_refs:
            if any(n.startswith(p) for p in prefixes):
                yield n, h


# ------------------------------------------------------------------ repositories whose refs are on disk
# The mock above overrides iter_refs, so GitRepo._iter_packed_refs / _iter_refs_files / iter_refs (the text level of
# the report: where the branch heads and the tags come from) would never run.  [DirRepo] is the library's own GitRepo
# over a real '.git' directory written by the harness (packed-refs + loose ref files; no git binary, no GitPython:
# commit objects stay in memory and get_ref_commit -- GitPython's SymbolicReference(...).commit -- is a stand-in).
PACK_HEADER = "# pack-refs with: peeled fully-peeled sorted "
HEX = "0123456789abcdef"


def commit_sha(intid):
    return hashlib.sha1(f"c06-{intid}".encode()).hexdigest()


def case_shas(case):
    """the 40-digit id of commit k: given by the case ("shas": ids with deliberately shared prefixes / suffixes between
    distinct commits, gen_shas) or derived from the commit's number"""
    if case.get("shas"):
        return list(case["shas"])
    return [commit_sha(i) for i in (case.get("ids") or range(len(case["commits"])))]


SHORT = 11          # digits of the abbreviated ids in the printed report (ReportFormatter)


def short_classes(case):
    """canon[k] = the first commit whose id starts with the same SHORT digits as commit k's (the printed report
    cannot tell the commits of one class apart)"""
    shas = case_shas(case)
    first = {}
    return [first.setdefault(x[:SHORT], k) for k, x in enumerate(shas)]


def write_disk(git_dir, disk):
    import shutil
    shutil.rmtree(os.path.join(git_dir, "refs"), ignore_errors=True)
    try:
        os.remove(os.path.join(git_dir, "packed-refs"))
    except OSError:
        pass
    os.makedirs(os.path.join(git_dir, "refs"), exist_ok=True)
    if disk.get("packed") is not None:
        with open(os.path.join(git_dir, "packed-refs"), "wb") as f:
            f.write(disk["packed"].encode("latin-1"))
    for name, content, _resolved in disk["loose"]:
        path = os.path.join(git_dir, *name.split("/"))
        os.makedirs(os.path.dirname(path), exist_ok=True)
        with open(path, "wb") as f:
            f.write(content.encode("latin-1"))


def dir_repo_class(ghist):
    class _Resolved:
        def __init__(self, hexsha):
            self.hexsha = hexsha

    class DirRepo(ghist.GitRepo):
        def __init__(self, root, case):            # deliberately no git.Repo.__init__
            self._git_dir = os.path.join(root, ".git")
            os.makedirs(self._git_dir, exist_ok=True)
            self.fetches = 0
            self._mock = None
            self._remotes = {}
            self._resolved = {}
            self.load(case)

        git_dir = property(lambda self: self._git_dir)
        working_dir = property(lambda self: self._git_dir)
        remotes = property(lambda self: self._remotes)
        commits = property(lambda self: self._mock.commits)

        def load(self, case):
            if "commits" in case:
                self._mock = MockRepo(case)
                self._remotes = {k: _Remote(v.refs, self) for k, v in self._mock.remotes.items()}
            write_disk(self._git_dir, case["disk"])
            self._resolved = {name: resolved for name, _c, resolved in case["disk"]["loose"]}

        def commit(self, hexsha):
            return self._mock.by_sha[hexsha]

        def get_ref_commit(self, ref_name):        # stand-in for GitPython
            return _Resolved(self._resolved[ref_name])

    return DirRepo


def _path_conflict(name, names):
    return any(n == name or n.startswith(name + "/") or name.startswith(n + "/") for n in names)


def gen_layout(rng, branches, tags, seed=None):
    """branches: [(full ref name, commit hexsha)], tags: [(tag name, commit hexsha)] (names unique)
    -> {"packed": text | None, "loose": [[ref name, file content, hexsha get_ref_commit resolves it to]], "seed": seed}
    a '.git' directory that says exactly this, written the way git writes it (plus what else such a directory
    contains): refs packed (after clone / gc), loose (after fetch / push), or both (then the packed value is stale);
    annotated tags (tag object + '^' peeled line) and lightweight ones; refs of other remotes, local branches, stash,
    notes; the symbolic refs/remotes/<remote>/HEAD."""
    def other():
        return "".join(rng.choice(HEX) for _ in range(40))
    entries = []        # (ref name, first hexsha, peeled hexsha or None)
    loose = []
    mode = rng.choice(["packed", "packed", "packed", "mixed", "mixed", "loose"])

    def place(p_loose):
        if mode == "packed":
            return "packed"
        if mode == "loose":
            return "loose"
        r = rng.random()
        return "loose" if r < p_loose else "both" if r < p_loose + 0.25 else "packed"
    for name, sha in branches:
        where = place(0.4)
        if where != "packed" and _path_conflict(name, [x[0] for x in loose]):
            where = "packed"
        if where in ("packed", "both"):
            entries.append((name, sha if where == "packed" else other(), None))
        if where in ("loose", "both"):
            loose.append([name, sha + "\n", sha])
    p_annot = rng.choice([0.0, 0.6, 0.6, 1.0])
    for tag, sha in tags:
        name = "refs/tags/" + tag
        annotated = rng.random() < p_annot
        obj = other() if annotated else sha
        where = place(0.2)
        if where != "packed" and _path_conflict(name, [x[0] for x in loose]):
            where = "packed"
        if where == "packed":
            entries.append((name, obj, sha if annotated else None))
        elif where == "both":
            entries.append((name, other(), other() if rng.random() < 0.5 else None))
        if where in ("loose", "both"):
            loose.append([name, obj + "\n", sha])
    remotes = sorted({n.split("/")[2] for n, _ in branches if n.startswith("refs/remotes/")}) or ["origin"]
    # what else lives in such a directory: none of it belongs to the report
    noise = []
    for _ in range(rng.choice([0, 2, 4, 7])):
        r = rng.choice(remotes)
        nm = rng.choice(["refs/heads/master", "refs/heads/release/1.2", "refs/heads/release/9.9", "refs/stash", "refs/notes/commits",
                         f"refs/remotes/{r}x/release/9.9", f"refs/remotes/{r}x/master", f"refs/remotes/x{r}/release/1.2",
                         f"refs/remotes/{r}", "refs/remotes/zz/master", "refs/remotes/zz/release/1.2",
                         f"refs/heads/{r}/release/9.9", "refs/tagsx/build_1_master_success", "refs/tags/v%d.0" % rng.randrange(1, 9),
                         "refs/tags/zz-last-%d" % rng.randrange(9), "refs/tags/0-first", "refs/zz/last"])
        if _path_conflict(nm, [e[0] for e in entries] + [x[0] for x in loose] + [x[0] for x in noise]):
            continue
        peel = other() if (nm.startswith("refs/tags/") and rng.random() < 0.8) else None
        noise.append((nm, other(), peel))
    for e in noise:
        if mode != "packed" and rng.random() < 0.3 and not _path_conflict(e[0], [x[0] for x in loose]):
            loose.append([e[0], e[1] + "\n", e[2] or e[1]])
        else:
            entries.append(e)
    for r in remotes:
        if rng.random() < 0.5 and not _path_conflict(f"refs/remotes/{r}/HEAD", [x[0] for x in loose]):
            tgt = [sha for n, sha in branches if n in (f"refs/remotes/{r}/master", f"refs/remotes/{r}/main")]
            loose.append([f"refs/remotes/{r}/HEAD", f"ref: refs/remotes/{r}/master\n", tgt[0] if tgt else other()])
    if rng.random() < 0.75:
        entries.sort(key=lambda e: e[0])          # 'sorted': the annotated tags come after every branch
    else:
        rng.shuffle(entries)
    eol = "\r\n" if rng.random() < 0.1 else "\n"
    sep = rng.choice([" "] * 8 + ["\t", "  "])
    lines = []
    r = rng.random()
    if r < 0.8:
        lines.append(PACK_HEADER)
    elif r < 0.9:
        lines.append(rng.choice(["# pack-refs with: peeled", "# pack-refs with: peeled fully-peeled", "# pack-refs with: peeled sorted "]))
    for name, sha, peel in entries:
        if rng.random() < 0.03:
            lines.append("")
        lines.append(sha + sep + name)
        if peel is not None:
            lines.append("^" + peel)
    text = eol.join(lines) + (eol if lines and rng.random() < 0.9 else "")
    packed = text
    if not entries and rng.random() < 0.5:
        packed = None
    loose.sort(key=lambda x: x[0])
    return {"packed": packed, "loose": loose, "seed": seed}


_HEX40 = re.compile(r"[0-9a-f]{40}\Z")


def ref_semantics(disk):
    """reference reading of a '.git' refs directory (what git says the refs are): {full ref name: commit hexsha}, or
    None when packed-refs is not a well-formed file (then the property says nothing).  A '^' line belongs to the ref
    line immediately before it; a loose file wins over a packed entry."""
    refs = {}
    text = disk.get("packed")
    if text is not None:
        last = None
        for raw in re.split(r"\r\n|\n|\r", text):
            if raw == "":
                continue
            if raw.startswith("#"):
                if not raw.startswith("# pack-refs with:") or "peeled" not in raw:
                    return None
                continue
            if raw.startswith("^"):
                if last is None or not _HEX40.match(raw[1:]):
                    return None
                refs[last] = raw[1:]
                last = None
                continue
            m = re.match(r"([0-9a-f]{40})[ \t]+(refs/[!-~]+)\Z", raw)
            if not m or m.group(2) in refs:
                return None
            last = m.group(2)
            refs[last] = m.group(1)
    for name, _content, resolved in disk["loose"]:
        refs[name] = resolved
    return refs


def case_layout(rng, case):
    """a layout for the repository state of a report case, or None when the state cannot be written to disk
    (repeated ref / tag names)"""
    shas = case_shas(case)
    branches = [("refs/remotes/" + n, shas[i]) for n, i in case["refs"]]
    tags = [(tag_str(t), shas[i]) for i, spec in enumerate(case["commits"]) for t in spec.get("tags", [])]
    if len({n for n, _ in branches}) != len(branches) or len({t for t, _ in tags}) != len(tags):
        return None
    if any(_path_conflict(n, [m for m, _ in branches if m is not n]) for n, _ in branches) and rng.random() < 0.5:
        pass                                        # D/F conflicts are resolved by gen_layout (one of them stays packed)
    seed = rng.randrange(1 << 30)
    import random
    disk = gen_layout(random.Random(seed), branches, tags, seed)
    sem = ref_semantics(disk)
    want = dict(branches)
    want.update({"refs/tags/" + t: sha for t, sha in tags})
    if sem is None or any(sem.get(k) != v for k, v in want.items()):
        raise AssertionError("harness: generated layout does not say what the case says")
    return disk


def relayout(case):
    """the same layout decisions for a (shrunk) case"""
    if "disk" not in case:
        return case
    import random
    c = dict(case)
    shas = case_shas(case)
    branches = [("refs/remotes/" + n, shas[i]) for n, i in case["refs"]]
    tags = [(tag_str(t), shas[i]) for i, spec in enumerate(case["commits"]) for t in spec.get("tags", [])]
    seed = case["disk"].get("seed") or 0
    c["disk"] = gen_layout(random.Random(seed), branches, tags, seed)
    return c


_ANSI = re.compile(r"\x1b\[[0-9;:]*m")


def _parse_printed(text, repo):
    """printed GHistReport -> [[branch name, [[title, [commit idx...]]...]]...]"""
    by_prefix = {}
    for c in repo.commits:
        by_prefix.setdefault(c.hexsha[:SHORT], c.idx)       # commits whose ids share the printed digits: the first one
    out = []
    for line in _ANSI.sub("", text).split("\n"):
        if not line.strip() or line.startswith("===="):
            continue
        if not line.startswith(" "):
            if line[:11] in by_prefix and len(line) > 11 and line[11] == " ":
                out[-1][1][-1][1].append(by_prefix[line[:11]])
            else:
                out.append([line.split(" ", 1)[1].rstrip(":"), []])
        elif line.startswith("  ") and not line.startswith("   "):
            out[-1][1].append([line.strip().split(" (")[0], []])
        else:
            out[-1][1][-1][1].append(-2)      # unexpected line (bumps are not generated here)
    return out


def impl_run(case):
    k = case["k"]
    from ak import ghist
    import logging
    logging.getLogger("ak.ghist").setLevel(logging.ERROR)      # "Can't process .../packed-refs" when the file is missing
    if k == "sortkey":
        try:
            items = ghist.BranchName(case["name"])._sort_items
        except Exception as e:
            return {"r": ["err", SX.exc_name(e)]}
        return {"r": ["ok", [[0, x] if isinstance(x, int) else [1, x] for x in items]]}
    if k == "cmp":
        try:
            a, b = ghist.BranchName(case["a"]), ghist.BranchName(case["b"])
            v = a.cmp(b)
            lt = a < b
        except Exception as e:
            return {"r": ["err", SX.exc_name(e)]}
        return {"r": ["ok", (v > 0) - (v < 0)], "lt": bool(lt)}

    if k == "refs":
        return _impl_refs(ghist, case)

    class HRepo(ghist.ProjectRepo):
        _SAVED_BUILD_NUM_SOURCES = ["VERSION"]

        def _read_saved_build_num_from_file(self, blob, path):
            nums = [int(x) for x in blob.data_stream.read().decode().strip().split(".")]
            if len(nums) == 2:
                nums.append(None)
            return ghist.BuildNumData(*nums)

    def one_report(coll, repo, text):
        try:
            data = coll.make_reports_data(text)
            (_rid, rg), = data
            out = []
            for br in rg.branches:
                bl = []
                for rb in br.get_rbuilds_list():
                    bn = rb.build_num
                    rcs = [[rc.commit.idx, 1 if rc.is_explicit else 0]
                           for rc in sorted(rb.rcommits.values(), key=lambda c: -c.iid)]
                    listed = [rc.commit.idx for rc in rb.get_printable_rcommits()]
                    bl.append([rb.build_type, [bn.major, bn.minor, bn.patch, bn.build],
                               rb.rcommit.commit.idx if rb.rcommit is not None else -1, rcs, listed])
                out.append([br.branch_name, bl])
        except Exception as e:
            return {"r": ["err", SX.exc_name(e)]}
        res = {"r": ["ok", out]}
        try:
            text = str(ghist.GHistReport(data, ghist.ReportFormatter()))
            res["printed"] = _parse_printed(text, repo)
        except Exception as e:
            res["printed"] = ["err", SX.exc_name(e)]
        return res

    def _run_session(ghist, HRepo, one_report, repo, steps):
        try:
            coll = ghist.ReposCollection({"r": HRepo("r", repo, steps[0]["remote"])})
        except Exception as e:
            return {"steps": [{"r": ["err", SX.exc_name(e)]} for _ in steps]}
        obs = []
        for j, st in enumerate(steps):
            if j:
                repo.load(st)
            if st.get("sync"):
                try:
                    coll.sync()
                except Exception as e:
                    obs.append({"r": ["err", SX.exc_name(e)]})
                    continue
            obs.append(one_report(coll, repo, st["text"]))
        return {"steps": obs}

    if k == "session":
        # ONE ProjectRepo / ReposCollection for the whole session; the repository changes between the reports
        steps = case["steps"]
        tmp = None
        if "disk" in steps[0]:
            import tempfile
            tmp = tempfile.mkdtemp(prefix="c06-")
            repo = dir_repo_class(ghist)(tmp, steps[0])
        else:
            repo = MockRepo(steps[0])
        try:
            return _run_session(ghist, HRepo, one_report, repo, steps)
        finally:
            if tmp:
                import shutil
                shutil.rmtree(tmp, ignore_errors=True)

    tmp = None
    if "disk" in case:
        import tempfile
        tmp = tempfile.mkdtemp(prefix="c06-")
        repo = dir_repo_class(ghist)(tmp, case)
    else:
        repo = MockRepo(case)
    try:
        try:
            coll = ghist.ReposCollection({"r": HRepo("r", repo, case["remote"])})
        except Exception as e:
            return {"r": ["err", SX.exc_name(e)]}
        return one_report(coll, repo, case["text"])
    finally:
        if tmp:
            import shutil
            shutil.rmtree(tmp, ignore_errors=True)


def _impl_refs(ghist, case):
    """the refs layer alone, on a '.git' directory with the case's packed-refs text and loose ref files"""
    import shutil
    import tempfile
    tmp = tempfile.mkdtemp(prefix="c06-")
    try:
        repo = dir_repo_class(ghist)(tmp, case)
        prefixes = case["prefixes"]

        def attempt(f):
            try:
                return ["ok", f()]
            except Exception as e:
                return ["err", SX.exc_name(e)]

        def it():
            got = [[n, h] for n, h in repo.iter_refs(*prefixes)]
            # the loose refs come in directory order: sort them (they are the entries without a hexsha)
            return sorted([x for x in got if x[1] is None], key=lambda x: x[0]) + [x for x in got if x[1] is not None]

        def bmap():
            pr = ghist.ProjectRepo("r", repo, case["remote"])
            return sorted([k, v] for k, v in pr.make_branch_refs_map().items())

        def tmap():
            pr = ghist.ProjectRepo("r", repo, case["remote"])
            return sorted([sha, bt.build, bt.branch_str] for sha, bts in pr.make_buildtags_map().items() for bt in bts)
        return {"iter": attempt(it),
                "packed": attempt(lambda: [[n, h] for n, h in repo._iter_packed_refs(list(prefixes))]),
                "bmap": attempt(bmap), "tags": attempt(tmap)}
    finally:
        shutil.rmtree(tmp, ignore_errors=True)


# ------------------------------------------------------------------ model side
def _cnat(n):
    return f"{int(n)}%nat"


def coq_history(case, blank=False):
    """blank: heads and tags are left out (the model reads them from the ref files of the case)"""
    cs = []
    for spec in case["commits"]:
        tags = SX.clist(f"({t[0]}, {t[1]}, {t[2]}, {t[3]})" for t in ([] if blank else commit_tags(spec)))
        ps = SX.clist(_cnat(p) for p in spec["p"])
        cs.append(f"mkCommit {ps} {SX.cstr(spec['m'])} {SX.cZ(spec['t'])} {tags}")
    refs = SX.clist(f"({SX.cstr(n)}, {_cnat(0 if blank else i)})" for n, i in case["refs"]
                    if n.startswith(case["remote"] + "/"))
    return f"(mkHistory {SX.clist(cs)} {SX.cstr(case['remote'])} {refs} {SX.cstr(case['text'])})"


def coq_disk(disk):
    packed = SX.copt(disk.get("packed"), SX.cstr)
    loose = SX.clist(f"({SX.cstr(n)}, {SX.cstr(res)})" for n, _c, res in sorted(disk["loose"], key=lambda x: x[0]))
    return f"(mkDisk {packed} {loose})"


def coq_dinfo(case):
    if "disk" not in case:
        return "None"
    shas = SX.clist(SX.cstr(x) for x in case_shas(case))
    table = []
    for spec in case["commits"]:
        for t in spec.get("tags", []):
            tt = tag_tuple(t, spec.get("ver"))
            if tt is not None:
                table.append(f"({SX.cstr(tag_str(t))}, ({tt[0]}, {tt[1]}, {tt[2]}, {tt[3]}))")
    return f"(Some (mkDI {coq_disk(case['disk'])} {shas} {SX.clist(table)}))"


def coq_case(case, obs):
    k = case["k"]
    if k == "sortkey":
        return f"SortKey {SX.cstr(case['name'])}"
    if k == "cmp":
        return f"Cmp {SX.cstr(case['a'])} {SX.cstr(case['b'])}"
    if k == "refs":
        table = SX.clist(f"({SX.cstr(t)}, ({SX.cZ(n)}, {SX.cstr(b)}))" for t, n, b in case["table"])
        return (f"Refs {coq_disk(case['disk'])} {SX.clist(SX.cstr(x) for x in case['prefixes'])} "
                f"{SX.cstr(case['remote'])} {table} ({_csx(_refs_observation(obs))})")
    if k == "session":
        return "Session " + SX.clist(f"({SX.cbool(_checkable(st, None))}, {coq_dinfo(st)}, "
                                     f"{coq_history(st, 'disk' in st)})" for st in case["steps"])
    return f"Report {SX.cbool(_checkable(case, obs))} {coq_dinfo(case)} {coq_history(case, 'disk' in case)}"


def in_model(case, obs):
    if "__hang__" in obs:
        return False
    if case["k"] in ("sortkey", "cmp"):
        texts = [case["name"]] if case["k"] == "sortkey" else [case["a"], case["b"]]
        return all(t.isascii() for t in texts)
    if case["k"] == "refs":
        return (case["disk"].get("packed") or "").isascii()
    return True


def _expected_report(case, obs):
    r = obs["r"]
    if r[0] != "ok":
        return [SX.err(r[1]), 2 if not _checkable(case, obs) else 0]
    out = []
    for name, builds in r[1]:
        out.append([SX.s(name), [[b[0], b[1], b[2], b[3], b[4]] for b in builds]])
    bit = 2
    if _checkable(case, obs):
        sigs = {sig for sig, _ in check_report(case, [[n, b] for n, b in r[1]], stable_only=True)}
        bit = 0 if sigs & STATEMENT_SIGS else 1
    return [SX.ok(out), bit]


def expected_sx(case, obs):
    k = case["k"]
    if k == "session":
        return SX.dumps([_expected_report(st, o) for st, o in zip(case["steps"], obs["steps"])])
    if k == "refs":
        return "()"          # compared inside Coq (Run.v: Refs ... expected)
    r = obs["r"]
    if k == "sortkey":
        if r[0] != "ok":
            return SX.dumps(SX.err(r[1]))
        return SX.dumps([[0, x[1]] if x[0] == 0 else [1, SX.s(x[1])] for x in r[1]])
    if k == "cmp":
        return SX.dumps(r[1]) if r[0] == "ok" else SX.dumps(SX.err(r[1]))
    return SX.dumps(_expected_report(case, obs))


def _csx(x):
    if isinstance(x, bool):
        x = int(x)
    if isinstance(x, int):
        return f"SZ {SX.cZ(x)}"
    if x and all(isinstance(e, int) and not isinstance(e, bool) for e in x):
        return f"sx_str {SX.cZlist(x)}"
    return "SL " + SX.clist(_csx(e) for e in x)


def _refs_observation(obs):
    def enc(r, f):
        return SX.err(r[1]) if r[0] != "ok" else SX.ok([f(x) for x in r[1]])
    return ([enc(obs["iter"], lambda x: [SX.s(x[0]), SX.opt(None if x[1] is None else SX.s(x[1]))]),
                         enc(obs["packed"], lambda x: [SX.s(x[0]), SX.s(x[1])]),
                         enc(obs["bmap"], lambda x: [SX.s(x[0]), SX.s(x[1])]),
                         enc(obs["tags"], lambda x: [SX.s(x[0]), x[1], SX.s(x[2])])])


# signatures of the oracle that correspond to clauses (A)-(D) of coq/C06/Spec.v:branch_ok
STATEMENT_SIGS = {"lists-non-matching", "build-not-of-branch", "listed-not-contained", "not-earliest-build",
                  "listed-twice", "missing", "not-merged-but-reachable", "not-merged-reachable-head-outside",
                  "not-merged-missing", "not-merged-twice",
                  "not-merged-extra", "build-label"}


def _checkable(case, obs):
    """the verified checker of Spec.v is evaluated on the model side when the history is inside the
    quantifier (30-day window) and the reported branches can be told apart by name"""
    if not in_window(case):
        return False
    labels = [e[3] for e in expected_branches(case)]
    return len(labels) == len(set(labels))


# ------------------------------------------------------------------ oracle: the statement, by reachability
SEP = re.compile(r"[/._\-\s]+")


def name_key(ref_name):
    """numeric-aware key of a branch name: chunks between / . - _ ; digit chunks are numbers"""
    return tuple((0, int(c)) if c.isdigit() and c.isascii() else (1, c) for c in SEP.split(ref_name) if c)


def key_cmp(ka, kb):
    """-1/0/1, or None where the property does not fix the order (a number against text)"""
    for x, y in zip(ka, kb):
        if x == y:
            continue
        if x[0] != y[0]:
            return None
        return -1 if x[1] < y[1] else 1
    return (len(ka) > len(kb)) - (len(ka) < len(kb))


def reach_sets(commits):
    """reach[i] = set of commits reachable from i (including i); parents precede children"""
    reach = []
    for i, spec in enumerate(commits):
        s = {i}
        for p in spec["p"]:
            s |= reach[p]
        reach.append(s)
    return reach


def expected_branches(case):
    """release branches and master/main of the remote: (label, ref name, head, is_master), sorted"""
    remote = case["remote"]
    brs = []
    for pos, (name, head) in enumerate(case["refs"]):
        if name in (remote + "/master", remote + "/main"):
            brs.append((1, name_key(name), pos, "master", name, head))
        elif name.startswith(remote + "/release/"):
            brs.append((0, name_key(name), pos, name[len(remote) + 1:], name, head))
    return brs


def in_window(case):
    ts = [c["t"] for c in case["commits"]]
    return not ts or max(ts) - min(ts) <= WINDOW


def check_report(case, reported, stable_only=False):
    """reported: branches in RGraph.branches order.  -> [(sig, msg)]"""
    out = []
    commits = case["commits"]
    text = case["text"]
    match = [text in c["m"] for c in commits]
    tagged = [bool(commit_tags(c)) for c in commits]
    reach = reach_sets(commits)
    exp = expected_branches(case)
    # ---- order: processing order = reverse of the reported order
    proc = list(reversed(reported))
    # assign reported branches to input branches (labels can repeat: master and main)
    cands = []
    idxs = list(range(len(exp)))
    by_label = {}
    for i, e in enumerate(exp):
        by_label.setdefault(e[3], []).append(i)
    options = []
    for name, _ in proc:
        if name not in by_label:
            return [("unknown-branch", f"reported branch {name!r} is not a release/master branch of the remote")]
        options.append(by_label[name])
    assignments = [a for a in itertools.product(*options) if len(set(a)) == len(a)]
    if not assignments:
        return [("branch-twice", f"branches reported {[n for n, _ in proc]} cannot be told apart / repeat")]
    best = None
    for assign in assignments[:8]:
        res = _check_assignment(case, proc, assign, exp, match, tagged, reach, stable_only)
        if best is None or len(res) < len(best):
            best = res
        if not res:
            break
    return best


def _check_assignment(case, proc, assign, exp, match, tagged, reach, stable_only=False):
    out = []
    commits = case["commits"]
    n = len(commits)
    # order of the reported branches: numeric-aware, master last
    for a, b in zip(assign, assign[1:]):
        ea, eb = exp[a], exp[b]
        if ea[0] > eb[0]:
            out.append(("branch-order", f"{ea[4]} (master) is reported as lower than release branch {eb[4]}"))
        elif ea[0] == eb[0] and key_cmp(ea[1], eb[1]) == 1:
            out.append(("branch-order", f"{ea[4]} is reported as lower than {eb[4]}"))
    # sorted order of ALL input branches; branches with equal keys may come in any order that is
    # consistent with the reported one (the stable order is tried first)
    rank = {i: pos for pos, i in enumerate(assign)}
    groups = {}
    for i, e in enumerate(exp):
        groups.setdefault((e[0], e[1]), []).append(i)
    per_group = []
    for gk in sorted(groups):
        members = sorted(groups[gk], key=lambda i: exp[i][2])
        perms = []
        for perm in itertools.islice(itertools.permutations(members), 120):
            rk = [rank[i] for i in perm if i in rank]
            if rk == sorted(rk):
                perms.append(perm)
            if len(perms) >= 6:
                break
        per_group.append(perms or [tuple(members)])
    best = None
    for combo in itertools.islice(itertools.product(*per_group), 24):
        order = [i for perm in combo for i in perm]
        res = out + _check_order(case, proc, assign, exp, match, tagged, reach, order)
        if best is None or len(res) < len(best):
            best = res
        if not res or stable_only:
            break
    return best


def _check_order(case, proc, assign, exp, match, tagged, reach, order):
    out = []
    commits = case["commits"]
    n = len(commits)
    rep = {i: proc[pos][1] for pos, i in enumerate(assign)}
    lower = set()
    for i in order:
        _, _, _, label, ref, head = exp[i]
        R = reach[head]
        L = set(lower)
        builds_of = {b for b in R if (tagged[b] or b == head) and b not in L}
        builds = rep.get(i, [])
        where = {}
        nm_listed = []
        nm_entries = 0
        for (btype, num, bc, rcs, listed) in builds:
            if listed != [c for c, e in rcs if e]:
                out.append(("listed-not-explicit", f"{ref}: printable commits {listed} differ from the explicit rcommits {rcs}"))
            for c in listed:
                if not match[c]:
                    out.append(("lists-non-matching", f"{ref}: commit {c} does not contain the search text but is listed"))
            if btype == 2:
                nm_entries += 1
                nm_listed += listed
                continue
            if bc not in builds_of:
                out.append(("build-not-of-branch", f"{ref}: build made from commit {bc} is not a tagged/head commit of this "
                            f"branch outside the lower-sorted branches"))
                continue
            want_nums = commit_tags(commits[bc])
            if not want_nums and num != [8888] * 4:
                out.append(("build-label", f"{ref}: the untagged head {bc} is labelled {num}, not 'not built'"))
            if want_nums and num not in want_nums:
                out.append(("build-number", f"{ref}: build at commit {bc} is labelled {num}, its tags give {want_nums}"))
            for c in listed:
                where.setdefault(c, []).append(bc)
                if c not in reach[bc]:
                    out.append(("listed-not-contained", f"{ref}: commit {c} is listed under build {bc} which does not contain it"))
                else:
                    earlier = [b2 for b2 in builds_of if b2 != bc and b2 in reach[bc] and c in reach[b2]]
                    if earlier:
                        out.append(("not-earliest-build", f"{ref}: commit {c} is listed under build {bc} although the earlier "
                                    f"build(s) {sorted(earlier)} of the branch contain it"))
        if nm_entries > 1:
            out.append(("not-merged-twice", f"{ref}: {nm_entries} 'not merged' entries"))
        for c in range(n):
            if not match[c]:
                continue
            cnt = len(where.get(c, []))
            if c in R:
                if cnt > 1:
                    out.append(("listed-twice", f"{ref}: commit {c} is listed under builds {where[c]}"))
                if cnt == 0 and any(c in reach[b] for b in builds_of):
                    out.append(("missing", f"{ref}: matching commit {c} is contained in a build of the branch but is not listed"))
                if c in nm_listed:
                    # the open finding is exactly: the head lies inside (or equals the head of) a lower-sorted
                    # branch (Props.property_iff); the same symptom with a head outside is something else
                    sig = "not-merged-but-reachable" if head in L else "not-merged-reachable-head-outside"
                    out.append((sig, f"{ref}: commit {c} is reachable from the branch head {head} "
                                f"but is listed under 'not merged'"))
            else:
                if cnt:
                    out.append(("listed-not-contained", f"{ref}: commit {c} is not reachable from the head but listed under {where[c]}"))
                k = nm_listed.count(c)
                if c in L and k == 0:
                    out.append(("not-merged-missing", f"{ref}: commit {c} of a lower-sorted branch is not reachable from the "
                                f"head {head} and is not listed under 'not merged'"))
                if c in L and k > 1:
                    out.append(("not-merged-twice", f"{ref}: commit {c} is listed {k} times under 'not merged'"))
                if c not in L and k:
                    out.append(("not-merged-extra", f"{ref}: commit {c} is listed under 'not merged' but belongs to no lower-sorted branch"))
        lower |= R
    return out


def oracle(case, obs):
    if "__hang__" in obs:
        return [("hang", "call did not return")]
    k = case["k"]
    r = obs.get("r")
    if k == "sortkey":
        return []
    if k == "cmp":
        if not (case["a"].isascii() and case["b"].isascii()) or "+" in case["a"] + case["b"]:
            return []
        if r[0] != "ok":
            return [("cmp-raises", f"BranchName.cmp raised {r[1]}")]
        want = key_cmp(name_key(case["a"]), name_key(case["b"]))
        if want is None:
            return []
        if r[1] != want or obs.get("lt") != (want < 0):
            return [("cmp-wrong", f"BranchName({case['a']!r}).cmp({case['b']!r}) has sign {r[1]} (lt={obs.get('lt')}), "
                     f"numeric-aware comparison gives {want}")]
        return []
    if k == "refs":
        return _uniq(_oracle_refs(case, obs))
    if k == "session":
        out = []
        for j, (st, o) in enumerate(zip(case["steps"], obs["steps"])):
            out += [(sig, f"report {j + 1} of {len(case['steps'])} made by one collection: {msg}")
                    for sig, msg in _oracle_report(st, o)]
        if len(obs["steps"]) != len(case["steps"]):
            out.append(("report-raises", "the session did not produce every report"))
        return _uniq(out)
    return _uniq(_oracle_report(case, obs))


def _oracle_refs(case, obs):
    """the heads of the branches of the remote and the commits of the build tags are what the repository says
    (reference reading of the ref files, ref_semantics); nothing is said about an ill-formed packed-refs file"""
    sem = ref_semantics(case["disk"])
    if sem is None:
        return []
    out = []
    pre = "refs/remotes/" + case["remote"] + "/"
    want = sorted([n[len("refs/remotes/"):], sha] for n, sha in sem.items() if n.startswith(pre))
    got = obs["bmap"]
    if got[0] != "ok":
        out.append(("refs-raise", f"make_branch_refs_map raised {got[1]} on a well-formed repository"))
    elif got[1] != want:
        bad = [x for x in got[1] if x not in want] + [x for x in want if x not in got[1]]
        out.append(("branch-head-wrong", f"make_branch_refs_map: {bad[:2]} (heads by the ref files: {want[:6]})"))
    table = {t: (n, b) for t, n, b in case["table"]}
    want = sorted([sha, table[n[10:]][0], table[n[10:]][1]] for n, sha in sem.items()
                  if n.startswith("refs/tags/") and n[10:] in table)
    got = obs["tags"]
    if got[0] != "ok":
        out.append(("refs-raise", f"make_buildtags_map raised {got[1]} on a well-formed repository"))
    elif got[1] != want:
        bad = [x for x in got[1] if x not in want] + [x for x in want if x not in got[1]]
        out.append(("tag-commit-wrong", f"make_buildtags_map: {bad[:2]} differ from the tags of the repository"))
    return out


def _uniq(out):
    # one entry per signature is enough for a replay
    seen = set()
    uniq = []
    for sig, msg in out:
        if sig not in seen:
            seen.add(sig)
            uniq.append((sig, msg))
    return uniq


def _oracle_report(case, obs):
    """the statement for one report of one repository state"""
    r = obs["r"]
    if not in_window(case):
        return []          # outside the quantifier (obsolete-branch cut-off may apply)
    if r[0] != "ok":
        return [("report-raises", f"make_reports_data raised {r[1]}")]
    out = check_report(case, [[name, builds] for name, builds in r[1]])
    pr = obs.get("printed")
    if isinstance(pr, list) and pr and pr[0] == "err":
        out.append(("print-raises", f"printing the report raised {pr[1]}"))
    elif isinstance(pr, list):
        canon = short_classes(case)
        want = [[name, [canon[c] if 0 <= c < len(canon) else c for c in b[4]]] for name, builds in r[1] for b in builds]
        got = [[name, cs] for name, builds in pr for _title, cs in builds]
        if want != got:
            out.append(("printed-differs", f"printed report lists {got}, the report data {want}"))
    return out


# ------------------------------------------------------------------ generators
MSGS = ["BUG-1 fix", "BUG-12 other", "BUG-2", "fix BUG-1", "Merge branch", "misc", "bug-1 lower", "BUG-1\nsecond line", "x", "",
        "subject\n\nBUG-1 only in the body", "Merge\nBUG-2"]
TEXTS = ["BUG-1", "BUG-1", "BUG-1", "BUG", "BUG-2", "BUG-12", "nothing", "", "fix", "1"]
REL_NAMES = ["1.2", "1.10", "1.9", "2.0", "10.250", "10.260", "9", "10", "01.2", "1-2", "1_2", "abc", "1.2-rc1", "1.2.3",
             "2", "B7", "b7", "10.250.1", "7.x", "x.7", "1..2", "1.2/hotfix", "1.2.9", "1.2.10", "10.250.2", "1.2.3.10", "1.2.3.9",
             "1.2+x", "[x]", "v(1)", "a*b"]


# search texts "as people type them": the property says "contains the search text", so characters that mean something to
# a regular expression / glob / shell / SQL LIKE reading of the text must be taken literally, case and white space matter
META = "()[].*+?|^$\\{}"
META_TEXTS = ["fix(parser)", "v1.2", "[WIP]", "fix(", "C++", "now?", "a|b", "^BUG", "BUG-1$", "x{2}", "\\d", "1.*2", "(", ")",
              "[", "]", "*", "+", "?", "\\", "a.b", ".", "BUG-1.", "$", "^", "|", "{", "[a-c]1", "(?i)bug", "a\\b", "\\bBUG",
              "BUG-1\\", "[^x]", "a**", "(BUG)-1", "BUG[-]1", "%", "BUG_1", "BUG%", "b?g", "*BUG*", "#1", "'q'", "\"q\"",
              " BUG-1", "BUG-1 ", "BUG\n1", "BUG-1\t", "é1", "BuG-1", "-1", "--", "a b"]


def gen_text(rng):
    r = rng.random()
    if r < 0.45:
        return rng.choice(META_TEXTS)
    if r < 0.6:
        # blanks / line breaks are part of the text
        base = rng.choice(["BUG-1", "BUG", "fix", "v1.2", "a b"])
        return rng.choice([" " + base, base + " ", "\t" + base, base + "\n", "\n" + base, base + "\nsecond", base.replace("-", "\n"),
                           " " + base + " ", base + "  x"])
    alpha = "ab1-" if r < 0.9 else "aB1- \né"
    out = "".join(rng.choice(META) if rng.random() < 0.4 else rng.choice(alpha) for _ in range(rng.randrange(1, 7)))
    return out


def near_misses(text, rng):
    """messages that tell the literal reading of [text] from other readings (regular expression, glob, LIKE pattern,
    case-insensitive, stripped, per-line): most of them do NOT contain the text although another reading would match"""
    out = []
    plain = "".join(c for c in text if c not in META)
    out.append(plain)                                            # fix(parser) -> fixparser ; [WIP] -> WIP
    out.append(re.sub(r"[.?_%]", lambda m: rng.choice("xq7"), text))          # v1.2 -> v1x2 (regex '.', glob '?', LIKE '_')
    out.append(re.sub(r".[?*]", "", text, flags=re.S))           # now? -> no ; ab*c -> ac
    out.append(re.sub(r"(.)\+", lambda m: m.group(1) * rng.randrange(1, 4), text, flags=re.S))   # a+b -> aab
    out.append(re.sub(r"[*%]", lambda m: rng.choice(["", "zz"]), text))      # 1.*2 / glob * / LIKE %
    out.append(re.sub(r"\.\*", "--", text))
    m = re.search(r"\[\^?([^\]]+)\]", text)
    if m:
        out.append(text[:m.start()] + rng.choice(m.group(1) + "Z") + text[m.end():])    # [WIP] -> W
    if "|" in text:
        out += [x for x in text.split("|")]                      # a|b -> a
    out.append(text.lstrip("^").rstrip("$"))                      # ^BUG -> BUG...
    out.append("x " + text.lstrip("^"))
    out.append(re.sub(r"\{(\d+)\}", "", text))
    out.append(re.sub(r"(.)\{(\d)\}", lambda m: m.group(1) * int(m.group(2)), text, flags=re.S))   # x{2} -> xx
    out.append(re.sub(r"\\d", lambda m: rng.choice("0123456789"), text))
    out.append(re.sub(r"\\b", "", text))
    out.append(text.replace("\\", ""))
    out.append(text.replace("\\", "\\\\"))
    out.append(re.sub(r"\(\?[a-zA-Z]+\)", "", text).upper())
    out += [text.upper(), text.lower(), text.swapcase(), text.strip(), " ".join(text.split()), text.replace("\n", " "),
            text.replace(" ", "\n"), text[:-1], text[1:], text[::-1],
            text.encode("ascii", "ignore").decode(), text.replace("-", "_"), text.replace("_", "-")]
    if len(text) >= 2:
        k = rng.randrange(1, len(text))
        out += [text[:k] + "\n" + text[k:], text[:k] + " " + text[k:], text[:k] + text[k - 1] + text[k:]]
    out = [x for x in out if x != text]
    pre = rng.choice(["", "", "re: ", "subject\n\n"])
    post = rng.choice(["", "", " done", "\nbody"])
    return [pre + x + post for x in out]


# ---- commit ids.  A commit IS its 40-digit id: two ids that differ in one digit are two commits, however many digits
# they share.  Ids derived from small numbers never share more than a few digits, so a table keyed by an abbreviated
# id (the 7 digits of `git log --oneline`, the 11 digits of the printed report, the first / last 16 or 32 digits, an
# int() of the leading digits ...) behaves like one keyed by the full id.  [gen_shas] gives the commits of a history ids
# with deliberately shared prefixes (7..39 digits), shared suffixes, or both, between DISTINCT commits: all commits of
# the history, or groups chosen by their role (an irrelevant root / old commit and a matching commit, two matching
# commits, heads, tagged commits, parents and children).
PREFIX_LENS = [7, 8, 10, 11, 11, 11, 12, 12, 16, 20, 32, 39, 39]


def _hex(rng, n):
    return "".join(rng.choice(HEX) for _ in range(n))


def _base_sha(rng):
    r = rng.random()
    if r < 0.6:
        return _hex(rng, 40)
    if r < 0.7:
        return "".join(rng.choice("0123456789") for _ in range(40))            # reads as a decimal number
    if r < 0.8:
        return ("0" * rng.choice([1, 7, 11, 12, 20]) + _hex(rng, 40))[:40]       # leading zeros
    if r < 0.9:
        return (rng.choice(["1e5", "0e0", "00e", "0b1", "0e", "e"]) + "".join(rng.choice("0123456789") for _ in range(40)))[:40]
    return (rng.choice("0f") * rng.choice([11, 20, 39]) + _hex(rng, 40))[:40]


def _near_sha(rng, base, how, L, used):
    """another id: shares exactly the first L digits ('pre'), the last L digits ('suf'), or the first and the last
    L' = min(L, 19) digits ('ends') with [base]"""
    base = base[:40]
    for attempt in range(4000):
        if attempt % 100 == 99 and L > 0:
            L -= 1                       # no free id that shares so many digits: share one less
        if how == "pre":
            x = base[:L] + rng.choice([c for c in HEX if c != base[L]]) + _hex(rng, 39 - L)
        elif how == "suf":
            k = 39 - L
            x = _hex(rng, k) + rng.choice([c for c in HEX if c != base[k]]) + base[k + 1:]
        else:
            m = min(L, 19)
            mid = _hex(rng, 40 - 2 * m)
            x = base[:m] + mid + base[40 - m:]
        if x not in used and len(x) == 40:
            return x
    raise AssertionError("harness: no free id")


def gen_shas(rng, case):
    """ids for the commits of a report case (see above); None entries never remain"""
    commits, text = case["commits"], case["text"]
    n = len(commits)
    reach = reach_sets(commits)
    match = [text in c["m"] for c in commits]
    live = [i for i in range(n) if any(match[j] for j in reach[i])]           # matching, or above a matching commit
    dead = [i for i in range(n) if i not in live]                              # irrelevant with all its ancestry
    heads = sorted({h for _, h in case["refs"]})
    tagged = [i for i in range(n) if commits[i].get("tags")]
    roots = [i for i in range(n) if not commits[i]["p"]]
    pools = {"live": live, "dead": dead, "match": [i for i in range(n) if match[i]], "head": heads, "tag": tagged,
             "root": roots, "any": list(range(n))}
    how = rng.choice(["pre", "pre", "pre", "pre", "suf", "ends"])
    groups = []
    if rng.random() < 0.4 or n < 3:
        groups.append(list(range(n)))
    else:
        for _ in range(rng.choice([1, 2, 3, 4])):
            a, b = rng.choice([("dead", "live"), ("dead", "match"), ("root", "match"), ("live", "dead"), ("match", "match"),
                               ("head", "any"), ("head", "head"), ("tag", "any"), ("any", "any"), ("dead", "head")])
            if not pools[a] or not pools[b]:
                a, b = "any", "any"
            g = [rng.choice(pools[a]), rng.choice(pools[b])]
            if rng.random() < 0.3:
                g.append(rng.randrange(n))
            taken = {i for gr in groups for i in gr}
            g = [i for k, i in enumerate(g) if i not in taken and i not in g[:k]]
            if len(g) >= 2:
                groups.append(g)
    shas = [None] * n
    used = set()
    for g in groups:
        if rng.random() < 0.5:
            rng.shuffle(g)
        L = rng.choice(PREFIX_LENS) if rng.random() < 0.8 else rng.randrange(7, 40)
        base = _base_sha(rng)[:40]
        while base in used:
            base = _hex(rng, 40)
        for k, i in enumerate(g):
            x = base if k == 0 else _near_sha(rng, base, how, L if rng.random() < 0.7 else rng.randrange(L, 40), used)
            used.add(x)
            shas[i] = x
    for i in range(n):
        if shas[i] is None:
            x = _hex(rng, 40)
            while x in used:
                x = _hex(rng, 40)
            used.add(x)
            shas[i] = x
    assert len(set(shas)) == n and all(_HEX40.match(x) for x in shas)
    return shas


def with_shas(rng, case, p=0.35):
    if rng.random() < p and case["commits"]:
        case["shas"] = gen_shas(rng, case)
    return case


def gen_history(rng, n, *, p_merge=0.2, p_root=0.05, p_tag=0.25, p_match=0.35, nbranches=None, spread=None,
                linear=False, remote="origin", p_clean=0.6, p_meta=0.3):
    commits = []
    children = [0] * n
    children = list(children)
    build_no = rng.randrange(1, 50)
    text = gen_text(rng) if rng.random() < p_meta else rng.choice(TEXTS)
    misses = near_misses(text, rng)
    p_miss = rng.choice([0.0, 0.2, 0.5])
    spread = spread if spread is not None else rng.choice([100, 3600, DAY, 20 * DAY, WINDOW])
    times = sorted(rng.randrange(0, spread + 1) for _ in range(n))
    if rng.random() < 0.3:
        rng.shuffle(times)       # commit times need not follow the graph
    for i in range(n):
        if i == 0 or (not linear and rng.random() < p_root):
            ps = []
        elif linear:
            ps = [i - 1]
        else:
            def pick():
                if rng.random() < 0.6:
                    return i - 1
                if rng.random() < 0.7:
                    return rng.randrange(max(0, i - 6), i)
                return rng.randrange(0, i)
            ps = [pick()]
            r = rng.random()
            if r < p_merge and i >= 2:
                q = pick()
                if q not in ps:
                    ps.append(q)
                if rng.random() < 0.15 and i >= 3:
                    q = pick()
                    if q not in ps:
                        ps.append(q)
            if len(ps) > 1 and rng.random() < 0.5:
                rng.shuffle(ps)
        for p in ps:
            children[p] += 1
        msg = rng.choice(MSGS)
        if rng.random() < p_match and text:
            msg = rng.choice(["", "re ", "subject line\n\nbody: "]) + text + rng.choice(["", " done", "7"])
        elif misses and rng.random() < p_miss:
            msg = rng.choice(misses)
        spec = {"p": ps, "m": msg, "t": T0 + times[i]}
        if rng.random() < p_tag:
            tags = []
            for _ in range(1 if rng.random() < 0.8 else 2):
                build_no += rng.randrange(1, 4)
                r = rng.random()
                if r < 0.7:
                    tags.append(["r", build_no, rng.choice([1, 1, 2, 10]), rng.choice([0, 2, 10, 250])])
                elif r < 0.85:
                    tags.append(["m", build_no])
                    spec["ver"] = [rng.choice([1, 3, 10]), rng.choice([0, 7, 270])]
                else:
                    tags.append(["j", rng.choice(["v1.%d" % build_no, "build_%d_release_1_2_failed" % build_no,
                                                  "nightly-%d" % build_no, namespaced_tag(rng, build_no),
                                                  namespaced_tag(rng, build_no)])])
            if rng.random() < 0.3:
                rng.shuffle(tags)
            spec["tags"] = tags
        commits.append(spec)
    nb = nbranches if nbranches is not None else rng.choice([1, 2, 2, 3, 3, 4, 5])
    names = ["release/" + x for x in rng.sample(REL_NAMES, min(nb, len(REL_NAMES)))]
    r = rng.random()
    if r < 0.8:
        names.append("master")
    if r > 0.7 and r < 0.9 or r > 0.97:
        names.append("main")
    clean = rng.random() < p_clean      # every branch gets a tip of its own: no head inside another branch
    refs = []
    used = set()
    for nm in names:
        tips = [i for i in range(len(commits)) if children[i] == 0]
        r = rng.random()
        if clean:
            free = [t for t in tips if t not in used]
            if free:
                head = rng.choice(free)
            else:
                # grow a new tip
                par = rng.randrange(len(commits))
                children[par] += 1
                children.append(0)
                msg = (text + " tip") if rng.random() < 0.5 else "tip"
                commits.append({"p": [par], "m": msg, "t": T0 + rng.randrange(0, spread + 1)})
                head = len(commits) - 1
            used.add(head)
        elif r < 0.5:
            head = rng.choice(tips)
        elif r < 0.75 and refs:
            # coincide with / lie inside the history of another branch
            other = refs[rng.randrange(len(refs))][1]
            head = rng.choice(sorted(reach_sets(commits)[other]))
        else:
            head = rng.randrange(len(commits))
        refs.append([f"{remote}/{nm}", head])
    n = len(commits)
    if rng.random() < 0.3:
        refs.append([f"{remote}/feature/x", rng.randrange(n)])
    if rng.random() < 0.1:
        refs.append(["other/release/0.1", rng.randrange(n)])
    rng.shuffle(refs)
    ids = rng.sample(range(1, 100000), n)
    return with_shas(rng, {"k": "report", "remote": remote, "text": text, "refs": refs, "commits": commits, "ids": ids})


def gen_remerge(rng):
    """commits of a higher-sorted branch that merge two or three commits of a lower-sorted branch again: a base of
    matching fixes joined by non-matching merges (every merge has several nearest matching ancestors, the sets of
    different merges overlap) is the history of the lowest branch; the later branches start with merges of commits
    that the first traversal has already classified (parents in any order), followed by commits of their own"""
    text = gen_text(rng) if rng.random() < 0.2 else rng.choice(["BUG-1", "BUG-1", "BUG", "fix"])
    if not text:
        text = "BUG-1"
    commits = [{"p": [], "m": "initial", "t": T0}]
    build_no = rng.randrange(1, 50)

    def add(ps, msg, tag=False):
        nonlocal build_no
        spec = {"p": list(ps), "m": msg, "t": T0 + 60 * len(commits) + rng.randrange(50)}
        if tag:
            build_no += rng.randrange(1, 4)
            spec["tags"] = [["r", build_no, rng.choice([1, 2]), rng.choice([0, 2])]]
        commits.append(spec)
        return len(commits) - 1
    fixes = []
    for j in range(rng.randrange(2, 5)):
        par = rng.choice([0] + fixes) if rng.random() < 0.3 else 0
        fixes.append(add([par], f"{text} fix {j}"))
    plain = []                       # non-matching commits of the base
    for j in range(rng.randrange(2, 6)):
        pool = fixes + plain
        ps = rng.sample(pool, min(len(pool), rng.choice([1, 2, 2, 3])))
        plain.append(add(ps, rng.choice(["Merge fixes", "misc", "docs"]), tag=rng.random() < 0.15))
    tops = [i for i in fixes + plain if not any(i in c["p"] for c in commits)]
    head0 = add(tops, "Merge everything", tag=rng.random() < 0.5) if len(tops) > 1 or rng.random() < 0.5 else tops[0]
    names = rng.sample(["release/1.0", "release/1.2", "release/2.0", "release/10.0", "master", "main"], rng.choice([2, 2, 3]))
    names.sort(key=lambda nm: (nm in ("master", "main"), name_key(nm)))
    refs = [[f"origin/{names[0]}", head0]]
    for nm in names[1:]:
        pool = plain + [head0] + (fixes if rng.random() < 0.3 else [])
        ps = rng.sample(pool, min(len(pool), rng.choice([2, 2, 3])))
        cur = add(ps, rng.choice(["Merge again", f"{text} merge"]) if rng.random() < 0.85 else "x", tag=rng.random() < 0.2)
        for _ in range(rng.choice([0, 1, 2])):
            ps = [cur] + ([rng.choice(plain)] if rng.random() < 0.4 else [])
            rng.shuffle(ps)
            cur = add(ps, rng.choice([f"{text} more", "tweak"]), tag=rng.random() < 0.2)
        plain.append(cur)
        refs.append([f"origin/{nm}", cur])
    rng.shuffle(refs)
    n = len(commits)
    return with_shas(rng, {"k": "report", "remote": "origin", "text": text, "refs": refs, "commits": commits,
                           "ids": rng.sample(range(1, 100000), n)})


def gen_session(rng, n=None):
    """one long-lived collection, several reports; between two reports the repository changes: build tags appear
    on existing commits, commits are pushed (heads move forward), branches are merged, heads are reset, branches
    appear / disappear, the search text changes.  Every step is a complete repository state (commit k keeps its
    number and its hexsha), so that the model - a pure function of the state - gives the expected report."""
    cur = gen_history(rng, n if n is not None else rng.randrange(3, 15), p_clean=0.85,
                      spread=rng.choice([100, 3600, DAY, 20 * DAY]))
    cur["sync"] = False
    steps = [cur]
    build_no = 1000 + rng.randrange(100)
    for _ in range(rng.choice([1, 1, 2, 2, 3])):
        st = copy.deepcopy(cur)
        commits, refs, ids, remote = st["commits"], st["refs"], st["ids"], st["remote"]
        mine = [j for j, (nm, _) in enumerate(refs) if nm.startswith(remote + "/release/")
                or nm in (remote + "/master", remote + "/main")]
        times = [c["t"] for c in commits]
        for _ in range(rng.choice([1, 1, 2, 3])):
            op = rng.choice(["tag", "tag", "tag", "tag", "commit", "commit", "merge", "move", "branch", "drop", "text"])
            if op == "tag":
                # a build tag appears on an existing commit: anywhere, or strictly inside the history of a branch
                build_no += rng.randrange(1, 4)
                i = rng.randrange(len(commits))
                if mine and rng.random() < 0.6:
                    below = sorted(reach_sets(commits)[refs[rng.choice(mine)][1]])
                    i = rng.choice(below)
                commits[i].setdefault("tags", []).append(
                    ["r", build_no, rng.choice([1, 1, 2, 10]), rng.choice([0, 2, 10, 250])]
                    if rng.random() < 0.8 else ["j", namespaced_tag(rng, build_no)])
            elif op in ("commit", "merge") and mine:
                j = rng.choice(mine)
                ps = [refs[j][1]]
                if op == "merge" and len(commits) > 1:
                    q = refs[rng.choice(mine)][1] if rng.random() < 0.6 else rng.randrange(len(commits))
                    if q not in ps:
                        ps.append(q)
                    if rng.random() < 0.5:
                        ps.reverse()
                msg = (st["text"] + " pushed") if (st["text"] and rng.random() < 0.5) else rng.choice(MSGS)
                spec = {"p": ps, "m": msg, "t": rng.randrange(min(times), max(times) + 1)}
                if rng.random() < 0.25:
                    build_no += 1
                    spec["tags"] = [["r", build_no, 1, rng.choice([0, 2])]]
                commits.append(spec)
                ids.append(max(ids) + rng.randrange(1, 50))
                if st.get("shas"):
                    # the pushed commit's id shares digits with the id of a commit the collection has seen before
                    old = st["shas"]
                    st["shas"] = old + [_near_sha(rng, rng.choice(old), rng.choice(["pre", "pre", "suf", "ends"]),
                                                  rng.choice(PREFIX_LENS), set(old))
                                        if rng.random() < 0.7 else _near_sha(rng, _hex(rng, 40), "pre", 0, set(old))]
                refs[j][1] = len(commits) - 1
            elif op == "move" and mine:
                refs[rng.choice(mine)][1] = rng.randrange(len(commits))
            elif op == "branch":
                used = {nm for nm, _ in refs}
                free = [x for x in REL_NAMES if f"{remote}/release/{x}" not in used]
                if free:
                    refs.insert(rng.randrange(len(refs) + 1), [f"{remote}/release/{rng.choice(free)}", rng.randrange(len(commits))])
                    mine = [j for j, (nm, _) in enumerate(refs) if nm.startswith(remote + "/release/")
                            or nm in (remote + "/master", remote + "/main")]
            elif op == "drop" and len(mine) > 1:
                del refs[rng.choice(mine)]
                mine = [j for j, (nm, _) in enumerate(refs) if nm.startswith(remote + "/release/")
                        or nm in (remote + "/master", remote + "/main")]
            elif op == "text":
                st["text"] = gen_text(rng) if rng.random() < 0.4 else rng.choice(TEXTS)
                for spec in commits:
                    if rng.random() < 0.3:
                        spec["m"] = rng.choice(near_misses(st["text"], rng) + [st["text"] + " x", "y " + st["text"]])
        st["sync"] = rng.random() < 0.5
        steps.append(st)
        cur = st
    return {"k": "session", "steps": steps}


REMOTES = ["origin", "origin", "origin", "up-stream", "o.rg", "o[1]", "a+b", "a/b", "o*", "fork_1", "(x)", "o?", "o^", "$o", "o|p", "o{1}"]
BRANCHES = ["master", "main", "release/1.2", "release/1.10", "release/10.250", "release/1.2/hotfix", "release/1.2+x", "release/[x]",
            "release/a*", "release/9", "feature/x", "release/1.2.3", "HEADS", "release/v(1)", "release/1.2-rc.1", "release/$x",
            "release/{1}", "release/1^2", "release/a|b", "release/q?"]
JUNK_TAGS = ["v1.0", "v2.0", "build_x_release_1_2_success", "build_5_release_1_2_failed", "Build_5_master_success",
             "xbuild_6_master_success", "build_7_master_success_old", "build_8_success", "nightly", "zz-last", "0-first",
             "build__master_success", "release_1_2"]
TAG_BRANCHES = ["release_1_2", "release_10_250", "master", "x", "release_1_2_3", "a_b", "release_1_x", "", "main-line"]


def _mutate_packed(rng, text, table):
    """an ill-formed / unusual packed-refs text: the model says what the code does with it (errors included);
    build tags that are added are entered into [table]"""
    def other():
        return "".join(rng.choice(HEX) for _ in range(40))
    lines = text.split("\n")
    for _ in range(rng.choice([1, 1, 2, 3])):
        pos = rng.randrange(len(lines) + 1)
        r = rng.randrange(14)
        if r == 0:
            lines.insert(pos, "^" + other())                              # a peeled line anywhere (after a branch, first line)
        elif r == 1:
            lines.insert(pos, "^" + other()[:rng.choice([0, 7, 39])] + rng.choice(["", "00"]))   # wrong length
        elif r == 2:
            lines.insert(pos, rng.choice(["# comment", "# pack-refs with: sorted", "#", "# peeled", "#pack-refs peeled",
                                          "  # pack-refs with: peeled ", "# PACK-REFS with: peeled"]))
        elif r == 3:
            lines.insert(pos, rng.choice([other(), "refs/tags/x", other() + "refs/heads/x"]))   # one field
        elif r == 4 and lines:
            lines.insert(pos, rng.choice(lines))                              # a repeated line (ref twice / peel twice)
        elif r == 5:
            lines.insert(pos, rng.choice(["", " ", "\t", "\x0b", "\x0c", " \r"]))
        elif r == 6 and lines:
            k = rng.randrange(len(lines))
            lines[k] = rng.choice(["  ", "\t", ""]) + lines[k] + rng.choice(["  ", "\t", " \r", "\x0c"])
        elif r == 7 and lines:
            k = rng.randrange(len(lines))
            lines[k] = lines[k].replace(" ", rng.choice(["\t", "   ", " \t ", "\x0b", "\x1f"]), 1)
        elif r == 8:
            lines.insert(pos, other() + " " + rng.choice(["refs/tags/a b", "refs/remotes/origin/release/a b", "refs/tags/",
                                                          "refs/remotes/origin/", "refs/remotes/origin", "refs",
                                                          "refs/tags/^x", "refs/tags/#x", "REFS/TAGS/build_1_master_success"]))
        elif r == 9 and lines:
            del lines[rng.randrange(len(lines))]                              # e.g. the header, or a ref before its peeled line
        elif r == 10:
            lines.insert(pos, rng.choice(["^", "^^" + other()[:39], "^ " + other()[:39], "^" + other() + " "]))
        elif r == 11 and len(lines) > 1:
            a, b = rng.randrange(len(lines)), rng.randrange(len(lines))
            lines[a], lines[b] = lines[b], lines[a]                           # peeled lines travel
        elif r == 12:
            lines.insert(pos, other()[:rng.choice([7, 39])] + " refs/tags/build_9_master_success")    # short hexsha
            table.append(["build_9_master_success", 9, "master"])
        else:
            n = rng.randrange(1, 99)
            lines.insert(pos, other() + " refs/tags/build_%d_master_success" % n + "\n^" + other() + "\n^" + other())
            table.append(["build_%d_master_success" % n, n, "master"])
    sep = rng.choice(["\n", "\n", "\n", "\r\n", "\r"])
    return sep.join(lines)


def gen_refs_case(rng):
    """the refs layer alone: a '.git' directory (packed-refs text + loose ref files) and the prefixes asked for"""
    def other():
        return "".join(rng.choice(HEX) for _ in range(40))
    remote = rng.choice(REMOTES)
    others = rng.sample([r for r in REMOTES + [remote + "2", remote + "/sub", "zz", remote[:-1] or "o"]
                         if r != remote and not r.endswith("/") and "//" not in r], rng.choice([0, 1, 2]))
    shas = [other() for _ in range(rng.randrange(1, 6))]
    if rng.random() < 0.35:
        # distinct commits whose ids share 7..39 leading (or trailing) digits
        how = rng.choice(["pre", "pre", "suf", "ends"])
        for j in range(1, len(shas)):
            shas[j] = _near_sha(rng, shas[0], how, rng.choice(PREFIX_LENS), set(shas))
    branches, seen = [], []
    for r in [remote] * 3 + others:
        for b in rng.sample(BRANCHES, rng.randrange(0, 4)):
            n = f"refs/remotes/{r}/{b}"
            if n not in seen:
                seen.append(n)
                branches.append((n, rng.choice(shas)))
    tags, table = [], []
    for j in range(rng.choice([0, 1, 2, 4, 6])):
        if rng.random() < 0.7:
            n, b = rng.randrange(1, 3000), rng.choice(TAG_BRANCHES)
            t = f"build_{n}_{b}_success"
            if t in [x for x, _ in tags]:
                continue
            table.append([t, n, b])
        else:
            t = rng.choice(JUNK_TAGS) if rng.random() < 0.6 else namespaced_tag(rng, rng.randrange(1, 3000))
            if t in [x for x, _ in tags]:
                continue
        tags.append((t, rng.choice(shas)))
    rng.shuffle(branches)
    disk = gen_layout(rng, branches, tags)
    if disk["packed"] is not None and rng.random() < 0.4:
        disk["packed"] = _mutate_packed(rng, disk["packed"], table)
    pre_r = f"refs/remotes/{remote}/"
    prefixes = rng.choice([[pre_r], [pre_r], ["refs/tags/"], ["refs/tags/"], [pre_r, "refs/tags/"], ["refs/tags/", pre_r],
                           ["refs/"], ["refs/remotes/"], ["refs/remotes/", pre_r], [pre_r, pre_r], [], ["refs/tags"],
                           [pre_r[:-1]], ["refs/tags/build_"], ["refs/heads/", "refs/tags/", pre_r], ["tags/"],
                           [pre_r + "release/"], ["refs/tags/", "refs/tags/build_1"], ["refs/remotes/" + (others[0] if others else "zz") + "/", pre_r]])
    return {"k": "refs", "disk": disk, "prefixes": prefixes, "remote": remote, "table": table}


def with_disk(rng, case):
    """the same repository state, its refs written to a '.git' directory and read by the library's own GitRepo"""
    if case["k"] == "session":
        disks = [case_layout(rng, st) for st in case["steps"]]
        if all(d is not None for d in disks):
            for st, d in zip(case["steps"], disks):
                st["disk"] = d
        return case
    d = case_layout(rng, case)
    if d is not None:
        case["disk"] = d
    return case


def gen_cases(rng, tier):
    big = tier == "thorough"
    cases = []
    # branch names: sort items and comparison
    alphabet = "0123456789abzAZ/._- +~"
    names = ["origin/release/9", "origin/release/10", "origin/release/10.250", "origin/release/10.260",
             "origin/release/ABA12.5U1", "origin/master", "origin/release/1.2", "origin/release/01.2",
             "origin/release/1-2", "origin/release/1.2.0", "origin/release/+5", "origin/release/5",
             "origin/release/1..2", "", "/", "origin/release/1 2", "zzzzzzzzzzzzzz/release/1", "origin/release/z",
             "origin/release/12a", "origin/release/a12", "origin/release/1\t2", "origin/release/१२",
             "origin/release/1.2.9", "origin/release/1.2.10", "origin/release/1.2.3.9", "origin/release/1.2.3.10",
             "origin/release/10.250.1", "origin/release/10.250.2", "origin/release/10.250-2", "origin/release/10_250_10"]
    for _ in range(300 if big else 60):
        names.append("origin/release/" + "".join(rng.choice(alphabet) for _ in range(rng.randrange(0, 8))))
    for nm in names:
        cases.append({"k": "sortkey", "name": nm})
    for _ in range(1500 if big else 250):
        cases.append({"k": "cmp", "a": rng.choice(names), "b": rng.choice(names)})
    # histories
    nhist = 6000 if big else 350
    for j in range(nhist):
        r = rng.random()
        if r < 0.15:
            n = rng.randrange(1, 7)
        elif r < 0.75:
            n = rng.randrange(5, 22)
        else:
            n = rng.randrange(15, 45 if big else 36)
        kw = {}
        if rng.random() < 0.12:
            kw["linear"] = True
        if rng.random() < 0.06:
            kw["spread"] = rng.choice([40 * DAY, 100 * DAY])        # outside the quantifier: model only
        if rng.random() < 0.1:
            kw["remote"] = rng.choice(["up-stream", "o2", "fork_1", "a"])
        if rng.random() < 0.2:
            kw["p_merge"] = 0.45
        if rng.random() < 0.2:
            kw["p_tag"] = 0.6
        if rng.random() < 0.1:
            kw["remote"] = rng.choice(REMOTES)
        c = gen_history(rng, n, **kw)
        if rng.random() < 0.3:
            c = with_disk(rng, c)
        cases.append(c)
    # merges, in a later branch, of commits that an earlier branch has already classified
    for _ in range(400 if big else 40):
        c = gen_remerge(rng)
        if rng.random() < 0.2:
            c = with_disk(rng, c)
        cases.append(c)
    # one collection, several reports on a changing repository
    for _ in range(800 if big else 70):
        c = gen_session(rng)
        if rng.random() < 0.35:
            c = with_disk(rng, c)
        cases.append(c)
    # the refs layer alone (packed-refs text, loose ref files), ill-formed files included
    for _ in range(1500 if big else 150):
        cases.append(gen_refs_case(rng))
    return cases


def search_cases(rng, tier):
    out = []
    for _ in range(3000):
        c = gen_history(rng, rng.randrange(2, 14))
        out.append(with_disk(rng, c) if rng.random() < 0.3 else c)
    for _ in range(1500):
        c = gen_session(rng, rng.randrange(2, 10))
        out.append(with_disk(rng, c) if rng.random() < 0.3 else c)
    for _ in range(1500):
        out.append(gen_refs_case(rng))
    for _ in range(1000):
        out.append(gen_remerge(rng))
    return out


def kind(case):
    if case["k"] == "session":
        return f"session{'-disk' if 'disk' in case['steps'][0] else ''}:reports={len(case['steps'])}"
    if case["k"] == "refs":
        return "refs:" + ("well-formed" if ref_semantics(case["disk"]) is not None else "ill-formed")
    if case["k"] != "report":
        return case["k"]
    n = len(case["commits"])
    merges = sum(1 for c in case["commits"] if len(c["p"]) > 1)
    return f"report{'-disk' if 'disk' in case else ''}:{'dag' if merges else 'linear'}:n{'<8' if n < 8 else '<20' if n < 20 else '>=20'}"


def nontrivial(case, obs):
    if case["k"] == "session":
        oks = [o["r"][1] for o in obs.get("steps", []) if o.get("r") and o["r"][0] == "ok"]
        return len(oks) >= 2 and any(sum(len(b) for _, b in r) >= 2 for r in oks) and any(a != b for a, b in zip(oks, oks[1:]))
    if case["k"] == "refs":
        return any(obs.get(f, ["err"])[0] == "ok" and len(obs[f][1]) >= 2 for f in ("bmap", "tags"))
    if case["k"] != "report":
        return case["k"] == "cmp" and case["a"] != case["b"]
    r = obs.get("r")
    if not r or r[0] != "ok":
        return False
    nb = sum(len(b) for _, b in r[1])
    return nb >= 2 and len(r[1]) >= 1 and len(case["commits"]) >= 4


def outcome(case, obs):
    if "__hang__" in obs:
        return "hang"
    if case["k"] == "refs":
        errs = sorted({obs[f][1] for f in ("iter", "packed", "bmap", "tags") if obs[f][0] != "ok"})
        return "refs:" + ("+".join(errs) if errs else "ok")
    if case["k"] == "session":
        rs = [o["r"] for o in obs["steps"]]
        if any(r[0] != "ok" for r in rs):
            return "session:" + next(r[1] for r in rs if r[0] != "ok")
        changed = sum(1 for a, b in zip(rs, rs[1:]) if a != b)
        return f"session:reports={len(rs)}:changed={changed}"
    r = obs["r"]
    if r[0] != "ok":
        return case["k"] + ":" + r[1]
    if case["k"] != "report":
        return case["k"] + ":ok"
    nm = sum(1 for _, bl in r[1] for b in bl if b[0] == 2)
    nbuilds = sum(1 for _, bl in r[1] for b in bl if b[0] == 0)
    return f"report:branches={min(len(r[1]), 4)}:builds={'0' if not nbuilds else '1-3' if nbuilds < 4 else '4+'}:notmerged={'y' if nm else 'n'}"


def _shrink_disk(disk):
    """one line of packed-refs less / one loose file less / no packed-refs"""
    text = disk.get("packed")
    if text is not None:
        lines = text.split("\n")
        for j in reversed(range(len(lines))):
            d = dict(disk)
            d["packed"] = "\n".join(lines[:j] + lines[j + 1:])
            yield d
    for j in range(len(disk["loose"])):
        d = dict(disk)
        d["loose"] = disk["loose"][:j] + disk["loose"][j + 1:]
        yield d


def shrink_candidates(case):
    if case["k"] == "refs":
        for d in _shrink_disk(case["disk"]):
            c = dict(case)
            c["disk"] = d
            yield c
        return
    if case["k"] == "report" and "disk" in case:
        c = dict(case)
        c.pop("disk")
        yield c
        for c in _shrink_plain(case):
            yield relayout(c)
        return
    if case["k"] == "session" and "disk" in case["steps"][0]:
        c = dict(case)
        c["steps"] = [{k2: v for k2, v in st.items() if k2 != "disk"} for st in case["steps"]]
        yield c
        for c in _shrink_plain(case):
            c = dict(c)
            c["steps"] = [relayout(st) for st in c["steps"]]
            yield c
        return
    yield from _shrink_plain(case)


def _shrink_plain(case):
    if case["k"] == "session":
        steps = case["steps"]
        for j in reversed(range(len(steps))):
            if len(steps) > 1:
                yield {"k": "session", "steps": steps[:j] + steps[j + 1:]}
        # drop a branch ref in every step that has it
        names = []
        for st in steps:
            for nm, _ in st["refs"]:
                if nm not in names:
                    names.append(nm)
        for nm in names:
            new = []
            for st in steps:
                st2 = dict(st)
                st2["refs"] = [r for r in st["refs"] if r[0] != nm]
                new.append(st2)
            if all(st2["refs"] for st2 in new):
                yield {"k": "session", "steps": new}
        return
    if case["k"] != "report":
        return
    refs = case["refs"]
    for j in range(len(refs)):
        if len(refs) > 1:
            c = dict(case)
            c["refs"] = refs[:j] + refs[j + 1:]
            yield c
    n = len(case["commits"])
    heads = {h for _, h in refs}
    # drop a commit that is not a head: its children inherit its parents
    for i in reversed(range(n)):
        if i in heads or n <= 1:
            continue
        commits = []
        for k2, spec in enumerate(case["commits"]):
            if k2 == i:
                continue
            ps = []
            for p in spec["p"]:
                for q in (case["commits"][i]["p"] if p == i else [p]):
                    q2 = q - 1 if q > i else q
                    if q2 not in ps:
                        ps.append(q2)
            s2 = dict(spec)
            s2["p"] = ps
            commits.append(s2)
        c = dict(case)
        c["commits"] = commits
        c["refs"] = [[nm, h - 1 if h > i else h] for nm, h in refs]
        c["ids"] = [x for k2, x in enumerate(case.get("ids") or range(n)) if k2 != i]
        if case.get("shas"):
            c["shas"] = [x for k2, x in enumerate(case["shas"]) if k2 != i]
        yield c
    for i in range(n):
        spec = case["commits"][i]
        if spec.get("tags"):
            c = dict(case)
            c["commits"] = list(case["commits"])
            s2 = dict(spec)
            s2.pop("tags")
            c["commits"][i] = s2
            yield c
        if case["text"] in spec["m"] and spec["m"] != case["text"]:
            c = dict(case)
            c["commits"] = list(case["commits"])
            s2 = dict(spec)
            s2["m"] = "q" if case["text"] else spec["m"]
            if s2["m"] != spec["m"]:
                c["commits"][i] = s2
                yield c


RULE = ("generated single-repository histories of 1-45 commits: random DAGs with merges (2-3 parents, shuffled parent "
        "order), several roots, parallel tagged sub-branches, build tags (release_M_m, master+VERSION file, several per "
        "commit, junk tags incl. namespaced tags <dir>/<name> with one or two '/' whose last component reads like a build tag "
        "and are not build tags) on ordinary and merge commits, 1-5 release branches with numeric-tricky / equal-key names, "
        "master and/or main, foreign refs, heads at tips, at random commits, equal to or inside another branch's history, "
        "matching messages at random commits (text in the subject or only in the body), 10 plain search texts incl. the empty "
        "one and (30%) search texts with characters that mean something to a regular expression / glob / LIKE pattern "
        "( ) [ ] . * + ? | ^ $ \\ { } % _, leading / trailing blanks, a line break, upper / lower case, non-ASCII, together with "
        "near-miss messages that tell the literal reading from the other readings (fix(parser) / fixparser, v1.2 / v1x2, "
        "now? / no, [WIP] / W, ...), "
        "release names that differ only in the third / fourth number, commit times inside (and 6% outside, "
        "model-only) the 30-day window; sessions: ONE ReposCollection asked for 2-4 reports while the mock repository changes in "
        "between (build tags appear on existing commits, commits are pushed, branches merged / reset / added / removed, "
        "text changes, sync() on half of the steps), every report compared with the model's report of the state at that "
        "moment; 40 'remerge' histories (a base of matching fixes joined by non-matching merges is the lowest branch, the later "
        "branches start with merges -- parents in any order -- of commits the first traversal has already classified); "
        "30% of the reports and 35% of the sessions are made on a repository whose refs are REAL FILES: the harness "
        "writes a '.git' directory (packed-refs text + loose ref files: refs packed / loose / both with a stale packed value, "
        "annotated tags with '^' peeled lines after and between the branch entries, lightweight tags, comment header or "
        "none, CRLF, tabs, refs of other remotes incl. remotes whose name starts with ours, local branches, stash, notes, "
        "symbolic <remote>/HEAD, remote / branch names with metacharacters) and the library's own GitRepo.iter_refs reads it; "
        "plus 150 cases of the refs layer alone (GitRepo.iter_refs over several prefix sets, _iter_packed_refs, "
        "make_branch_refs_map, make_buildtags_map) of which 40% on deliberately ill-formed packed-refs texts (stray / "
        "repeated / misplaced '^' lines, wrong lengths, one-field lines, foreign comments, repeated refs, blanks); "
        "plus BranchName sort-item / cmp cases.  COMMIT IDS: 35% of the histories / remerge cases / sessions (and of the refs "
        "cases) give DISTINCT commits 40-digit ids that share their first 7..39 digits (emphasis on 7, 8, 10, 11, 12, 16, 20, 32, "
        "39), their last 7..39 digits, or both ends: all commits of the history, or groups chosen by role (an irrelevant root / "
        "old commit and a matching one, two matching commits, heads, tagged commits); ids that read as decimal numbers, with "
        "leading zeros, like 1e5..., 000...; in sessions a pushed commit's id shares digits with an id the collection has "
        "already seen (the other cases keep sha1-of-a-number ids).  Non-trivial = a report with >= 2 builds "
        "on a history of >= 4 commits (or a cmp of two different names).")
TRUSTED_BASE = [
    "harness-side mock of git.Repo (commit/iter_refs/remotes, tree / 'VERSION'), same attribute surface as tests/mock_git.py; "
    "in a session its content is replaced in place between two reports (fresh inner objects, as GitPython re-reading a repository)",
    "disk cases: the library's GitRepo subclassed without git.Repo.__init__ (GitPython is not installed): git_dir / remotes / "
    "commit() come from the harness, get_ref_commit (GitPython's SymbolicReference(...).commit, used for loose refs only) is a "
    "stand-in that returns the commit the generator meant; the ref files themselves are real files read by the library; "
    "file-system walk order (Path.glob) is canonicalised by sorting the loose refs; ASCII ref files only",
    "str.strip / str.split(None, 1) white space = the set modelled by Model.is_space; text-mode line iteration = split at LF / CR",
    "build tags reach the model already parsed: (major, minor, patch, build) computed by the harness from the structured "
    "tag it renders as build_<n>_release_<M>_<m>_success / build_<n>_master_success + VERSION file; the regexes of "
    "ProjectRepo and int()/str.split() of CPython are trusted (ASCII branch names only)",
    "list.sort is a stable sort that only calls __lt__",
    "commit ids are lower-case 40-digit hex strings, pairwise different inside one repository; the printed report shows 11 "
    "digits, so the printed-vs-data comparison identifies commits whose ids share their first 11 digits",
    "gen/C06_Consts.v: cut-off period, master prefix/names/label, release prefix, separator characters, int-vs-str "
    "constants of the comparator, fake build numbers, fake iid base and the shape of the not-merged filter are read "
    "from ak/ghist.py by harness/props/c06.py:gen_consts (ast, fail-closed)",
]
ASSUMPTIONS = [
    "single repository, no component graphs (C07 covers components): relevant_cmpnts = {} and bumps = {}",
    "histories are acyclic (parents precede children) and every ref points to an existing commit",
    "commit times within the 30-day window (the property's quantifier); histories outside it are compared with the model only",
    "remote names whose first sort item is below 'zzzzzzzzzzzzzz' (master-last theorem states this hypothesis)",
    "every build tag resolves to integer major/minor (release_M_m in the tag or a VERSION file in the commit)",
    "refs theorems: branch_heads_from_ref_files assumes a packed-refs file the code accepts (first_err = None) in which every "
    "'^' line follows a refs/tags/ line (peels_follow_tags), as git writes it; packed_refs_parse_spec and branch_head_rule "
    "have no such hypothesis (they say what the code does with any text)",
]
MODELLED = ("ak/ghist.py: ProjectRepo.iter_release_branches, BranchName, RGraph.__init__ (single repository), "
            "_read_branch, _mk_rcommits, _find_new_rcommits_in_build, not-merged pseudo build, get_builds_numbers (sorting), "
            "RBranch.get_rbuilds_list, RBuild.get_printable_rcommits; GitRepo._iter_packed_refs / iter_refs (+ the scope of "
            "_iter_refs_files), ProjectRepo.make_branch_refs_map, make_buildtags_map up to parse_buildtag, the head lookup of "
            "RGraph.__init__ (coq/C06/Refs.v); not modelled: regex tag parsing (which names are build tags and their numbers "
            "arrive as a table), GitPython (get_ref_commit, commit objects), components/bumps, report rendering (the printed "
            "report is checked against the data by the oracle only)")
TECHNIQUE = ("Coq proofs on a hand-written executable Gallina model of the single-repository part of ak/ghist.py: "
             "an induction principle for the outer DFS (Inv3.visit_ind), a reduction invariant (the RCommit graph is sound and "
             "complete for reachability, Inv3.GI), an exploration lemma for the inner DFS (Inv4.find_new_explore), a per-branch "
             "invariant (Inv4.BI) and a between-branches invariant (Attr.BB) give the attribution statement for ALL acyclic DAG "
             "histories; + per-run correspondence check (vm_compute vs implementation on generated DAG histories, the verified "
             "statement checker report_okb evaluated on every case) + reachability-based oracle + constants/clause shapes "
             "regenerated from the source")
LEVEL_TEXT = ("partial (model-level proof + correspondence).  THEOREMS, for every acyclic history whose refs exist (any DAG: merges, "
              "several roots, tags on merges, parallel tagged sub-branches, any times): attribution_guarded = the full statement "
              "(clauses A-D of Spec.branch_ok for every branch: listed only if matching, under a tagged/head build commit of the "
              "branch outside the lower-sorted branches that contains it and is minimal, exactly once when such a build exists, "
              "at most once, never under 'not merged'; 'not merged' = exactly the matching commits of lower-sorted branches not "
              "reachable from the head, each once; untagged head = 'not built') whenever no branch head lies inside a lower-sorted "
              "branch; property_iff = the statement holds IFF no branch with a matching commit in its history has its head inside "
              "a lower-sorted branch; report_characterised / not_merged_char_inside = what the report contains in that remaining "
              "case (the open finding: no build, 'not merged' lists all matching commits of the lower branches) and that the "
              "traversals never run out of fuel; attribution_refuted / not_merged_char_refuted = the unguarded statement is false "
              "(witness in corpus); window_reads_all_branches = inside the 30-day window no branch is skipped; branch_order(+_numeric), "
              "branches_sorted, master_last (strict total order on keys, numeric-aware, master last); only_matching, at_most_once "
              "(every history); report_ok_spec (the executable checker decides exactly the statement); search_predicate_spec (the "
              "predicate is plain substring containment, every character literal).  REF FILES (PropsRefs.v, model Refs.v): "
              "packed_refs_parse_spec (the coded loop = the entry-wise reading of the lines, or the error of the first refused line), "
              "ref_line_yields_its_pair, peeled_line_is_local (a '^' line changes only the ref it follows), "
              "peeled_lines_never_change_branches, ref_line_text / peeled_line_text (text of a line -> its class), "
              "iter_refs_one_prefix, branch_head_rule (loose file wins, else the LAST packed entry), branch_heads_from_ref_files; "
              "commit_of_full_id, commit_found_by_its_id, different_ids_different_commits (the hexsha -> commit step of the model "
              "compares whole ids: ids that differ in one digit denote different commits).  "
              "ONLY TESTED (correspondence "
              "model vs implementation + oracle on ~750 generated histories per quick run): that the hand model is the code; labels "
              "of tagged builds, order of builds / commits inside a branch, the printed report, tag parsing; that a report made by a "
              "long-lived collection depends only on the repository state at that moment (session cases: the model is a pure function); "
              "that the report made from real ref files is the report of the refs those files denote (disk cases: the model reads "
              "the same texts through Refs.v; the oracle reads them with its own reference reader ref_semantics); GitPython's part "
              "(get_ref_commit, symbolic refs) is a stand-in.")
LEVEL_NOTE = ("Trusted: Coq kernel + vm_compute; the hand model's fidelity (checked by correspondence on every run, not proved); the "
              "harness mock repository; the ast extractor of the constants.  All theorems are about the model; the statement "
              "(Spec.branch_ok) is tied to an executable checker by report_ok_spec and that checker is evaluated against the "
              "independent Python oracle on every generated case.  One open finding (not-merged-but-reachable) is proved to be "
              "the only failure mode (property_iff).  Details: harness/props/c06.notes.md.")
DESIGN_REF = "DESIGN.md section 8, C06"
