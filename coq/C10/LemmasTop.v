(* C10/LemmasTop.v -- the rendering operations of a history, in closed form:
     no_color renderings print the plain text of the object, whatever happened before;
     a coloured rendering through one (non-compound) palette prints the object in
       the colours of the configuration in force (top_colors), whether or not the
       palette came from a cache;
     stripping any coloured rendering gives the no_color rendering (strip_layout);
     a palette handed out by a configuration reflects its current map (cache_reset). *)
From Coq Require Import ZArith List Bool Lia.
From AK Require Import Common.Sx Common.Err C10.Sgr C10.SgrLemmas C10.Base gen.C10_Consts C10.Model
  C10.Lemmas C10.LemmasInv C10.LemmasRun C10.LemmasPure.
Import ListNotations.
Open Scope Z_scope.

Section Top.
Variable fts : list (Z * ftdef).

(* ---- colours only matter through lookups ---- *)
Lemma colour_cl_ext cl cl' x : (forall a, col cl a = col cl' a) -> colour_cl cl x = colour_cl cl' x.
Proof.
  intros H. unfold colour_cl. apply map_ext. intros mc. f_equal. apply map_ext. intros at_. rewrite H. reflexivity.
Qed.

Lemma pure_item_col_ext top top' f g it :
  (forall a, col top a = col top' a) -> (forall K a, col (f K) a = col (g K) a) ->
  pure_item fts top f it = pure_item fts top' g it.
Proof.
  intros Ht Hs. destruct it as [[K|] a t|t|ft K v lit modi]; cbn [pure_item]; try reflexivity.
  - rewrite Hs. reflexivity.
  - rewrite Ht. reflexivity.
  - unfold pure_cell. rewrite (colour_cl_ext (f K) (g K)); [reflexivity|apply Hs].
Qed.

Lemma pure_lines_col_ext top top' f g ls :
  (forall a, col top a = col top' a) -> (forall K a, col (f K) a = col (g K) a) ->
  pure_lines fts top f ls = pure_lines fts top' g ls.
Proof.
  intros Ht Hs. unfold pure_lines, pure_line. apply map_ext. intros l.
  induction l as [|it l IH]; [reflexivity|]. cbn [flat_map]. rewrite IH.
  rewrite (pure_item_col_ext top top' f g it Ht Hs). reflexivity.
Qed.

Lemma plines_pure w cp ls : plines fts w cp ls = pure_lines fts (p_colors (pal_of w cp)) (subcol w cp) ls.
Proof. reflexivity. Qed.

Lemma col_nc cl a : nc_colors cl -> col cl a = [].
Proof.
  intros H. unfold col. destruct (zfind a cl) as [f|] eqn:E; [|reflexivity].
  apply zfind_In in E. unfold nc_colors in H. rewrite Forall_forall in H. exact (H _ E).
Qed.

(* the plain rendering of an object *)
Definition plain_lines (ls : list (list item)) : list (list chunk) := pure_lines fts [] (fun _ => []) ls.

(* ---- slots only grow ---- *)
Lemma move_slots w w' x : move true fts w w' -> In x (w_slots w) -> In x (w_slots w').
Proof.
  intros M Hx. destruct M as [w w' (_ & _ & S & _)| | | | | | | |]; try exact Hx.
  - rewrite S. exact Hx.
  - right. exact Hx.
Qed.

Lemma moves_slots w w' x : moves true fts w w' -> In x (w_slots w) -> In x (w_slots w').
Proof. induction 1 as [|a b c Hm _ IH]; [auto|]. intros H. apply IH. eapply move_slots; eassumption. Qed.

(* a no_color palette and everything below it has no colours *)
Lemma slot_plines w cp K ls :
  inv fts w -> In (K, cp) (w_slots w) -> plines fts w cp ls = plain_lines ls.
Proof.
  intros Hi Hin. rewrite plines_pure. unfold plain_lines.
  destruct Hi as (_ & _ & _ & _ & Hsl & _). destruct (Hsl _ _ Hin) as (_ & Hn & Hsub).
  apply pure_lines_col_ext.
  - intros a. rewrite col_nc by exact Hn. reflexivity.
  - intros K' a. unfold subcol. destruct (zfind K' (p_subs (pal_of w cp))) as [q|] eqn:E; [|reflexivity].
    apply zfind_In in E. destruct (Hsub _ _ E) as [K'' Hq]. destruct (Hsl _ _ Hq) as (_ & Hnq & _).
    rewrite col_nc by exact Hnq. reflexivity.
Qed.

(* ---- _PaletteMeta.__call__: what the returned palette looks like ---- *)
Definition top_colors (cf : conf) (K : cls) : colours :=
  local_colors (fst (register_raw reg_fuel cf K)) K false.

(* a no_color configuration hands out palettes without colours *)
Lemma get_color_nocolor m s : get_color true m s = [].
Proof. unfold get_color. destruct (zhas s m); [reflexivity|]. destruct (zhas dflt_synt m); reflexivity. Qed.

Lemma top_colors_nocolor cf K : c_nocolor cf = true -> nc_colors (top_colors cf K).
Proof.
  intros H. unfold top_colors, local_colors, nc_colors. apply Forall_forall. intros x Hx.
  apply in_map_iff in Hx as (y & <- & _). cbn [snd].
  destruct (register_raw_step reg_fuel cf K) as (E & _). rewrite E, H. apply get_color_nocolor.
Qed.

Lemma pure_lines_nocolor_conf cf K ls :
  c_nocolor cf = true -> pure_lines fts (top_colors cf K) (fun _ => []) ls = plain_lines ls.
Proof.
  intros H. unfold plain_lines. apply pure_lines_col_ext; [|reflexivity].
  intros a. rewrite col_nc by (apply top_colors_nocolor; exact H). reflexivity.
Qed.

Lemma class_call_colours w copt K w' p :
  inv fts w -> class_call true w copt false K false = Ok (w', p) ->
  p_colors (pal_of w' p) = top_colors (conf_of (fst (cc_pre w copt)) (snd (cc_pre w copt))) K.
Proof.
  intros Hi. rewrite class_call_eq.
  assert (inv fts (fst (cc_pre w copt))) as Hi1 by (eapply inv_moves; [exact Hi|apply moves_cc_pre]).
  remember (fst (cc_pre w copt)) as w1 eqn:E1. remember (snd (cc_pre w copt)) as c eqn:Ec. clear E1 Ec.
  unfold top_colors.
  destruct (zfind K (c_cache (conf_of w1 c))) as [q|] eqn:Ez.
  - intros [= <- <-]. apply zfind_In in Ez. pose proof (conf_of_cache_in _ _ _ _ Ez) as Hin.
    destruct Hi1 as (_ & _ & _ & Hc & _). destruct (Hc _ _ _ _ Hin Ez) as (A & _ & _ & St & _).
    rewrite A. symmetry. apply local_colors_same.
    + apply St. apply conf_ext_refl.
    + destruct (register_raw_step reg_fuel (conf_of w1 c) K) as (N & _). exact N.
  - assert (conf_of (register w1 c K) c = fst (register_raw reg_fuel (conf_of w1 c) K)) as Er.
    { rewrite register_eq by apply Hi1. apply conf_of_put_eq. }
    rewrite <- Er. remember (register w1 c K) as w2 eqn:E2. clear E2 Er.
    unfold cc_new. destruct (alloc true w2) as [[w4 q]|]; [|discriminate].
    intros [= <- <-]. unfold cc_store. cbn iota.
    change (pal_of (put_conf ?x _ _) q) with (pal_of x q).
    rewrite pal_of_put_eq. reflexivity.
Qed.

(* ---- one Render operation ---- *)
(* the configuration in force for ch_text(colors_conf=copt): the given one or the
   global one (created on first use) *)
Definition conf_in_force (w : world) (copt : option cid) : conf :=
  conf_of (fst (cc_pre w copt)) (snd (cc_pre w copt)).

Lemma conf_in_force_oracle w ids copt : conf_in_force (set_oracle w ids) copt = conf_in_force w copt.
Proof.
  unfold conf_in_force. destruct copt as [c|]; [reflexivity|]. cbn [cc_pre]. unfold get_global.
  cbn [w_global set_oracle]. destruct (w_global w); reflexivity.
Qed.

(* mk_palette's result: (no_color) a slot palette, or (colour) a palette with the
   colours of the configuration in force *)
Lemma mk_palette_nc w K pa copt w' cp :
  inv fts w -> pa <> PSynced -> mk_palette true w K pa copt true = Ok (w', cp) -> In (K, cp) (w_slots w').
Proof.
  intros Hi Hpa. unfold mk_palette. destruct pa as [|c|]; [| |congruence].
  - intros E. destruct (moves_class_call true fts _ _ _ _ _ _ (proj1 Hi) E) as (_ & P & _).
    apply zfind_In. exact P.
  - destruct (class_call true w (Some c) false K false) as [[wa pa']|] eqn:Ea; [|discriminate].
    cbn [bind fst]. destruct (moves_class_call true fts _ _ _ _ _ _ (proj1 Hi) Ea) as (Ma & _).
    intros E. assert (w_synced wa = []) as Hsa by (rewrite (moves_synced _ _ _ _ Ma); apply Hi).
    destruct (moves_class_call true fts _ _ _ _ _ _ Hsa E) as (_ & P & _). apply zfind_In. exact P.
Qed.

Lemma mk_palette_col w K copt w' cp :
  inv fts w -> mk_palette true w K PNone copt false = Ok (w', cp) ->
  p_colors (pal_of w' cp) = top_colors (conf_in_force w copt) K.
Proof. intros Hi E. cbn [mk_palette] in E. exact (class_call_colours _ _ _ _ _ Hi E). Qed.

Lemma mk_palette_col_obj w K c copt w' cp :
  inv fts w -> mk_palette true w K (PObj c) copt false = Ok (w', cp) ->
  p_colors (pal_of w' cp) = top_colors (conf_of w c) K.
Proof.
  intros Hi. cbn [mk_palette].
  destruct (class_call true w (Some c) false K false) as [[wa pa']|] eqn:Ea; [|discriminate].
  cbn [bind]. intros [= <- <-]. exact (class_call_colours _ _ _ _ _ Hi Ea).
Qed.

(* the shape of a Render step *)
Lemma render_step w obj copt nc pa mode ids w' outs :
  inv fts w -> obj_ok obj -> pa <> PSynced ->
  step true fts w (ORender obj copt nc pa mode ids) = Ok (w', outs) ->
  exists w1 cp w2,
    mk_palette true (set_oracle w ids) (o_cls obj) pa copt nc = Ok (w1, cp) /\
    inv fts w1 /\ inv fts w2 /\ good true fts (set_stack w1 [cp]) w2 /\
    outs = texts_of mode (plines fts w2 cp (o_lines obj)).
Proof.
  intros Hi Hobj Hpa. cbn [step].
  pose proof (inv_set_oracle fts w ids Hi) as H0.
  destruct (mk_palette true (set_oracle w ids) (o_cls obj) pa copt nc) as [[w1 cp]|] eqn:E1; [|discriminate].
  cbn [bind]. pose proof (inv_mk_palette fts _ _ _ _ _ _ _ H0 Hpa E1) as H1.
  pose proof (inv_set_stack fts w1 [cp] H1) as H1'.
  destruct (consume true fts (set_stack w1 [cp]) cp obj mode) as [[w2 t2]|] eqn:E2; [|discriminate].
  cbn [bind fst snd]. intros [= <- <-].
  assert (st_ok fts (set_stack w1 [cp]) cp) as Hst by (split; [exact H1'|left; reflexivity]).
  destruct (consume_pure fts _ _ _ _ _ _ Hst Hobj E2) as (-> & G & _).
  exists w1, cp, w2. split; [reflexivity|]. split; [exact H1|]. split; [|split; [exact G|reflexivity]].
  eapply inv_moves; [exact H1'|apply G].
Qed.

(* no_color: the plain text of the object, for every object, history and way of
   passing the palette *)
Lemma render_no_color w obj copt pa mode ids w' outs :
  inv fts w -> obj_ok obj -> pa <> PSynced ->
  step true fts w (ORender obj copt true pa mode ids) = Ok (w', outs) ->
  outs = texts_of mode (plain_lines (o_lines obj)).
Proof.
  intros Hi Hobj Hpa E. destruct (render_step _ _ _ _ _ _ _ _ _ Hi Hobj Hpa E) as (w1 & cp & w2 & E1 & H1 & H2 & G & ->).
  pose proof (mk_palette_nc _ _ _ _ _ _ (inv_set_oracle fts w ids Hi) Hpa E1) as Hin.
  f_equal. apply (slot_plines w2 cp (o_cls obj)); [exact H2|].
  eapply moves_slots; [apply G|]. exact Hin.
Qed.

(* objects printed through a single palette: pretty-printer, git history report *)
Definition simple_obj (o : objspec) : Prop := lines_subs (o_lines o) = [].

Lemma simple_plines w cp ls top :
  lines_subs ls = [] -> p_colors (pal_of w cp) = top -> plines fts w cp ls = pure_lines fts top (fun _ => []) ls.
Proof.
  intros Hs <-. rewrite plines_pure. unfold pure_lines, pure_line. induction ls as [|l ls IH]; [reflexivity|].
  unfold lines_subs in Hs. cbn [flat_map] in Hs. apply app_eq_nil in Hs as [Hl Hls]. cbn [map]. rewrite (IH Hls). f_equal.
  clear IH Hls. induction l as [|it l IHl]; [reflexivity|].
  unfold line_subs in Hl. cbn [flat_map] in Hl. apply app_eq_nil in Hl as [Hit Hl]. cbn [flat_map]. rewrite (IHl Hl). f_equal.
  apply pure_item_ext. rewrite Hit. intros K [].
Qed.

Lemma render_simple_colour w obj copt pa mode ids w' outs :
  inv fts w -> obj_ok obj -> simple_obj obj -> pa <> PSynced ->
  step true fts w (ORender obj copt false pa mode ids) = Ok (w', outs) ->
  outs = texts_of mode (pure_lines fts
           (top_colors (match pa with PObj c => conf_of w c | _ => conf_in_force w copt end) (o_cls obj))
           (fun _ => []) (o_lines obj)).
Proof.
  intros Hi Hobj Hs Hpa E. destruct (render_step _ _ _ _ _ _ _ _ _ Hi Hobj Hpa E) as (w1 & cp & w2 & E1 & H1 & H2 & G & ->).
  f_equal. apply simple_plines; [exact Hs|].
  rewrite (grows_cp _ _ _ (proj2 G)) by (left; reflexivity).
  change (pal_of (set_stack w1 [cp]) cp) with (pal_of w1 cp).
  pose proof (inv_set_oracle fts w ids Hi) as H0.
  destruct pa as [|c|]; [| |congruence].
  - rewrite (mk_palette_col _ _ _ _ _ H0 E1). rewrite conf_in_force_oracle. reflexivity.
  - rewrite (mk_palette_col_obj _ _ _ _ _ _ H0 E1). reflexivity.
Qed.

(* cache_reset: the palette a configuration hands out carries the colours of
   the configuration's map as it is now *)
Lemma cache_reset_world w c K w' p :
  inv fts w -> class_call true w (Some c) false K false = Ok (w', p) ->
  p_colors (pal_of w' p) = local_colors (conf_of w' c) K false /\ p_conf (pal_of w' p) = c.
Proof.
  intros Hi E. destruct (moves_class_call true fts _ _ _ _ _ _ (proj1 Hi) E) as (M & P & _).
  cbn [cc_pre snd] in P. unfold cc_post in P. apply zfind_In in P.
  pose proof (inv_moves fts _ _ Hi M) as (_ & _ & _ & Hc & _).
  destruct (Hc _ _ _ _ (conf_of_cache_in _ _ _ _ P) P) as (A & _ & D & _). auto.
Qed.

(* ---- strip_layout ---- *)
Definition at_noesc (x : list (Z * list Z)) : Prop := Forall (fun at_ => no_esc (snd at_)) x.

Definition item_noesc (it : item) : Prop :=
  match it with
  | IPlain t => no_esc t
  | IChunk _ _ t => no_esc t
  | IEnum ft _ _ v _ => Forall (fun mc => at_noesc (snd mc)) (ft_texts fts ft v)
  end.
Definition obj_noesc (o : objspec) : Prop := Forall (Forall item_noesc) (o_lines o).

Definition cwf (cl : colours) : Prop := forall a, wf_prefix (col cl a).

Lemma cwf_nil : cwf [].
Proof. intros a. left. reflexivity. Qed.

Lemma cwf_of cl : colors_wf cl -> cwf cl.
Proof.
  intros H a. unfold col. destruct (zfind a cl) as [f|] eqn:E; [|left; reflexivity].
  apply zfind_In in E. unfold colors_wf in H. rewrite Forall_forall in H. exact (H _ E).
Qed.

Lemma cell_ok cl x modi :
  cwf cl -> Forall (fun mc => at_noesc (snd mc)) x ->
  Forall chunk_ok (match zfind modi (colour_cl cl x) with Some y => y | None => [] end) /\
  same_texts (match zfind modi (colour_cl cl x) with Some y => y | None => [] end)
             (match zfind modi (colour_cl [] x) with Some y => y | None => [] end) /\
  all_plain (match zfind modi (colour_cl [] x) with Some y => y | None => [] end).
Proof.
  intros Hc Hx. induction Hx as [|[m ats] x Hm Hx IH]; [repeat split; constructor|].
  cbn [colour_cl map fst snd zfind]. fold (colour_cl cl x). fold (colour_cl [] x).
  destruct (m =? modi); [|exact IH]. cbn [snd] in Hm. clear IH.
  induction Hm as [|[a t] ats Ha Hats IHa]; [repeat split; constructor|].
  destruct IHa as (A & B & C). cbn [map fst snd]. split; [|split].
  - constructor; [split; [apply Hc|exact Ha]|exact A].
  - unfold same_texts in *. cbn [map snd]. f_equal. exact B.
  - constructor; [reflexivity|exact C].
Qed.

Lemma pure_item_ok top f it :
  cwf top -> (forall K, cwf (f K)) -> item_noesc it ->
  Forall chunk_ok (pure_item fts top f it) /\
  same_texts (pure_item fts top f it) (pure_item fts [] (fun _ => []) it) /\
  all_plain (pure_item fts [] (fun _ => []) it).
Proof.
  intros Ht Hf Hn. destruct it as [[K|] a t|t|ft K v lit modi]; cbn [pure_item item_noesc] in *.
  - split; [constructor; [split; [apply Hf|exact Hn]|constructor]|]. split; [reflexivity|constructor; [reflexivity|constructor]].
  - split; [constructor; [split; [apply Ht|exact Hn]|constructor]|]. split; [reflexivity|constructor; [reflexivity|constructor]].
  - split; [constructor; [split; [left; reflexivity|exact Hn]|constructor]|]. split; [reflexivity|constructor; [reflexivity|constructor]].
  - unfold pure_cell. apply cell_ok; [apply Hf|exact Hn].
Qed.

Lemma same_texts_app a a' b b' : same_texts a a' -> same_texts b b' -> same_texts (a ++ b) (a' ++ b').
Proof. unfold same_texts. intros H1 H2. rewrite !map_app, H1, H2. reflexivity. Qed.

Lemma pure_line_ok top f l :
  cwf top -> (forall K, cwf (f K)) -> Forall item_noesc l ->
  Forall chunk_ok (pure_line fts top f l) /\
  same_texts (pure_line fts top f l) (pure_line fts [] (fun _ => []) l) /\
  all_plain (pure_line fts [] (fun _ => []) l).
Proof.
  intros Ht Hf Hn. unfold pure_line. induction Hn as [|it l Hit Hl IH]; [repeat split; constructor|].
  destruct IH as (A & B & C). destruct (pure_item_ok top f it Ht Hf Hit) as (A1 & B1 & C1). cbn [flat_map].
  split; [apply Forall_app; split; assumption|]. split; [apply same_texts_app; assumption|].
  unfold all_plain in *. apply Forall_app; split; assumption.
Qed.

Lemma nl_chunk_ok : chunk_ok nl_chunk.
Proof. split; [left; reflexivity|]. cbn. unfold no_esc. intros [H|[]]. discriminate. Qed.

Lemma pure_lines_ok top f ls :
  cwf top -> (forall K, cwf (f K)) -> Forall (Forall item_noesc) ls ->
  Forall chunk_ok (join_chunks (pure_lines fts top f ls)) /\
  same_texts (join_chunks (pure_lines fts top f ls)) (join_chunks (plain_lines ls)) /\
  all_plain (join_chunks (plain_lines ls)).
Proof.
  intros Ht Hf Hn. unfold plain_lines, pure_lines. induction Hn as [|l ls Hl Hls IH]; [repeat split; constructor|].
  destruct IH as (A & B & C). destruct (pure_line_ok top f l Ht Hf Hl) as (A1 & B1 & C1).
  cbn [map]. destruct ls as [|l' ls'].
  - cbn [map join_chunks]. auto.
  - cbn [map] in *.
    change (join_chunks (?x :: ?y :: ?z)) with (x ++ nl_chunk :: join_chunks (y :: z)).
    split; [|split].
    + apply Forall_app. split; [exact A1|]. constructor; [apply nl_chunk_ok|exact A].
    + apply same_texts_app; [exact B1|]. unfold same_texts in *. cbn [map]. f_equal. exact B.
    + unfold all_plain in *. apply Forall_app. split; [exact C1|]. constructor; [reflexivity|exact C].
Qed.

(* every way of consuming any coloured rendering, with the escape sequences
   removed, is the plain text; the plain text has no ESC *)
Lemma strip_pure_lines top f ls mode t :
  cwf top -> (forall K, cwf (f K)) -> Forall (Forall item_noesc) ls ->
  In t (texts_of mode (pure_lines fts top f ls)) ->
  strip t = text_whole (plain_lines ls) /\ no_esc (text_whole (plain_lines ls)).
Proof.
  intros Ht Hf Hn Hin. rewrite (texts_all_equal _ _ _ Hin). unfold text_whole.
  destruct (pure_lines_ok top f ls Ht Hf Hn) as (A & B & C). apply strip_layout_l; assumption.
Qed.

Lemma subcol_cwf w cp K : inv fts w -> cwf (subcol w cp K).
Proof.
  intros Hi. unfold subcol. destruct (zfind K (p_subs (pal_of w cp))); [|apply cwf_nil].
  apply cwf_of. apply pal_of_wf. apply Hi.
Qed.

Lemma render_strip w obj copt nc pa mode ids w' outs t :
  inv fts w -> obj_ok obj -> obj_noesc obj -> pa <> PSynced ->
  step true fts w (ORender obj copt nc pa mode ids) = Ok (w', outs) -> In t outs ->
  strip t = text_whole (plain_lines (o_lines obj)) /\ no_esc (text_whole (plain_lines (o_lines obj))).
Proof.
  intros Hi Hobj Hn Hpa E Hin.
  destruct (render_step _ _ _ _ _ _ _ _ _ Hi Hobj Hpa E) as (w1 & cp & w2 & E1 & H1 & H2 & G & ->).
  rewrite plines_pure in Hin. eapply strip_pure_lines; [| |exact Hn|exact Hin].
  - apply cwf_of. apply pal_of_wf. apply H2.
  - intros K. apply subcol_cwf. exact H2.
Qed.

End Top.
