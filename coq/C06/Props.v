(* C06/Props.v -- the property theorems, nothing else.
   History report attributes every matching commit to the right build per branch
   (model of ak/ghist.py for a single repository, coq/C06/Model.v; statement in coq/C06/Spec.v). *)
From Coq Require Import ZArith List Bool Sorting.Sorted Sorting.Permutation.
From AK Require Import Common.Err gen.C06_Consts C06.Model C06.Lemmas C06.Inv C06.Spec C06.Inv2 C06.Inv3 C06.Inv4 C06.Attr C06.Window.
Import ListNotations.

(* ------------------------------------------------------------------ *)
(* constants and clause shapes read from the current ak/ghist.py        *)
Theorem consts_ok :
  (int_vs_str < 0 /\ 0 < str_vs_int)%Z /\
  (nm_requires_explicit = true /\ nm_excludes_this_branch = true) /\
  (fake_not_built <> fake_not_merged /\ 0 < fake_iid_base)%Z /\ (obsolete_cutoff = 30 * 86400 /\ 0 <= obsolete_cutoff)%Z.
Proof. exact (conj consts_cmp (conj consts_nm (conj consts_fake consts_cutoff))). Qed.
Print Assumptions consts_ok.

(* the search predicate is "the text occurs in the message" *)
Theorem search_predicate_spec : forall h c,
  matches h c = true <-> exists pre post, c_msg (get_commit h c) = pre ++ h_text h ++ post.
Proof. intros h c. apply containsb_spec. Qed.
Print Assumptions search_predicate_spec.

(* ------------------------------------------------------------------ *)
(* branch order                                                         *)

(* the comparator is a strict total order on sort keys, i.e. a strict weak order on branch
   names whose incomparable names are exactly those with equal keys *)
Theorem branch_order : forall a b c : list item,
  items_lt a a = false /\
  (items_lt a b = true -> items_lt b c = true -> items_lt a c = true) /\
  (items_lt a b = true -> items_lt b a = false) /\
  (items_lt a b = false -> items_lt b a = false -> a = b) /\
  (items_lt b a = false -> items_lt c b = false -> items_lt c a = false).
Proof.
  intros a b c. exact (conj (items_lt_irrefl a) (conj (items_lt_trans a b c) (conj (items_lt_asym a b)
         (conj (items_lt_total a b) (items_le_trans a b c))))).
Qed.
Print Assumptions branch_order.

(* numeric-aware: integers compare as numbers, sort before text, a proper prefix sorts first *)
Theorem branch_order_numeric : forall p n m s r1 r2 x,
  ((n < m)%Z -> items_lt (p ++ IInt n :: r1) (p ++ IInt m :: r2) = true) /\
  items_lt (p ++ IInt n :: r1) (p ++ IStr s :: r2) = true /\
  items_lt p (p ++ x :: r1) = true.
Proof.
  intros. unfold items_lt. rewrite !Z.ltb_lt.
  exact (conj (cmp_items_numeric p n m r1 r2) (conj (cmp_items_int_before_text p n s r1 r2) (cmp_items_prefix p x r1))).
Qed.
Print Assumptions branch_order_numeric.

(* the branches are processed in an order that is a sorted permutation of the release/master
   branches of the remote; the report shows (a subsequence of) them in that order *)
Theorem branches_sorted : forall h,
  StronglySorted (fun a b => branch_lt b a = false) (sorted_branches (h_remote h) (h_refs h)) /\
  Permutation (release_branches (h_remote h) (h_refs h)) (sorted_branches (h_remote h) (h_refs h)) /\
  subseq (map (fun b => (obr_name b, obr_head b)) (all_branches h))
         (map branch_id (sorted_branches (h_remote h) (h_refs h))).
Proof.
  intros h. exact (conj (sorted_branches_sorted _ _) (conj (sorted_branches_perm _ _) (all_branches_subseq h))).
Qed.
Print Assumptions branches_sorted.

(* master / main last, for every remote name that is one chunk below the 'zzzzzzzzzzzzzz' prefix *)
Theorem master_last : forall remote refs l1 b l2,
  remote_ok remote -> sorted_branches remote refs = l1 ++ b :: l2 -> is_master_key (b_key b) ->
  forall b', In b' l2 -> is_master_key (b_key b').
Proof. exact master_last_l. Qed.
Print Assumptions master_last.

Example order_examples :
  let k := fun s => mk_sort_items s in
  (* origin/release/9 < origin/release/10 < origin/release/10.1 < origin/release/abc < origin/master *)
  items_lt (k [111;114;105;103;105;110;47;114;101;108;101;97;115;101;47;57]%Z)
           (k [111;114;105;103;105;110;47;114;101;108;101;97;115;101;47;49;48]%Z) = true /\
  items_lt (k [111;114;105;103;105;110;47;114;101;108;101;97;115;101;47;49;48]%Z)
           (k [111;114;105;103;105;110;47;114;101;108;101;97;115;101;47;49;48;46;49]%Z) = true /\
  items_lt (k [111;114;105;103;105;110;47;114;101;108;101;97;115;101;47;49;48;46;49]%Z)
           (k [111;114;105;103;105;110;47;114;101;108;101;97;115;101;47;97;98;99]%Z) = true /\
  items_lt (k [111;114;105;103;105;110;47;114;101;108;101;97;115;101;47;97;98;99]%Z)
           (IStr master_prefix :: k [111;114;105;103;105;110;47;109;97;115;116;101;114]%Z) = true /\
  remote_ok [111;114;105;103;105;110]%Z.
Proof. vm_compute. repeat split; try reflexivity; discriminate. Qed.
Print Assumptions order_examples.

(* ------------------------------------------------------------------ *)
(* no commit that does not match is listed                              *)
Theorem only_matching : forall h l br b c,
  report h = Ok l -> In br l -> In b (obr_builds br) -> In c (ob_listed b) ->
  exists pre post, c_msg (get_commit h c) = pre ++ h_text h ++ post.
Proof.
  intros h l br b c Hr Hbr Hb Hc. apply containsb_spec.
  exact (only_matching_l h br b c (report_in_all h l br Hr Hbr) Hb Hc).
Qed.
Print Assumptions only_matching.

(* ------------------------------------------------------------------ *)
(* within one branch every commit is listed at most once: never under two builds, never twice
   under one, never both under a build and under 'not merged' *)
Theorem at_most_once : forall h l br,
  acyclic h -> report h = Ok l -> In br l -> NoDup (flat_map ob_listed (obr_builds br)).
Proof. intros h l br Ha Hr Hbr. exact (at_most_once_l h br Ha (report_in_all h l br Hr Hbr)). Qed.
Print Assumptions at_most_once.

(* the same for every branch that was read, and at the level of RCommit ids without the
   acyclicity hypothesis *)
Theorem at_most_once_ids : forall h br,
  In br (g_branches (run_graph h)) -> NoDup (concat (map rb_rcommits (br_rbuilds br))).
Proof. exact at_most_once_iids. Qed.
Print Assumptions at_most_once_ids.

(* ------------------------------------------------------------------ *)
(* the executable checker (evaluated on every correspondence case by Run.v) decides
   exactly the statement: clauses (A)-(D) of Spec.branch_ok for every branch, the
   lower-sorted branches being those processed before it *)
Theorem report_ok_spec : forall h brs, acyclic h -> (report_okb h brs = true <-> report_ok h brs).
Proof. exact report_okb_spec. Qed.
Print Assumptions report_ok_spec.

Theorem reachability_spec : forall h, acyclic h -> forall a b, reachb h a b = true <-> reach h a b.
Proof. exact reachb_spec. Qed.
Print Assumptions reachability_spec.

(* ------------------------------------------------------------------ *)
(* the open finding: release/1 = 0 <- 1(match) <- 2 <- 3(tag 1.0.7), release/2 head = 2 *)
Definition witness : history :=
  mkHistory
    [mkCommit [] [105;110;105;116]%Z 1700000000%Z [];
     mkCommit [0] [66;85;71;45;49]%Z 1700000001%Z [];
     mkCommit [1] [120]%Z 1700000002%Z [];
     mkCommit [2] [121]%Z 1700000003%Z [(1, 0, 7, 7)%Z]]
    [111;114;105;103;105;110]%Z
    [([111;114;105;103;105;110;47;114;101;108;101;97;115;101;47;49]%Z, 3);
     ([111;114;105;103;105;110;47;114;101;108;101;97;115;101;47;50]%Z, 2)]
    [66;85;71]%Z.

(* commit 1 is reachable from the head of release/2 and yet is listed under its 'not merged' *)
Theorem not_merged_char_refuted :
  exists h, acyclic h /\ (exists l, report h = Ok l) /\ ~ report_ok h (all_branches h) /\
    exists br ob c, In br (all_branches h) /\ In ob (obr_builds br) /\ ob_type ob = FAKE_NOT_MERGED /\
                    In c (ob_listed ob) /\ reach h (obr_head br) c.
Proof.
  exists witness.
  assert (acyclic witness) as Ha by (apply acyclicb_spec; vm_compute; reflexivity).
  split; [exact Ha|]. split; [eexists; vm_compute; reflexivity|]. split.
  - intros H. apply (report_okb_spec witness _ Ha) in H. vm_compute in H. discriminate.
  - eexists. eexists. exists 1. split; [vm_compute; right; left; reflexivity|].
    split; [left; reflexivity|]. split; [reflexivity|]. split; [left; reflexivity|].
    apply (reachb_spec witness Ha). vm_compute. reflexivity.
Qed.
Print Assumptions not_merged_char_refuted.

(* the report (RGraph.branches) is the list of all branches that were read, reversed, without the
   branches that have nothing to show *)
Theorem report_is_all_branches : forall h l,
  report h = Ok l -> l = filter (fun b => nonempty (obr_builds b)) (rev (all_branches h)).
Proof. intros h l. unfold report. destruct (s_hang _); [discriminate|]. intros [= <-]. reflexivity. Qed.
Print Assumptions report_is_all_branches.

(* ------------------------------------------------------------------ *)
(* the property at full strength: for every acyclic history inside the 30-day window the report
   satisfies clauses (A)-(D) for every branch.  It is FALSE for the code as it stands (the open
   finding), see [attribution_refuted]; [attribution_guarded] and [property_iff] say exactly how far
   it holds. *)
Definition attribution_statement : Prop :=
  forall h, acyclic h -> heads_exist h -> in_window h -> property_holds h.

Theorem attribution_refuted : ~ attribution_statement.
Proof.
  intros H. specialize (H witness).
  assert (acyclic witness) as Ha by (apply acyclicb_spec; vm_compute; reflexivity).
  destruct H as (l & _ & Hok).
  - exact Ha.
  - apply heads_existb_spec. vm_compute. reflexivity.
  - apply in_windowb_spec. vm_compute. reflexivity.
  - apply (report_okb_spec witness _ Ha) in Hok. vm_compute in Hok. discriminate.
Qed.
Print Assumptions attribution_refuted.

(* no branch head lies inside (or coincides with the head of) a lower-sorted branch *)
Definition heads_apart (h : history) : Prop :=
  forall l1 br l2, all_branches h = l1 ++ br :: l2 ->
    ~ in_lower h (map obr_head l1) (obr_head br).

(* ATTRIBUTION, guarded by exactly the trigger of the open finding: on every acyclic history (any
   DAG: merges, several roots, tags on merges, parallel tagged sub-branches, any commit times) in
   which no branch head lies inside a lower-sorted branch, the report is produced and satisfies the
   full statement -- every listed commit matches and stands under a build (tagged commit or head,
   outside the lower-sorted branches, head labelled 'not built') of the branch that contains it and
   below which no other build of the branch contains it; every matching commit reachable from the
   head is listed exactly once and never under 'not merged'; 'not merged' lists exactly once exactly
   the matching commits of the lower-sorted branches that the head does not reach. *)
Theorem attribution_guarded : forall h, acyclic h -> heads_exist h -> heads_apart h -> property_holds h.
Proof. exact attribution_l. Qed.
Print Assumptions attribution_guarded.

(* the statement holds for a history IF AND ONLY IF no branch that has a matching commit in its
   history has its head inside a lower-sorted branch: the open finding is the only way to fail *)
Theorem property_iff : forall h, acyclic h -> heads_exist h ->
  (property_holds h <->
   forall l1 br l2 c, all_branches h = l1 ++ br :: l2 -> in_lower h (map obr_head l1) (obr_head br) ->
                      matches h c = true -> reach h (obr_head br) c -> False).
Proof. exact property_iff_l. Qed.
Print Assumptions property_iff.

(* what holds for EVERY acyclic history: the traversals never run out of fuel and every branch
   satisfies Attr.branch_char = clauses (A), (D) unchanged, (B) without "never under 'not merged'"
   for a head inside a lower-sorted branch, (C) with the exact content of 'not merged' *)
Theorem report_characterised : forall h, acyclic h -> heads_exist h ->
  (exists l, report h = Ok l) /\
  forall l1 br l2, all_branches h = l1 ++ br :: l2 ->
    let lower := map obr_head l1 in
    let head := obr_head br in
    let builds := obr_builds br in
    partA h lower head builds /\
    (forall c, matches h c = true -> reach h head c ->
       count_occ Nat.eq_dec (normal_listed builds) c <= 1 /\
       ((exists b, is_build_of h lower head b /\ reach h b c) -> count_occ Nat.eq_dec (normal_listed builds) c = 1) /\
       (~ in_lower h lower head -> ~ In c (nm_listed builds))) /\
    ((forall c, In c (nm_listed builds) <->
                matches h c = true /\ in_lower h lower c /\ (~ reach h head c \/ in_lower h lower head)) /\
     NoDup (nm_listed builds)) /\
    partD h head builds.
Proof.
  intros h Ha He. destruct (report_char_all h Ha He) as (Hl & Hc). split; [exact Hl|].
  intros l1 br l2 E. exact (report_char_nth h (all_branches h) [] l1 br l2 Hc E).
Qed.
Print Assumptions report_characterised.

(* 'not merged', branch head outside the lower-sorted branches: exactly the matching commits of
   lower-sorted branches that are not reachable from this head, each once *)
Theorem not_merged_char_guarded : forall h l1 br l2, acyclic h -> heads_exist h ->
  all_branches h = l1 ++ br :: l2 -> ~ in_lower h (map obr_head l1) (obr_head br) ->
  partC h (map obr_head l1) (obr_head br) (obr_builds br).
Proof.
  intros h l1 br l2 Ha He E Hn. destruct (report_char_all h Ha He) as (_ & Hc).
  pose proof (report_char_nth h (all_branches h) [] l1 br l2 Hc E) as Hb. cbn [app] in Hb.
  destruct (branch_char_ok h _ _ _ Hn Hb) as (_ & _ & C & _). exact C.
Qed.
Print Assumptions not_merged_char_guarded.

(* 'not merged', branch head inside a lower-sorted branch (the open finding, exactly): the branch
   has no build of its own and 'not merged' lists every matching commit of the lower-sorted
   branches, reachable from the head or not *)
Theorem not_merged_char_inside : forall h l1 br l2, acyclic h -> heads_exist h ->
  all_branches h = l1 ++ br :: l2 -> in_lower h (map obr_head l1) (obr_head br) ->
  normal_listed (obr_builds br) = [] /\
  forall c, In c (nm_listed (obr_builds br)) <-> matches h c = true /\ in_lower h (map obr_head l1) c.
Proof.
  intros h l1 br l2 Ha He E Hl. destruct (report_char_all h Ha He) as (_ & Hc).
  pose proof (report_char_nth h (all_branches h) [] l1 br l2 Hc E) as (A & _ & (C & _) & _). cbn [app] in *. split.
  - destruct (normal_listed (obr_builds br)) as [|c r] eqn:En; [reflexivity|exfalso].
    assert (In c (normal_listed (obr_builds br))) as Hin by (rewrite En; left; reflexivity).
    unfold normal_listed in Hin. apply in_flat_map in Hin as (ob & Hob & Hc0).
    destruct (normal ob) eqn:Hn; [|destruct Hc0].
    destruct (A ob c Hob Hn Hc0) as (_ & b & _ & (Rb & _ & Nb) & _). apply Nb.
    destruct Hl as (hd & Hin & R). exists hd. split; [exact Hin|eapply reach_trans; eassumption].
  - intros c. rewrite C. tauto.
Qed.
Print Assumptions not_merged_char_inside.

(* inside the 30-day window no branch is skipped as obsolete: the branches read -- the "lower-sorted
   branches" of the statement -- are all release / master branches of the remote, in sorted order *)
Theorem window_reads_all_branches : forall h, acyclic h -> heads_exist h -> in_window h ->
  map (fun b => (obr_name b, obr_head b)) (all_branches h) = map branch_id (sorted_branches (h_remote h) (h_refs h)).
Proof. exact window_reads_all. Qed.
Print Assumptions window_reads_all_branches.

(* the hypotheses of [attribution_guarded] on a non-trivial history: a merge of two sub-branches one
   of which is tagged, three branches (release/1 -> 5, release/2 -> 7, master -> 8), an untagged head;
   release/2 lists the commits it shares with release/1 under its own first build, master lists the
   matching commits 6 and 3 it does not contain under 'not merged' *)
Definition example : history :=
  mkHistory
    [mkCommit [] [105;110;105;116]%Z 1700000000%Z [];
     mkCommit [0] [66;85;71;45;49;32;97]%Z 1700000100%Z [];
     mkCommit [1] [120]%Z 1700000200%Z [(1, 0, 5, 5)%Z];
     mkCommit [1] [66;85;71;45;49;32;98]%Z 1700000300%Z [];
     mkCommit [2; 3] [109]%Z 1700000400%Z [];
     mkCommit [4] [121]%Z 1700000500%Z [(1, 0, 9, 9)%Z];
     mkCommit [4] [66;85;71;45;49;32;99]%Z 1700000600%Z [];
     mkCommit [6] [122]%Z 1700000700%Z [];
     mkCommit [2] [66;85;71;45;49;32;100]%Z 1700000800%Z [(3, 7, 6, 6)%Z]]
    [111;114;105;103;105;110]%Z
    [([111;114;105;103;105;110;47;109;97;115;116;101;114]%Z, 8);
     ([111;114;105;103;105;110;47;114;101;108;101;97;115;101;47;50]%Z, 7);
     ([111;114;105;103;105;110;47;114;101;108;101;97;115;101;47;49]%Z, 5)]
    [66;85;71]%Z.

Example attribution_example :
  acyclic example /\ heads_exist example /\ in_window example /\ heads_apart example /\
  map (fun br => (obr_head br, map (fun ob => (ob_type ob, ob_commit ob, ob_listed ob)) (obr_builds br))) (all_branches example) =
    [(5, [(NORMAL, Some 5, [3]); (NORMAL, Some 2, [1])]);
     (7, [(NORMAL, Some 7, [6; 3; 1])]);
     (8, [(FAKE_NOT_MERGED, None, [6; 3]); (NORMAL, Some 8, [8; 1])])].
Proof.
  assert (acyclic example) as Ha by (apply acyclicb_spec; vm_compute; reflexivity).
  split; [exact Ha|]. split; [apply heads_existb_spec; vm_compute; reflexivity|].
  split; [apply in_windowb_spec; vm_compute; reflexivity|]. split; [|vm_compute; reflexivity].
  unfold heads_apart. intros l1 br l2 E. apply (apartb_spec example Ha (all_branches example) [] ) with (l2 := l2); [|exact E].
  vm_compute. reflexivity.
Qed.
Print Assumptions attribution_example.
