(* C10/SgrLemmas.v -- proofs about the small SGR model of Sgr.v:
   stripping a rendering gives its plain text, plain renderings have no ESC,
   whole text = lines joined by newline. *)
From Coq Require Import ZArith List Bool Lia.
From AK Require Import C10.Sgr.
Import ListNotations.
Open Scope Z_scope.

(* ------------------------------------------------------------------ *)
(* well-formed colour prefixes                                          *)

(* "" or ESC [ params m  -- what _ColorSequences.make produces *)
Definition wf_prefix (p : list Z) : Prop :=
  p = [] \/ exists ps, p = 27 :: 91 :: ps ++ [109] /\ forallb is_param ps = true.

Lemma wf_suffix p : wf_prefix (suffix_of p).
Proof.
  destruct p; [left; reflexivity|]. right. exists [48]. split; reflexivity.
Qed.

Lemma join_semi_params l :
  Forall (fun c => forallb is_param c = true) l -> forallb is_param (join_semi l) = true.
Proof.
  induction 1 as [|x r Hx Hr IH]; [reflexivity|].
  destruct r as [|y r']; [exact Hx|].
  change (join_semi (x :: y :: r')) with (x ++ 59 :: join_semi (y :: r')).
  rewrite forallb_app, Hx. cbn [forallb andb]. rewrite IH. reflexivity.
Qed.

(* styles whose colour is one of the eight named colours *)
Definition style_ok (st : style) : Prop :=
  match s_fg st with Some n => 0 <= n <= 7 | None => True end.

Lemma wf_prefix_of st : style_ok st -> wf_prefix (prefix_of st).
Proof.
  intros Hst. unfold prefix_of.
  destruct (codes st) as [|c cs] eqn:E; [left; reflexivity|].
  right. exists (join_semi (c :: cs)). split; [reflexivity|].
  apply join_semi_params. rewrite <- E. unfold codes.
  apply Forall_app. split.
  - unfold style_ok in Hst. destruct (s_fg st) as [n|]; [|constructor].
    constructor; [|constructor]. cbn [forallb]. unfold is_param.
    assert (48 <= 48 + n <= 57) as H by lia.
    destruct (Z.leb_spec 48 (48 + n)); [|lia]. destruct (Z.leb_spec (48 + n) 57); [|lia].
    rewrite !orb_true_r. reflexivity.
  - destruct (s_bold st) as [[|]|]; repeat constructor.
Qed.

(* ------------------------------------------------------------------ *)
(* strip_colors                                                         *)

Lemma strip_text t r : no_esc t -> strip_go SNorm (t ++ r) = t ++ strip_go SNorm r.
Proof.
  induction t as [|c t IH]; intros H; [reflexivity|].
  cbn [app strip_go]. destruct (Z.eqb_spec c 27) as [->|_].
  - exfalso. apply H. left. reflexivity.
  - rewrite IH; [reflexivity|]. intros Hin. apply H. right. exact Hin.
Qed.

Lemma strip_params ps h r :
  forallb is_param ps = true ->
  strip_go (SPar h) (ps ++ 109 :: r) = strip_go SNorm r.
Proof.
  revert h. induction ps as [|c ps IH]; intros h H.
  - cbn [app strip_go]. change (is_param 109) with false. cbn. reflexivity.
  - cbn [forallb] in H. apply andb_prop in H as [Hc Hps].
    cbn [app strip_go]. rewrite Hc. apply IH. exact Hps.
Qed.

Lemma strip_seq p r : wf_prefix p -> strip_go SNorm (p ++ r) = strip_go SNorm r.
Proof.
  intros [->|(ps & -> & Hps)]; [reflexivity|].
  cbn [app strip_go]. change (27 =? 27) with true. change (91 =? 91) with true. cbn iota.
  rewrite <- app_assoc. cbn [app]. apply strip_params. exact Hps.
Qed.

Definition chunk_ok (c : chunk) : Prop := wf_prefix (fst c) /\ no_esc (snd c).

Lemma list_eqb_eq a b : list_eqb a b = true -> a = b.
Proof. unfold list_eqb. destruct (list_eq_dec Z.eq_dec a b); [auto|discriminate]. Qed.

Lemma strip_emit l : Forall chunk_ok l -> forall cur r,
  match cur with Some q => wf_prefix q | None => True end ->
  strip_go SNorm (emit cur l ++ r) = plain_of l ++ strip_go SNorm r.
Proof.
  induction 1 as [|[p t] l [Hp Ht] Hl IH]; intros cur r Hcur.
  - cbn [emit plain_of map concat app]. destruct cur as [q|]; cbn [close app]; [|reflexivity].
    apply strip_seq. apply wf_suffix.
  - cbn [fst snd] in Hp, Ht. unfold plain_of. cbn [map concat snd]. fold (plain_of l).
    cbn [emit]. destruct t as [|c t'] eqn:Et.
    + cbn [app]. apply IH. exact Hcur.
    + rewrite <- Et in *. clear Et.
      destruct cur as [q|].
      * destruct (list_eqb q p) eqn:E.
        -- rewrite <- !app_assoc. rewrite strip_text by exact Ht. f_equal. apply IH. exact Hcur.
        -- rewrite <- !app_assoc. rewrite strip_seq by apply wf_suffix.
           rewrite strip_seq by exact Hp. rewrite strip_text by exact Ht. f_equal. apply IH. exact Hp.
      * rewrite <- !app_assoc. rewrite strip_seq by exact Hp. rewrite strip_text by exact Ht.
        f_equal. apply IH. exact Hp.
Qed.

(* strip_colors(str(text)) = text.plain_text() *)
Lemma strip_str_of l : Forall chunk_ok l -> strip (str_of l) = plain_of l.
Proof.
  intros H. unfold strip, str_of. rewrite <- (app_nil_r (emit None l)).
  rewrite (strip_emit l H None [] I). cbn [strip_go]. apply app_nil_r.
Qed.

(* a palette without colours: str(text) is the plain text and has no ESC *)
Definition all_plain (l : list chunk) : Prop := Forall (fun c => fst c = []) l.

Lemma emit_plain l : all_plain l -> forall cur, (cur = None \/ cur = Some []) -> emit cur l = plain_of l.
Proof.
  induction 1 as [|[p t] l Hp Hl IH]; intros cur Hcur.
  - destruct Hcur as [->| ->]; reflexivity.
  - cbn [fst] in Hp. subst p. unfold plain_of. cbn [map concat snd]. fold (plain_of l).
    cbn [emit]. destruct t as [|c t']; [cbn [app]; apply IH; exact Hcur|].
    destruct Hcur as [->| ->].
    + cbn [app]. f_equal. rewrite IH by (right; reflexivity). reflexivity.
    + change (list_eqb [] []) with true. cbn iota. cbn [app]. f_equal.
      rewrite IH by (right; reflexivity). reflexivity.
Qed.

Lemma str_of_plain l : all_plain l -> str_of l = plain_of l.
Proof. intros H. apply emit_plain; [exact H|left; reflexivity]. Qed.

Lemma plain_no_esc l : Forall (fun c => no_esc (snd c)) l -> no_esc (plain_of l).
Proof.
  induction 1 as [|c l Hc Hl IH]; [intros []|].
  unfold plain_of. cbn [map concat]. fold (plain_of l). intros Hin.
  apply in_app_or in Hin as [Hin|Hin]; [exact (Hc Hin)|exact (IH Hin)].
Qed.

(* recolouring keeps the texts: the layout does not depend on the palette *)
Definition same_texts (a b : list chunk) : Prop := map snd a = map snd b.

Lemma same_texts_plain a b : same_texts a b -> plain_of a = plain_of b.
Proof. unfold same_texts, plain_of. intros ->. reflexivity. Qed.

Lemma strip_layout_l col plain :
  Forall chunk_ok col -> all_plain plain -> same_texts col plain ->
  strip (str_of col) = str_of plain /\ no_esc (str_of plain).
Proof.
  intros Hc Hp Hs. rewrite strip_str_of by exact Hc. rewrite str_of_plain by exact Hp.
  split; [apply same_texts_plain; exact Hs|].
  rewrite <- (same_texts_plain _ _ Hs). apply plain_no_esc.
  eapply Forall_impl; [|exact Hc]. intros c [_ H]. exact H.
Qed.

(* ------------------------------------------------------------------ *)
(* whole text = lines joined by "\n"                                    *)

Lemma emit_some_nil l : emit (Some []) l = emit None l.
Proof.
  destruct l as [|[p t] l]; [reflexivity|].
  cbn [emit]. destruct t as [|c t']; [|].
  - revert p. induction l as [|[p' t'] l IH]; intros p; [reflexivity|].
    cbn [emit]. destruct t' as [|c t'']; [apply (IH p')|].
    destruct (list_eqb [] p') eqn:E; [apply list_eqb_eq in E; subst p'|]; reflexivity.
  - destruct (list_eqb [] p) eqn:E; [apply list_eqb_eq in E; subst p|]; reflexivity.
Qed.

Lemma emit_app_nl l1 l2 cur :
  emit cur (l1 ++ nl_chunk :: l2) = emit cur l1 ++ NL ++ emit None l2.
Proof.
  revert cur. induction l1 as [|[p t] l1 IH]; intros cur.
  - cbn [app emit nl_chunk NL]. unfold nl_chunk, NL. cbn [emit].
    destruct cur as [q|]; cbn [close].
    + destruct (list_eqb q []) eqn:E.
      * apply list_eqb_eq in E. subst q. cbn [suffix_of app]. rewrite emit_some_nil. reflexivity.
      * cbn [app]. rewrite emit_some_nil. reflexivity.
    + cbn [app]. rewrite emit_some_nil. reflexivity.
  - cbn [app emit]. destruct t as [|c t']; [apply IH|].
    destruct cur as [q|].
    + destruct (list_eqb q p); rewrite IH; rewrite <- ?app_assoc; reflexivity.
    + rewrite IH. rewrite <- ?app_assoc. reflexivity.
Qed.

Lemma whole_eq_lines_l ls : str_of (join_chunks ls) = join_lines (map str_of ls).
Proof.
  induction ls as [|l ls IH]; [reflexivity|].
  destruct ls as [|l' ls']; [reflexivity|].
  change (join_chunks (l :: l' :: ls')) with (l ++ nl_chunk :: join_chunks (l' :: ls')).
  change (join_lines (map str_of (l :: l' :: ls'))) with (str_of l ++ NL ++ join_lines (map str_of (l' :: ls'))).
  unfold str_of at 1. rewrite emit_app_nl. fold (str_of (join_chunks (l' :: ls'))). rewrite IH. reflexivity.
Qed.
