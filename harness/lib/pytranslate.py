"""harness/lib/pytranslate.py -- fail-closed Python-`ast` -> Gallina translator (library).

Turns selected functions / methods / expressions of a Python source file into Coq definitions over the vocabulary of
coq/Common/PyLib.v (one `py_*` definition per Python construct) and the `res` monad of coq/Common/Err.v.  A property's
`gen_consts` writes the result to coq/gen/<Cnn>_Translated.v on every run, so that an equivalence proof (translated function
= hand model, on all inputs) and the property theorems restated for the translated functions are re-checked against what
the source says NOW.  Anything outside the subset below raises `Unsupported` (the client reports "proof step broken").

API
  Translator(source_text, Config(...))            parse; nothing is translated yet
    .add_function("name" | "Class.method", [param types], self_attrs={attr: type})   translate it and what it calls
    .add_expression("coq_name", ast_expr, [(python expression text, coq binder, type), ...])
                                                  an expression as a function of the listed sub-expressions
    .add_block("coq_name", [stmts], [(local name or expression text, None, type), ...])
                                                  a statement list (ending in return on every path) as a function
    .whole_module(entry)                          every top-level statement must be in the subset (C20 mode)
    .check_hygiene()                              the rest of the module does not rebind / mutate what was used
    .emit(title) -> coq text
  translate_functions(source_path, names, ...)    the above in one call
  stub(...)                                       text written when the source is outside the subset

Supported subset (everything else raises `Unsupported`):
  module level   (whole-module mode) docstring; `import <allowed module>`; `NAME = <pure expression>` (each name once);
                 plain `def`.  (selected mode) the named functions / methods, the module constants and class attribute
                 constants (`Cls.NAME`, `cls.NAME`) they read; check_hygiene(): those names are bound exactly once,
                 never stored to / mutated / named in a string anywhere in the module, builtins used are not rebound.
  functions      no decorators except @classmethod / @staticmethod; literal defaults; no *args/**kwargs, nested defs,
                 lambdas, recursion, global/nonlocal, yield, with, del.  Methods become functions: `cls` / `self` is
                 dropped, `cls.f(..)` / `Cls.f(..)` are calls of the translated f, `self.attr` may only be READ and
                 becomes an explicit parameter (self_attrs).
  types          int -> Z, bool, str / bytes -> list Z, None, Optional[T] (`x is None` = case split), list[T] (also for tuples used as sequences), dict[K, V]
                 (K in int/str) as association list, fixed-size tuples, external types of the Config (e.g. uuid.UUID),
                 `obj` ("a str or not": PyStr / PyOther, split at function entry), `dyn` = pyval (None / bool / int /
                 float / str / tuple / list / other object) for values whose type is only known at run time:
                 isinstance(x, C) / type(x) is C on a `dyn` variable is a case split (match) and x has the static type
                 in the arm; other operations on dyn go through py_*_dyn (TypeError etc. as data).
  expressions    int/str/bool/None literals; names; + - * // % divmod unary-; ** and << by a literal; str + str,
                 str * int, list + list; == != < <= > >= (int, bool as int, str ==), chains of pure comparisons;
                 in / not in over list, tuple/list literal, dict; is / is not None; and / or / not (short circuit);
                 x if c else y; len; isinstance(x, C | (C, ...)), type(x) is C for C in str int bool list tuple float;
                 seq[i], [a:b], [::-1], dict[k]; list.index; str.rjust/ljust/strip/lstrip/rstrip/join/startswith/
                 endswith/encode(); str(x), int(x) (ASCII decimal text), any / all over a generator; sorted(it[, key=own function]);
                 list(it), dict(it),
                 tuple(it); list / tuple / dict literals; f-strings and "..".format(..) with fields {} {0} {:spec},
                 spec = [[fill]align][0][width][d|s] on int / bool / str; one-`for` comprehensions with pure element;
                 iterables str, list, reversed, enumerate, range, zip; own functions (positional, keyword, defaults);
                 the external calls / attributes of the Config.
  statements     assignment to a name / tuple of names (also from a list: ValueError on a wrong length), augmented
                 assignment on int/str, `lst.append(x)` on a list created in the function and used nowhere as a value,
                 if/elif/else (joined when both branches fall through with the same variable types, else the
                 continuation is duplicated), pass, assert, return, raise Class[(harmless message)] [from name], bare
                 raise, try/except Class | (Class, ...) [as name] (no else/finally), while -> Fixpoint on `fuel`
                 (`Err Hang` when it runs out), for -> structural Fixpoint (no else/break/continue/return inside loops)
  exceptions     ValueError KeyError IndexError TypeError AssertionError AttributeError (+ LookupError, Exception in
                 except clauses); ZeroDivisionError / unmodelled operations are OtherErr, caught only by `except Exception`
Every translated function takes `[(L : <lib record>)] (fuel : nat)` first, whether it needs them or not.
"""
import ast
import re
import sys

PREFIX = "T_"      # translated module-level names
VPREFIX = "v_"     # translated local names

EXC_RAISE = {"ValueError": "ValueErr", "KeyError": "KeyErr", "IndexError": "IndexErr", "TypeError": "TypeErr",
             "AssertionError": "AssertErr", "AttributeError": "AttrErr"}
EXC_CATCH = dict({k: [v] for k, v in EXC_RAISE.items()},
                 LookupError=["KeyErr", "IndexErr"],
                 Exception=["ValueErr", "KeyErr", "IndexErr", "AssertErr", "AttrErr", "TypeErr", "OtherErr"])
IDENT = re.compile(r"^[A-Za-z_][A-Za-z0-9_]*$")
# names whose builtin meaning the translator relies on: the module must not rebind them
RESERVED = {"len", "divmod", "isinstance", "type", "list", "dict", "tuple", "reversed", "enumerate", "range", "zip", "str",
            "int", "bool", "float", "any", "all", "True", "False", "None"} | set(EXC_CATCH)
MUTATORS = {"append", "extend", "insert", "pop", "remove", "clear", "update", "setdefault", "popitem", "sort", "reverse",
            "add", "discard", "__setitem__", "__delitem__", "__setattr__"}
CLASSES = {"str", "int", "bool", "list", "tuple", "float"}


class Unsupported(Exception):
    """the source leaves the supported subset"""


class Impure(Exception):
    """internal: an expression that may raise / splits cases occurs where only a pure one can be translated"""


class RetMismatch(Exception):
    """internal: the function returns values of several static types (retry returning pyval)"""


class Config:
    def __init__(self, source_name="<source>", lib_binder="", lib_arg="", ext_types=None, ext_calls=None, ext_attrs=None,
                 imports=(), coq_imports=("Common.PyLib",), prefix=PREFIX):
        self.source_name = source_name
        self.lib_binder, self.lib_arg = lib_binder, lib_arg       # "(L : uuid_lib)", "L"
        self.ext_types = dict(ext_types or {})                    # python-level type name -> Coq type
        self.ext_calls = dict(ext_calls or {})                    # (module, func, npos, (kw, ...)) -> (coq head, [types], type)
        self.ext_attrs = dict(ext_attrs or {})                    # (type, attr) -> (coq head, type)
        self.imports = set(imports)
        self.coq_imports = list(coq_imports)
        self.prefix = prefix

    @property
    def head_binders(self):
        return (" " + self.lib_binder if self.lib_binder else "") + " (fuel : nat)"

    @property
    def head_args(self):
        return ([self.lib_arg] if self.lib_arg else []) + ["fuel"]


_SRC = ["<source>"]


def bad(node, why):
    line = getattr(node, "lineno", "?")
    raise Unsupported(f"{_SRC[0]} line {line}: {why} [{type(node).__name__}]")


def ind(text, n=2):
    return "\n".join((" " * n + l) if l else l for l in text.split("\n"))


def zlit(v):
    return str(v) if v >= 0 else f"({v})"


def strlit(s):
    return "([] : list Z)" if not s else "[" + "; ".join(str(ord(c)) for c in s) + "]"


def is_list(t):
    return isinstance(t, tuple) and t[0] == "list"


def is_dict(t):
    return isinstance(t, tuple) and t[0] == "dict"


def is_tuple(t):
    return isinstance(t, tuple) and t[0] == "tuple"


def same_type(a, b):
    """equal up to the element type of an empty list literal"""
    if a == b:
        return True
    if is_list(a) and is_list(b):
        return a[1] == "?" or b[1] == "?" or same_type(a[1], b[1])
    if is_tuple(a) and is_tuple(b) and len(a[1]) == len(b[1]):
        return all(same_type(x, y) for x, y in zip(a[1], b[1]))
    return False


def join_type(a, b):
    if is_list(a) and is_list(b):
        return b if a[1] == "?" else a
    return a


def tuple_pat(names):
    if not names:
        return "_"
    if len(names) == 1:
        return names[0]
    return "'(" + ", ".join(names) + ")"


def tuple_term(names):
    if not names:
        return "tt"
    if len(names) == 1:
        return names[0]
    return "(" + ", ".join(names) + ")"


def assigned_names(stmts):
    out = []

    def tgt(t):
        if isinstance(t, ast.Name):
            out.append(t.id)
        elif isinstance(t, (ast.Tuple, ast.List)):
            for x in t.elts:
                tgt(x)

    for n in stmts:
        for s in ast.walk(n):
            if isinstance(s, ast.Assign):
                for t in s.targets:
                    tgt(t)
            elif isinstance(s, (ast.AugAssign, ast.AnnAssign, ast.For)):
                tgt(s.target)
            elif isinstance(s, ast.ExceptHandler) and s.name:
                out.append(s.name)
            elif isinstance(s, ast.NamedExpr):
                tgt(s.target)
            elif (isinstance(s, ast.Expr) and isinstance(s.value, ast.Call) and isinstance(s.value.func, ast.Attribute)
                  and s.value.func.attr == "append" and isinstance(s.value.func.value, ast.Name)):
                out.append(s.value.func.value.id)
    return out


def loaded_names(nodes):
    return {n.id for top in nodes for n in ast.walk(top) if isinstance(n, ast.Name)}


def falls_through(stmts):
    if not stmts:
        return True
    last = stmts[-1]
    if isinstance(last, (ast.Return, ast.Raise)):
        return False
    if isinstance(last, ast.If):
        return falls_through(last.body) or falls_through(last.orelse)
    return True


def contains(stmts, kinds):
    return any(isinstance(n, kinds) for top in stmts for n in ast.walk(top))


def parse_spec(spec, kind, node):
    """format spec -> (fill code point, align code point, width) for kind 'int' / 'str'"""
    m = re.match(r"^(?:(.)?([<>^=]))?(0)?(\d+)?([ds])?$", spec, re.S)
    if not m:
        bad(node, f"format spec {spec!r}")
    fill, align, zero, width, ty = m.groups()
    if ty and ty != {"int": "d", "str": "s"}[kind]:
        bad(node, f"format type {ty!r} on {kind}")
    if align == "=" and kind == "str":
        bad(node, "'=' alignment on a str")
    if align is None:
        if zero:
            fill, align = "0", ("=" if kind == "int" else "<")
        else:
            fill, align = " ", (">" if kind == "int" else "<")
    elif fill is None:
        fill = "0" if zero else " "
    return ord(fill), ord(align), int(width or 0)


def parse_format_template(s, node):
    """'a{}b{0:04}' -> [('lit', 'a'), ('field', index or None, spec), ...]"""
    out, i, lit = [], 0, ""
    while i < len(s):
        c = s[i]
        if c == "{":
            if s[i + 1:i + 2] == "{":
                lit += "{"
                i += 2
                continue
            j = s.find("}", i)
            if j < 0:
                bad(node, "unbalanced { in a format string")
            body = s[i + 1:j]
            if "{" in body or "!" in body or "[" in body or "." in body.split(":", 1)[0]:
                bad(node, f"format field {{{body}}}")
            name, _, spec = body.partition(":")
            if name and not name.isdigit():
                bad(node, f"named format field {{{body}}}")
            if lit:
                out.append(("lit", lit))
                lit = ""
            out.append(("field", int(name) if name else None, spec))
            i = j + 1
        elif c == "}":
            if s[i + 1:i + 2] != "}":
                bad(node, "single } in a format string")
            lit += "}"
            i += 2
        else:
            lit += c
            i += 1
    if lit:
        out.append(("lit", lit))
    return out


class Ctl:
    """how `return` is rendered in the block being translated"""

    def __init__(self, fn, ret, handler_var=None):
        self.fn, self.ret, self.handler_var = fn, ret, handler_var

    def with_handler(self, var):
        return Ctl(self.fn, self.ret, var)


class Fn:
    """translation of one function / method / expression"""

    def __init__(self, mod, coqname, node, ptypes, cls=None, selfname=None, self_attrs=None, subst=None):
        self.mod, self.node, self.ptypes = mod, node, ptypes
        self.cfg = mod.cfg
        self.name = coqname
        self.cls, self.selfname = cls, selfname
        self.self_attrs = dict(self_attrs or {})
        self.subst = dict(subst or {})
        self.aux = []        # loop Fixpoints, in order
        self.ntmp = 0
        self.nloop = 0
        self.nver = 0
        self.rtype = None
        self.dyn_ret = False
        self.owned = set()   # local lists that are appended to (checked not to be aliased)

    # ---------------------------------------------------------------- helpers
    def snapshot(self):
        return (len(self.aux), self.ntmp, self.nloop, self.nver, self.rtype)

    def restore(self, snap):
        n, self.ntmp, self.nloop, self.nver, self.rtype = snap
        del self.aux[n:]

    def fresh(self, hint="t"):
        self.ntmp += 1
        return f"{hint}{self.ntmp}"

    def ctype(self, t):
        return self.mod.coq_type(t)

    def setvar(self, env, name, ty, node):
        if not IDENT.match(name):
            bad(node, f"identifier {name!r}")
        if name in self.mod.module_names or name == self.selfname:
            bad(node, f"local name {name} shadows a module-level name / the method's first parameter")
        self.nver += 1
        env2 = dict(env)
        env2[name] = (ty, self.nver)
        return env2

    def note_ret(self, ty, node):
        if self.dyn_ret:
            return
        if self.rtype is None:
            self.rtype = ty
        elif not same_type(self.rtype, ty):
            u = self.text_union(self.rtype, ty)
            if u is None:
                raise RetMismatch(f"line {getattr(node, 'lineno', '?')}: returns both {self.rtype} and {ty}")
            self.rtype = u
        else:
            self.rtype = join_type(self.rtype, ty)

    def text_union(self, a, b):
        """str and bytes returned from one function: 'text' (same representation; only len() is available on it)"""
        if same_type(a, b):
            return join_type(a, b)
        if {a, b} <= {"str", "bytes", "text"}:
            return "text"
        if is_tuple(a) and is_tuple(b) and len(a[1]) == len(b[1]):
            parts = [self.text_union(x, y) for x, y in zip(a[1], b[1])]
            return None if None in parts else ("tuple", tuple(parts))
        return None

    def inject(self, t, ty, node):
        """static value -> pyval"""
        if ty == "dyn":
            return t
        if ty == "int":
            return f"(VInt {t})"
        if ty == "bool":
            return f"(VBool {t})"
        if ty == "str":
            return f"(VStr {t})"
        if ty == "none":
            return "VNone"
        bad(node, f"a value of type {ty} where the type is only known at run time")

    def as_int(self, t, ty, node):
        if ty == "int":
            return t
        if ty == "bool":
            return f"(py_int_of_bool {t})"
        bad(node, f"{ty} where an int is needed")

    def bind(self, comp, ty, k, po, node, env):
        if po:
            raise Impure(f"line {getattr(node, 'lineno', '?')}: expression may raise")
        x = self.fresh()
        return f"bind ({comp}) (fun {x} =>\n{k(x, ty, env)})"

    def pure(self, e, env):
        box = []

        def k(t, ty, env2):
            box.append((t, ty))
            return "<HOLE>"
        out = self.expr(e, env, k, True)
        if out != "<HOLE>" or len(box) != 1:
            raise Impure("case split")
        return box[0]

    def pure_or_unsupported(self, e, env, what):
        try:
            return self.pure(e, env)
        except Impure as ex:
            bad(e, f"{what} must not be able to raise ({ex})")

    def eqb_for(self, t, node):
        if t == "int":
            return "Z.eqb"
        if t in ("str", "bytes"):
            return "py_str_eqb"
        if t == "bool":
            return "Bool.eqb"
        bad(node, f"equality on values of type {t}")

    # ---------------------------------------------------------------- names of the module / class
    def resolve_global(self, e):
        """Name / Cls.NAME / cls.NAME / self.attr -> ('const', key) | ('func', key) | ('selfattr', attr) | None"""
        if isinstance(e, ast.Name):
            if e.id in self.mod.func_nodes:
                return ("func", e.id)
            if e.id in self.mod.const_nodes:
                return ("const", e.id)
            return None
        if isinstance(e, ast.Attribute) and isinstance(e.value, ast.Name):
            base = e.value.id
            if base == self.selfname and self.selfname is not None:
                if self.selfname == "self" and e.attr in self.self_attrs:
                    return ("selfattr", e.attr)
                base = self.cls
            if base in self.mod.class_nodes:
                key = f"{base}.{e.attr}"
                if key in self.mod.func_nodes:
                    return ("func", key)
                if key in self.mod.const_nodes:
                    return ("const", key)
        return None

    # ---------------------------------------------------------------- expressions
    def exprs(self, es, env, k, po):
        """evaluate left to right; k([(term, type)], env)"""
        def go(i, acc, env_i):
            if i == len(es):
                return k(acc, env_i)
            return self.expr(es[i], env_i, lambda t, ty, e2: go(i + 1, acc + [(t, ty)], e2), po)
        return go(0, [], env)

    def cond(self, e, env, k, po=False):
        """expression in a boolean position -> k(bool term, 'bool', env)"""
        if isinstance(e, ast.BoolOp):
            return self.boolop(e, list(e.values), env, k, po, False)

        def conv(t, ty, env2):
            if ty == "bool":
                return k(t, "bool", env2)
            if ty == "int":
                return k(f"(py_truthy_int {t})", "bool", env2)
            if ty in ("str", "bytes") or is_list(ty):
                return k(f"(py_truthy_list {t})", "bool", env2)
            if ty == "none":
                return k("false", "bool", env2)
            if ty == "dyn":
                return self.bind(f"py_truthy {t}", "bool", k, po, e, env2)
            bad(e, f"truth value of {ty}")
        return self.expr(e, env, conv, po)

    def expr(self, e, env, k, po=False):
        key = ast.dump(e)
        if key in self.subst:
            t, ty = self.subst[key]
            return k(t, ty, env)
        if isinstance(e, ast.Constant):
            v = e.value
            if v is True or v is False:
                return k("true" if v else "false", "bool", env)
            if v is None:
                return k("tt", "none", env)
            if isinstance(v, int):
                return k(zlit(v), "int", env)
            if isinstance(v, str):
                return k(strlit(v), "str", env)
            bad(e, f"literal {v!r}")
        if isinstance(e, ast.Name):
            if e.id in env:
                ty = env[e.id][0]
                if ty in ("other", "exc"):
                    bad(e, f"use of {e.id}, which is not a str here")
                return k(VPREFIX + e.id, ty, env)
            g = self.resolve_global(e)
            if g and g[0] == "const":
                return k(self.mod.const_coqname(g[1]), self.mod.constant(g[1], e), env)
            bad(e, f"name {e.id} is not a local variable or a module constant")
        if isinstance(e, ast.Tuple):
            return self.exprs(e.elts, env, lambda xs, e2: k("(" + ", ".join(t for t, _ in xs) + ")" if len(xs) != 1 else xs[0][0],
                                                             ("tuple", tuple(ty for _, ty in xs)), e2), po)
        if isinstance(e, ast.List):
            def lst(xs, e2):
                if not xs:
                    return k("[]", ("list", "?"), e2)
                t0 = xs[0][1]
                if any(ty != t0 for _, ty in xs):
                    bad(e, "list literal with items of several types")
                return k("[" + "; ".join(t for t, _ in xs) + "]", ("list", t0), e2)
            return self.exprs(e.elts, env, lst, po)
        if isinstance(e, ast.Dict):
            if any(x is None for x in e.keys) or not e.keys:
                bad(e, "dict literal that is empty or uses **")
            def dct(xs, e2):
                ks, vs = xs[:len(e.keys)], xs[len(e.keys):]
                if len({ty for _, ty in ks}) != 1 or len({ty for _, ty in vs}) != 1:
                    bad(e, "dict literal with keys / values of several types")
                self.eqb_for(ks[0][1], e)
                return k("[" + "; ".join(f"({a}, {b})" for (a, _), (b, _) in zip(ks, vs)) + "]", ("dict", ks[0][1], vs[0][1]), e2)
            return self.exprs(list(e.keys) + list(e.values), env, dct, po)
        if isinstance(e, ast.JoinedStr):
            return self.fstring(e, env, k, po)
        if isinstance(e, ast.BinOp):
            return self.exprs([e.left, e.right], env, lambda xs, e2: self.binop(e, xs[0], xs[1], k, po, e2), po)
        if isinstance(e, ast.UnaryOp):
            if isinstance(e.op, ast.Not):
                def neg(t, _, e2):
                    return k({"true": "false", "false": "true"}.get(t, f"(negb {t})"), "bool", e2)
                return self.cond(e.operand, env, neg, po)
            if isinstance(e.op, ast.USub):
                def minus(t, ty, e2):
                    return k(f"(- {self.as_int(t, ty, e)})", "int", e2)
                return self.expr(e.operand, env, minus, po)
            bad(e, "unary operator")
        if isinstance(e, ast.BoolOp):
            return self.boolop(e, list(e.values), env, k, po, True)
        if isinstance(e, ast.Compare):
            return self.compare(e, env, k, po)
        if isinstance(e, ast.IfExp):
            return self.ifexp(e, env, k, po)
        if isinstance(e, ast.Subscript):
            return self.subscript(e, env, k, po)
        if isinstance(e, ast.Attribute):
            g = self.resolve_global(e)
            if g and g[0] == "const":
                return k(self.mod.const_coqname(g[1]), self.mod.constant(g[1], e), env)
            if g and g[0] == "selfattr":
                ty = env["self." + g[1]][0] if ("self." + g[1]) in env else self.self_attrs[g[1]]
                return k("a_" + g[1], ty, env)
            if isinstance(e.value, ast.Name) and e.value.id not in env and e.value.id in self.cfg.imports:
                bad(e, f"{e.value.id}.{e.attr} outside a supported call")

            def attr(t, ty, e2):
                if (ty, e.attr) in self.cfg.ext_attrs:
                    head, rt = self.cfg.ext_attrs[(ty, e.attr)]
                    return k(f"({head} {t})", rt, e2)
                bad(e, f"attribute .{e.attr} of {ty}")
            return self.expr(e.value, env, attr, po)
        if isinstance(e, ast.Call):
            return self.call(e, env, k, po)
        if isinstance(e, (ast.ListComp, ast.GeneratorExp, ast.DictComp)):
            return self.comprehension(e, env, k, po)
        bad(e, "expression form")

    def binop(self, e, a, b, k, po, env):
        (x, tx), (y, ty) = a, b
        op = e.op
        if "dyn" in (tx, ty):
            fn = {ast.Add: "py_add_dyn", ast.Sub: "py_sub_dyn", ast.Mult: "py_mul_dyn"}.get(type(op))
            if fn is None:
                bad(e, "operator on a value whose type is only known at run time")
            return self.bind(f"{fn} {self.inject(x, tx, e)} {self.inject(y, ty, e)}", "dyn", k, po, e, env)
        if tx in ("int", "bool") and ty in ("int", "bool"):
            x, y = self.as_int(x, tx, e), self.as_int(y, ty, e)
            if isinstance(op, ast.Add):
                return k(f"({x} + {y})", "int", env)
            if isinstance(op, ast.Sub):
                return k(f"({x} - {y})", "int", env)
            if isinstance(op, ast.Mult):
                return k(f"({x} * {y})", "int", env)
            if isinstance(op, ast.FloorDiv):
                return self.bind(f"py_floordiv {x} {y}", "int", k, po, e, env)
            if isinstance(op, ast.Mod):
                return self.bind(f"py_mod {x} {y}", "int", k, po, e, env)
            if isinstance(op, (ast.Pow, ast.LShift)):
                r = e.right
                if not (isinstance(r, ast.Constant) and isinstance(r.value, int) and not isinstance(r.value, bool)
                        and 0 <= r.value <= 4096):
                    bad(e, "** and << need a literal right operand in 0..4096")
                return k(f"({x} ^ {y})" if isinstance(op, ast.Pow) else f"(Z.shiftl {x} {y})", "int", env)
            bad(e, "integer operator")
        if isinstance(op, ast.Add) and same_type(tx, ty) and (tx in ("str", "bytes") or is_list(tx)):
            return k(f"({x} ++ {y})", join_type(tx, ty), env)
        if isinstance(op, ast.Mult) and tx == "str" and ty in ("int", "bool"):
            return k(f"(py_str_mul {x} {self.as_int(y, ty, e)})", "str", env)
        if isinstance(op, ast.Mult) and tx in ("int", "bool") and ty == "str":
            return k(f"(py_str_mul {y} {self.as_int(x, tx, e)})", "str", env)
        bad(e, f"operator on {tx} and {ty}")

    def boolop(self, e, values, env, k, po, strict):
        """strict: the value of `a or b` is used as a value, where Python yields one of the OPERANDS:
        only bool operands are translated then; in a boolean position truthiness is enough"""
        is_or = isinstance(e.op, ast.Or)
        first, rest = values[0], values[1:]

        def operand(x, env_x, kk, po_):
            if not strict:
                return self.cond(x, env_x, kk, po_)

            def only_bool(t, ty, e2):
                if ty != "bool":
                    bad(e, f"`and` / `or` used as a value with an operand of type {ty}")
                return kk(t, ty, e2)
            return self.expr(x, env_x, only_bool, po_)
        if not rest:
            return operand(first, env, k, po)

        def k1(a, _, env1):
            if a == ("true" if is_or else "false"):
                return k(a, "bool", env1)           # short circuit: the rest is never evaluated
            if a == ("false" if is_or else "true"):
                return self.boolop(e, rest, env1, k, po, strict)
            try:
                box = []
                out = self.boolop(e, rest, env1, lambda t, ty, e2: (box.append(t), "<HOLE>")[1], True, strict)
                if out != "<HOLE>" or len(box) != 1:
                    raise Impure("case split")
                b = box[0]
                return k(f"({a} || {b})" if is_or else f"({a} && {b})", "bool", env1)
            except Impure:
                if po:
                    raise
                inner = self.boolop(e, rest, env1, lambda t, ty, e2: f"Ok {t}", False, strict)
                x = self.fresh()
                comp = f"if {a} then Ok true else\n{ind(inner)}" if is_or else f"if {a} then\n{ind(inner)}\nelse Ok false"
                return f"bind ({comp}) (fun {x} =>\n{k(x, 'bool', env1)})"
        return operand(first, env, k1, po)

    def cmp_static(self, e, op, a, b):
        """comparison of two values of static type -> pure bool term"""
        (x, tx), (y, ty) = a, b
        if isinstance(op, (ast.Is, ast.IsNot)):
            if ty != "none":
                bad(e, "`is` with something other than None")
            t = "true" if tx == "none" else "false"
            return t if isinstance(op, ast.Is) else {"true": "false", "false": "true"}[t]
        if isinstance(op, (ast.In, ast.NotIn)):
            if is_list(ty) and (same_type(ty[1], tx) or ty[1] == "?"):
                t = f"(py_in {self.eqb_for(tx, e)} {x} {y})"
            elif is_dict(ty) and ty[1] == tx:
                t = f"(py_dict_has {self.eqb_for(tx, e)} {y} {x})"
            else:
                bad(e, f"`in` on {tx} and {ty}")
            return t if isinstance(op, ast.In) else f"(negb {t})"
        if tx in ("int", "bool") and ty in ("int", "bool") and (tx, ty) != ("bool", "bool"):
            x, y, tx, ty = self.as_int(x, tx, e), self.as_int(y, ty, e), "int", "int"
        if tx == "bool" and ty == "bool" and not isinstance(op, (ast.Eq, ast.NotEq)):
            x, y, tx, ty = self.as_int(x, tx, e), self.as_int(y, ty, e), "int", "int"
        if tx != ty:
            if "none" in (tx, ty) and isinstance(op, (ast.Eq, ast.NotEq)):
                return "false" if isinstance(op, ast.Eq) else "true"
            bad(e, f"comparison of {tx} with {ty}")
        if isinstance(op, (ast.Eq, ast.NotEq)):
            if tx == "none":
                return "true" if isinstance(op, ast.Eq) else "false"
            t = f"({self.eqb_for(tx, e)} {x} {y})"
            return t if isinstance(op, ast.Eq) else f"(negb {t})"
        if tx != "int":
            bad(e, f"ordering on {tx}")
        if isinstance(op, ast.Lt):
            return f"({x} <? {y})"
        if isinstance(op, ast.LtE):
            return f"({x} <=? {y})"
        if isinstance(op, ast.Gt):
            return f"({y} <? {x})"
        if isinstance(op, ast.GtE):
            return f"({y} <=? {x})"
        bad(e, "comparison operator")

    def cmp1(self, e, op, a, b, k, po, env):
        (x, tx), (y, ty) = a, b
        if "dyn" in (tx, ty):
            if isinstance(op, (ast.Is, ast.IsNot)):
                if ty != "none":
                    bad(e, "`is` with something other than None")
                t = f"(py_is_none {x})"
                return k(t if isinstance(op, ast.Is) else f"(negb {t})", "bool", env)
            if isinstance(op, (ast.In, ast.NotIn)):
                if tx == "dyn" and is_dict(ty) and ty[1] == "str":
                    def inn(t, _, e2):
                        return k(t if isinstance(op, ast.In) else f"(negb {t})", "bool", e2)
                    return self.bind(f"py_strdict_has_dyn {y} {x}", "bool", inn, po, e, env)
                bad(e, f"`in` on {tx} and {ty}")
            xi, yi = self.inject(x, tx, e), self.inject(y, ty, e)
            comp = {ast.Lt: f"py_lt_dyn {xi} {yi}", ast.LtE: f"py_le_dyn {xi} {yi}", ast.Gt: f"py_lt_dyn {yi} {xi}",
                    ast.GtE: f"py_le_dyn {yi} {xi}", ast.Eq: f"py_eq_dyn {xi} {yi}", ast.NotEq: f"py_eq_dyn {xi} {yi}"}.get(type(op))
            if comp is None:
                bad(e, "comparison operator")

            def res(t, _, e2):
                return k(f"(negb {t})" if isinstance(op, ast.NotEq) else t, "bool", e2)
            return self.bind(comp, "bool", res, po, e, env)
        return k(self.cmp_static(e, op, a, b), "bool", env)

    def compare(self, e, env, k, po):
        if len(e.ops) == 1:
            op, right = e.ops[0], e.comparators[0]
            if isinstance(op, (ast.In, ast.NotIn)) and isinstance(right, (ast.Tuple, ast.List)):
                # x in (a, b, c): a literal sequence
                def lit(xs, e2):
                    (x, tx), items = xs[0], xs[1:]
                    if tx == "dyn" or any(not same_type(ty, tx) for _, ty in items):
                        bad(e, "`in` over a literal whose items do not have the type of the left operand")
                    t = f"(py_in {self.eqb_for(tx, e)} {x} [{'; '.join(t for t, _ in items)}])"
                    return k(t if isinstance(op, ast.In) else f"(negb {t})", "bool", e2)
                return self.exprs([e.left] + list(right.elts), env, lit, po)
            var = None
            if isinstance(e.left, ast.Name) and e.left.id in env:
                var = (e.left.id, VPREFIX + e.left.id)
            elif isinstance(e.left, ast.Attribute):
                g = self.resolve_global(e.left)
                if g and g[0] == "selfattr" and ("self." + g[1]) in env:
                    var = ("self." + g[1], "a_" + g[1])
            if (isinstance(op, (ast.Is, ast.IsNot)) and isinstance(right, ast.Constant) and right.value is None
                    and var is not None and isinstance(env[var[0]][0], tuple) and env[var[0]][0][0] == "opt"):
                # x is None on an Optional[T] variable / self attribute: case split; x has type T / None in the arms
                if po:
                    raise Impure("case split")
                name, cv = var
                (_, inner), ver = env[name]
                e_none, e_some = dict(env), dict(env)
                e_none[name] = ("none", ver)
                e_some[name] = (inner, ver)
                yes, no = ("true", "false") if isinstance(op, ast.Is) else ("false", "true")
                return (f"match {cv} with\n| None =>\n{ind(k(yes, 'bool', e_none), 4)}\n"
                        f"| Some {cv} =>\n{ind(k(no, 'bool', e_some), 4)}\nend")
            if (isinstance(op, (ast.Is, ast.IsNot, ast.Eq, ast.NotEq)) and isinstance(e.left, ast.Call)
                    and isinstance(e.left.func, ast.Name) and e.left.func.id == "type" and "type" not in env
                    and len(e.left.args) == 1 and not e.left.keywords):
                # type(x) is C
                def neg(t, ty, e2):
                    if isinstance(op, (ast.Is, ast.Eq)):
                        return k(t, ty, e2)
                    return k({"true": "false", "false": "true"}.get(t, f"(negb {t})"), ty, e2)
                return self.isinstance_(e, e.left.args[0], right, env, neg, po, exact=True)
            return self.exprs([e.left, right], env, lambda xs, e2: self.cmp1(e, op, xs[0], xs[1], k, po, e2), po)
        operands = [self.pure_or_unsupported(x, env, "an operand of a chained comparison") for x in [e.left] + e.comparators]
        if any(ty == "dyn" for _, ty in operands):
            bad(e, "chained comparison on a value whose type is only known at run time")
        parts = [self.cmp_static(e, op, operands[i], operands[i + 1]) for i, op in enumerate(e.ops)]
        return k("(" + " && ".join(parts) + ")", "bool", env)

    def ifexp(self, e, env, k, po):
        def k1(c, _, env1):
            if c == "true":
                return self.expr(e.body, env1, k, po)
            if c == "false":
                return self.expr(e.orelse, env1, k, po)
            try:
                (a, ta), (b, tb) = self.pure(e.body, env1), self.pure(e.orelse, env1)
                if not same_type(ta, tb):
                    a, b, ta = self.inject(a, ta, e), self.inject(b, tb, e), "dyn"
                return k(f"(if {c} then {a} else {b})", join_type(ta, tb) if ta != "dyn" else "dyn", env1)
            except Impure:
                if po:
                    raise
            snap = self.snapshot()
            tys = []
            self.expr(e.body, env1, lambda t, ty, e2: (tys.append(ty), "X")[1], False)
            self.expr(e.orelse, env1, lambda t, ty, e2: (tys.append(ty), "X")[1], False)
            self.restore(snap)
            dyn = len({self.ctype(t) for t in tys}) != 1 or not all(same_type(tys[0], t) for t in tys)
            a = self.expr(e.body, env1, lambda t, ty, e2: f"Ok {self.inject(t, ty, e) if dyn else t}", False)
            b = self.expr(e.orelse, env1, lambda t, ty, e2: f"Ok {self.inject(t, ty, e) if dyn else t}", False)
            x = self.fresh()
            return f"bind (if {c} then\n{ind(a)}\nelse\n{ind(b)}) (fun {x} =>\n{k(x, 'dyn' if dyn else tys[0], env1)})"
        return self.cond(e.test, env, k1, po)

    def subscript(self, e, env, k, po):
        sl = e.slice
        if isinstance(sl, ast.Slice):
            def with_value(v, tv, env1):
                if not (tv in ("str", "bytes") or is_list(tv)):
                    bad(e, f"slice of {tv}")
                if sl.step is not None:
                    st = sl.step
                    if (isinstance(st, ast.UnaryOp) and isinstance(st.op, ast.USub) and isinstance(st.operand, ast.Constant)
                            and st.operand.value == 1 and sl.lower is None and sl.upper is None):
                        return k(f"(rev {v})", tv, env1)
                    bad(e, "slice with a step (only [::-1] is supported)")
                bounds = [b for b in (sl.lower, sl.upper) if b is not None]

                def with_bounds(xs, env2):
                    xs = [(self.as_int(t, ty, e), "int") for t, ty in xs]
                    lo = f"(Some {xs.pop(0)[0]})" if sl.lower is not None else "None"
                    hi = f"(Some {xs.pop(0)[0]})" if sl.upper is not None else "None"
                    return k(f"(py_slice {v} {lo} {hi})", tv, env2)
                return self.exprs(bounds, env1, with_bounds, po)
            return self.expr(e.value, env, with_value, po)

        def with_both(xs, env1):
            (v, tv), (i, ti) = xs
            if tv == "str" and ti in ("int", "bool"):
                return self.bind(f"py_str_get {v} {self.as_int(i, ti, e)}", "str", k, po, e, env1)
            if is_list(tv) and ti in ("int", "bool"):
                if tv[1] == "?":
                    bad(e, "subscript of a list that is known to be empty")
                return self.bind(f"py_list_get {v} {self.as_int(i, ti, e)}", tv[1], k, po, e, env1)
            if is_dict(tv) and ti == tv[1]:
                return self.bind(f"py_dict_get {self.eqb_for(ti, e)} {v} {i}", tv[2], k, po, e, env1)
            if is_dict(tv) and tv[1] == "str" and ti == "dyn":
                return self.bind(f"py_strdict_get_dyn {v} {i}", tv[2], k, po, e, env1)
            bad(e, f"subscript of {tv} with {ti}")
        return self.exprs([e.value, sl], env, with_both, po)

    def iterable(self, e, env, k, po):
        """k(term : list T, T, env)"""
        if isinstance(e, ast.Call) and isinstance(e.func, ast.Name) and e.func.id not in env and not e.keywords:
            f, args = e.func.id, e.args
            if f == "reversed" and len(args) == 1:
                return self.iterable(args[0], env, lambda t, ty, e2: k(f"(rev {t})", ty, e2), po)
            if f == "enumerate" and len(args) in (1, 2):
                def enum(t, ty, env1):
                    if len(args) == 1:
                        return k(f"(py_enumerate_from 0 {t})", ("tuple", ("int", ty)), env1)

                    def with_start(s, ts, env2):
                        return k(f"(py_enumerate_from {self.as_int(s, ts, e)} {t})", ("tuple", ("int", ty)), env2)
                    return self.expr(args[1], env1, with_start, po)
                return self.iterable(args[0], env, enum, po)
            if f == "range" and len(args) in (1, 2):
                def rng(xs, env1):
                    xs = [self.as_int(t, ty, e) for t, ty in xs]
                    lo, hi = ("0", xs[0]) if len(xs) == 1 else (xs[0], xs[1])
                    return k(f"(py_range {lo} {hi})", "int", env1)
                return self.exprs(args, env, rng, po)
            if f == "zip" and len(args) == 2:
                return self.iterable(args[0], env, lambda a, ta, e1: self.iterable(
                    args[1], e1, lambda b, tb, e2: k(f"(combine {a} {b})", ("tuple", (ta, tb)), e2), po), po)

        def plain(t, ty, env1):
            if ty == "str":
                return k(f"(py_chars {t})", "str", env1)
            if is_list(ty):
                return k(t, ty[1], env1)
            if ty == "dyn":
                return self.bind(f"py_iter_dyn {t}", ("list", "dyn"), lambda x, _, e2: k(x, "dyn", e2), po, e, env1)
            if is_tuple(ty) and len(set(ty[1])) == 1:
                bad(e, "iteration over a fixed-size tuple value (use a list)")
            bad(e, f"iteration over {ty}")
        return self.expr(e, env, plain, po)

    def target_pattern(self, tgt, ty, env, node):
        """-> (coq pattern without the leading quote, env')"""
        if isinstance(tgt, ast.Name):
            if tgt.id in env:
                bad(node, f"loop / comprehension variable {tgt.id} re-uses an existing name")
            return VPREFIX + tgt.id, self.setvar(env, tgt.id, ty, node)
        if isinstance(tgt, ast.Tuple) and is_tuple(ty) and len(ty[1]) == len(tgt.elts):
            pats = []
            for x, tx in zip(tgt.elts, ty[1]):
                p, env = self.target_pattern(x, tx, env, node)
                pats.append(p)
            return "(" + ", ".join(pats) + ")", env
        bad(node, f"target does not match items of type {ty}")

    def comprehension(self, e, env, k, po):
        if len(e.generators) != 1 or e.generators[0].is_async:
            bad(e, "comprehension with several `for`")
        g = e.generators[0]

        def with_iter(it, telt, env1):
            if telt == "?":
                return k("[]", ("list", "?") if not isinstance(e, ast.DictComp) else bad(e, "dict comprehension over an empty list"), env1)
            pat, env2 = self.target_pattern(g.target, telt, env1, e)
            fun = f"fun '{pat}" if pat.startswith("(") else f"fun {pat}"
            for c in g.ifs:
                ct, cty = self.pure_or_unsupported(c, env2, "a comprehension condition")
                if cty != "bool":
                    bad(c, "comprehension condition must be a bool")
                it = f"(filter ({fun} => {ct}) {it})"
            if isinstance(e, ast.DictComp):
                (a, ta) = self.pure_or_unsupported(e.key, env2, "a comprehension element")
                (b, tb) = self.pure_or_unsupported(e.value, env2, "a comprehension element")
                self.eqb_for(ta, e)
                return k(f"(map ({fun} => ({a}, {b})) {it})", ("dict", ta, tb), env1)
            (a, ta) = self.pure_or_unsupported(e.elt, env2, "a comprehension element")
            return k(f"(map ({fun} => {a}) {it})", ("list", ta), env1)
        return self.iterable(g.iter, env, with_iter, po)

    # ---------------------------------------------------------------- isinstance / type tests
    def class_spec(self, node, env):
        names = [node] if isinstance(node, ast.Name) else list(node.elts) if isinstance(node, ast.Tuple) else None
        if names is None or not all(isinstance(n, ast.Name) and n.id in CLASSES and n.id not in env for n in names):
            bad(node, "class test with something other than str / int / bool / list / tuple / float")
        return {n.id for n in names}

    def isinstance_(self, e, arg, cls_node, env, k, po, exact=False):
        classes = self.class_spec(cls_node, env)
        if exact and len(classes) != 1:
            bad(e, "type(x) compared with a tuple")
        if isinstance(arg, ast.Name) and arg.id in env and env[arg.id][0] == "other":
            if classes != {"str"}:
                bad(e, "class test of an unknown object against something other than str")
            return k("false", "bool", env)
        if isinstance(arg, ast.Name) and arg.id in env and env[arg.id][0] == "dyn":
            return self.narrow(arg.id, classes, env, k, po, e, exact)

        def static(t, ty, env1):
            if ty == "dyn":
                bad(e, "class test of an expression (not a variable) whose type is only known at run time")
            if ty in self.cfg.ext_types or ty == "obj":
                bad(e, f"class test on {ty}")
            mine = {"int": {"int"}, "bool": {"bool"} if exact else {"bool", "int"}, "str": {"str"}}.get(ty)
            if mine is None and is_list(ty):
                mine = set()
                if classes & {"list", "tuple"}:
                    bad(e, "class test list / tuple on a value that may be either")
            if mine is None:
                mine = set()
            return k("true" if mine & classes else "false", "bool", env1)
        return self.expr(arg, env, static, po)

    def narrow(self, name, classes, env, k, po, node, exact):
        """case split on the constructor of a pyval variable; in each arm the variable has a static type"""
        if po:
            raise Impure("case split")
        v = VPREFIX + name
        ver = env[name][1]
        arms = []

        def arm(pat, ty):
            env2 = dict(env)
            env2[name] = (ty, ver)
            arms.append((pat, k("true", "bool", env2)))
        if "str" in classes:
            arm(f"VStr {v}", "str")
        if "int" in classes:
            arm(f"VInt {v}", "int")
            if not exact and "bool" not in classes:
                arm(f"VBool {v}", "bool")
        if "bool" in classes:
            arm(f"VBool {v}", "bool")
        seqs = [c for c in ("tuple", "list") if c in classes]
        if seqs:
            arm(" | ".join(f"V{c.capitalize()} {v}" for c in seqs), ("list", "dyn"))
        if "float" in classes:
            arms.append(("VFloat _", k("true", "bool", env)))
        arms.append(("_", k("false", "bool", env)))
        return f"match {v} with\n" + "\n".join(f"| {p} =>\n{ind(b, 4)}" for p, b in arms) + "\nend"

    # ---------------------------------------------------------------- str(), f-strings, format
    def to_text(self, t, ty, spec, k, po, node, env):
        """the text of one format field -> k(str term, 'str', env)"""
        if ty == "str":
            if not spec:
                return k(t, "str", env)
            fill, align, width = parse_spec(spec, "str", node)
            return k(f"(py_format_str {fill} {align} {width} {t})", "str", env)
        if ty == "int" or (ty == "bool" and spec):
            t = self.as_int(t, ty, node)
            if not spec:
                return k(f"(py_str_of_int {t})", "str", env)
            fill, align, width = parse_spec(spec, "int", node)
            return k(f"(py_format_int {fill} {align} {width} {t})", "str", env)
        if ty == "bool":
            return k(f"(py_str_of_bool {t})", "str", env)
        if ty == "none" and not spec:
            return k(strlit("None"), "str", env)
        if ty == "dyn" and not spec:
            return self.bind(f"py_str_of_dyn {t}", "str", k, po, node, env)
        bad(node, f"formatting of {ty} with spec {spec!r}")

    def concat(self, parts, k, env):
        parts = [p for p in parts if p != "([] : list Z)"] or ["([] : list Z)"]
        t = parts[0]
        for p in parts[1:]:
            t = f"({t} ++ {p})"
        return k(t, "str", env)

    def fstring(self, e, env, k, po):
        items = []
        for v in e.values:
            if isinstance(v, ast.Constant) and isinstance(v.value, str):
                items.append(("lit", v.value))
            elif isinstance(v, ast.FormattedValue):
                if v.conversion not in (-1, 115):
                    bad(v, "!r / !a conversion in an f-string used as a value")
                spec = ""
                if v.format_spec is not None:
                    fs = v.format_spec
                    if not (isinstance(fs, ast.JoinedStr) and all(isinstance(x, ast.Constant) for x in fs.values)):
                        bad(v, "computed format spec")
                    spec = "".join(x.value for x in fs.values)
                items.append(("field", v.value, spec))
            else:
                bad(v, "f-string part")
        return self.format_items(e, items, env, k, po)

    def format_items(self, node, items, env, k, po):
        def go(i, acc, env_i):
            if i == len(items):
                return self.concat(acc, k, env_i)
            it = items[i]
            if it[0] == "lit":
                return go(i + 1, acc + [strlit(it[1])], env_i)
            return self.expr(it[1], env_i, lambda t, ty, e2: self.to_text(
                t, ty, it[2], lambda s, _, e3: go(i + 1, acc + [s], e3), po, node, e2), po)
        return go(0, [], env)

    def str_format(self, e, env, k, po):
        """"..{}..".format(a, b): arguments are evaluated left to right, then the fields are formatted in field order"""
        tpl = parse_format_template(e.func.value.value, e)
        if e.keywords:
            bad(e, "keyword arguments of str.format")
        auto = [f for f in tpl if f[0] == "field" and f[1] is None]
        manual = [f for f in tpl if f[0] == "field" and f[1] is not None]
        if auto and manual:
            bad(e, "automatic and manual field numbering mixed")
        n = 0
        fields = []
        for f in tpl:
            if f[0] == "field":
                idx = f[1] if f[1] is not None else n
                n += 1
                if idx >= len(e.args):
                    bad(e, "format field index out of range")
                fields.append(("field", idx, f[2]))
            else:
                fields.append(f)

        def with_args(xs, env1):
            def go(i, acc, env_i):
                if i == len(fields):
                    return self.concat(acc, k, env_i)
                f = fields[i]
                if f[0] == "lit":
                    return go(i + 1, acc + [strlit(f[1])], env_i)
                t, ty = xs[f[1]]
                return self.to_text(t, ty, f[2], lambda s, _, e3: go(i + 1, acc + [s], e3), po, e, env_i)
            return go(0, [], env1)
        return self.exprs(list(e.args), env, with_args, po)

    # ---------------------------------------------------------------- calls
    def call(self, e, env, k, po):
        f = e.func
        g = self.resolve_global(f) if isinstance(f, (ast.Name, ast.Attribute)) and not (isinstance(f, ast.Name) and f.id in env) else None
        if g and g[0] == "func":
            return self.call_own(e, g[1], env, k, po)
        if isinstance(f, ast.Name) and f.id not in env:
            name = f.id
            if name in self.mod.module_names:
                bad(e, f"call of {name}, which the module rebinds")
            if name == "sorted" and len(e.args) == 1 and all(kw.arg == "key" for kw in e.keywords) and len(e.keywords) <= 1:
                return self.sorted_(e, env, k, po)
            if e.keywords:
                bad(e, "keyword arguments")
            if name == "len" and len(e.args) == 1:
                def ln(t, ty, env1):
                    if ty in ("str", "bytes", "text") or is_list(ty):
                        return k(f"(py_len {t})", "int", env1)
                    if ty == "dyn":
                        return self.bind(f"py_len_dyn {t}", "int", k, po, e, env1)
                    bad(e, f"len of {ty}")
                return self.expr(e.args[0], env, ln, po)
            if name == "divmod" and len(e.args) == 2:
                def dm(xs, env1):
                    a, b = [self.as_int(t, ty, e) for t, ty in xs]
                    return self.bind(f"py_divmod {a} {b}", ("tuple", ("int", "int")), k, po, e, env1)
                return self.exprs(e.args, env, dm, po)
            if name == "isinstance" and len(e.args) == 2:
                return self.isinstance_(e, e.args[0], e.args[1], env, k, po)
            if name in ("list", "tuple") and len(e.args) == 1:
                return self.iterable(e.args[0], env, lambda t, ty, e2: k(t, ("list", ty), e2), po)
            if name == "dict" and len(e.args) == 1:
                def dct(t, ty, env1):
                    if not (is_tuple(ty) and len(ty[1]) == 2):
                        bad(e, "dict() of something that is not an iterable of pairs")
                    self.eqb_for(ty[1][0], e)
                    return k(t, ("dict", ty[1][0], ty[1][1]), env1)
                return self.iterable(e.args[0], env, dct, po)
            if name == "str" and len(e.args) == 1:
                return self.expr(e.args[0], env, lambda t, ty, e2: self.to_text(t, ty, "", k, po, e, e2), po)
            if name == "int" and len(e.args) == 1:
                def to_int(t, ty, env1):
                    if ty in ("int", "bool"):
                        return k(self.as_int(t, ty, e), "int", env1)
                    if ty == "str":
                        return self.bind(f"py_int_of_str {t}", "int", k, po, e, env1)
                    if ty == "dyn":
                        return self.bind(f"py_int_of_dyn {t}", "int", k, po, e, env1)
                    bad(e, f"int() of {ty}")
                return self.expr(e.args[0], env, to_int, po)
            if name in ("any", "all") and len(e.args) == 1 and isinstance(e.args[0], ast.GeneratorExp):
                return self.any_all(e, name, e.args[0], env, k, po)
            bad(e, f"call of {name}")
        if isinstance(f, ast.Attribute):
            if isinstance(f.value, ast.Name) and f.value.id not in env and f.value.id in self.cfg.imports \
                    and f.value.id in self.mod.imported:
                kws = tuple(kw.arg for kw in e.keywords)
                key = (f.value.id, f.attr, len(e.args), kws)
                if key not in self.cfg.ext_calls or None in kws:
                    bad(e, f"{f.value.id}.{f.attr} with these arguments is not one of the supported external calls")
                head, atypes, rtype = self.cfg.ext_calls[key]

                def ext(xs, env1):
                    for (t, ty), want in zip(xs, atypes):
                        if ty != want:
                            bad(e, f"{f.value.id}.{f.attr}: argument of type {ty}, {want} expected")
                    return self.bind(" ".join([head] + [t for t, _ in xs]), rtype, k, po, e, env1)
                return self.exprs(list(e.args) + [kw.value for kw in e.keywords], env, ext, po)
            meth = f.attr
            if meth == "format" and isinstance(f.value, ast.Constant) and isinstance(f.value.value, str):
                return self.str_format(e, env, k, po)
            if e.keywords:
                bad(e, "keyword arguments")
            if meth == "join" and len(e.args) == 1:
                def join(sep, tsep, env1):
                    if tsep != "str":
                        bad(e, f".join on {tsep}")

                    def joined(it, telt, env2):
                        if telt not in ("str", "?"):
                            bad(e, f"join of items of type {telt}")
                        return k(f"(py_join {sep} {it})", "str", env2)
                    return self.iterable(e.args[0], env1, joined, po)
                return self.expr(f.value, env, join, po)

            def method(xs, env1):
                (r, tr), args = xs[0], xs[1:]
                targs = [ty for _, ty in args]
                a = [t for t, _ in args]
                if tr == "str" and meth in ("rjust", "ljust") and targs in (["int"], ["int", "str"]):
                    fill = a[1] if len(a) == 2 else "[32]"
                    return self.bind(f"py_{meth} {r} {a[0]} {fill}", "str", k, po, e, env1)
                if tr == "str" and meth in ("strip", "lstrip", "rstrip") and targs == ["str"]:
                    return k(f"(py_{meth} {r} {a[0]})", "str", env1)
                if tr == "str" and meth in ("startswith", "endswith") and targs == ["str"]:
                    return k(f"(py_{meth} {r} {a[0]})", "bool", env1)
                if tr == "str" and meth == "encode" and (targs == [] or (targs == ["str"] and isinstance(e.args[0], ast.Constant)
                                                                         and e.args[0].value.lower().replace("_", "-") in ("utf-8", "utf8"))):
                    return self.bind(f"py_encode_utf8 {r}", "bytes", k, po, e, env1)
                if is_list(tr) and meth == "index" and len(targs) == 1 and same_type(targs[0], tr[1]):
                    return self.bind(f"py_list_index {self.eqb_for(tr[1], e)} {r} {a[0]}", "int", k, po, e, env1)
                bad(e, f"method .{meth} of {tr} with arguments {targs}")
            return self.exprs([f.value] + list(e.args), env, method, po)
        bad(e, "call")

    def lt_term(self, t, node):
        """Coq function K -> K -> bool for Python's < on values of static type t (int, bool as int, str, tuples of those)"""
        if t == "int":
            return "Z.ltb"
        if t == "str":
            return "py_str_ltb"
        if t == "bool":
            return "(fun a b => negb a && b)"
        if is_tuple(t) and t[1]:
            n = len(t[1])
            pa = "'(" + ", ".join(f"a{i}" for i in range(n)) + ")" if n > 1 else "a0"
            pb = "'(" + ", ".join(f"b{i}" for i in range(n)) + ")" if n > 1 else "b0"
            body = "false"
            for i in reversed(range(n)):
                lt = self.lt_term(t[1][i], node)
                last = i == n - 1
                body = (f"{lt} a{i} b{i}" if last else
                        f"if {lt} a{i} b{i} then true else if {lt} b{i} a{i} then false else {body}")
            return f"(fun {pa} {pb} => {body})"
        bad(node, f"ordering of values of type {t}")

    def sorted_(self, e, env, k, po):
        """sorted(it[, key=f]): all keys first (left to right), then the stable order by < on the keys"""
        keyfn = e.keywords[0].value if e.keywords else None

        def with_iter(it, telt, env1):
            if telt == "?":
                return k("[]", ("list", "?"), env1)
            if keyfn is None:
                return k(f"(py_sorted {self.lt_term(telt, e)} {it})", ("list", telt), env1)
            g = self.resolve_global(keyfn) if isinstance(keyfn, (ast.Name, ast.Attribute)) else None
            if not (g and g[0] == "func") or (isinstance(keyfn, ast.Name) and keyfn.id in env1):
                bad(e, "sorted(key=...) with something other than one of the module's functions")
            key = g[1]
            if self.mod.func_nodes[key][1] == "method":
                bad(e, "sorted(key=<instance method>)")
            ptypes = self.mod.signature(key, [telt], e)
            if len(ptypes) != 1 or not same_type(ptypes[0], telt):
                bad(e, f"key function {key} does not take one {telt}")
            kt = self.mod.function(key, e)
            head = " ".join([self.mod.func_coqname(key)] + self.cfg.head_args)
            return self.bind(f"py_sorted_by ({head}) {self.lt_term(kt, e)} {it}", ("list", telt), k, po, e, env1)
        return self.iterable(e.args[0], env, with_iter, po)

    def any_all(self, e, name, gen, env, k, po):
        if len(gen.generators) != 1 or gen.generators[0].ifs or gen.generators[0].is_async:
            bad(e, f"{name}() over a generator with `if` / several `for`")
        g = gen.generators[0]

        def with_iter(it, telt, env1):
            if telt == "?":
                return k("false" if name == "any" else "true", "bool", env1)
            pat, env2 = self.target_pattern(g.target, telt, env1, e)
            fun = f"fun '{pat}" if pat.startswith("(") else f"fun {pat}"
            try:
                ct, _ = self.pure_cond(gen.elt, env2)
                return k(f"({'existsb' if name == 'any' else 'forallb'} ({fun} => {ct}) {it})", "bool", env1)
            except Impure:
                if po:
                    raise
            body = self.cond(gen.elt, env2, lambda t, ty, e3: f"Ok {t}", False)
            x = self.fresh()
            return f"bind (py_{name} ({fun} =>\n{ind(body)}) {it}) (fun {x} =>\n{k(x, 'bool', env1)})"
        return self.iterable(g.iter, env, with_iter, po)

    def pure_cond(self, e, env):
        box = []
        out = self.cond(e, env, lambda t, ty, e2: (box.append((t, ty)), "<HOLE>")[1], True)
        if out != "<HOLE>" or len(box) != 1:
            raise Impure("case split")
        return box[0]

    def call_own(self, e, key, env, k, po):
        node, kind = self.mod.func_nodes[key]
        params = [a.arg for a in node.args.args]
        if kind in ("classmethod", "method"):
            params = params[1:]
        defaults = dict(zip(params[len(params) - len(node.args.defaults):], node.args.defaults))
        if kind == "method":
            bad(e, f"call of the instance method {key}")
        if len(e.args) > len(params) or any(isinstance(a, ast.Starred) for a in e.args):
            bad(e, f"{key} called with too many / starred arguments")
        given = dict(zip(params, e.args))
        for kw in e.keywords:
            if kw.arg is None or kw.arg not in params or kw.arg in given:
                bad(e, f"{key}: keyword argument {kw.arg}")
            given[kw.arg] = kw.value
        order = list(e.args) + [kw.value for kw in e.keywords]     # evaluation order
        for p in params:
            if p not in given:
                if p not in defaults:
                    bad(e, f"{key} called without {p}")
                given[p] = defaults[p]                               # literal defaults: no evaluation order issue

        def with_args(xs, env1):
            vals = {id(n): x for n, x in zip(order, xs)}
            rest = [p for p in params if id(given[p]) not in vals]

            def fill(i, env_i):
                if i == len(rest):
                    return finish(env_i)
                return self.expr(given[rest[i]], env_i, lambda t, ty, e2: (vals.__setitem__(id(given[rest[i]]), (t, ty)), fill(i + 1, e2))[1], po)

            def finish(env2):
                actual = [vals[id(given[p])] for p in params]
                ptypes = self.mod.signature(key, [ty for _, ty in actual], e)
                args = []
                for (t, ty), pt in zip(actual, ptypes):
                    if pt == "obj" and ty == "str":
                        args.append(f"(PyStr {t})")
                    elif pt == "dyn" and ty != "dyn":
                        args.append(self.inject(t, ty, e))
                    elif same_type(pt, ty):
                        args.append(t)
                    else:
                        bad(e, f"{key} called with {ty} where {pt} is expected")
                rtype = self.mod.function(key, e)
                return self.bind(" ".join([self.mod.func_coqname(key)] + self.cfg.head_args + args), rtype, k, po, e, env2)
            return fill(0, env1)
        return self.exprs(order, env, with_args, po)

    # ---------------------------------------------------------------- statements
    def assign(self, tgt, t, ty, env, cont, node):
        if isinstance(tgt, ast.Name):
            env2 = self.setvar(env, tgt.id, ty, node)
            return f"let {VPREFIX}{tgt.id} := {t} in\n{cont(env2)}"
        if isinstance(tgt, (ast.Tuple, ast.List)) and all(isinstance(x, ast.Name) for x in tgt.elts):
            names = [x.id for x in tgt.elts]
            if len(set(names)) != len(names):
                bad(node, f"cannot unpack into {names}")
            if is_tuple(ty) and len(ty[1]) == len(names):
                env2 = env
                for n, tn in zip(names, ty[1]):
                    env2 = self.setvar(env2, n, tn, node)
                return f"let '({', '.join(VPREFIX + n for n in names)}) := {t} in\n{cont(env2)}"
            if is_list(ty) and ty[1] != "?":
                env2 = env
                for n in names:
                    env2 = self.setvar(env2, n, ty[1], node)
                pat = "[" + "; ".join(VPREFIX + n for n in names) + "]"
                return f"match {t} with\n| {pat} =>\n{ind(cont(env2), 4)}\n| _ => Err ValueErr\nend"
            if ty == "dyn":
                x = self.fresh()
                env2 = env
                for n in names:
                    env2 = self.setvar(env2, n, "dyn", node)
                pat = "[" + "; ".join(VPREFIX + n for n in names) + "]"
                return (f"bind (py_iter_dyn {t}) (fun {x} =>\nmatch {x} with\n| {pat} =>\n{ind(cont(env2), 4)}\n"
                        f"| _ => Err ValueErr\nend)")
            bad(node, f"cannot unpack {ty} into {names}")
        bad(node, "assignment target")

    def harmless(self, n, env):
        """an expression inside an exception message: evaluating it cannot raise and has no effect"""
        if isinstance(n, ast.Constant):
            return True
        if isinstance(n, ast.Name):
            return n.id in env or n.id in self.mod.module_names or n.id == self.selfname
        if isinstance(n, ast.Attribute):
            return self.resolve_global(n) is not None
        if isinstance(n, ast.JoinedStr):
            return all(isinstance(v, ast.Constant) or (isinstance(v, ast.FormattedValue) and v.format_spec is None
                                                       and self.harmless(v.value, env)) for v in n.values)
        if isinstance(n, ast.Call) and not n.keywords:
            if isinstance(n.func, ast.Name) and n.func.id in ("type", "list", "repr", "str") and n.func.id not in env \
                    and len(n.args) == 1:
                return self.harmless(n.args[0], env)
            if isinstance(n.func, ast.Attribute) and n.func.attr == "keys" and not n.args:
                g = self.resolve_global(n.func.value)
                return bool(g and g[0] == "const")
        return False

    def harmless_message(self, args, env):
        for a in args:
            if not self.harmless(a, env):
                bad(a, "exception argument that is not a literal, a name or an f-string over names / type(x) / x!r")

    def block(self, stmts, env, k, ctl):
        if not stmts:
            return k(env)
        s, rest = stmts[0], stmts[1:]

        def cont(env2):
            return self.block(rest, env2, k, ctl)

        if isinstance(s, ast.Expr) and isinstance(s.value, ast.Constant) and isinstance(s.value.value, str):
            return cont(env)
        if isinstance(s, ast.Pass):
            return cont(env)
        if isinstance(s, ast.Expr) and isinstance(s.value, ast.Call) and isinstance(s.value.func, ast.Attribute) \
                and s.value.func.attr == "append" and isinstance(s.value.func.value, ast.Name):
            return self.append(s, env, cont)
        if isinstance(s, ast.Assign):
            if len(s.targets) != 1:
                bad(s, "chained assignment")
            return self.expr(s.value, env, lambda t, ty, e2: self.assign(s.targets[0], t, ty, e2, cont, s))
        if isinstance(s, ast.AugAssign):
            if not isinstance(s.target, ast.Name):
                bad(s, "augmented assignment target")
            load = ast.copy_location(ast.Name(id=s.target.id, ctx=ast.Load()), s)
            value = ast.copy_location(ast.BinOp(left=load, op=s.op, right=s.value), s)

            def aug(t, ty, e2):
                if ty != "int" and ty != "str":
                    bad(s, f"augmented assignment on {ty} (mutates the object in place)")
                return self.assign(s.target, t, ty, e2, cont, s)
            return self.expr(value, env, aug)
        if isinstance(s, ast.If):
            return self.cond(s.test, env, lambda c, _, e2: self.ifstmt(c, s, e2, cont, ctl))
        if isinstance(s, ast.Assert):
            if s.msg is not None:
                self.harmless_message([s.msg], env)
            return self.cond(s.test, env, lambda c, _, e2: f"if {c} then\n{ind(cont(e2))}\nelse Err AssertErr")
        if isinstance(s, ast.Return):
            if s.value is None:
                bad(s, "return without a value")
            return self.expr(s.value, env, lambda t, ty, e2: ctl.ret(t, ty, s))
        if isinstance(s, ast.Raise):
            if s.exc is None:
                if ctl.handler_var is None:
                    bad(s, "bare raise outside a handler")
                return f"Err {ctl.handler_var}"
            exc = s.exc
            args = []
            if isinstance(exc, ast.Call) and not exc.keywords:
                exc, args = exc.func, exc.args
            if not (isinstance(exc, ast.Name) and exc.id in EXC_RAISE and exc.id not in env):
                bad(s, "raise of something that is not one of " + ", ".join(EXC_RAISE))
            self.harmless_message(args, env)
            if s.cause is not None and not isinstance(s.cause, (ast.Name, ast.Constant)):
                bad(s, "raise ... from <expression>")
            return f"Err {EXC_RAISE[exc.id]}"
        if isinstance(s, ast.Try):
            return self.try_(s, env, cont, ctl)
        if isinstance(s, (ast.While, ast.For)):
            return self.loop(s, env, cont, ctl)
        bad(s, "statement form")

    def append(self, s, env, cont):
        name = s.value.func.value.id
        if name not in env or not is_list(env[name][0]) or len(s.value.args) != 1 or s.value.keywords:
            bad(s, f".append on {name}")
        if name not in self.owned:
            bad(s, f"{name}.append: the list is not known to be created in this function and unshared")
        telt = env[name][0][1]

        def app(t, ty, e2):
            if telt != "?" and not same_type(telt, ty):
                bad(s, f"{name}.append of {ty} to a list of {telt}")
            env3 = self.setvar(e2, name, ("list", ty), s)
            return f"let {VPREFIX}{name} := ({VPREFIX}{name} ++ [{t}]) in\n{cont(env3)}"
        return self.expr(s.value.args[0], env, app)

    def find_owned(self, body):
        """local lists that are appended to: created by a list literal / list(...) in this function and used only where
        no alias can arise (iteration, len, truth value, indexing, `in`, join, return)"""
        names = {n.value.func.value.id for st in body for n in ast.walk(st)
                 if isinstance(n, ast.Expr) and isinstance(n.value, ast.Call) and isinstance(n.value.func, ast.Attribute)
                 and n.value.func.attr == "append" and isinstance(n.value.func.value, ast.Name)}
        if not names:
            return set()
        parent = {}
        for st in body:
            for n in ast.walk(st):
                for c in ast.iter_child_nodes(n):
                    parent[c] = n
        for st in body:
            for n in ast.walk(st):
                if isinstance(n, ast.Assign) and any(isinstance(t, ast.Name) and t.id in names for t in n.targets):
                    if not (len(n.targets) == 1 and (isinstance(n.value, ast.List) or (
                            isinstance(n.value, ast.Call) and isinstance(n.value.func, ast.Name) and n.value.func.id == "list"))):
                        bad(n, "a list that is appended to must be created by a list literal or list(...)")
                if isinstance(n, (ast.AugAssign, ast.For, ast.NamedExpr)) and isinstance(n.target, ast.Name) and n.target.id in names:
                    bad(n, "a list that is appended to is re-bound")
                if isinstance(n, ast.Name) and n.id in names and isinstance(n.ctx, ast.Load):
                    p = parent.get(n)
                    ok = (isinstance(p, ast.Attribute) and p.attr == "append" and isinstance(parent.get(p), ast.Call)
                          and parent[p].func is p and isinstance(parent.get(parent[p]), ast.Expr)) \
                        or (isinstance(p, (ast.For, ast.comprehension)) and p.iter is n) \
                        or (isinstance(p, ast.Call) and isinstance(p.func, ast.Name) and p.func.id in ("len", "any", "all") and n in p.args) \
                        or (isinstance(p, ast.Call) and isinstance(p.func, ast.Attribute) and p.func.attr == "join" and n in p.args) \
                        or isinstance(p, (ast.If, ast.While, ast.BoolOp, ast.IfExp)) and getattr(p, "test", None) is n \
                        or isinstance(p, ast.BoolOp) or (isinstance(p, ast.UnaryOp) and isinstance(p.op, ast.Not)) \
                        or (isinstance(p, ast.Subscript) and p.value is n and isinstance(p.ctx, ast.Load)) \
                        or (isinstance(p, ast.Compare) and n in p.comparators and all(isinstance(o, (ast.In, ast.NotIn)) for o in p.ops)) \
                        or isinstance(p, ast.Return)
                    if not ok:
                        bad(n, f"the list {n.id} is appended to and also used as a value (possible alias)")
        return names

    def ifstmt(self, c, s, env, cont, ctl):
        if c == "true":
            return self.block(s.body, env, cont, ctl)
        if c == "false":
            return self.block(s.orelse, env, cont, ctl)
        if falls_through(s.body) and falls_through(s.orelse) and not contains(s.body + s.orelse, ast.Return):
            merged = self.merged_if(c, s, env, cont, ctl)
            if merged is not None:
                return merged
        a = self.block(s.body, env, cont, ctl)
        b = self.block(s.orelse, env, cont, ctl)
        return f"if {c} then\n{ind(a)}\nelse\n{ind(b)}"

    def merged_if(self, c, s, env, cont, ctl):
        """both branches fall through: `bind (if c then A; Ok state else B; Ok state) (fun state => rest)`, the rest once"""
        snap = self.snapshot()
        ver0 = self.nver
        ends = ([], [])
        try:
            self.block(s.body, env, lambda e2: (ends[0].append(e2), "X")[1], ctl)
            self.block(s.orelse, env, lambda e2: (ends[1].append(e2), "X")[1], ctl)
        except RetMismatch:
            raise
        finally:
            self.restore(snap)
        allends = ends[0] + ends[1]
        if not allends:
            return None
        changed = []
        for grp in ends:
            for e2 in grp:
                for n in sorted((n for n in e2 if e2[n][1] > ver0), key=lambda n: e2[n][1]):
                    if n not in changed:
                        changed.append(n)
        state, types = [], []
        for n in changed:
            tys = [e2[n][0] for e2 in allends if n in e2]
            everywhere = len(tys) == len(allends)
            t0 = tys[0]
            for t in tys[1:]:
                if not same_type(t0, t):
                    return None                   # fall back to duplicating the continuation
                t0 = join_type(t0, t)
            if everywhere:
                state.append(n)
                types.append(t0)
            elif n in env:
                return None                       # re-bound on some paths only, with the old value on the others: handled
                                                  # by duplication (the old binding is still in scope there)
        term = tuple_term([VPREFIX + n for n in state])

        def kb(e2):
            return f"Ok {term}"
        a = self.block(s.body, env, kb, ctl)
        b = self.block(s.orelse, env, kb, ctl)
        env2 = {n: v for n, v in env.items()}
        for n in changed:
            if n not in state:
                env2.pop(n, None)
        for n, t in zip(state, types):
            env2 = self.setvar(env2, n, t, s)
        pat = tuple_pat([VPREFIX + n for n in state])
        return f"bind (if {c} then\n{ind(a)}\nelse\n{ind(b)}) (fun {pat} =>\n{cont(env2)})"

    def try_(self, s, env, cont, ctl):
        if s.orelse or s.finalbody or not s.handlers:
            bad(s, "try with else / finally / without handlers")
        has_ret = contains(s.body, ast.Return)
        falls = falls_through(s.body)
        ver0 = self.nver
        state = {}

        def k_body(env_end):
            names = sorted([n for n in env_end if env_end[n][1] > ver0], key=lambda n: env_end[n][1])
            types = [env_end[n][0] for n in names]
            if state and (state["names"], state["types"]) != (names, types):
                bad(s, "the paths through the try body define different variables")
            state.update(names=names, types=types)
            t = tuple_term([VPREFIX + n for n in names])
            return f"Ok (Next {t})" if has_ret else f"Ok {t}"

        def ret_body(t, ty, node):
            self.note_ret(ty, node)
            if self.dyn_ret:
                t = self.inject(t, ty, node)
            return f"Ok (Return {t})" if falls else f"Ok {t}"

        body = self.block(s.body, env, k_body, Ctl(self, ret_body, ctl.handler_var))
        arms = []
        r = self.fresh("r")
        if has_ret:
            arms.append((f"Ok (Return {r})" if falls else f"Ok {r}", ctl.ret(r, "dyn" if self.dyn_ret else self.rtype, s)))
        if falls and state:
            env2 = env
            for n, tn in zip(state["names"], state["types"]):
                env2 = self.setvar(env2, n, tn, s)
            pat = tuple_pat([VPREFIX + n for n in state["names"]]).lstrip("'")
            arms.append((f"Ok (Next {pat})" if has_ret else f"Ok {pat}", cont(env2)))
        ev = self.fresh("e")
        chain = f"Err {ev}"
        for h in reversed(s.handlers):
            if h.type is None:
                bad(h, "bare except")
            classes = [h.type] if isinstance(h.type, ast.Name) else list(h.type.elts) if isinstance(h.type, ast.Tuple) else None
            if classes is None or not all(isinstance(c, ast.Name) and c.id in EXC_CATCH and c.id not in env for c in classes):
                bad(h, "except clause names a class outside " + ", ".join(EXC_CATCH))
            codes = []
            for c in classes:
                codes += [x for x in EXC_CATCH[c.id] if x not in codes]
            env_h = self.setvar(env, h.name, "exc", h) if h.name else env
            hb = self.block(h.body, env_h, cont, ctl.with_handler(ev))
            chain = f"if py_catches [{'; '.join(codes)}] {ev} then\n{ind(hb)}\nelse\n{ind(chain)}"
        arms.append((f"Err {ev}", chain))
        return "match (\n" + ind(body) + "\n) with\n" + "\n".join(f"| {p} =>\n{ind(b, 4)}" for p, b in arms) + "\nend"

    def loop(self, s, env, cont, ctl):
        is_for = isinstance(s, ast.For)
        if s.orelse:
            bad(s, "loop with else")
        if contains(s.body, (ast.Return, ast.Break, ast.Continue)):
            bad(s, "return / break / continue inside a loop")
        assigned = set(assigned_names(s.body))
        by_ver = sorted(env, key=lambda n: env[n][1])
        state = [n for n in by_ver if n in assigned]
        used = loaded_names(s.body + ([] if is_for else [s.test]))
        params = [n for n in by_ver if n in used and n not in state]
        for n in params + state:
            if env[n][0] in ("other", "exc"):
                bad(s, f"{n} (not a str) is used in a loop")
            if is_list(env[n][0]) and env[n][0][1] == "?":
                bad(s, f"the element type of the list {n} is not known at the loop")
        attrs = [a for a in self.self_attrs if any(isinstance(n, ast.Attribute) and n.attr == a for st in s.body for n in ast.walk(st))]
        if attrs:
            bad(s, "self.<attr> inside a loop")
        self.nloop += 1
        lname = f"{self.name}_loop{self.nloop}"
        env_in = {n: env[n] for n in params + state}
        sterm = tuple_term([VPREFIX + n for n in state])
        stype = self.ctype(("tuple", tuple(env[n][0] for n in state))) if len(state) != 1 else self.ctype(env[state[0]][0])
        if not state:
            stype = "unit"
        binders = "".join(f" ({VPREFIX}{n} : {self.ctype(env[n][0])})" for n in params + state)
        head = self.cfg.head_args

        def again(items):
            def k_body(env_end):
                for n in state:
                    if not same_type(env_end[n][0], env[n][0]):
                        bad(s, f"{n} changes its type inside the loop")
                return " ".join([lname] + head + items + [VPREFIX + n for n in params + state])
            return k_body

        def no_ret(t, ty, node):
            bad(node, "return inside a loop")
        lctl = Ctl(self, no_ret, ctl.handler_var)

        def after(start_args, env_a):
            env2 = env_a
            for n in state:
                env2 = self.setvar(env2, n, env[n][0], s)
            pat = tuple_pat([VPREFIX + n for n in state])
            return f"bind ({' '.join([lname] + head + start_args + [VPREFIX + n for n in params + state])}) (fun {pat} =>\n{cont(env2)})"

        if not is_for:
            body = self.cond(s.test, env_in, lambda c, _, e2:
                             f"if {c} then\n{ind(self.block(s.body, e2, again([]), lctl))}\nelse Ok {sterm}")
            self.aux.append(
                f"Fixpoint {lname}{self.cfg.head_binders}{binders} {{struct fuel}} : res ({stype}) :=\n"
                f"  match fuel with\n  | O => Err Hang\n  | S fuel =>\n{ind(body, 4)}\n  end.")
            return after([], env)

        for n in assigned_names([ast.Assign(targets=[s.target], value=None)]):
            if n in env:
                bad(s, f"loop variable {n} re-uses an existing name")

        def with_iter(it, telt, env_a):
            pat, env_body = self.target_pattern(s.target, telt, env_in, s)
            body = self.block(s.body, env_body, again(["items"]), lctl)
            self.aux.append(
                f"Fixpoint {lname}{self.cfg.head_binders} (items : list ({self.ctype(telt)})){binders} {{struct items}} : res ({stype}) :=\n"
                f"  match items with\n  | [] => Ok {sterm}\n  | {pat} :: items =>\n{ind(body, 4)}\n  end.")
            return after([it], env_a)
        return self.iterable(s.iter, env, with_iter, False)

    # ---------------------------------------------------------------- the function
    def translate(self, kind="function"):
        try:
            return self.translate_once(kind)
        except RetMismatch:
            self.__init__(self.mod, self.name, self.node, self.ptypes, self.cls, self.selfname, self.self_attrs, self.subst)
            self.dyn_ret = True
            return self.translate_once(kind)

    def translate_once(self, kind):
        node = self.node
        a = node.args
        decos = [d.id for d in node.decorator_list if isinstance(d, ast.Name)]
        if len(decos) != len(node.decorator_list) or any(d not in ("classmethod", "staticmethod") for d in decos):
            bad(node, "decorator other than @classmethod / @staticmethod")
        if a.vararg or a.kwarg or a.kwonlyargs or a.kw_defaults or a.posonlyargs or isinstance(node, ast.AsyncFunctionDef):
            bad(node, "*args / **kwargs / keyword-only parameters / async")
        for d in a.defaults:
            if not (isinstance(d, ast.Constant) and (d.value is None or isinstance(d.value, (bool, int, str)))):
                bad(node, "default value that is not a literal")
        if contains(node.body, (ast.FunctionDef, ast.AsyncFunctionDef, ast.Lambda, ast.ClassDef, ast.Global, ast.Nonlocal,
                                ast.Yield, ast.YieldFrom, ast.Await, ast.With, ast.Delete, ast.Import, ast.ImportFrom)):
            bad(node, "nested def / lambda / class / global / yield / with / del / import inside a function")
        names = [x.arg for x in a.args]
        if self.selfname is not None:
            if not names or names[0] != self.selfname:
                bad(node, f"first parameter of the method is not {self.selfname}")
            names = names[1:]
            for n in ast.walk(node):
                if isinstance(n, ast.Name) and n.id == self.selfname and not isinstance(n.ctx, ast.Load):
                    bad(n, f"{self.selfname} is re-bound")
                if isinstance(n, ast.Attribute) and isinstance(n.value, ast.Name) and n.value.id == self.selfname \
                        and not isinstance(n.ctx, ast.Load):
                    bad(n, f"store to {self.selfname}.{n.attr}")
        if len(names) != len(self.ptypes) or len(set(names)) != len(names):
            bad(node, f"{self.name} has {len(names)} parameters, {len(self.ptypes)} expected")
        self.owned = self.find_owned(node.body)
        env = {}
        for a_name, a_ty in self.self_attrs.items():
            env["self." + a_name] = (a_ty, 0)
        for n, t in zip(names, self.ptypes):
            env = self.setvar(env, n, t, node)

        def ret(t, ty, nd):
            self.note_ret(ty, nd)
            if self.dyn_ret:
                t = self.inject(t, ty, nd)
            return f"Ok {t}"

        def off_end(env_end):
            bad(node, f"{self.name} may end without return (returns None)")

        def split(todo, env):
            if not todo:
                return self.block(node.body, env, off_end, Ctl(self, ret))
            p = todo[0]
            e1, e2 = dict(env), dict(env)
            e1[p] = ("str", env[p][1])
            e2[p] = ("other", env[p][1])
            return (f"match {VPREFIX}{p} with\n| PyStr {VPREFIX}{p} =>\n{ind(split(todo[1:], e1), 4)}\n"
                    f"| PyOther =>\n{ind(split(todo[1:], e2), 4)}\nend")
        body = split([n for n, t in zip(names, self.ptypes) if t == "obj"], env)
        if self.rtype is None and not self.dyn_ret:
            bad(node, f"{self.name} never returns a value")
        rtype = "dyn" if self.dyn_ret else self.rtype
        binders = "".join(f" (a_{n} : {self.ctype(t)})" for n, t in self.self_attrs.items())
        binders += "".join(f" ({VPREFIX}{n} : {self.ctype(t)})" for n, t in zip(names, self.ptypes))
        text = "\n\n".join(self.aux + [
            f"Definition {self.name}{self.cfg.head_binders}{binders} : res ({self.ctype(rtype)}) :=\n{ind(body)}."])
        return text, rtype

    def translate_expression(self, expr, params, env0=None):
        """params: [(coq binder, type)] ; the expression's value is the result"""
        def k(t, ty, env):
            self.note_ret(ty, expr)
            return f"Ok {self.inject(t, ty, expr) if self.dyn_ret else t}"
        try:
            body = self.expr(expr, dict(env0 or {}), k, False)
        except RetMismatch:
            self.rtype, self.dyn_ret, self.ntmp = None, True, 0
            body = self.expr(expr, dict(env0 or {}), k, False)
        rtype = "dyn" if self.dyn_ret else self.rtype
        binders = "".join(f" ({n} : {self.ctype(t)})" for n, t in params)
        return (f"Definition {self.name}{self.cfg.head_binders}{binders} : res ({self.ctype(rtype)}) :=\n{ind(body)}.", rtype)


class Translator:
    def __init__(self, source, cfg=None):
        self.cfg = cfg or Config()
        _SRC[0] = self.cfg.source_name
        try:
            self.tree = ast.parse(source)
        except SyntaxError as e:
            raise Unsupported(f"{self.cfg.source_name} does not parse: {e}")
        self.const_nodes = {}     # "NAME" / "Cls.NAME" -> value node
        self.func_nodes = {}      # "f" / "Cls.f" -> (FunctionDef, kind)
        self.class_nodes = {}
        self.imported = set()
        self.module_names = set()
        self.dup = set()
        self.consts = {}          # key -> type (translated)
        self.const_defs = []
        self.const_in_progress = []
        self.sigs = {}
        self.self_attrs = {}
        self.done = {}
        self.in_progress = []
        self.func_defs = []
        self.entry = []
        self.const_fn = Fn(self, "_module_", ast.parse("def _module_(): pass").body[0], [])
        self.scan()

    # ---------------------------------------------------------------- names
    def coq_type(self, t):
        if t == "int":
            return "Z"
        if t == "bool":
            return "bool"
        if t in ("str", "bytes", "text"):
            return "list Z"
        if t == "none":
            return "unit"
        if t == "dyn":
            return "pyval"
        if t == "obj":
            return "pyobj"
        if isinstance(t, str) and t in self.cfg.ext_types:
            return self.cfg.ext_types[t]
        if is_list(t):
            if t[1] == "?":
                raise Unsupported(f"{self.cfg.source_name}: a list whose element type is never determined")
            return f"list ({self.coq_type(t[1])})"
        if is_dict(t):
            return f"list ({self.coq_type(t[1])} * {self.coq_type(t[2])})"
        if isinstance(t, tuple) and t[0] == "opt":
            return f"option ({self.coq_type(t[1])})"
        if is_tuple(t):
            return "(" + " * ".join(self.coq_type(x) for x in t[1]) + ")"
        raise Unsupported(f"no Coq type for {t}")

    def const_coqname(self, key):
        return self.cfg.prefix + key.replace(".", "_")

    func_coqname = const_coqname

    def scan(self):
        def bind(name, where):
            if name in where:
                self.dup.add(name)
            where.add(name)
        seen = set()
        for n in self.tree.body:
            if isinstance(n, (ast.FunctionDef, ast.AsyncFunctionDef)):
                bind(n.name, seen)
                self.func_nodes[n.name] = (n, "function")
            elif isinstance(n, ast.ClassDef):
                bind(n.name, seen)
                self.class_nodes[n.name] = n
                inner = set()
                for m in n.body:
                    if isinstance(m, (ast.FunctionDef, ast.AsyncFunctionDef)):
                        key = f"{n.name}.{m.name}"
                        if m.name in inner:
                            self.dup.add(key)
                        inner.add(m.name)
                        decos = [d.id for d in m.decorator_list if isinstance(d, ast.Name)]
                        kind = "classmethod" if "classmethod" in decos else "staticmethod" if "staticmethod" in decos else "method"
                        self.func_nodes[key] = (m, kind)
                    elif isinstance(m, ast.Assign) and len(m.targets) == 1 and isinstance(m.targets[0], ast.Name):
                        key = f"{n.name}.{m.targets[0].id}"
                        if m.targets[0].id in inner:
                            self.dup.add(key)
                        inner.add(m.targets[0].id)
                        self.const_nodes[key] = m.value
                    elif isinstance(m, ast.Assign):
                        for x in assigned_names([m]):
                            self.dup.add(f"{n.name}.{x}")
            elif isinstance(n, ast.Assign):
                for x in assigned_names([n]):
                    bind(x, seen)
                if len(n.targets) == 1 and isinstance(n.targets[0], ast.Name):
                    self.const_nodes[n.targets[0].id] = n.value
            elif isinstance(n, (ast.Import, ast.ImportFrom)):
                for al in n.names:
                    nm = (al.asname or al.name).split(".")[0]
                    bind(nm, seen)
                    if isinstance(n, ast.Import) and al.asname is None and al.name in self.cfg.imports:
                        self.imported.add(al.name)
            elif isinstance(n, (ast.AugAssign, ast.AnnAssign)):
                for x in assigned_names([n]):
                    bind(x, seen)
                    self.dup.add(x)
        self.module_names = seen
        clash = sorted((seen - self.imported) & RESERVED)
        if clash:
            raise Unsupported(f"{self.cfg.source_name} rebinds {', '.join(clash)} at module level")

    # ---------------------------------------------------------------- constants, functions (on demand)
    def constant(self, key, node):
        if key in self.consts:
            return self.consts[key]
        if key in self.dup or not IDENT.match(key.replace(".", "_")):
            bad(node, f"{key} is bound more than once")
        if key in self.const_in_progress:
            bad(node, f"{key} is defined in terms of itself")
        self.const_in_progress.append(key)
        fn = self.const_fn
        fn.cls = key.split(".")[0] if "." in key else None
        try:
            term, ty = fn.pure(self.const_nodes[key], {})
        except Impure as ex:
            bad(self.const_nodes[key], f"initialiser of {key} may raise ({ex})")
        self.const_in_progress.pop()
        if ty in self.cfg.ext_types or ty in ("obj", "dyn") or is_tuple(ty):
            bad(self.const_nodes[key], f"constant of type {ty}")
        self.const_defs.append(f"Definition {self.const_coqname(key)} : {self.coq_type(ty)} :=\n  {term}.")
        self.consts[key] = ty
        return ty

    def signature(self, key, arg_types, node):
        if key in self.sigs:
            return self.sigs[key]
        if any(t in ("other", "exc") for t in arg_types):
            bad(node, f"{key} called with an argument that is not a str")
        self.sigs[key] = [("list", "dyn") if is_list(t) and t[1] == "?" else t for t in arg_types]
        return self.sigs[key]

    def function(self, key, node):
        if key in self.done:
            return self.done[key]
        if key in self.in_progress:
            bad(node, f"recursive call of {key}")
        if key in self.dup:
            bad(node, f"{key} is bound more than once")
        fnode, kind = self.func_nodes[key]
        self.in_progress.append(key)
        cls = key.split(".")[0] if "." in key else None
        selfname = {"classmethod": "cls", "method": "self"}.get(kind)
        text, rtype = Fn(self, self.func_coqname(key), fnode, self.sigs[key], cls, selfname, self.self_attrs.get(key)).translate()
        self.in_progress.pop()
        self.func_defs.append(text)
        self.done[key] = rtype
        return rtype

    # ---------------------------------------------------------------- API
    def add_function(self, key, ptypes, self_attrs=None, ret=None):
        if key not in self.func_nodes:
            raise Unsupported(f"{self.cfg.source_name}: function {key} is missing")
        if key in self.sigs and self.sigs[key] != list(ptypes):
            raise Unsupported(f"{self.cfg.source_name}: {key} is used with parameter types {self.sigs[key]}, declared {ptypes}")
        self.sigs[key] = list(ptypes)
        if self_attrs:
            self.self_attrs[key] = dict(self_attrs)
        self.entry.append(key)
        rt = self.function(key, self.func_nodes[key][0])
        if ret is not None and rt != ret:
            bad(self.func_nodes[key][0], f"{key} returns {rt}, {ret} expected")
        return rt

    def add_expression(self, coqname, expr, params, cls=None, selfname=None):
        """params: [(python expression text, coq binder, type)]"""
        subst, env, binders = {}, {}, []
        fn = Fn(self, self.cfg.prefix + coqname, ast.parse("def _e_(): pass").body[0], [], cls, selfname, None, subst)
        for text, binder, ty in params:
            if IDENT.match(text):                       # a local variable of the enclosing function
                env = fn.setvar(env, text, ty, expr)
                binders.append((VPREFIX + text, ty))
            else:
                subst[ast.dump(ast.parse(text, mode="eval").body)] = (binder, ty)
                binders.append((binder, ty))
        fn.subst = subst
        text, rtype = fn.translate_expression(expr, binders, env)
        self.func_defs.append(text)
        self.done["<expr>" + coqname] = rtype
        return rtype

    def add_block(self, coqname, stmts, params, cls=None, selfname=None):
        """a list of statements (ending in return on every path) as a function.
        params: [(python expression text or local name, coq binder or None, type)]"""
        subst, names, ptypes = {}, [], []
        args = []
        for text, binder, ty in params:
            if IDENT.match(text):
                names.append(text)
            else:                                          # a sub-expression that becomes a parameter
                nm = "p_" + re.sub(r"\W+", "_", text).strip("_")
                subst[ast.dump(ast.parse(text, mode="eval").body)] = (VPREFIX + nm, ty)
                names.append(nm)
            ptypes.append(ty)
        fdef = ast.parse("def _b_(" + ", ".join(([selfname] if selfname else []) + names) + "): pass").body[0]
        fdef.body = list(stmts)
        if selfname == "cls":
            fdef.decorator_list = [ast.Name(id="classmethod", ctx=ast.Load())]
        ast.fix_missing_locations(fdef)
        fn = Fn(self, self.cfg.prefix + coqname, fdef, ptypes, cls, selfname, None, subst)
        text, rtype = fn.translate()
        self.func_defs.append(text)
        self.done["<expr>" + coqname] = rtype
        return rtype

    def whole_module(self, entry, entry_ret=None):
        """every top-level statement of the module must be in the subset; every function is translated"""
        for n in self.tree.body:
            if isinstance(n, ast.Expr) and isinstance(n.value, ast.Constant) and isinstance(n.value.value, str):
                continue
            if isinstance(n, ast.Import):
                if len(n.names) == 1 and n.names[0].name in self.cfg.imports and n.names[0].asname is None:
                    continue
                bad(n, "import other than " + ", ".join(f"`import {m}`" for m in sorted(self.cfg.imports)))
            if isinstance(n, ast.Assign):
                if len(n.targets) != 1 or not isinstance(n.targets[0], ast.Name):
                    bad(n, "module-level assignment target")
                self.constant(n.targets[0].id, n)
                continue
            if isinstance(n, ast.FunctionDef):
                if n.decorator_list:
                    bad(n, "decorator")
                continue
            bad(n, "module-level statement")
        for m in self.cfg.imports:
            if m not in self.imported:
                raise Unsupported(f"{self.cfg.source_name} does not `import {m}`")
        for name, ptypes in entry.items():
            self.add_function(name, ptypes, ret=(entry_ret or {}).get(name))
        for key, (node, _) in self.func_nodes.items():
            if key not in self.done:
                bad(node, f"{key} is never called from the API functions (parameter types unknown)")

    def check_hygiene(self):
        """selected mode: nothing else in the module re-binds, stores to, mutates or names (as a string) what the
        translated code reads or calls; the translated names are defined exactly once"""
        used = {k for k in self.consts} | {k for k in self.done if not k.startswith("<expr>")}
        short = {k.split(".")[-1] for k in used}
        for k in used:
            if k in self.dup:
                raise Unsupported(f"{self.cfg.source_name}: {k} is bound more than once")
        classes = {k.split(".")[0] for k in used if "." in k}
        for c in self.class_nodes.values():
            for b in c.bases:
                if isinstance(b, ast.Name) and b.id in classes:
                    bad(c, f"class {c.name} derives from {b.id}, whose members are translated")
            if c.name in classes and (c.decorator_list or c.keywords):
                bad(c, "decorated class / metaclass")
        for n in ast.walk(self.tree):
            if isinstance(n, ast.Constant) and isinstance(n.value, str) and n.value in short and IDENT.match(n.value) \
                    and len(n.value) > 1 and n.value.startswith("_"):
                bad(n, f"the name {n.value} occurs as a string (getattr / setattr?)")
            if isinstance(n, ast.Attribute) and n.attr in short and not isinstance(n.ctx, ast.Load):
                bad(n, f"store to .{n.attr}")
            if isinstance(n, ast.Name) and n.id in used and "." not in n.id and not isinstance(n.ctx, ast.Load):
                # the one module-level binding is an Assign target / def: count them
                pass
            if isinstance(n, (ast.Subscript,)) and not isinstance(n.ctx, ast.Load):
                base = n.value
                if (isinstance(base, ast.Name) and base.id in short) or (isinstance(base, ast.Attribute) and base.attr in short):
                    bad(n, "item assignment / deletion on a translated constant")
            if isinstance(n, ast.Call) and isinstance(n.func, ast.Attribute) and n.func.attr in MUTATORS:
                base = n.func.value
                if (isinstance(base, ast.Name) and base.id in short) or (isinstance(base, ast.Attribute) and base.attr in short):
                    bad(n, f".{n.func.attr}() on a translated constant")
            if isinstance(n, ast.Global):
                if set(n.names) & short:
                    bad(n, "global statement naming a translated constant")
            if isinstance(n, (ast.FunctionDef, ast.ClassDef)) and n.name in RESERVED:
                bad(n, f"{n.name} is re-defined")
            if isinstance(n, ast.arg) and n.arg in RESERVED:
                bad(n, f"parameter named {n.arg}")
        # stores to plain module-level names: exactly one binding statement each
        for k in used:
            if "." in k:
                continue
            stores = [n for n in ast.walk(self.tree) if isinstance(n, ast.Name) and n.id == k and not isinstance(n.ctx, ast.Load)]
            defs = [n for n in ast.walk(self.tree) if isinstance(n, (ast.FunctionDef, ast.ClassDef)) and n.name == k]
            if len(stores) + len(defs) != 1:
                raise Unsupported(f"{self.cfg.source_name}: {k} is bound {len(stores) + len(defs)} times")

    def emit(self, title=None):
        sig_lines = [f"   {k}({', '.join(str(t) for t in self.sigs.get(k, []))}) -> {self.done[k]}" for k in self.done]
        header = (f"(* generated from {self.cfg.source_name} by harness/lib/pytranslate.py{(' (' + title + ')') if title else ''} -- do not edit.\n"
                  "   Python-level signatures:\n" + "\n".join(sig_lines) + " *)\n"
                  "From Coq Require Import ZArith List Bool.\n"
                  "From AK Require Import Common.Err " + " ".join(self.cfg.coq_imports) + ".\n"
                  "Import ListNotations.\nOpen Scope Z_scope.\n\n"
                  "Definition translation_available : bool := true.\n\n")
        return header + "\n\n".join(self.const_defs + self.func_defs) + "\n"


def stub(cfg, reason, signatures):
    """text written when the source is outside the subset: the entry points with their types and no content, and the
    flag that makes the client's TransEq.v fail at its first lemma and its Run.v compare the hand model alone.
    signatures: [(coq name, "binders : result type")]"""
    reason = reason.replace("*)", "* )").replace("(*", "( *")
    return (f"(* generated by harness/lib/pytranslate.py -- do not edit.\n   {cfg.source_name} is OUTSIDE the translator's subset: " + reason + " *)\n"
            "From Coq Require Import ZArith List Bool.\n"
            "From AK Require Import Common.Err " + " ".join(cfg.coq_imports) + ".\n"
            "Import ListNotations.\nOpen Scope Z_scope.\n\n"
            "Definition translation_available : bool := false.\n\n"
            + "".join(f"Definition {n}{cfg.head_binders} {sig} := Err OtherErr.\n" for n, sig in signatures))


def translate_functions(source_path, names, cfg=None, self_attrs=None, hygiene=True, title=None):
    """names: {"f" | "Cls.m": [param types]} -> coq text (fail closed)"""
    cfg = cfg or Config(source_name=source_path)
    tr = Translator(open(source_path).read(), cfg)
    for key, ptypes in names.items():
        tr.add_function(key, ptypes, (self_attrs or {}).get(key))
    if hygiene:
        tr.check_hygiene()
    return tr.emit(title)


# ---------------------------------------------------------------------------------------------------------
# self test of the translator + coq/Common/PyLib.v (not part of bin/check; `python -m harness.lib.pytranslate --selftest`):
# a module that exercises the supported constructs is translated, the translated functions are evaluated by
# coqc (vm_compute) and compared with what CPython does on the same arguments (value or exception class).
SELFTEST_SRC = '''
_T = list("abc")
_D = dict((c, i) for i, c in enumerate(_T + _T))
_E = {c: i * 2 for i, c in enumerate(_T, 5) if i != 6}
_N = 3

def f_arith(a, b):
    q, r = divmod(a, b)
    return q * 1000 + r * 10 + a // b - a % b + (a ** 2) + (1 << 3) - (-a)

def f_index(s, i):
    return s[i] + _T[i]

def f_slice(s, i, j):
    return s[i:j] + "|" + s[i:] + "|" + s[:j] + "|" + s[::-1]

def f_strip(s, c):
    return s.strip(c) + "|" + s.lstrip(c) + "|" + s.rstrip(c)

def f_just(s, n):
    return s.rjust(n, "*") + s.ljust(n, "-") + s.rjust(n) + s * n + n * s

def f_dict(s):
    return _D[s] * 10 + _E[s]

def f_try(s, i):
    try:
        x = _D[s]
        y = _T[i]
        if x > 4:
            return 100
    except KeyError:
        return -1
    except (IndexError, ValueError) as err:
        raise TypeError("x") from err
    return x + len(y)

def f_try2(s):
    try:
        assert len(s) > 1, "short"
        n = _T.index(s[1])
    except LookupError:
        n = -5
    except Exception:
        raise
    return n

def f_bool(a, b):
    if a > 0 and 10 // a > b or not b:
        return 1
    ok = a == b or 7 % a == 0
    return 0 if ok else 2

def f_loop(n):
    total = 0
    i = 0
    while i < n:
        for j in range(i, n):
            total += j * (1 if j % 2 else -1)
        i += 1
    return total

def f_join(s):
    t = "-".join(reversed(s)) + "".join(c + c for c in s if c != "a")
    for k, (c, d) in enumerate(zip(s, s[1:])):
        if c in _T and d not in _D and 0 <= k < _N:
            t += c + d
    return t

def f_call(s, i):
    return f_dict(s) + f_loop(i)

def f_fmt(n, s):
    return (f"{n}|{n:04}|{n:>6}|{n:<5}|{n:x>7}|{n:05d}|{s}|{s:>4}|{s:06}|{s:*^7}|{n:^6}|{n:0=6}" +
            "{}-{}{{}}{:012}".format(s, n, n) + "{1}{0:3}".format(n, s) + str(n) + str(n > 2) + f"{n == 1}{n < 0:3}")

def f_int(s):
    return int(s) * 2 + int(True)

def f_int2(s):
    try:
        v = int(s[1:])
    except ValueError:
        v = -1
    return v

class K:
    _C = {"RED": "1", "BLUE": "4"}
    LIMIT = 5

    @classmethod
    def elem(cls, color, is_bg=False):
        base = "4" if is_bg else "3"
        if isinstance(color, str) and color in K._C:
            return base + cls._C[color]
        if isinstance(color, (list, tuple)):
            if len(color) != 3 or any(not isinstance(c, int) or c < 0 or c > cls.LIMIT for c in color):
                raise ValueError(f"bad {color} {type(color)} {color!r} {list(cls._C.keys())}")
            r, g, b = color
            color = 16 + r * 36 + g * 6 + b
        if isinstance(color, str):
            if color.startswith("g"):
                color = 232 + int(color[1:])
            else:
                raise KeyError(color)
        if isinstance(color, int):
            if color < 0 or color > 255:
                raise ValueError("range")
            return f"{base}8:5:{int(color)}|{color}"
        raise TypeError(f"{type(color)}")

    @classmethod
    def make(cls, color, bg=None, bold=None, raw=False):
        codes = []
        if color is not None:
            codes.append(cls.elem(color))
        if bg is not None:
            codes.append(cls.elem(bg, True))
        if bold:
            codes.append("1")
        if codes:
            pre = "\\033[" + ";".join(c for c in codes) + "m"
            suf = "\\033[0m"
        else:
            pre = ""
            suf = ""
        if raw:
            pre = pre.encode()
            suf = suf.encode()
        return pre, suf

    @staticmethod
    def pick(x, y):
        if type(x) is bool:
            return "b"
        if type(x) is int:
            return "i" if x in (1, 2, 3) else "I"
        if x is None or y is None:
            return None
        return str(x) + ("y" if y else "n")

def f_make(color, bg, bold):
    a, b = K.make(color, bold=bold, bg=bg)
    c, d = K.make(color, bg, bold, True)
    return str(len(a)) + "/" + str(len(b)) + "/" + str(len(c)) + str(len(d))

def _k2(p):
    return len(p.strip("a")), p

def _key(c):
    col = c.rstrip('0123456789')
    return len(col), col, int(c[len(col):])

def f_sorted(s):
    return "".join(sorted([c + d for c, d in zip(s, s[1:])], key=_k2)) + "|" + "".join(sorted(s))

def f_coord(a, b, c):
    cs = sorted([a, b, c, a], key=_key)
    return f"{cs[0]}:{cs[-1]}" + str(len(cs))

def f_dyn(x, y):
    z = x + y
    if x < y:
        return z * 2
    return z == x
'''
SELFTEST_ENTRY = {"f_arith": ["int", "int"], "f_index": ["str", "int"], "f_slice": ["str", "int", "int"],
                  "f_strip": ["str", "str"], "f_just": ["str", "int"], "f_dict": ["str"], "f_try": ["str", "int"],
                  "f_try2": ["str"], "f_bool": ["int", "int"], "f_loop": ["int"], "f_join": ["str"],
                  "f_call": ["str", "int"], "f_fmt": ["int", "str"], "f_int": ["str"], "f_int2": ["str"],
                  "K.elem": ["dyn", "bool"], "K.pick": ["dyn", "dyn"], "f_make": ["dyn", "dyn", "dyn"], "f_dyn": ["dyn", "dyn"],
                  "f_sorted": ["str"], "f_coord": ["str", "str", "str"]}


def selftest(workdir="/tmp/pytranslate_selftest"):
    import itertools
    import os
    import subprocess
    from fractions import Fraction
    from harness.lib import sx as SX
    coq = os.path.join(os.path.dirname(os.path.dirname(os.path.dirname(os.path.abspath(__file__)))), "coq")
    ints = [-7, -3, -1, 0, 1, 2, 3, 5, 10, 12345]
    strs = ["", "a", "b", "c", "d", "ab", "abc", "xxabxx", "cabbage", "é\U0001f600a"]
    nums = ["", "7", " 42\n", "+5", "-0012", "1_000", "1__0", "_1", "12a", "g17", "g", "gx", "- 3", "٣"]
    dyns = [None, True, False, 0, 3, 7, 300, -1, 0.5, 2.0, "RED", "BLUE", "g5", "g99", "gz", "x", "", (1, 2, 3), [5, 0, 0],
            (1, 2), (1, 6, 0), (1, "a", 2), (True, 1, 1), (0.5, 1, 1), [], {}, b"x", (None, 1, 1), "\ud800"]
    args = {"int": ints, "str": strs, "dyn": dyns, "bool": [False, True]}

    def cval(v):
        if v is None:
            return "VNone"
        if isinstance(v, bool):
            return f"(VBool {SX.cbool(v)})"
        if isinstance(v, int):
            return f"(VInt {SX.cZ(v)})"
        if isinstance(v, float):
            fr = Fraction(v)
            return f"(VFloat (Some ({SX.cZ(fr.numerator)}, {fr.denominator}%positive)))"
        if isinstance(v, str):
            return f"(VStr {SX.cstr(v)})"
        if isinstance(v, tuple):
            return "(VTuple [" + "; ".join(cval(x) for x in v) + "])"
        if isinstance(v, list):
            return "(VList [" + "; ".join(cval(x) for x in v) + "])"
        return f"(VOther {SX.cbool(getattr(type(v), '__hash__', None) is not None)})"

    def carg(v, t):
        if t == "dyn":
            return cval(v)
        if t == "bool":
            return SX.cbool(v)
        return SX.cZ(v) if isinstance(v, int) else SX.cstr(v)

    def enc(r):
        """result -> sx, in the encoding of sx_val below"""
        if r is None:
            return []
        if isinstance(r, bool):
            return [1, int(r)]
        if isinstance(r, int):
            return [2, r]
        if isinstance(r, str):
            return [3, SX.s(r)]
        return [99]

    ns = {}
    exec(SELFTEST_SRC, ns)
    tr = Translator(SELFTEST_SRC, Config(source_name="<selftest>"))
    for key, ptypes in SELFTEST_ENTRY.items():
        tr.add_function(key, ptypes)
    tr.check_hygiene()
    text = tr.emit("self test")
    lines, want = [], []
    for key, ptypes in SELFTEST_ENTRY.items():
        f = ns["K"].__dict__[key[2:]].__func__ if key.startswith("K.") else ns[key]
        if key == "K.elem":
            f = ns["K"].elem
        if key == "K.pick":
            f = ns["K"].pick
        pools = [args[t] for t in ptypes]
        if key == "f_int":
            pools = [nums]
        if key == "f_int2":
            pools = [nums]
        if key in ("f_loop", "f_call"):
            pools = [p if p is not ints else ints[:-1] for p in pools]
        if key == "f_coord":
            pools = [["A1", "Z10", "AA2", "B07", "AB", "7", ""]] * 3
        if key == "f_make":
            pools = [dyns, [None, "RED", 5, (9, 9, 9)], [None, True, 0, "x"]]
        rt = tr.done[key]
        for vals in itertools.product(*pools):
            if key == "f_just" and vals[1] > 5:
                continue
            try:
                r = f(*vals)
                if rt == "dyn":
                    exp = SX.ok(enc(r))
                else:
                    exp = SX.ok(int(r)) if isinstance(r, (int, bool)) and rt == "int" else SX.ok(SX.s(r))
            except Exception as e:  # noqa
                exp = SX.err("OtherError" if isinstance(e, (ZeroDivisionError, OverflowError)) else SX.exc_name(e))
            want.append((key, vals, SX.dumps(exp)))
            a = " ".join(carg(v, t) for v, t in zip(vals, ptypes))
            encoder = {"int": "SZ", "str": "sx_str", "dyn": "sx_val"}[rt]
            lines.append(f"sx_res {encoder} ({tr.func_coqname(key)} 40 {a})")
    os.makedirs(workdir, exist_ok=True)
    with open(os.path.join(workdir, "SelfTest.v"), "w") as fh:
        fh.write(text)
        fh.write("From AK Require Import Common.Sx.\nFrom Coq Require Import String.\nOpen Scope Z_scope.\n"
                 "Definition sx_val (v : pyval) : sx := match v with VNone => SL [] | VBool b => SL [SZ 1; SZ (py_int_of_bool b)]\n"
                 "  | VInt z => SL [SZ 2; SZ z] | VStr s => SL [SZ 3; sx_str s] | _ => SL [SZ 99] end.\n"
                 "Set Printing Width 1000000.\nSet Printing Depth 1000000.\n"
                 + "".join("Eval vm_compute in (show_lines [\n" + ";\n".join(lines[i:i + 30]) + "\n]).\n"
                           for i in range(0, len(lines), 30)))
    p = subprocess.run(["timeout", "900", "coqc", "-R", coq, "AK", "-top", "SelfTest", "SelfTest.v"], cwd=workdir,
                       capture_output=True, text=True)
    if p.returncode != 0:
        print(p.stdout[-3000:], p.stderr[-3000:])
        return 1
    got = []
    for chunk in re.findall(r'=\s*"(.*?)"\s*:\s*string', p.stdout, re.S):
        got += chunk.split("\n")[:-1]
    bad_ = unmodelled = 0
    for (f, vals, exp), g in zip(want, got):
        if exp.strip() != g.strip():
            if (f, vals) == ("f_int", ("\u0663",)):
                continue              # documented gap: int() of non-ASCII decimal digits (CPython accepts them)
            if g.strip() == "(1 11)":
                unmodelled += 1       # Err OtherErr: the model declines (float arithmetic, other objects, ...)
                continue
            bad_ += 1
            if bad_ <= 25:
                print(f"MISMATCH {f}{vals}: python {exp}   coq {g}")
    print(f"selftest: {len(want)} calls of {len(SELFTEST_ENTRY)} functions compared, {bad_} mismatches, "
          f"{unmodelled} calls where the Coq side answers 'not modelled' (OtherErr)")
    return 1 if bad_ or len(got) != len(want) else 0


if __name__ == "__main__":
    if sys.argv[1:2] == ["--selftest"]:
        sys.exit(selftest())
    sys.stdout.write(translate_functions(sys.argv[1], {a.split(":")[0]: a.split(":")[1].split(",") if a.split(":")[1] else []
                                                       for a in sys.argv[2:]}))
