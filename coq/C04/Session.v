(* C04/Session.v -- ONE parser object used on ONE text OBJECT several times while the object
   changes: a list of lines edited in place (line replaced / inserted / deleted, list cleared
   and refilled), a str (immutable: the variable is re-bound to another object), an iterator of
   lines (consumed by the calls).  _Tokenizer.tokenize (240-334), LLParser.parse (1626-1760) and
   TElement.get_orig_text (460-517) keep nothing between two calls: every call works on the
   contents the object has AT THE TIME OF THE CALL, and get_orig_text slices the text it is
   GIVEN ("text: the whole source text"), whatever text the element was made from.
   No proofs in this file. *)
From Coq Require Import ZArith List Bool.
From AK Require Import Common.Err LLP.Base LLP.Parse LLP.Build gen.C04_Consts C04.Model.
Import ListNotations.
Open Scope Z_scope.

(* the object handed to tokenize / parse / get_orig_text:
   a str (or an instance of a subclass of str), a re-iterable container of lines (list, list
   subclass, tuple, deque), an iterator / generator over the lines that are still to come *)
Inductive tobj := TStr (s : list Z) | TLines (ls : list line) | TIter (ls : list line).

Definition obj_input (o : tobj) : input :=
  match o with TStr s => IStr s | TLines ls => ILines ls | TIter ls => ILines ls end.

(* in-place edits of a mutable container of lines *)
Inductive edit :=
| ESet (i : nat) (l : line)      (* T[i] = l          (i < len) *)
| EIns (i : nat) (l : line)      (* T.insert(i, l)    (i <= len) *)
| EDel (i : nat)                 (* del T[i]          (i < len) *)
| EFill (ls : list line).        (* T.clear(); T.extend(ls)  /  T[:] = ls  / any other re-arrangement *)

Definition apply_edit (e : edit) (ls : list line) : list line :=
  match e with
  | ESet i l => if (i <? length ls)%nat then firstn i ls ++ l :: skipn (S i) ls else ls
  | EIns i l => firstn i ls ++ l :: skipn i ls
  | EDel i => firstn i ls ++ skipn (S i) ls
  | EFill new => new
  end.

Definition edit_obj (e : edit) (o : tobj) : tobj :=
  match o with TLines ls => TLines (apply_edit e ls) | _ => o end.

(* what a pass of the tokenizer leaves of an iterator: enumerate() has taken the lines up to and
   including the one with the unmatched character; every other outcome (tokens, "span is never
   closed", which is raised behind the loop) has taken them all *)
Definition left_over {A} (r : lexres A) (ls : list line) : list line :=
  match r with
  | LErr p _ false => skipn (Z.to_nat (fst p)) ls
  | _ => []
  end.

Definition after_call {A} (r : lexres A) (o : tobj) : tobj :=
  match o with TIter ls => TIter (left_over r ls) | _ => o end.

Inductive sstep :=
| SNew (o : tobj)        (* the variable is bound to another object *)
| SEdit (e : edit)       (* the object is edited in place *)
| SNext (n : nat)        (* n lines are taken from the iterator by the caller *)
| STok                   (* list(parser.tokenizer.tokenize(T, src_name)) *)
| SParse                 (* parser.parse(T, src_name=.., do_cleanup=False) *)
| SOrig (k : nat).       (* e.get_orig_text(T) for every element e of the k-th result returned so far *)

Inductive callres :=
| RTok (olines : list line) (r : lexres (list token))
| RParse (olines : list line) (r : lexres (res tree))
| ROrig (found : bool) (texts : list (res (list Z))).

(* the object, and the spans of the elements of the results returned so far (tokens of a
   successful tokenize, elements of a returned tree in depth-first order) *)
Record sstate := mkSt { s_obj : tobj; s_spans : list (list span) }.

Section Sess.
  Variable cfg : lexcfg.
  Variable skip : list sym.
  Variable p : parser.
  Variable fuel : nat.
  Variable seqs : list sym.

  Definition tok_call (o : tobj) : lexres (list token) := cfg_tokenize cfg (tok_lines (obj_input o)).

  Definition parse_call (o : tobj) : lexres (res tree) :=
    match tok_call o with
    | LOk toks => LOk (match p_parse p fuel (drop_skipped skip toks) with
                       | Ok t => Ok (flatten_seq seqs t)
                       | Err e => Err e
                       end)
    | LErr a b c => LErr a b c
    | LHang => LHang
    end.

  (* get_orig_text(T): a str is split, a list is taken as it is, any other iterable is copied
     with list(T) -- which uses an iterator up: the first element sees the lines that were left,
     the others none *)
  Definition orig_call (o : tobj) (sps : list span) : list (res (list Z)) * tobj :=
    match o with
    | TIter ls =>
        match sps with
        | [] => ([], o)
        | sp :: r => (get_orig_text ls sp :: map (get_orig_text []) r, TIter [])
        end
    | _ => (map (get_orig_text (orig_lines (obj_input o))) sps, o)
    end.

  Definition tok_spans (toks : list token) : list span := map (fun t => (tstart t, tend t)) toks.

  Definition step (st : sstate) (s : sstep) : option callres * sstate :=
    match s with
    | SNew o => (None, mkSt o (s_spans st))
    | SEdit e => (None, mkSt (edit_obj e (s_obj st)) (s_spans st))
    | SNext n => (None, mkSt (match s_obj st with TIter ls => TIter (skipn n ls) | o => o end) (s_spans st))
    | STok =>
        let o := s_obj st in
        let r := tok_call o in
        (Some (RTok (orig_lines (obj_input o)) r),
         mkSt (after_call r o) (s_spans st ++ match r with LOk toks => [tok_spans toks] | _ => [] end))
    | SParse =>
        let o := s_obj st in
        let r := parse_call o in
        (Some (RParse (orig_lines (obj_input o)) r),
         mkSt (after_call r o) (s_spans st ++ match r with LOk (Ok t) => [map tree_span (preorder t)] | _ => [] end))
    | SOrig k =>
        match nth_error (s_spans st) k with
        | None => (Some (ROrig false []), st)
        | Some sps => let '(txs, o') := orig_call (s_obj st) sps in (Some (ROrig true txs), mkSt o' (s_spans st))
        end
    end.

  Fixpoint run_steps (st : sstate) (steps : list sstep) : list callres :=
    match steps with
    | [] => []
    | s :: rest =>
        let '(r, st') := step st s in
        match r with
        | Some c => c :: run_steps st' rest
        | None => run_steps st' rest
        end
    end.

  (* the object after the steps *)
  Fixpoint final_state (st : sstate) (steps : list sstep) : sstate :=
    match steps with
    | [] => st
    | s :: rest => final_state (snd (step st s)) rest
    end.
End Sess.
