(* C15/Lemmas.v -- proofs about the model of ak/mtd_sql.py *)
From Coq Require Import ZArith List Bool Lia.
From AK Require Import Common.Sx Common.Err gen.C15_Consts C15.Model C15.Spec.
Import ListNotations.
Open Scope Z_scope.

(* ------------------------------------------------------------------ *)
(* basics                                                               *)

Lemma str_eqb_eq a b : str_eqb a b = true <-> a = b.
Proof.
  revert b. induction a as [|x a IH]; intros [|y b]; cbn [str_eqb]; split; try congruence; try discriminate.
  - intros H. apply andb_prop in H as [H1 H2]. apply Z.eqb_eq in H1. apply IH in H2. congruence.
  - intros [= -> ->]. rewrite Z.eqb_refl. apply IH. reflexivity.
Qed.

Lemma str_eqb_refl a : str_eqb a a = true.
Proof. apply str_eqb_eq. reflexivity. Qed.

Lemma assoc_str_in {A} k (l : list (str * A)) v : assoc_str k l = Some v -> In (k, v) l.
Proof.
  induction l as [|[k' v'] r IH]; cbn [assoc_str]; [discriminate|].
  destruct (str_eqb k k') eqn:E.
  - intros [= ->]. apply str_eqb_eq in E. subst. left. reflexivity.
  - intros H. right. apply IH. exact H.
Qed.

Lemma or3_F_r a : or3 a F = a. Proof. destruct a; reflexivity. Qed.
Lemma and3_T_r a : and3 a T = a. Proof. destruct a; reflexivity. Qed.

Lemma join_toks_cons sep x r : r <> [] -> join_toks sep (x :: r) = x ++ sep ++ join_toks sep r.
Proof. destruct r; [congruence|reflexivity]. Qed.

Lemma map_neq_nil {A B} (f : A -> B) l : l <> [] -> map f l <> [].
Proof. destruct l; [congruence|discriminate]. Qed.

(* induction principles for the nested types *)
Section IcondInd.
  Variable P : icond -> Prop.
  Hypothesis HCmp : forall f c v, P (ICmp f c v).
  Hypothesis HNull : forall f pos, P (INull f pos).
  Hypothesis HIn : forall f pos vs, P (IIn f pos vs).
  Hypothesis HLike : forall f pos p, P (ILike f pos p).
  Hypothesis HStatic : forall t, P (IStatic t).
  Hypothesis HOr : forall l, Forall P l -> P (IOr l).
  Fixpoint icond_ind' (i : icond) : P i :=
    match i with
    | ICmp f c v => HCmp f c v
    | INull f pos => HNull f pos
    | IIn f pos vs => HIn f pos vs
    | ILike f pos p => HLike f pos p
    | IStatic t => HStatic t
    | IOr l => HOr l ((fix go (l : list icond) : Forall P l :=
                         match l with
                         | [] => Forall_nil P
                         | x :: r => Forall_cons x (icond_ind' x) (go r)
                         end) l)
    end.
End IcondInd.

Section ArgInd.
  Variable P : arg -> Prop.
  Hypothesis HNone : P ANone.
  Hypothesis HText : forall s, P (AText s).
  Hypothesis H3 : forall f op v, P (ATup3 f op v).
  Hypothesis H2 : forall f v, P (ATup2 f v).
  Hypothesis HN : P ATupN.
  Hypothesis HOr : forall l kw, Forall P l -> P (AOr l kw).
  Hypothesis HBad : P ABad.
  Fixpoint arg_ind' (a : arg) : P a :=
    match a with
    | ANone => HNone
    | AText s => HText s
    | ATup3 f op v => H3 f op v
    | ATup2 f v => H2 f v
    | ATupN => HN
    | AOr l kw => HOr l kw ((fix go (l : list arg) : Forall P l :=
                               match l with
                               | [] => Forall_nil P
                               | x :: r => Forall_cons x (arg_ind' x) (go r)
                               end) l)
    | ABad => HBad
    end.
End ArgInd.

(* ================================================================== *)
(* Part 1: the evaluator on the tokens a documented filter must produce  *)

Section EvalSpec.
  Variable cmpf : cop -> scalar -> scalar -> tv.
  Variable likef : scalar -> scalar -> tv.
  Variable staticf : str -> option tv.
  Variable col : str -> option scalar.

  Notation eval_or := (eval_or cmpf likef staticf col).
  Notation eval_and := (eval_and cmpf likef staticf col).
  Notation eval_atom := (eval_atom cmpf likef staticf col).
  Notation isem := (isem cmpf likef staticf col).
  Notation isem_or := (isem_or cmpf likef staticf col).
  Notation isem_and := (isem_and cmpf likef staticf col).

  Definition lift (o : option tv) (rest : list tok) (ps : list pyval)
    : option (tv * list tok * list pyval) :=
    match o with Some t => Some (t, rest, ps) | None => None end.

  Lemma isem_IOr l : isem (IOr l) = isem_or l.
  Proof. induction l as [|x r IH]; [reflexivity|]. cbn [isem isem_or] in *. rewrite IH. reflexivity. Qed.

  Lemma eval_inlist_ok vs rest prest : vs <> [] ->
    eval_inlist (qtoks vs ++ TRP :: rest) (map VS vs ++ prest) = Some (vs, rest, prest).
  Proof.
    induction vs as [|a r IH]; [congruence|]. intros _.
    destruct r as [|b r']; [reflexivity|].
    change (eval_inlist (TQ :: TComma :: (qtoks (b :: r') ++ TRP :: rest))
                        (VS a :: (map VS (b :: r') ++ prest)) = Some (a :: b :: r', rest, prest)).
    cbn [eval_inlist pop]. rewrite IH by discriminate. reflexivity.
  Qed.

  Definition is_leaf (i : icond) : Prop := match i with IOr _ => False | _ => True end.

  Lemma eval_leaf_ok i n rest prest : is_leaf i ->
    eval_atom (S n) (spec_toks i ++ rest) (spec_params i ++ prest) = lift (isem i) rest prest.
  Proof.
    destruct i as [f c v|f pos|f pos vs|f pos p|t|l]; intros HL; [| | | | |destruct HL].
    - cbn [spec_toks spec_params operands map snd app Model.eval_atom isem].
      destruct (col f); reflexivity.
    - destruct pos; cbn [spec_toks spec_params operands map snd app Model.eval_atom isem];
        (destruct (col f) as [x|]; [|reflexivity]); cbn [eval_pred option_map lift];
        destruct (is_null x); reflexivity.
    - destruct vs as [|a r].
      + destruct pos; reflexivity.
      + assert (a :: r <> []) as Hne by discriminate.
        unfold spec_params. cbn [operands]. rewrite map_map. cbn [snd].
        destruct pos; cbn [spec_toks isem]; cbn [app Model.eval_atom];
          (destruct (col f) as [x|]; [|reflexivity]); cbn [eval_pred option_map lift];
          rewrite <- app_assoc; cbn [app]; change (fun x0 : scalar => VS x0) with VS;
          rewrite (eval_inlist_ok (a :: r) rest prest Hne); reflexivity.
    - destruct pos; cbn [spec_toks spec_params operands map snd app Model.eval_atom isem];
        (destruct (col f) as [x|]; reflexivity).
    - cbn [spec_toks spec_params operands map app Model.eval_atom isem].
      destruct (staticf t); reflexivity.
  Qed.

  Lemma spec_params_or l : spec_params (IOr l) = flat_map spec_params l.
  Proof.
    unfold spec_params. cbn [operands].
    induction l as [|x r IH]; [reflexivity|]. cbn [flat_map]. rewrite map_app, IH. reflexivity.
  Qed.

  Lemma eval_or_S n ts ps :
    eval_or (S n) ts ps =
    match eval_and n ts ps with
    | Some (v, TOr :: r, ps') =>
        match eval_or n r ps' with
        | Some (v', r', ps'') => Some (or3 v v', r', ps'')
        | None => None
        end
    | x => x
    end.
  Proof. reflexivity. Qed.

  Lemma eval_and_S n ts ps :
    eval_and (S n) ts ps =
    match eval_atom n ts ps with
    | Some (v, TAnd :: r, ps') =>
        match eval_and n r ps' with
        | Some (v', r', ps'') => Some (and3 v v', r', ps'')
        | None => None
        end
    | x => x
    end.
  Proof. reflexivity. Qed.

  Lemma eval_atom_LP n r ps :
    eval_atom (S n) (TLP :: r) ps =
    match eval_or n r ps with
    | Some (v, TRP :: r', ps') => Some (v, r', ps')
    | _ => None
    end.
  Proof. reflexivity. Qed.

  Definition atom_ok (i : icond) : Prop :=
    forall n rest prest, (3 * length (spec_toks i) <= n)%nat ->
      eval_atom n (spec_toks i ++ rest) (spec_params i ++ prest) = lift (isem i) rest prest.

  Lemma eval_or_list l : l <> [] -> Forall atom_ok l ->
    forall n rest prest, (3 * length (join_toks [TOr] (map spec_toks l)) + 2 <= n)%nat ->
      eval_or n (join_toks [TOr] (map spec_toks l) ++ TRP :: rest) (flat_map spec_params l ++ prest)
      = lift (isem_or l) (TRP :: rest) prest.
  Proof.
    induction l as [|x r IH]; [congruence|]. intros _ HF n rest prest Hn.
    inversion HF as [|x' r' Hx Hr]; subst x' r'.
    destruct n as [|[|n2]]; [lia|lia|].
    destruct r as [|y r'].
    - cbn [map join_toks flat_map isem_or]. rewrite app_nil_r.
      cbn [map join_toks] in Hn.
      rewrite eval_or_S, eval_and_S.
      rewrite (Hx n2 (TRP :: rest) prest) by lia.
      destruct (isem x) as [v|]; cbn [lift]; [|reflexivity].
      rewrite or3_F_r. reflexivity.
    - assert (y :: r' <> []) as Hne by discriminate.
      remember (y :: r') as R eqn:ER. clear ER y r'.
      cbn [map flat_map isem_or] in *.
      rewrite join_toks_cons in * by (apply map_neq_nil; exact Hne).
      rewrite !app_length in Hn. cbn [length] in Hn.
      rewrite <- !app_assoc. cbn [app].
      rewrite eval_or_S, eval_and_S.
      rewrite (Hx n2 (TOr :: join_toks [TOr] (map spec_toks R) ++ TRP :: rest)
                  (flat_map spec_params R ++ prest)) by lia.
      destruct (isem x) as [v|]; cbn [lift]; [|reflexivity].
      rewrite (IH Hne Hr (S n2) rest prest) by lia.
      destruct (isem_or R) as [v'|]; reflexivity.
  Qed.

  Lemma spec_toks_nonempty i : (1 <= length (spec_toks i))%nat.
  Proof.
    destruct i as [f c v|f pos|f pos vs|f pos p|t|l]; try destruct pos; try destruct vs; try destruct l;
      cbn [spec_toks length]; lia.
  Qed.

  Lemma eval_atom_ok i : atom_ok i.
  Proof.
    induction i as [f c v|f pos|f pos vs|f pos p|t|l IH] using icond_ind'.
    1-5: (intros n rest prest Hn;
          match type of Hn with (3 * length (spec_toks ?i) <= _)%nat => pose proof (spec_toks_nonempty i) end;
          destruct n as [|n]; [lia|]; apply eval_leaf_ok; exact I).
    intros n rest prest Hn. destruct l as [|x r].
    - destruct n as [|n]; [cbn in Hn; lia|]. reflexivity.
    - change (spec_toks (IOr (x :: r))) with (TLP :: join_toks [TOr] (map spec_toks (x :: r)) ++ [TRP]) in *.
      cbn [length] in Hn. rewrite app_length in Hn. cbn [length] in Hn.
      destruct n as [|n]; [lia|].
      rewrite spec_params_or, isem_IOr.
      cbn [app]. rewrite <- app_assoc. cbn [app]. rewrite eval_atom_LP.
      rewrite (eval_or_list (x :: r) ltac:(discriminate) IH n rest prest) by lia.
      destruct (isem_or (x :: r)); reflexivity.
  Qed.

  Lemma eval_and_list l : l <> [] ->
    forall n, (3 * length (join_toks [TAnd] (map spec_toks l)) + 1 <= n)%nat ->
      eval_and n (join_toks [TAnd] (map spec_toks l)) (flat_map spec_params l) = lift (isem_and l) [] [].
  Proof.
    induction l as [|x r IH]; [congruence|]. intros _ n Hn.
    destruct n as [|n1]; [lia|].
    destruct r as [|y r'].
    - cbn [map join_toks flat_map isem_and] in *. rewrite app_nil_r.
      rewrite eval_and_S.
      rewrite <- (app_nil_r (spec_toks x)), <- (app_nil_r (spec_params x)).
      rewrite (eval_atom_ok x n1 [] []) by lia.
      destruct (isem x) as [v|]; cbn [lift]; [|reflexivity].
      rewrite and3_T_r. reflexivity.
    - assert (y :: r' <> []) as Hne by discriminate.
      remember (y :: r') as R eqn:ER. clear ER y r'.
      cbn [map flat_map isem_and] in *.
      rewrite join_toks_cons in * by (apply map_neq_nil; exact Hne).
      rewrite !app_length in Hn. cbn [length] in Hn.
      cbn [app]. rewrite eval_and_S.
      rewrite (eval_atom_ok x n1 (TAnd :: join_toks [TAnd] (map spec_toks R))
                 (flat_map spec_params R)) by lia.
      destruct (isem x) as [v|]; cbn [lift]; [|reflexivity].
      rewrite (IH Hne n1) by lia.
      destruct (isem_and R) as [v'|]; reflexivity.
  Qed.

  (* the whole WHERE expression of a non-empty filter list *)
  Lemma eval_where_ok l : l <> [] ->
    eval_where cmpf likef staticf col (join_toks [TAnd] (map spec_toks l)) (flat_map spec_params l)
    = isem_and l.
  Proof.
    intros Hl. unfold eval_where, fuel_for.
    replace (3 * length (join_toks [TAnd] (map spec_toks l)) + 3)%nat
      with (S (3 * length (join_toks [TAnd] (map spec_toks l)) + 2))%nat by lia.
    rewrite eval_or_S.
    rewrite (eval_and_list l Hl) by lia.
    destruct (isem_and l); reflexivity.
  Qed.
End EvalSpec.

(* ================================================================== *)
(* Part 2: the code (model + constants read from the source) produces    *)
(* exactly these tokens and bound values for every documented filter     *)

Definition valid_pt (pt : Z) : Prop := pt = ph_question \/ pt = ph_percent.

(* --- obligations on the literals of the source ---------------------- *)
Lemma lex_literals :
  lex in_open = [TLP] /\ lex in_sep = [TComma] /\ lex in_close = [TRP] /\
  lex or_empty = [TFalse] /\ lex or_open = [TLP] /\ lex or_sep = [TOr] /\ lex or_close = [TRP] /\
  lex kw_and = [TAnd].
Proof. vm_compute. repeat split. Qed.

Lemma lex_placeholder pt : valid_pt pt ->
  exists ph, lookup_clause pt ph_key = Ok ph /\ lex ph = [TQ].
Proof. intros [->| ->]; eexists; split; vm_compute; reflexivity. Qed.

(* every clause literal starts with a blank, so that field_name + clause is
   lexed as field_name followed by the tokens of the clause *)
Lemma clause_leading_blank :
  forallb (fun t => forallb (fun kv => str_eqb (fst kv) ph_key ||
                                       match snd kv with 32 :: _ => true | _ => false end) (snd t))
          clause_tables = true.
Proof. vm_compute. reflexivity. Qed.

(* --- unfolding the nested fixpoints --------------------------------- *)
Lemma cond_text_or_go pt l :
  (fix go (l : list cond) : res (list (list piece) * list pyval) :=
     match l with
     | [] => Ok ([], [])
     | x :: r =>
         bind (cond_text pt x) (fun pv =>
         bind (go r) (fun pvs => Ok (fst pv :: fst pvs, snd pv ++ snd pvs)))
     end) l = texts_all pt l.
Proof. induction l as [|x r IH]; [reflexivity|]. cbn [texts_all]. rewrite <- IH. reflexivity. Qed.

Lemma cond_text_or pt c l :
  cond_text pt (COr (c :: l)) =
  bind (texts_all pt (c :: l)) (fun pvs =>
    Ok ([PLit or_open] ++ join_pieces [PLit or_sep] (fst pvs) ++ [PLit or_close], snd pvs)).
Proof. rewrite <- cond_text_or_go. reflexivity. Qed.

Lemma make_or_go l :
  (fix go (l : list arg) : list (bool * res cond) :=
     match l with
     | [] => []
     | x :: r => (is_or x, make x) :: go r
     end) l = map (fun x => (is_or x, make x)) l.
Proof. induction l as [|x r IH]; [reflexivity|]. cbn [map]. rewrite <- IH. reflexivity. Qed.

Lemma make_or l kw :
  make (AOr l kw) =
  bind (collect (map (fun x => (is_or x, make x)) l ++ kw_results (sort_kw kw))) (fun cs => Ok (COr cs)).
Proof. rewrite <- make_or_go. reflexivity. Qed.

Lemma meaning_or_go l :
  (fix go (l : list arg) : list (option icond) :=
     match l with
     | [] => []
     | x :: r => meaning x :: go r
     end) l = map meaning l.
Proof. induction l as [|x r IH]; [reflexivity|]. cbn [map]. rewrite <- IH. reflexivity. Qed.

Lemma meaning_or l kw :
  meaning (AOr l kw) =
  match all_some (map meaning l ++ kw_meanings kw) with
  | Some is => Some (IOr is)
  | None => None
  end.
Proof. rewrite <- meaning_or_go. reflexivity. Qed.

(* --- collect ---------------------------------------------------------- *)
Lemma first_err_filter rs : first_err rs = None -> first_err (filter fst rs) = None.
Proof.
  induction rs as [|[b [c|e]] r IH]; cbn [first_err filter fst]; [reflexivity| |discriminate].
  intros H. destruct b; cbn [first_err]; auto.
Qed.

Lemma collect_Forall2 rs cs : Forall2 (fun r c => snd r = Ok c) rs cs -> collect rs = Ok cs.
Proof.
  intros H.
  assert (first_err rs = None /\ all_ok rs = cs) as [H1 H2].
  { induction H as [|[b r] c rs cs Hr _ [IH1 IH2]]; [split; reflexivity|].
    cbn [snd] in Hr. subst r. cbn [first_err all_ok]. split; [exact IH1|congruence]. }
  unfold collect. rewrite (first_err_filter rs H1), H1, H2. reflexivity.
Qed.

Lemma all_some_Forall2 {A} (l : list (option A)) s :
  all_some l = Some s -> Forall2 (fun o a => o = Some a) l s.
Proof.
  revert s. induction l as [|[a|] r IH]; intros s; cbn [all_some].
  - intros [= <-]. constructor.
  - destruct (all_some r) as [s'|]; [|discriminate]. intros [= <-]. constructor; [reflexivity|auto].
  - discriminate.
Qed.

(* --- tokens of joined pieces ----------------------------------------- *)
Lemma pieces_toks_app a b : pieces_toks (a ++ b) = pieces_toks a ++ pieces_toks b.
Proof. apply flat_map_app. Qed.

Lemma pieces_toks_join sep l :
  pieces_toks (join_pieces sep l) = join_toks (pieces_toks sep) (map pieces_toks l).
Proof.
  induction l as [|x r IH]; [reflexivity|].
  destruct r as [|y r']; [reflexivity|].
  change (join_pieces sep (x :: y :: r')) with (x ++ sep ++ join_pieces sep (y :: r')).
  rewrite !pieces_toks_app, IH. reflexivity.
Qed.

Lemma qpieces_toks ph (l : list scalar) : lex ph = [TQ] ->
  pieces_toks (join_pieces [PLit in_sep] (map (fun _ => [PLit ph]) l)) = qtoks l.
Proof.
  intros Hph. destruct lex_literals as (_ & Hsep & _).
  induction l as [|a r IH]; [reflexivity|].
  destruct r as [|b r'].
  - cbn [map join_pieces pieces_toks flat_map piece_toks qtoks]. rewrite Hph. reflexivity.
  - change (map (fun _ : scalar => [PLit ph]) (a :: b :: r'))
      with ([PLit ph] :: map (fun _ : scalar => [PLit ph]) (b :: r')).
    remember (b :: r') as R eqn:ER.
    assert (map (fun _ : scalar => [PLit ph]) R <> []) as Hne by (subst R; discriminate).
    destruct (map (fun _ : scalar => [PLit ph]) R) as [|y ys] eqn:EM; [congruence|].
    change (join_pieces [PLit in_sep] ([PLit ph] :: y :: ys))
      with ([PLit ph] ++ [PLit in_sep] ++ join_pieces [PLit in_sep] (y :: ys)).
    rewrite !pieces_toks_app, IH.
    cbn [pieces_toks flat_map piece_toks]. rewrite Hph, Hsep. subst R. reflexivity.
Qed.

Lemma spec_params_in f pos vs : spec_params (IIn f pos vs) = map VS vs.
Proof. unfold spec_params. cbn [operands]. rewrite map_map. reflexivity. Qed.

Lemma cond_text_in pt f op k l cl ph :
  classify op text_groups 0 = Some 1%nat ->
  lookup_clause pt op = Ok cl -> lookup_clause pt ph_key = Ok ph -> l <> [] ->
  cond_text pt (CField f op (VSeq k l)) =
  Ok ([PField f; PLit cl; PLit in_open]
        ++ join_pieces [PLit in_sep] (map (fun _ => [PLit ph]) l) ++ [PLit in_close], map VS l).
Proof.
  intros H1 H2 H3 H4. cbn [cond_text]. rewrite H1.
  destruct l as [|a r]; [congruence|]. cbn [nonempty]. rewrite H2, H3. reflexivity.
Qed.

(* --- one documented (field, op, value) filter -------------------------- *)
Definition compiles (pt : Z) (r : res cond) (i : icond) : Prop :=
  exists c ps, r = Ok c /\ cond_text pt c = Ok (ps, spec_params i) /\ pieces_toks ps = spec_toks i.

Lemma in_tokens f cl ph l pre :
  lex ph = [TQ] -> l <> [] -> TId f :: lex cl ++ [TLP] = pre ->
  pieces_toks ([PField f; PLit cl; PLit in_open]
                 ++ join_pieces [PLit in_sep] (map (fun _ => [PLit ph]) l) ++ [PLit in_close])
  = pre ++ qtoks l ++ [TRP].
Proof.
  intros Hph Hl <-. destruct lex_literals as (Hopen & _ & Hclose & _).
  rewrite !pieces_toks_app, (qpieces_toks ph l Hph).
  cbn [pieces_toks flat_map piece_toks]. rewrite Hopen, Hclose, !app_nil_r.
  cbn [app]. rewrite <- !app_assoc. reflexivity.
Qed.

Lemma leaf_compile pt f raw up v i : valid_pt pt ->
  meaning_leaf f up v = Some i -> compiles pt (mk_field (Some f) raw up v) i.
Proof.
  intros Hpt. unfold meaning_leaf, parse_op.
  destruct (assoc_str up op_table) as [k|] eqn:E; [|discriminate].
  apply assoc_str_in in E. cbn [op_table In] in E.
  destruct (lex_placeholder pt Hpt) as (ph & Hph1 & Hph2).
  repeat (destruct E as [E|E]; [injection E as <- <-|]); [..|destruct E];
    destruct v as [[|z|s]|[| |] [|a l]]; try discriminate; intros [= <-];
    try (destruct Hpt as [->| ->]; do 2 eexists; (split; [reflexivity|split; reflexivity])).
  all: unfold compiles; rewrite spec_params_in; do 2 eexists; (split; [reflexivity|]);
       (split; [eapply cond_text_in; [reflexivity| |exact Hph1|discriminate];
                destruct Hpt as [->| ->]; reflexivity|]);
       (erewrite in_tokens; [ |exact Hph2|discriminate|reflexivity]; reflexivity).
Qed.

(* --- lists of filters --------------------------------------------------- *)
Lemma compiles_list pt rs is :
  Forall2 (fun r i => compiles pt (snd r) i) rs is ->
  exists cs pss, collect rs = Ok cs /\ length cs = length is /\
                 texts_all pt cs = Ok (pss, flat_map spec_params is) /\
                 map pieces_toks pss = map spec_toks is.
Proof.
  intros H.
  assert (exists cs pss, Forall2 (fun r c => snd r = Ok c) rs cs /\ length cs = length is /\
                         texts_all pt cs = Ok (pss, flat_map spec_params is) /\
                         map pieces_toks pss = map spec_toks is) as (cs & pss & H1 & H2 & H3 & H4).
  { induction H as [|r i rs is (c & ps & Hr & Hc & Ht) _ (cs & pss & IH1 & IH2 & IH3 & IH4)].
    - exists [], []. repeat split; constructor.
    - exists (c :: cs), (ps :: pss). split; [constructor; assumption|].
      split; [cbn [length]; congruence|]. split.
      + cbn [texts_all]. rewrite Hc, IH3. reflexivity.
      + cbn [map]. congruence. }
  exists cs, pss. split; [apply collect_Forall2; exact H1|]. auto.
Qed.

Lemma kw_compiles pt (L : list (str * pyval)) is : valid_pt pt ->
  Forall2 (fun o i => o = Some i) (map (fun e => meaning_leaf (fst e) [61] (snd e)) L) is ->
  Forall2 (fun r i => compiles pt (snd r) i) (kw_results L) is.
Proof.
  intros Hpt. revert is. induction L as [|e L IH]; intros is H; inversion H; subst; [constructor|].
  cbn [kw_results map]. constructor; [|apply IH; assumption].
  cbn [snd]. apply leaf_compile; assumption.
Qed.

Lemma or_tokens pss :
  pieces_toks ([PLit or_open] ++ join_pieces [PLit or_sep] pss ++ [PLit or_close])
  = TLP :: join_toks [TOr] (map pieces_toks pss) ++ [TRP].
Proof.
  destruct lex_literals as (_ & _ & _ & _ & Hopen & Hsep & Hclose & _).
  rewrite !pieces_toks_app, pieces_toks_join.
  cbn [pieces_toks flat_map piece_toks]. rewrite Hopen, Hsep, Hclose, !app_nil_r. reflexivity.
Qed.

Lemma compile_spec pt : valid_pt pt -> forall a i, meaning a = Some i -> compiles pt (make a) i.
Proof.
  intros Hpt a. induction a as [|s|f op v|f v| |l kw IH|] using arg_ind'; intros i Hm;
    try discriminate.
  - injection Hm as <-. do 2 eexists. repeat split; reflexivity.
  - destruct f as [f|]; [|discriminate]. destruct op as [[raw up]|]; [|discriminate].
    cbn [meaning make] in *. apply leaf_compile; assumption.
  - destruct f as [f|]; [|discriminate]. cbn [meaning make] in *.
    exact (leaf_compile pt f op_eq op_eq v i Hpt Hm).
  - rewrite meaning_or in Hm.
    destruct (all_some (map meaning l ++ kw_meanings kw)) as [is|] eqn:E; [|discriminate].
    injection Hm as <-.
    apply all_some_Forall2 in E. apply Forall2_app_inv_l in E as (is1 & is2 & E1 & E2 & ->).
    assert (Forall2 (fun r i => compiles pt (snd r) i) (map (fun x => (is_or x, make x)) l) is1) as F1.
    { clear E2. revert is1 E1. induction IH as [|x r Hx _ IHr]; intros is1 E1.
      - destruct is1; [constructor|inversion E1].
      - destruct is1 as [|i1 is1]; [inversion E1|]. cbn [map] in *.
        inversion E1; subst. constructor; [cbn [snd]; auto|auto]. }
    pose proof (kw_compiles pt (sort_kw kw) is2 Hpt E2) as F2.
    destruct (compiles_list pt _ _ (Forall2_app F1 F2)) as (cs & pss & Hc & Hlen & Ht & Hk).
    rewrite make_or, Hc. cbn [bind].
    destruct (is1 ++ is2) as [|i0 is'] eqn:EI.
    + destruct cs; [|discriminate]. do 2 eexists. split; [reflexivity|]. split; [reflexivity|].
      destruct lex_literals as (_ & _ & _ & He & _). cbn [pieces_toks flat_map piece_toks].
      rewrite He. reflexivity.
    + destruct cs as [|c0 cs']; [discriminate|].
      do 2 eexists. split; [reflexivity|]. rewrite cond_text_or, Ht. cbn [bind fst snd].
      rewrite spec_params_or. split; [reflexivity|].
      rewrite or_tokens, Hk. reflexivity.
Qed.

(* --- the statement built by SqlMethod._execute --------------------------- *)
Lemma kw_args_results kw :
  map (fun x => (is_or x, make x)) (filter (fun x => negb (is_none x)) (kw_args kw))
  = kw_results (sort_kw kw).
Proof.
  unfold kw_args, kw_results. induction (sort_kw kw) as [|e L IH]; [reflexivity|].
  cbn [map filter is_none negb]. rewrite IH. reflexivity.
Qed.

Lemma valid_pt_of (mysql : bool) : valid_pt (if mysql then ph_percent else ph_question).
Proof. destruct mysql; [right|left]; reflexivity. Qed.

Lemma build_spec mysql m kw_ord args kw is :
  meaning_all args kw = Some is ->
  exists q pss,
    build mysql m kw_ord args kw = Ok q /\
    q_params q = flat_map spec_params is /\
    q_where q = join_pieces [PLit kw_and] pss /\
    map pieces_toks pss = map spec_toks is /\
    pieces_toks (q_where q) = join_toks [TAnd] (map spec_toks is).
Proof.
  intros Hm. unfold meaning_all in Hm.
  apply all_some_Forall2 in Hm. apply Forall2_app_inv_l in Hm as (is1 & is2 & E1 & E2 & ->).
  set (pt := if mysql then ph_percent else ph_question).
  pose proof (valid_pt_of mysql) as Hpt. fold pt in Hpt.
  assert (Forall2 (fun r i => compiles pt (snd r) i)
            (map (fun x => (is_or x, make x)) (filter (fun x => negb (is_none x)) args)) is1) as F1.
  { clear E2. revert is1 E1. induction (filter (fun x => negb (is_none x)) args) as [|x r IHr]; intros is1 E1.
    - destruct is1; [constructor|inversion E1].
    - destruct is1 as [|i1 is1]; [inversion E1|]. cbn [map] in *.
      inversion E1; subst. constructor; [cbn [snd]; apply compile_spec; assumption|auto]. }
  pose proof (kw_compiles pt (sort_kw kw) is2 Hpt E2) as F2.
  destruct (compiles_list pt _ _ (Forall2_app F1 F2)) as (cs & pss & Hc & Hlen & Ht & Hk).
  unfold build. fold pt. unfold make_all.
  rewrite filter_app, map_app, kw_args_results, Hc. cbn [bind]. rewrite Ht. cbn [bind fst snd].
  eexists. exists pss. split; [reflexivity|]. cbn [q_params q_where].
  split; [reflexivity|]. split; [reflexivity|]. split; [exact Hk|].
  rewrite pieces_toks_join, Hk.
  destruct lex_literals as (_ & _ & _ & _ & _ & _ & _ & Hand).
  cbn [pieces_toks flat_map piece_toks]. rewrite Hand, app_nil_r. reflexivity.
Qed.

(* ================================================================== *)
(* where_semantics                                                      *)

Section Where.
  Variable cmpf : cop -> scalar -> scalar -> tv.
  Variable likef : scalar -> scalar -> tv.

  Definition row_sem (st : list (str * list (Z * Z))) (is : list icond) (r : row) : option tv :=
    isem_and cmpf likef (static_of st r) (fun f => assoc_str f (r_cols r)) is.

  Lemma join_toks_nonempty is : is <> [] -> join_toks [TAnd] (map spec_toks is) <> [].
  Proof.
    destruct is as [|i r]; [congruence|]. intros _ H.
    pose proof (spec_toks_nonempty i) as Hi.
    destruct r as [|j r'].
    - cbn [map join_toks] in H. rewrite H in Hi. cbn in Hi. lia.
    - rewrite map_cons, join_toks_cons in H by discriminate.
      destruct (spec_toks i); [cbn in Hi; lia|discriminate].
  Qed.

  Lemma row_truth_ok mysql m kw_ord args kw is :
    meaning_all args kw = Some is ->
    exists q, build mysql m kw_ord args kw = Ok q /\
      q_params q = flat_map spec_params is /\
      forall st r, row_truth cmpf likef st q r = row_sem st is r.
  Proof.
    intros Hm. destruct (build_spec mysql m kw_ord args kw is Hm) as (q & pss & Hb & Hp & Hw & Hk & Ht).
    exists q. split; [exact Hb|]. split; [exact Hp|]. intros st r.
    unfold row_truth, row_sem. destruct is as [|i0 is'].
    - destruct pss; [|discriminate]. rewrite Hw, Hp. reflexivity.
    - destruct (q_where q) as [|p0 wh] eqn:EW.
      + exfalso. apply (join_toks_nonempty (i0 :: is') ltac:(discriminate)). rewrite <- Ht. reflexivity.
      + rewrite Ht, Hp. apply eval_where_ok. discriminate.
  Qed.

  Definition is_T (o : option tv) : bool := match o with Some T => true | _ => false end.

  Lemma select_rows_ok st q is rows :
    (forall r, row_truth cmpf likef st q r = row_sem st is r) ->
    (forall r, In r rows -> row_sem st is r <> None) ->
    select_rows cmpf likef st q rows
    = Some (map r_id (filter (fun r => is_T (row_sem st is r)) rows)).
  Proof.
    intros Hq. induction rows as [|r rest IH]; intros Hall; [reflexivity|].
    cbn [select_rows filter]. rewrite Hq, IH by (intros r' Hr'; apply Hall; right; exact Hr').
    pose proof (Hall r (or_introl eq_refl)) as Hr.
    destruct (row_sem st is r) as [[| |]|]; [reflexivity|reflexivity|reflexivity|congruence].
  Qed.

  Lemma spec_params_scalar is :
    existsb (fun p => match p with VSeq _ _ => true | VS _ => false end) (flat_map spec_params is) = false.
  Proof.
    induction is as [|i r IH]; [reflexivity|]. cbn [flat_map]. rewrite existsb_app, IH, orb_false_r.
    unfold spec_params. induction (operands i) as [|x l IHl]; [reflexivity|]. cbn [map existsb]. exact IHl.
  Qed.

  Lemma run_query_ok mysql m kw_ord args kw is :
    meaning_all args kw = Some is ->
    exists q, build mysql m kw_ord args kw = Ok q /\
      forall st rows desc mtd,
        (forall r, In r rows -> row_sem st is r <> None) ->
        run_query cmpf likef st q rows desc mtd =
        finish mtd (let ids := sort_Z (map r_id (filter (fun r => is_T (row_sem st is r)) rows)) in
                    if desc then rev ids else ids).
  Proof.
    intros Hm. destruct (row_truth_ok mysql m kw_ord args kw is Hm) as (q & Hb & Hp & Hq).
    exists q. split; [exact Hb|]. intros st rows desc mtd Hall.
    unfold run_query. rewrite Hp, spec_params_scalar.
    rewrite (select_rows_ok st q is rows (Hq st) Hall). reflexivity.
  Qed.
End Where.

(* ================================================================== *)
(* placeholders_match                                                   *)

Lemma owners_from_length cur ts : length (owners_from cur ts) = count_tq ts.
Proof.
  revert cur. induction ts as [|t r IH]; intros cur; [reflexivity|].
  destruct t; cbn [owners_from count_tq length]; rewrite ?IH; reflexivity.
Qed.

Lemma owners_qtoks f vs rest :
  owners_from (Some f) (qtoks vs ++ rest) = map (fun _ => Some f) vs ++ owners_from (Some f) rest.
Proof.
  induction vs as [|a r IH]; [reflexivity|].
  destruct r as [|b r']; [reflexivity|].
  change (qtoks (a :: b :: r')) with (TQ :: TComma :: qtoks (b :: r')).
  cbn [app owners_from map]. rewrite IH. reflexivity.
Qed.

Definition own (i : icond) : list (option str) := map (fun fv => Some (fst fv)) (operands i).

Definition owners_ok (i : icond) : Prop :=
  forall cur rest, exists cur', owners_from cur (spec_toks i ++ rest) = own i ++ owners_from cur' rest.

Lemma own_in f pos vs : own (IIn f pos vs) = map (fun _ => Some f) vs.
Proof. unfold own. cbn [operands]. rewrite map_map. reflexivity. Qed.

Lemma owners_join (sep : tok) l :
  (forall cur r, owners_from cur (sep :: r) = owners_from cur r) ->
  Forall owners_ok l ->
  forall cur rest, exists cur',
    owners_from cur (join_toks [sep] (map spec_toks l) ++ rest)
    = flat_map own l ++ owners_from cur' rest.
Proof.
  intros Hsep HF. induction HF as [|x r Hx Hr IH]; intros cur rest.
  - exists cur. reflexivity.
  - destruct r as [|y r'].
    + cbn [map join_toks flat_map]. rewrite app_nil_r. apply Hx.
    + assert (y :: r' <> []) as Hne by discriminate. remember (y :: r') as R eqn:ER. clear ER.
      cbn [map flat_map]. rewrite join_toks_cons by (apply map_neq_nil; exact Hne).
      rewrite <- !app_assoc. cbn [app].
      destruct (Hx cur (sep :: join_toks [sep] (map spec_toks R) ++ rest)) as (c1 & E1).
      rewrite E1, Hsep. destruct (IH c1 rest) as (c2 & E2). rewrite E2.
      exists c2. rewrite app_assoc. reflexivity.
Qed.

Lemma own_or l : own (IOr l) = flat_map own l.
Proof.
  unfold own. cbn [operands]. induction l as [|x r IH]; [reflexivity|].
  cbn [flat_map]. rewrite map_app, IH. reflexivity.
Qed.

Lemma owners_atom i : owners_ok i.
Proof.
  induction i as [f c v|f pos|f pos vs|f pos p|t|l IH] using icond_ind'; intros cur rest.
  - exists (Some f). reflexivity.
  - exists (Some f). destruct pos; reflexivity.
  - destruct vs as [|a r]; [exists cur; destruct pos; reflexivity|].
    exists (Some f). rewrite own_in.
    destruct pos; cbn [spec_toks app owners_from]; rewrite <- app_assoc, owners_qtoks; reflexivity.
  - exists (Some f). destruct pos; reflexivity.
  - exists cur. reflexivity.
  - destruct l as [|x r]; [exists cur; reflexivity|].
    change (spec_toks (IOr (x :: r))) with (TLP :: join_toks [TOr] (map spec_toks (x :: r)) ++ [TRP]).
    cbn [app owners_from]. rewrite <- app_assoc.
    destruct (owners_join TOr (x :: r) ltac:(reflexivity) IH cur ([TRP] ++ rest)) as (c & E).
    rewrite E, own_or. exists c. reflexivity.
Qed.

Lemma owners_all is :
  owners (join_toks [TAnd] (map spec_toks is)) = flat_map own is.
Proof.
  assert (Forall owners_ok is) as HF by (apply Forall_forall; intros; apply owners_atom).
  destruct (owners_join TAnd is ltac:(reflexivity) HF None []) as (c & E).
  unfold owners. rewrite app_nil_r in E. rewrite E. cbn [owners_from]. apply app_nil_r.
Qed.

Lemma flat_spec_params is :
  flat_map spec_params is = map (fun fv => VS (snd fv)) (flat_map operands is).
Proof. unfold spec_params. induction is as [|i r IH]; [reflexivity|]. cbn [flat_map]. rewrite map_app, IH. reflexivity. Qed.

Lemma flat_own is : flat_map own is = map (fun fv => Some (fst fv)) (flat_map operands is).
Proof. unfold own. induction is as [|i r IH]; [reflexivity|]. cbn [flat_map]. rewrite map_app, IH. reflexivity. Qed.

Lemma placeholders_match_l mysql m kw_ord args kw is :
  meaning_all args kw = Some is ->
  exists q, build mysql m kw_ord args kw = Ok q /\
    let ops := flat_map operands is in
    q_params q = map (fun fv => VS (snd fv)) ops /\
    owners (pieces_toks (q_where q)) = map (fun fv => Some (fst fv)) ops /\
    count_tq (pieces_toks (q_where q)) = length (q_params q).
Proof.
  intros Hm. destruct (build_spec mysql m kw_ord args kw is Hm) as (q & pss & Hb & Hp & _ & _ & Ht).
  exists q. split; [exact Hb|]. cbn zeta.
  pose proof (flat_spec_params is) as E1. pose proof (flat_own is) as E2.
  split; [congruence|]. split.
  - rewrite Ht, owners_all. exact E2.
  - unfold owners. rewrite <- (owners_from_length None), Ht.
    fold (owners (join_toks [TAnd] (map spec_toks is))). rewrite owners_all, E2, Hp, E1, !map_length. reflexivity.
Qed.

(* ================================================================== *)
(* empty_in                                                             *)

Lemma empty_in_l cmpf likef staticf col pt f raw up k pos :
  valid_pt pt -> parse_op up = Some (OIn pos) ->
  exists c ps, mk_field (Some f) raw up (VSeq k []) = Ok c /\ cond_text pt c = Ok (ps, []) /\
    eval_where cmpf likef staticf col (pieces_toks ps) [] = Some (tv_of_bool (negb pos)).
Proof.
  intros Hpt Hop.
  assert (meaning_leaf f up (VSeq k []) = Some (IIn f pos [])) as Hm by (unfold meaning_leaf; rewrite Hop; reflexivity).
  destruct (leaf_compile pt f raw up _ _ Hpt Hm) as (c & ps & H1 & H2 & H3).
  exists c, ps. split; [exact H1|]. split; [exact H2|]. rewrite H3. destruct pos; reflexivity.
Qed.

(* ================================================================== *)
(* values_never_in_text                                                 *)

Section CondInd.
  Variable P : cond -> Prop.
  Hypothesis HS : forall t, P (CStatic t).
  Hypothesis HF : forall f op v, P (CField f op v).
  Hypothesis HO : forall l, Forall P l -> P (COr l).
  Fixpoint cond_ind' (c : cond) : P c :=
    match c with
    | CStatic t => HS t
    | CField f op v => HF f op v
    | COr l => HO l ((fix go (l : list cond) : Forall P l :=
                        match l with
                        | [] => Forall_nil P
                        | x :: r => Forall_cons x (cond_ind' x) (go r)
                        end) l)
    end.
End CondInd.

Lemma is_kind_erase kinds v : is_kind kinds (erase_val v) = is_kind kinds v.
Proof. destruct v; reflexivity. Qed.

Lemma mk_field_erase f raw up v :
  mk_field f raw up (erase_val v) = res_map erase_cond (mk_field f raw up v).
Proof.
  unfold mk_field. destruct f as [fn|].
  - destruct (classify up init_groups 0) as [[|[|[|[|[|n]]]]]|]; try reflexivity.
    + destruct v as [[|z|s]|k l]; try reflexivity;
        rewrite is_kind_erase; destruct (is_kind seq_kinds_eq _); reflexivity.
    + rewrite is_kind_erase. destruct (is_kind seq_kinds_in v); reflexivity.
    + destruct v as [[|z|s]|k l]; reflexivity.
    + destruct v as [[|z|s]|k l]; reflexivity.
  - destruct v as [[|z|s]|k l]; reflexivity.
Qed.

Lemma kw_insert_erase e l :
  kw_insert (fst e, erase_val (snd e)) (erase_kw l) = erase_kw (kw_insert e l).
Proof.
  induction l as [|x r IH]; [reflexivity|].
  cbn [erase_kw map kw_insert fst]. destruct (str_leb (fst e) (fst x)); [reflexivity|].
  cbn [map]. f_equal. exact IH.
Qed.

Lemma sort_kw_erase kw : sort_kw (erase_kw kw) = erase_kw (sort_kw kw).
Proof.
  unfold sort_kw. induction kw as [|e r IH]; [reflexivity|].
  cbn [erase_kw map fold_right]. fold (erase_kw r). rewrite IH. apply kw_insert_erase.
Qed.

Definition erase_r (r : bool * res cond) : bool * res cond := (fst r, res_map erase_cond (snd r)).

Lemma kw_results_erase kw :
  kw_results (sort_kw (erase_kw kw)) = map erase_r (kw_results (sort_kw kw)).
Proof.
  rewrite sort_kw_erase. unfold kw_results, erase_kw. rewrite !map_map.
  apply map_ext. intros e. unfold erase_r. cbn [fst snd]. rewrite mk_field_erase. reflexivity.
Qed.

Lemma first_err_erase rs : first_err (map erase_r rs) = first_err rs.
Proof. induction rs as [|[b [c|e]] r IH]; cbn [map erase_r first_err fst snd res_map]; auto. Qed.

Lemma filter_fst_erase rs : filter fst (map erase_r rs) = map erase_r (filter fst rs).
Proof.
  induction rs as [|[b r0] r IH]; [reflexivity|].
  cbn [map erase_r filter fst snd]. destruct b; cbn [map]; rewrite IH; reflexivity.
Qed.

Lemma all_ok_erase rs : all_ok (map erase_r rs) = map erase_cond (all_ok rs).
Proof. induction rs as [|[b [c|e]] r IH]; cbn [map erase_r all_ok fst snd res_map]; congruence. Qed.

Lemma collect_erase rs : collect (map erase_r rs) = res_map (map erase_cond) (collect rs).
Proof.
  unfold collect. rewrite filter_fst_erase, !first_err_erase, all_ok_erase.
  destruct (first_err (filter fst rs)); [reflexivity|]. destruct (first_err rs); reflexivity.
Qed.

Lemma is_or_erase a : is_or (erase_arg a) = is_or a. Proof. destruct a; reflexivity. Qed.
Lemma is_none_erase a : is_none (erase_arg a) = is_none a. Proof. destruct a; reflexivity. Qed.

Lemma make_erase a : make (erase_arg a) = res_map erase_cond (make a).
Proof.
  induction a as [|s|f op v|f v| |l kw IH|] using arg_ind'; try reflexivity.
  - destruct op as [[raw up]|]; [|reflexivity]. cbn [erase_arg make]. apply mk_field_erase.
  - cbn [erase_arg make]. apply mk_field_erase.
  - cbn [erase_arg]. rewrite !make_or, kw_results_erase.
    assert (map (fun x => (is_or x, make x)) (map erase_arg l)
            = map erase_r (map (fun x => (is_or x, make x)) l)) as ->.
    { rewrite !map_map. induction IH as [|x r Hx _ IHr]; [reflexivity|].
      cbn [map]. rewrite IHr. unfold erase_r at 1. cbn [fst snd]. rewrite Hx, is_or_erase. reflexivity. }
    rewrite <- map_app, collect_erase.
    destruct (collect _) as [cs|e]; reflexivity.
Qed.

Lemma make_all_erase L : make_all (map erase_arg L) = res_map (map erase_cond) (make_all L).
Proof.
  unfold make_all. rewrite <- collect_erase. f_equal.
  induction L as [|x r IH]; [reflexivity|].
  cbn [map filter]. rewrite is_none_erase. destruct (negb (is_none x)); [|exact IH].
  cbn [map]. rewrite IH. unfold erase_r at 1. cbn [fst snd]. rewrite make_erase, is_or_erase. reflexivity.
Qed.

Lemma kw_args_erase kw : kw_args (erase_kw kw) = map erase_arg (kw_args kw).
Proof.
  unfold kw_args. rewrite sort_kw_erase. unfold erase_kw. rewrite !map_map. reflexivity.
Qed.

(* the text pieces do not depend on the operand values *)
Definition text_of_res (r : res (list piece * list pyval)) : res (list piece) := res_map fst r.
Definition texts_of_res (r : res (list (list piece) * list pyval)) : res (list (list piece)) := res_map fst r.

Lemma texts_all_fst pt l l' :
  Forall2 (fun c c' => text_of_res (cond_text pt c') = text_of_res (cond_text pt c)) l l' ->
  texts_of_res (texts_all pt l') = texts_of_res (texts_all pt l).
Proof.
  induction 1 as [|c c' l l' Hc _ IH]; [reflexivity|].
  cbn [texts_all]. unfold text_of_res, texts_of_res in *.
  destruct (cond_text pt c') as [[p1 v1]|e1], (cond_text pt c) as [[p2 v2]|e2]; cbn [res_map fst bind] in *;
    try congruence.
  destruct (texts_all pt l') as [[q1 w1]|e1], (texts_all pt l) as [[q2 w2]|e2]; cbn [res_map fst snd bind] in *;
    congruence.
Qed.

Lemma cond_text_erase pt c :
  text_of_res (cond_text pt (erase_cond c)) = text_of_res (cond_text pt c).
Proof.
  induction c as [t|f op v|l IH] using cond_ind'; [reflexivity| |].
  - cbn [erase_cond cond_text].
    destruct (classify op text_groups 0) as [[|[|[|n]]]|]; unfold text_of_res.
    + destruct (lookup_clause pt op); reflexivity.
    + destruct v as [a|k vs]; [reflexivity|]. cbn [erase_val].
      destruct vs as [|a r]; [reflexivity|]. cbn [map nonempty].
      destruct (lookup_clause pt op); [|reflexivity]. destruct (lookup_clause pt ph_key); [|reflexivity].
      cbn [bind res_map fst]. rewrite map_map. reflexivity.
    + destruct (lookup_clause pt op); reflexivity.
    + destruct (in_group op (nth 3 text_groups [])); [|reflexivity]. destruct (lookup_clause pt op); reflexivity.
    + destruct (in_group op (nth 3 text_groups [])); [|reflexivity]. destruct (lookup_clause pt op); reflexivity.
  - cbn [erase_cond]. destruct l as [|c0 r]; [reflexivity|].
    cbn [map]. rewrite !cond_text_or.
    assert (texts_of_res (texts_all pt (map erase_cond (c0 :: r))) = texts_of_res (texts_all pt (c0 :: r))) as E.
    { apply texts_all_fst. induction IH as [|x r' Hx _ IHr]; constructor; assumption. }
    cbn [map] in E. unfold text_of_res, texts_of_res in *.
    destruct (texts_all pt (erase_cond c0 :: map erase_cond r)) as [[q1 w1]|e1],
             (texts_all pt (c0 :: r)) as [[q2 w2]|e2]; cbn [res_map fst bind] in *; congruence.
Qed.

Lemma values_never_in_text_l mysql m kw_ord args kw :
  sql_of (build mysql m kw_ord (map erase_arg args) (erase_kw kw)) = sql_of (build mysql m kw_ord args kw).
Proof.
  unfold build. rewrite kw_args_erase, <- map_app, make_all_erase.
  destruct (make_all (args ++ kw_args kw)) as [cs|e]; [|reflexivity].
  cbn [res_map bind].
  set (pt := if mysql then ph_percent else ph_question).
  assert (texts_of_res (texts_all pt (map erase_cond cs)) = texts_of_res (texts_all pt cs)) as E.
  { apply texts_all_fst. induction cs as [|c r IH]; constructor; [apply cond_text_erase|exact IH]. }
  unfold texts_of_res in E.
  assert (nonempty (map erase_cond cs) = nonempty cs) as EN by (destruct cs; reflexivity).
  destruct (texts_all pt (map erase_cond cs)) as [[q1 w1]|e1], (texts_all pt cs) as [[q2 w2]|e2];
    cbn [res_map fst bind sql_of q_sql] in *; try congruence.
  injection E as ->. rewrite EN. reflexivity.
Qed.

(* where_semantics for an arbitrary row environment *)
Lemma where_semantics_l cmpf likef staticf col mysql m kw_ord args kw is :
  meaning_all args kw = Some is ->
  exists q, build mysql m kw_ord args kw = Ok q /\
    q_params q = flat_map spec_params is /\
    (is = [] -> q_where q = []) /\
    (is <> [] ->
       eval_where cmpf likef staticf col (pieces_toks (q_where q)) (q_params q)
       = isem_and cmpf likef staticf col is).
Proof.
  intros Hm. destruct (build_spec mysql m kw_ord args kw is Hm) as (q & pss & Hb & Hp & Hw & Hk & Ht).
  exists q. split; [exact Hb|]. split; [exact Hp|]. split.
  - intros ->. destruct pss; [exact Hw|discriminate].
  - intros Hne. rewrite Ht, Hp. apply eval_where_ok. exact Hne.
Qed.

Lemma same_shape_same_text_l mysql m kw_ord args1 kw1 args2 kw2 :
  map erase_arg args1 = map erase_arg args2 -> erase_kw kw1 = erase_kw kw2 ->
  sql_of (build mysql m kw_ord args1 kw1) = sql_of (build mysql m kw_ord args2 kw2).
Proof.
  intros H1 H2. rewrite <- (values_never_in_text_l mysql m kw_ord args1 kw1),
                        <- (values_never_in_text_l mysql m kw_ord args2 kw2), H1, H2. reflexivity.
Qed.

(* text level: in every literal of the '?' style the number of '?' characters is
   the number of placeholder tokens *)
Lemma literals_count_l :
  Forall (fun s => count_q s = count_tq (lex s)) (all_literals ph_question).
Proof. vm_compute. repeat constructor. Qed.
