(* C10/Base.v -- types shared by the generated constants and the model. No proofs. *)
From Coq Require Import ZArith List Bool.
Import ListNotations.
Open Scope Z_scope.

Notation cls := Z (only parsing).
Notation synt := Z (only parsing).
Notation acc := Z (only parsing).
Notation pid := Z (only parsing).
Notation cid := Z (only parsing).

(* colour description "PARENT:COLOR:modifiers" restricted to named foreground
   colours and bold: foreground "" (inherit / none), "-" (terminal default) or a
   colour 0..7; bold / no_bold / unspecified *)
Inductive fgspec := FInherit | FDash | FCol (n : Z).
Record descr := mkDescr { d_parent : option Z; d_fg : fgspec; d_bold : option bool }.

(* a Palette class as the metaclass sees it: PARENT_PALETTES, SYNTAX_DEFAULTS
   (both inherited through the mro), _LOCAL_SYNTAX (accessor -> syntax id),
   CompoundPalette or not *)
Record classinfo := mkClass {
  k_parents : list Z;
  k_defaults : option (list (Z * descr));
  k_local : list (Z * Z);
  k_compound : bool
}.

Fixpoint zfind {A} (k : Z) (l : list (Z * A)) : option A :=
  match l with
  | [] => None
  | (k', v) :: r => if k' =? k then Some v else zfind k r
  end.
Definition zhas {A} (k : Z) (l : list (Z * A)) : bool :=
  match zfind k l with Some _ => true | None => false end.
Definition zmem (k : Z) (l : list Z) : bool := existsb (Z.eqb k) l.
Definition zdel {A} (k : Z) (l : list (Z * A)) : list (Z * A) :=
  filter (fun kv => negb (fst kv =? k)) l.
