(* C16/LemList.v -- list facts used by the invariant proof *)
From Coq Require Import ZArith List Bool Lia Permutation.
From AK Require Import C16.Instr gen.C16_Consts C16.Model.
Import ListNotations.
Open Scope Z_scope.

Lemma set_nth_length {A} (l : list A) i a : length (set_nth l i a) = length l.
Proof.
  revert i. induction l as [|x r IH]; intros [|i]; cbn [set_nth length]; auto.
Qed.

Lemma nth_error_set_nth_eq {A} (l : list A) i a x :
  nth_error l i = Some x -> nth_error (set_nth l i a) i = Some a.
Proof.
  revert i. induction l as [|y r IH]; intros [|i] H; cbn in *; try discriminate; auto.
Qed.

Lemma nth_error_set_nth_neq {A} (l : list A) i j a :
  i <> j -> nth_error (set_nth l i a) j = nth_error l j.
Proof.
  revert i j. induction l as [|y r IH]; intros [|i] [|j] H; cbn; auto; try congruence.
Qed.

Lemma nth_error_set_nth_inv {A} (l : list A) i j a y :
  nth_error (set_nth l i a) j = Some y ->
  (j = i /\ y = a) \/ (j <> i /\ nth_error l j = Some y).
Proof.
  intros H. destruct (Nat.eq_dec j i) as [->|Hne].
  - left. split; [reflexivity|].
    destruct (nth_error l i) as [x|] eqn:E.
    + rewrite (nth_error_set_nth_eq l i a x E) in H. congruence.
    + exfalso. apply nth_error_None in E.
      assert (nth_error (set_nth l i a) i = None) as N
        by (apply nth_error_None; rewrite set_nth_length; exact E).
      congruence.
  - right. split; [exact Hne|]. rewrite nth_error_set_nth_neq in H by congruence. exact H.
Qed.

(* replacing the i-th element changes a concatenation by what the element contributes *)
Lemma concat_set_nth_perm {A B} (f : A -> list B) (l : list A) i x a ys :
  nth_error l i = Some x ->
  Permutation (f a) (ys ++ f x) ->
  Permutation (concat (map f (set_nth l i a))) (ys ++ concat (map f l)).
Proof.
  revert i. induction l as [|y r IH]; intros [|i] Hn Hp; cbn in Hn; try discriminate.
  - injection Hn as ->. cbn [set_nth map concat].
    rewrite app_assoc. apply Permutation_app_tail. exact Hp.
  - cbn [set_nth map concat].
    specialize (IH i Hn Hp).
    rewrite (Permutation_app_head (f y) IH).
    rewrite !app_assoc. apply Permutation_app_tail. apply Permutation_app_comm.
Qed.

Lemma concat_set_nth_same {A B} (f : A -> list B) (l : list A) i x a :
  nth_error l i = Some x -> Permutation (f a) (f x) ->
  Permutation (concat (map f (set_nth l i a))) (concat (map f l)).
Proof. intros Hn Hp. exact (concat_set_nth_perm f l i x a [] Hn Hp). Qed.

Lemma zseq_S c0 k : zseq c0 (S k) = zseq c0 k ++ [c0 + Z.of_nat k].
Proof. unfold zseq. rewrite seq_S, map_app. reflexivity. Qed.

Lemma zseq_In c0 k n : In n (zseq c0 k) <-> c0 <= n < c0 + Z.of_nat k.
Proof.
  unfold zseq. rewrite in_map_iff. split.
  - intros (i & <- & Hi). apply in_seq in Hi. lia.
  - intros H. exists (Z.to_nat (n - c0)). split; [lia|]. apply in_seq. lia.
Qed.

Lemma zseq_NoDup c0 k : NoDup (zseq c0 k).
Proof.
  unfold zseq. apply FinFun.Injective_map_NoDup; [|apply seq_NoDup].
  intros a b H. lia.
Qed.

Lemma zseq_length c0 k : length (zseq c0 k) = k.
Proof. unfold zseq. rewrite map_length, seq_length. reflexivity. Qed.

Lemma concat_map_app_perm {A B} (f g : A -> list B) (l : list A) :
  Permutation (concat (map (fun x => f x ++ g x) l)) (concat (map f l) ++ concat (map g l)).
Proof.
  induction l as [|x r IH]; cbn [map concat]; [reflexivity|].
  rewrite IH. rewrite <- !app_assoc. apply Permutation_app_head.
  rewrite !app_assoc. apply Permutation_app_tail. apply Permutation_app_comm.
Qed.

Lemma nums_app a b : nums (a ++ b) = nums a ++ nums b.
Proof.
  induction a as [|e r IH]; [reflexivity|]. cbn [app nums].
  destruct e as [[n|] v|]; cbn [app]; rewrite IH; reflexivity.
Qed.

Lemma nums_rev l : nums (rev l) = rev (nums l).
Proof.
  induction l as [|e r IH]; [reflexivity|]. cbn [rev]. rewrite nums_app, IH.
  destruct e as [[n|] v|]; cbn [nums rev]; rewrite ?app_nil_r; reflexivity.
Qed.

(* ---- headers ---- *)
Lemma str_eqb_refl s : str_eqb s s = true.
Proof. induction s as [|c r IH]; [reflexivity|]. cbn. rewrite Z.eqb_refl, IH. reflexivity. Qed.

Lemma str_eqb_eq a : forall b, str_eqb a b = true -> a = b.
Proof.
  induction a as [|x r IH]; intros [|y s] H; cbn in H; try discriminate; [reflexivity|].
  apply andb_prop in H as [H1 H2]. apply Z.eqb_eq in H1. f_equal; auto.
Qed.

Lemma dict_set_absent h k v : key_in k h = false -> dict_set h k v = h ++ [(k, v)].
Proof.
  induction h as [|[k' v'] r IH]; intros H; [reflexivity|].
  cbn in H. apply orb_false_elim in H as [H1 H2].
  cbn [dict_set app]. rewrite H1. f_equal. apply IH. exact H2.
Qed.

Lemma sent_value_snoc h k v acc :
  sent_value (h ++ [(k, v)]) acc = if str_eqb (cap k) obs_key then Some v else sent_value h acc.
Proof.
  revert acc. induction h as [|[k' v'] r IH]; intros acc; [reflexivity|].
  cbn [app sent_value]. apply IH.
Qed.

Lemma NoDup_app_l {A} (a b : list A) : NoDup (a ++ b) -> NoDup a.
Proof.
  induction a as [|x r IH]; intros H; [constructor|].
  cbn [app] in H. inversion H as [|? ? Hx Hr]; subst. constructor.
  - intros Hin. apply Hx. apply in_or_app. left. exact Hin.
  - apply IH. exact Hr.
Qed.
