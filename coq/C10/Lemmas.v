(* C10/Lemmas.v -- proofs about the world model of Model.v *)
From Coq Require Import ZArith List Bool Lia.
From AK Require Import Common.Sx Common.Err C10.Sgr C10.SgrLemmas C10.Base gen.C10_Consts C10.Model.
Import ListNotations.
Open Scope Z_scope.

(* ------------------------------------------------------------------ *)
(* obligations on what was read from the source                         *)

(* ppobj.py PPEnumFieldType.make_desired_cell_ch_chunks: cache_key = field_palette *)
Lemma enum_key_object : enum_key_is_object = true.
Proof. reflexivity. Qed.

(* color.py ColorsConfig.add_new_items: a new syntax id empties self._cache *)
Lemma reset_on_new : reset_cache_on_new = true.
Proof. reflexivity. Qed.

(* ------------------------------------------------------------------ *)
(* association lists                                                    *)

Lemma zfind_zdel_ne {A} k k' (l : list (Z * A)) : k <> k' -> zfind k (zdel k' l) = zfind k l.
Proof.
  intros H. induction l as [|[a v] l IH]; [reflexivity|].
  cbn [zdel filter fst]. destruct (Z.eqb_spec a k') as [->|Hn]; cbn [negb zfind].
  - destruct (Z.eqb_spec k' k); [congruence|]. exact IH.
  - destruct (a =? k); [reflexivity|exact IH].
Qed.

Lemma zfind_In {A} k (l : list (Z * A)) v : zfind k l = Some v -> In (k, v) l.
Proof.
  induction l as [|[a x] l IH]; [discriminate|]. cbn [zfind].
  destruct (Z.eqb_spec a k) as [->|_]; [intros [= ->]; left; reflexivity|intros H; right; auto].
Qed.

Lemma zmem_In k l : zmem k l = false -> ~ In k l.
Proof.
  unfold zmem. intros H Hin. assert (existsb (Z.eqb k) l = true) as E.
  { apply existsb_exists. exists k. split; [exact Hin|apply Z.eqb_refl]. }
  congruence.
Qed.

(* ------------------------------------------------------------------ *)
(* cache_reset: a configuration never keeps a palette built from an older map *)

Lemma add_raw_reset cf items :
  (snd (add_raw cf items) = false -> fst (add_raw cf items) = cf) /\
  (snd (add_raw cf items) = true -> c_cache (fst (add_raw cf items)) = []).
Proof.
  unfold add_raw. destruct (filter _ items); cbn [fst snd]; split; try discriminate; try reflexivity.
  (* the remaining case computes with reset_cache_on_new = true (reset_on_new) *)
Qed.

Lemma add_raw_smap cf items :
  snd (add_raw cf items) = false <-> c_smap (fst (add_raw cf items)) = c_smap cf.
Proof.
  unfold add_raw. destruct (filter _ items) as [|x r]; cbn [fst snd c_smap]; split; try reflexivity; try discriminate.
  intros H. exfalso. rewrite <- (app_nil_r (c_smap cf)) in H at 2. apply app_inv_head in H. discriminate.
Qed.

(* registration of a palette class: either nothing changed in the map and the
   cache, or the cache is empty *)
Definition reg_post (cf : conf) (r : conf * bool) : Prop :=
  (snd r = false -> c_smap (fst r) = c_smap cf /\ c_cache (fst r) = c_cache cf) /\
  (snd r = true -> c_cache (fst r) = []).

Lemma reg_post_trans cf st r :
  reg_post cf st -> reg_post (fst st) r -> reg_post cf (fst r, snd st || snd r).
Proof.
  intros [S1 S2] [H1 H2]. unfold reg_post. cbn [fst snd]. split.
  - intros E. apply orb_false_elim in E as [E1 E2].
    destruct (S1 E1) as [A B]. destruct (H1 E2) as [C D]. split; [rewrite C; exact A|rewrite D; exact B].
  - intros E. destruct (snd r) eqn:Er; [apply H2; reflexivity|].
    rewrite orb_false_r in E. destruct (H1 eq_refl) as [_ ->]. exact (S2 E).
Qed.

Lemma register_raw_reset fuel : forall cf K, reg_post cf (register_raw fuel cf K).
Proof.
  induction fuel as [|f IH]; intros cf K; cbn [register_raw]; [split; [split; reflexivity|discriminate]|].
  destruct (zmem K (c_reg cf)); [split; [split; reflexivity|discriminate]|].
  set (step := fun (st : conf * bool) (P : Z) => let r := register_raw f (fst st) P in (fst r, snd st || snd r)).
  assert (forall ps st, reg_post cf st -> reg_post cf (fold_left step ps st)) as Hfold.
  { induction ps as [|P ps IHp]; intros st Hst; [exact Hst|]. cbn [fold_left]. apply IHp.
    unfold step. cbn zeta. apply reg_post_trans; [exact Hst|apply IH]. }
  assert (reg_post cf (cf, false)) as H0 by (split; [split; reflexivity|discriminate]).
  specialize (Hfold (k_parents (cinfo K)) (cf, false) H0).
  set (st1 := fold_left step (k_parents (cinfo K)) (cf, false)) in *.
  destruct (k_defaults (cinfo K)) as [d|]; [|exact Hfold].
  cbn zeta. set (cf2 := mkConf _ _ _ _ _).
  apply reg_post_trans with (st := (cf2, snd st1)).
  - destruct Hfold as [S1 S2]. split; cbn [fst snd]; unfold cf2; cbn [c_smap c_cache]; auto.
  - cbn [fst]. destruct (add_raw_reset cf2 d) as [A1 A2]. split; [|exact A2].
    intros E. rewrite (A1 E). split; reflexivity.
Qed.

(* ------------------------------------------------------------------ *)
(* the enum cell cache: coherence invariant                             *)

Definition colour_with (o : pal) (x : list (Z * list (Z * list Z))) : list (Z * list chunk) :=
  map (fun mc => (fst mc, map (fun at_ => (color_of o (fst at_), snd at_)) (snd mc))) x.

Lemma colour_with_ext o o' x : p_colors o = p_colors o' -> colour_with o x = colour_with o' x.
Proof. intros H. unfold colour_with, color_of. rewrite H. reflexivity. Qed.

Definition ekeys (w : world) : list Z := flat_map (fun e => map fst (snd e)) (w_enums w).

Section Enum.
Variable fts : list (Z * ftdef).

(* every cached cell text is what its palette would produce now *)
Definition inv_enum (w : world) : Prop :=
  forall ft cache e by_val v pm,
    zfind ft (w_enums w) = Some cache -> zfind e cache = Some by_val -> zfind v by_val = Some pm ->
    pm = colour_with (pal_of w e) (ft_texts fts ft v).

(* no palette is synced with the global configuration (synced palettes are
   recoloured in place) *)
Definition inv (w : world) : Prop := w_synced w = [] /\ inv_enum w.

(* frame: the enum cache and the colours of the palettes it is keyed by are untouched *)
Definition frame (w w' : world) : Prop :=
  w_enums w' = w_enums w /\ w_synced w' = w_synced w /\
  forall e, In e (ekeys w) -> p_colors (pal_of w' e) = p_colors (pal_of w e).

Lemma frame_refl w : frame w w.
Proof. repeat split. Qed.

Lemma frame_trans w1 w2 w3 : frame w1 w2 -> frame w2 w3 -> frame w1 w3.
Proof.
  intros (E1 & S1 & C1) (E2 & S2 & C2). repeat split; [congruence|congruence|].
  intros e He. rewrite C2; [apply C1; exact He|]. unfold ekeys in *. rewrite E1. exact He.
Qed.

Lemma frame_same w w' :
  w_enums w' = w_enums w -> w_synced w' = w_synced w -> w_heap w' = w_heap w -> frame w w'.
Proof. intros E S H. repeat split; auto. intros e _. unfold pal_of. rewrite H. reflexivity. Qed.

Lemma key_in w ft cache e by_val :
  zfind ft (w_enums w) = Some cache -> zfind e cache = Some by_val -> In e (ekeys w).
Proof.
  intros H1 H2. unfold ekeys. apply in_flat_map. exists (ft, cache). split; [apply zfind_In; exact H1|].
  cbn [snd]. apply zfind_In in H2. apply in_map_iff. exists (e, by_val). split; [reflexivity|exact H2].
Qed.

Lemma inv_frame w w' : inv w -> frame w w' -> inv w'.
Proof.
  intros [Hs Hi] (E & S & C). split; [congruence|].
  intros ft cache e by_val v pm H1 H2 H3. rewrite E in H1.
  rewrite (Hi _ _ _ _ _ _ H1 H2 H3). apply colour_with_ext. symmetry. apply C.
  eapply key_in; eassumption.
Qed.

(* ---- configuration-only steps ---- *)
Lemma frame_put_conf w c cf : frame w (put_conf w c cf).
Proof. apply frame_same; reflexivity. Qed.

Lemma frame_gc keyobj w : frame w (gc keyobj w).
Proof. apply frame_same; reflexivity. Qed.

Lemma resync_nosync w : w_synced w = [] -> frame w (resync w).
Proof.
  intros H. unfold resync. destruct (w_global w); [|apply frame_refl].
  rewrite H. cbn [fold_left]. apply frame_put_conf.
Qed.

Lemma frame_register w c K : w_synced w = [] -> frame w (register w c K).
Proof.
  intros H. unfold register. set (w1 := put_conf w c _).
  assert (frame w w1) as F by apply frame_put_conf.
  destruct (_ && _); [|exact F]. eapply frame_trans; [exact F|]. apply resync_nosync. exact H.
Qed.

Lemma frame_add_items w c items : w_synced w = [] -> frame w (add_items w c items).
Proof.
  intros H. unfold add_items. set (w1 := put_conf w c _).
  assert (frame w w1) as F by apply frame_put_conf.
  destruct (_ && _); [|exact F]. eapply frame_trans; [exact F|]. apply resync_nosync. exact H.
Qed.

Lemma frame_get_global w : frame w (fst (get_global w)).
Proof. unfold get_global. destruct (w_global w); cbn [fst]; apply frame_same; reflexivity. Qed.

(* ---- allocation: with the object as key the new identity is not a cache key ---- *)
Lemma alloc_fresh w w1 p : alloc true w = Ok (w1, p) ->
  ~ In p (ekeys w) /\ w1 = set_oracle w (tl (w_oracle w)).
Proof.
  unfold alloc. destruct (w_oracle w) as [|i r]; [discriminate|].
  destruct (zmem i (pinned true w)) eqn:E; [discriminate|]. intros [= <- <-].
  split; [|reflexivity]. apply zmem_In in E. intros Hin. apply E.
  unfold pinned, roots. apply in_or_app. left. rewrite !in_app_iff. do 5 right. exact Hin.
Qed.

Lemma pal_of_put_ne w p o e : e <> p -> pal_of (put_pal w p o) e = pal_of w e.
Proof.
  intros H. unfold pal_of, put_pal. cbn [w_heap set_heap zfind].
  destruct (Z.eqb_spec p e); [congruence|]. rewrite zfind_zdel_ne by exact H. reflexivity.
Qed.

Lemma pal_of_put_eq w p o : pal_of (put_pal w p o) p = o.
Proof. unfold pal_of, put_pal. cbn [w_heap set_heap zfind]. rewrite Z.eqb_refl. reflexivity. Qed.

Lemma frame_put_fresh w p o : ~ In p (ekeys w) -> frame w (put_pal w p o).
Proof.
  intros H. repeat split. intros e He. rewrite pal_of_put_ne; [reflexivity|]. intros ->. exact (H He).
Qed.

Lemma frame_put_same_colors w p o : p_colors o = p_colors (pal_of w p) -> frame w (put_pal w p o).
Proof.
  intros H. repeat split. intros e _. destruct (Z.eq_dec e p) as [->|Hn].
  - rewrite pal_of_put_eq. exact H.
  - rewrite pal_of_put_ne by exact Hn. reflexivity.
Qed.

Lemma frame_class_call w copt nocolor K w' p :
  w_synced w = [] -> class_call true w copt nocolor K false = Ok (w', p) -> frame w w'.
Proof.
  intros Hs. unfold class_call. cbn iota.
  destruct (match copt with Some c => (w, c) | None => get_global w end) as [w1 c] eqn:E1.
  assert (frame w w1) as F1.
  { destruct copt; [injection E1 as <- _; apply frame_refl|].
    replace w1 with (fst (get_global w)) by (rewrite E1; reflexivity). apply frame_get_global. }
  assert (w_synced w1 = []) as Hs1 by (destruct F1 as (_ & -> & _); exact Hs).
  cbn iota.
  destruct nocolor.
  - set (w2 := register w1 c K).
    assert (frame w1 w2) as F2 by (apply frame_register; exact Hs1).
    destruct (zfind K (w_slots w2)) as [q|].
    + intros [= <- <-]. eapply frame_trans; eassumption.
    + destruct (alloc true w2) as [[w4 p4]|] eqn:Ea; [|discriminate]. cbn [bind].
      intros [= <- <-]. destruct (alloc_fresh _ _ _ Ea) as [Hn ->].
      eapply frame_trans; [exact F1|]. eapply frame_trans; [exact F2|].
      eapply frame_trans; [apply (frame_same w2 (set_oracle w2 (tl (w_oracle w2)))); reflexivity|].
      eapply frame_trans; [apply frame_put_fresh; exact Hn|]. apply frame_same; reflexivity.
  - destruct (zfind K (c_cache (conf_of w1 c))) as [q|].
    + intros [= <- <-]. exact F1.
    + set (w3 := register w1 c K).
      assert (frame w1 w3) as F3 by (apply frame_register; exact Hs1).
      destruct (alloc true w3) as [[w4 p4]|] eqn:Ea; [|discriminate]. cbn [bind].
      intros [= <- <-]. destruct (alloc_fresh _ _ _ Ea) as [Hn ->].
      eapply frame_trans; [exact F1|]. eapply frame_trans; [exact F3|].
      eapply frame_trans; [apply (frame_same w3 (set_oracle w3 (tl (w_oracle w3)))); reflexivity|].
      eapply frame_trans; [apply frame_put_fresh; exact Hn|]. apply frame_put_conf.
Qed.

Lemma frame_get_sub w cp K w' p :
  w_synced w = [] -> get_sub true w cp K = Ok (w', p) -> frame w w'.
Proof.
  intros Hs. unfold get_sub. destruct (zfind K (p_subs (pal_of w cp))); [intros [= <- <-]; apply frame_refl|].
  destruct (class_call true w _ _ K false) as [[w1 q]|] eqn:E; [|discriminate]. cbn [bind].
  intros [= <- <-]. eapply frame_trans; [eapply frame_class_call; eassumption|].
  apply frame_put_same_colors. reflexivity.
Qed.

(* ---- the cache itself ---- *)
Definition cell_pure (w : world) (ft e v modi : Z) : list chunk :=
  match zfind modi (colour_with (pal_of w e) (ft_texts fts ft v)) with Some x => x | None => [] end.

Lemma enum_cell_sound w ft e v modi :
  inv w ->
  snd (enum_cell fts w ft e v v modi) = cell_pure w ft e v modi /\ inv (fst (enum_cell fts w ft e v v modi)).
Proof.
  intros [Hs Hi]. unfold enum_cell, cell_pure.
  destruct (zfind ft (w_enums w)) as [cache|] eqn:E1.
  - destruct (zfind e cache) as [by_val|] eqn:E2.
    + destruct (zfind v by_val) as [pm|] eqn:E3; cbn [fst snd].
      * rewrite (Hi _ _ _ _ _ _ E1 E2 E3). split; [reflexivity|split; assumption].
      * split; [reflexivity|]. split; [exact Hs|].
        intros ft' cache' e' bv' v' pm'. cbn [w_enums set_enums zfind].
        destruct (Z.eqb_spec ft ft') as [<-|Hft].
        -- intros [= <-]. cbn [zfind]. destruct (Z.eqb_spec e e') as [<-|He].
           ++ intros [= <-]. cbn [zfind]. destruct (Z.eqb_spec v v') as [<-|Hv].
              ** intros [= <-]. reflexivity.
              ** intros H3. exact (Hi _ _ _ _ _ _ E1 E2 H3).
           ++ rewrite zfind_zdel_ne by congruence. intros H2 H3. exact (Hi _ _ _ _ _ _ E1 H2 H3).
        -- rewrite zfind_zdel_ne by congruence. intros H1 H2 H3. exact (Hi _ _ _ _ _ _ H1 H2 H3).
    + cbn [zfind fst snd]. split; [reflexivity|]. split; [exact Hs|].
      intros ft' cache' e' bv' v' pm'. cbn [w_enums set_enums zfind].
      destruct (Z.eqb_spec ft ft') as [<-|Hft].
      * intros [= <-]. cbn [zfind]. destruct (Z.eqb_spec e e') as [<-|He].
        -- intros [= <-]. cbn [zfind]. destruct (Z.eqb_spec v v') as [<-|Hv]; [intros [= <-]; reflexivity|discriminate].
        -- rewrite zfind_zdel_ne by congruence. intros H2 H3. exact (Hi _ _ _ _ _ _ E1 H2 H3).
      * rewrite zfind_zdel_ne by congruence. intros H1 H2 H3. exact (Hi _ _ _ _ _ _ H1 H2 H3).
  - cbn [zfind fst snd]. split; [reflexivity|]. split; [exact Hs|].
    intros ft' cache' e' bv' v' pm'. cbn [w_enums set_enums zfind].
    destruct (Z.eqb_spec ft ft') as [<-|Hft].
    + intros [= <-]. cbn [zfind]. destruct (Z.eqb_spec e e') as [<-|He]; [|discriminate].
      intros [= <-]. cbn [zfind]. destruct (Z.eqb_spec v v') as [<-|Hv]; [intros [= <-]; reflexivity|discriminate].
    + rewrite zfind_zdel_ne by congruence. intros H1 H2 H3. exact (Hi _ _ _ _ _ _ H1 H2 H3).
Qed.

(* ---- objects whose enum cells do not alias (ASSUMPTION: values of one field
   type are pairwise distinct under ==) ---- *)
Definition item_ok (it : item) : Prop :=
  match it with IEnum _ _ vkey lit _ => lit = vkey | _ => True end.
Definition obj_ok (o : objspec) : Prop := Forall (Forall item_ok) (o_lines o).

Lemma inv_render_item w cp it w' cs :
  inv w -> item_ok it -> render_item true fts w cp it = Ok (w', cs) -> inv w'.
Proof.
  intros Hi Hok. destruct it as [[K|] a t|t|ft K vkey lit modi]; cbn [render_item].
  - destruct (get_sub true w cp K) as [[w1 q]|] eqn:E; [|discriminate]. cbn [bind fst snd].
    intros [= <- _]. eapply inv_frame; [exact Hi|]. eapply frame_get_sub; [apply Hi|exact E].
  - intros [= <- _]. exact Hi.
  - intros [= <- _]. exact Hi.
  - cbn in Hok. subst lit.
    destruct (get_sub true w cp K) as [[w1 q]|] eqn:E; [|discriminate]. cbn [bind fst snd].
    assert (inv w1) as H1 by (eapply inv_frame; [exact Hi|]; eapply frame_get_sub; [apply Hi|exact E]).
    destruct (enum_cell_sound w1 ft q vkey modi H1) as [_ H2].
    destruct (enum_cell fts w1 ft q vkey vkey modi) as [w2 c2]. intros [= <- _]. exact H2.
Qed.

Lemma inv_render_line l : forall w cp w' cs,
  inv w -> Forall item_ok l -> render_line true fts w cp l = Ok (w', cs) -> inv w'.
Proof.
  induction l as [|it l IH]; intros w cp w' cs Hi Hok; cbn [render_line]; [intros [= <- _]; exact Hi|].
  inversion Hok as [|? ? Hit Hl]; subst.
  destruct (render_item true fts w cp it) as [[w1 c1]|] eqn:E1; [|discriminate]. cbn [bind fst snd].
  destruct (render_line true fts w1 cp l) as [[w2 c2]|] eqn:E2; [|discriminate]. cbn [bind fst snd].
  intros [= <- _]. eapply IH; [|exact Hl|exact E2]. eapply inv_render_item; eassumption.
Qed.

Lemma inv_render_lines ls : forall w cp w' css,
  inv w -> Forall (Forall item_ok) ls -> render_lines true fts w cp ls = Ok (w', css) -> inv w'.
Proof.
  induction ls as [|l ls IH]; intros w cp w' css Hi Hok; cbn [render_lines]; [intros [= <- _]; exact Hi|].
  inversion Hok as [|? ? Hl Hls]; subst.
  destruct (render_line true fts w cp l) as [[w1 c1]|] eqn:E1; [|discriminate]. cbn [bind fst snd].
  destruct (render_lines true fts w1 cp ls) as [[w2 c2]|] eqn:E2; [|discriminate]. cbn [bind fst snd].
  intros [= <- _]. eapply IH; [|exact Hls|exact E2]. eapply inv_render_line; eassumption.
Qed.

Lemma inv_touch_subs ks : forall w cp w', inv w -> touch_subs true w cp ks = Ok w' -> inv w'.
Proof.
  induction ks as [|K ks IH]; intros w cp w' Hi; cbn [touch_subs]; [intros [= <-]; exact Hi|].
  destruct (get_sub true w cp K) as [[w1 q]|] eqn:E; [|discriminate]. cbn [bind fst].
  apply IH. eapply inv_frame; [exact Hi|]. eapply frame_get_sub; [apply Hi|exact E].
Qed.

Lemma inv_gen_lines w cp o w' ls :
  inv w -> obj_ok o -> gen_lines true fts w cp o = Ok (w', ls) -> inv w'.
Proof.
  intros Hi Hok. unfold gen_lines.
  destruct (touch_subs true w cp (o_subs o)) as [w1|] eqn:E; [|discriminate]. cbn [bind].
  apply inv_render_lines; [eapply inv_touch_subs; eassumption|exact Hok].
Qed.

Lemma inv_consume w cp o mode w' ts :
  inv w -> obj_ok o -> consume true fts w cp o mode = Ok (w', ts) -> inv w'.
Proof.
  intros Hi Hok. unfold consume.
  destruct (gen_lines true fts w cp o) as [[w1 ls]|] eqn:E1; [|discriminate]. cbn [bind].
  assert (inv w1) as H1 by (eapply inv_gen_lines; eassumption).
  destruct (mode =? 0); [intros [= <- _]; exact H1|].
  destruct (mode =? 1); [intros [= <- _]; exact H1|].
  destruct (gen_lines true fts w1 cp o) as [[w2 ls2]|] eqn:E2; [|discriminate]. cbn [bind].
  assert (inv w2) as H2 by (eapply inv_gen_lines; eassumption).
  destruct (mode =? 2); intros [= <- _]; exact H2.
Qed.

Definition op_ok (o : op) : Prop :=
  match o with
  | ORender obj _ _ pa _ _ => obj_ok obj /\ pa <> PSynced
  | OHelp _ obj => obj_ok obj
  | _ => True
  end.

Lemma inv_set_oracle w ids : inv w -> inv (set_oracle w ids).
Proof. intros H. eapply inv_frame; [exact H|]. apply frame_same; reflexivity. Qed.

Lemma inv_step w o w' ts : inv w -> op_ok o -> step true fts w o = Ok (w', ts) -> inv w'.
Proof.
  intros Hi Hok. destruct o as [c nc init|c|c items|copt|obj copt nc pa mode ids|h ids|h obj]; cbn [step].
  - intros [= <- _]. eapply inv_frame; [exact Hi|apply frame_put_conf].
  - intros [= <- _]. eapply inv_frame; [exact Hi|].
    eapply frame_trans; [apply frame_put_conf|apply frame_gc].
  - intros [= <- _]. eapply inv_frame; [exact Hi|].
    eapply frame_trans; [apply frame_add_items; apply Hi|apply frame_gc].
  - destruct (match copt with Some c => (w, c) | None => _ end) as [w1 c] eqn:E.
    intros [= <- _]. eapply inv_frame; [exact Hi|].
    assert (frame w w1) as F1.
    { destruct copt; injection E as <- _; [apply frame_refl|apply frame_same; reflexivity]. }
    eapply frame_trans; [exact F1|].
    eapply frame_trans; [apply (frame_same w1 (set_global w1 (Some c))); reflexivity|].
    eapply frame_trans; [apply resync_nosync; destruct F1 as (_ & -> & _); apply Hi|apply frame_gc].
  - destruct Hok as [Hobj Hpa].
    assert (inv (set_oracle w ids)) as H0 by (apply inv_set_oracle; exact Hi).
    destruct (mk_palette true (set_oracle w ids) (o_cls obj) pa copt nc) as [[w1 cp]|] eqn:E1; [|discriminate].
    cbn [bind].
    assert (inv w1) as H1.
    { unfold mk_palette in E1. destruct pa as [|c|]; [| |congruence].
      - eapply inv_frame; [exact H0|]. eapply frame_class_call; [apply H0|exact E1].
      - destruct (class_call true (set_oracle w ids) (Some c) false (o_cls obj) false) as [[wa pa']|] eqn:Ea; [|discriminate].
        cbn [bind fst] in E1.
        assert (inv wa) as Ha by (eapply inv_frame; [exact H0|]; eapply frame_class_call; [apply H0|exact Ea]).
        destruct nc; [|injection E1 as <- _; exact Ha].
        eapply inv_frame; [exact Ha|]. eapply frame_class_call; [apply Ha|exact E1]. }
    destruct (consume true fts (set_stack w1 [cp]) cp obj mode) as [[w2 t2]|] eqn:E2; [|discriminate].
    cbn [bind fst snd]. intros [= <- _].
    assert (inv (set_stack w1 [cp])) as H1' by (eapply inv_frame; [exact H1|]; apply frame_same; reflexivity).
    assert (inv w2) as H2 by (eapply inv_consume; eassumption).
    eapply inv_frame; [exact H2|].
    eapply frame_trans; [apply (frame_same w2 (set_stack w2 [])); reflexivity|apply frame_gc].
  - assert (inv (set_oracle w ids)) as H0 by (apply inv_set_oracle; exact Hi).
    destruct (class_call true (set_oracle w ids) None false hcmd_cls false) as [[w1 p]|] eqn:E1; [|discriminate].
    cbn [bind fst snd]. intros [= <- _].
    eapply inv_frame; [exact H0|]. eapply frame_trans; [eapply frame_class_call; [apply H0|exact E1]|].
    eapply frame_trans; [apply (frame_same w1 (set_hcmds w1 ((h, p) :: zdel h (w_hcmds w1)))); reflexivity|apply frame_gc].
  - destruct (zfind h (w_hcmds w)) as [cp|]; [|discriminate].
    destruct (gen_lines true fts w cp obj) as [[w1 ls]|] eqn:E1; [|discriminate]. cbn [bind fst snd].
    intros [= <- _]. eapply inv_frame; [eapply inv_gen_lines; eassumption|apply frame_gc].
Qed.

Lemma inv_run ops : forall w w' outs,
  inv w -> Forall op_ok ops -> run_ops true fts w ops = Ok (w', outs) -> inv w'.
Proof.
  induction ops as [|o ops IH]; intros w w' outs Hi Hok; cbn [run_ops]; [intros [= <- _]; exact Hi|].
  inversion Hok as [|? ? Ho Hops]; subst.
  destruct (step true fts w o) as [[w1 t1]|] eqn:E1; [|discriminate]. cbn [bind fst snd].
  destruct (run_ops true fts w1 ops) as [[w2 t2]|] eqn:E2; [|discriminate]. cbn [bind fst snd].
  intros [= <- _]. eapply IH; [|exact Hops|exact E2]. eapply inv_step; eassumption.
Qed.

Lemma inv_w0 : inv w0.
Proof. split; [reflexivity|]. intros ft cache e bv v pm H. discriminate. Qed.

End Enum.
