(* C18/Base.v -- the cell value type shared by the generated constants
   (gen/C18_Consts.v) and the model.  No proofs in this file. *)
From Coq Require Import ZArith List.
Import ListNotations.

(* strings are lists of code points *)
Notation str := (list Z).

(* value of a worksheet cell: None | str | int | bool *)
Inductive cval : Type :=
| CNone
| CStr (s : str)
| CInt (z : Z)
| CBool (b : bool).
