(* C11/LemmasLex.v -- the text of every layout lexes to the canonical token
   sequence of the value's parse tree (one case per layout branch). *)
From Coq Require Import ZArith List Bool Lia.
From AK Require Import gen.C11_Consts C11.Model C11.Reader C11.LemmasBase.
Import ListNotations.

(* ------------------------------------------------------------------ *)
(* obligations on the constants read from the source                    *)

Lemma lits_ok m k : atom_ok (lit m k) = true.
Proof. destruct m, k; vm_compute; reflexivity. Qed.

Lemma pystr_ok k : atom_ok (pystr k) = true.
Proof. destruct k; vm_compute; reflexivity. Qed.

(* ------------------------------------------------------------------ *)
(* the lexer on the pieces the generator emits                          *)

(* what may follow an atom: end of text or a stop character *)
Definition stops (r : str) : Prop :=
  match r with [] => True | c :: _ => is_stop c = true end.

Lemma lex_idle_cons c r : lex Idle (c :: r) = fst (idle_step c) ++ lex (snd (idle_step c)) r.
Proof. reflexivity. Qed.

Lemma lex_space r : lex Idle (32%Z :: r) = lex Idle r.        Proof. reflexivity. Qed.
Lemma lex_nl r : lex Idle (10%Z :: r) = lex Idle r.           Proof. reflexivity. Qed.
Lemma lex_lbrace r : lex Idle (123%Z :: r) = TLBrace :: lex Idle r.  Proof. reflexivity. Qed.
Lemma lex_rbrace r : lex Idle (125%Z :: r) = TRBrace :: lex Idle r.  Proof. reflexivity. Qed.
Lemma lex_lbrack r : lex Idle (91%Z :: r) = TLBrack :: lex Idle r.   Proof. reflexivity. Qed.
Lemma lex_rbrack r : lex Idle (93%Z :: r) = TRBrack :: lex Idle r.   Proof. reflexivity. Qed.
Lemma lex_comma r : lex Idle (44%Z :: r) = TComma :: lex Idle r.     Proof. reflexivity. Qed.
Lemma lex_colon r : lex Idle (58%Z :: r) = TColon :: lex Idle r.     Proof. reflexivity. Qed.

Lemma lex_spaces n r : lex Idle (spaces n ++ r) = lex Idle r.
Proof. induction n as [|n IH]; [reflexivity|]. cbn [spaces repeat app]. unfold c_space. rewrite lex_space. exact IH. Qed.

Lemma lex_instr s : forall a r, str_ok s = true ->
  lex (InStr a) (s ++ 34%Z :: r) = TStr (rev a ++ s) :: lex Idle r.
Proof.
  induction s as [|c s IH]; intros a r H.
  - cbn [app lex step fst snd]. rewrite Z.eqb_refl. cbn [fst snd app]. rewrite app_nil_r. reflexivity.
  - cbn [str_ok forallb] in H. apply andb_prop in H as [Hc Hs].
    cbn [app lex step]. apply negb_true_iff in Hc. rewrite Hc. cbn [fst snd app].
    rewrite (IH (c :: a) r Hs). cbn [rev]. rewrite <- app_assoc. reflexivity.
Qed.

Lemma lex_quoted s r : str_ok s = true -> lex Idle (quoted s ++ r) = TStr s :: lex Idle r.
Proof.
  intros H. unfold quoted, c_quote. cbn [app]. rewrite <- app_assoc. cbn [app].
  rewrite lex_idle_cons. cbn [idle_step is_blank Z.eqb orb fst snd app].
  change (lex (InStr []) (s ++ 34%Z :: r) = TStr s :: lex Idle r).
  rewrite lex_instr by exact H. reflexivity.
Qed.

Lemma not_stop c : is_stop c = false ->
  is_blank c = false /\ (c =? 34)%Z = false /\ punct c = None.
Proof.
  unfold is_stop. intros H. apply orb_false_elim in H as [H H3]. apply orb_false_elim in H as [H1 H2].
  repeat split; try assumption. destruct (punct c); [discriminate|reflexivity].
Qed.

Lemma lex_inatom s : forall a r, forallb (fun c => negb (is_stop c)) s = true -> stops r ->
  lex (InAtom a) (s ++ r) = TAtom (rev a ++ s) :: lex Idle r.
Proof.
  induction s as [|c s IH]; intros a r H Hr.
  - cbn [app]. rewrite app_nil_r. destruct r as [|c r]; [reflexivity|].
    cbn [stops] in Hr. cbn [lex step]. rewrite Hr. cbn [fst snd app]. reflexivity.
  - cbn [forallb] in H. apply andb_prop in H as [Hc Hs]. apply negb_true_iff in Hc.
    cbn [app lex step]. rewrite Hc. cbn [fst snd app].
    rewrite (IH (c :: a) r Hs Hr). cbn [rev]. rewrite <- app_assoc. reflexivity.
Qed.

Lemma lex_atom a r : atom_ok a = true -> stops r -> lex Idle (a ++ r) = TAtom a :: lex Idle r.
Proof.
  destruct a as [|c a]; [discriminate|]. unfold atom_ok. cbn [forallb]. intros H Hr.
  apply andb_prop in H as [Hc Ha]. apply negb_true_iff in Hc. destruct (not_stop c Hc) as (H1 & H2 & H3).
  cbn [app]. rewrite lex_idle_cons. unfold idle_step. rewrite H1, H2, H3. cbn [fst snd app].
  rewrite lex_inatom by assumption. reflexivity.
Qed.

(* ---- str(int) is an atom ---- *)
Lemma digit_not_stop c : (48 <= c <= 57)%Z -> is_stop c = false.
Proof.
  intros H. unfold is_stop, is_blank, punct.
  repeat match goal with
         | |- context [(c =? ?k)%Z] => destruct (Z.eqb_spec c k); [lia|]
         end.
  reflexivity.
Qed.

Lemma dec_digits_ok fuel : forall n acc,
  forallb (fun c => negb (is_stop c)) acc = true -> atom_ok (dec_digits fuel n acc) = true.
Proof.
  assert (D : forall n acc, forallb (fun c => negb (is_stop c)) acc = true ->
              atom_ok ((48 + n mod 10)%Z :: acc) = true).
  { intros n acc H. unfold atom_ok. cbn [forallb]. rewrite H.
    rewrite digit_not_stop; [reflexivity|]. pose proof (Z.mod_pos_bound n 10). lia. }
  induction fuel as [|f IH]; intros n acc H; cbn [dec_digits].
  - apply D, H.
  - destruct (n <? 10)%Z; [apply D, H|]. apply IH. cbn [forallb]. rewrite H.
    rewrite digit_not_stop; [reflexivity|]. pose proof (Z.mod_pos_bound n 10). lia.
Qed.

Lemma atom_ok_forallb a : atom_ok a = true -> forallb (fun c => negb (is_stop c)) a = true.
Proof. destruct a; [discriminate|]. intros H; exact H. Qed.

Lemma dec_ok z : atom_ok (dec z) = true.
Proof.
  unfold dec, dec_nat. destruct (z <? 0)%Z.
  - unfold atom_ok. cbn [forallb]. rewrite atom_ok_forallb; [reflexivity|]. apply dec_digits_ok. reflexivity.
  - apply dec_digits_ok. reflexivity.
Qed.

(* ------------------------------------------------------------------ *)
(* chunks                                                               *)

Lemma flat_T a r : flat (T a :: r) = a ++ flat r.       Proof. reflexivity. Qed.
Lemma flat_NL r : flat (NL :: r) = 10%Z :: flat r.      Proof. reflexivity. Qed.

Ltac flatten :=
  repeat (rewrite flat_app || rewrite flat_T || rewrite flat_NL || rewrite flat_nil);
  repeat (progress (repeat rewrite <- app_assoc; cbn [app])).

Lemma stops_spaces n s r : stops (s ++ r) -> s <> [] -> stops ((spaces n ++ s) ++ r).
Proof.
  intros H Hs. destruct n as [|n]; [exact H|]. reflexivity.
Qed.

(* a separated sequence of parts lexes to the separated sequence of their tokens *)
Lemma lex_sep_join {X} (f : X -> list chunk) (g : X -> list tok) (sepc : list chunk) (sept : list tok)
      (xs : list X) :
  (forall r, lex Idle (flat sepc ++ r) = sept ++ lex Idle r) ->
  (forall r, stops (flat sepc ++ r)) ->
  Forall (fun x => forall r, stops r -> lex Idle (flat (f x) ++ r) = g x ++ lex Idle r) xs ->
  forall first r, stops r ->
    lex Idle (flat (sep_join sepc first (map f xs)) ++ r) = sep_join sept first (map g xs) ++ lex Idle r.
Proof.
  intros Hsep Hst. induction 1 as [|x xs Hx Hxs IH]; intros first r Hr; [reflexivity|].
  cbn [map sep_join]. rewrite !flat_app, <- !app_assoc.
  assert (St : stops (flat (sep_join sepc false (map f xs)) ++ r)).
  { destruct xs as [|y ys]; [exact Hr|]. cbn [map sep_join]. rewrite flat_app, <- app_assoc. apply Hst. }
  destruct first.
  - cbn [flat map concat app]. rewrite (Hx _ St). rewrite (IH false r Hr). reflexivity.
  - rewrite Hsep. rewrite (Hx _ St). rewrite (IH false r Hr). reflexivity.
Qed.

(* ------------------------------------------------------------------ *)
(* simple values and keys                                               *)

Lemma gen_simple m v off : is_simple v = true -> gen m v off = [T (simple_chunk m v)].
Proof. destruct v as [k|a|s|[|x l]|[|p d]]; try reflexivity; discriminate. Qed.

Lemma lex_simple m x r : is_simple x = true -> wf x = true -> stops r ->
  lex Idle (simple_chunk m x ++ r) = ttoks (tree_of m x) ++ lex Idle r.
Proof.
  intros Hs Hw Hr. destruct x as [k|a|s|[|x l]|[|p d]]; try discriminate; cbn [simple_chunk tree_of ttoks app].
  - apply lex_atom; [apply lits_ok|exact Hr].
  - apply lex_atom; [exact Hw|exact Hr].
  - apply lex_quoted. exact Hw.
  - reflexivity.
  - reflexivity.
Qed.

Lemma lex_key k r : key_ok k = true -> stops r ->
  lex Idle (key_chunk k ++ r) = ktok (pkey_of k) :: lex Idle r.
Proof.
  intros Hk Hr. destruct k as [z|s|k]; cbn [key_chunk pkey_of ktok].
  - apply lex_atom; [apply dec_ok|exact Hr].
  - apply lex_quoted. exact Hk.
  - apply lex_atom; [apply pystr_ok|exact Hr].
Qed.

(* ------------------------------------------------------------------ *)
(* unfolding equations of the generator and of the specification        *)

Definition entry1 (m : mode) (kv : key * value) : list chunk :=
  [T (key_chunk (fst kv)); T s_colon_sp; T (simple_chunk m (snd kv))].
Definition entryn (m : mode) (off : nat) (kv : key * value) : list chunk :=
  [NL; T (spaces (off + 2)); T (key_chunk (fst kv)); T s_colon_sp] ++ gen m (snd kv) (off + 2).
Definition dict_one (m : mode) (sd : list (key * value)) : list chunk :=
  [T s_lbrace] ++ sep_join [T s_comma_sp] true (map (entry1 m) sd) ++ [T s_rbrace].
Definition dict_multi (m : mode) (off : nat) (sd : list (key * value)) : list chunk :=
  [T s_lbrace] ++ sep_join [T s_comma] true (map (entryn m off) sd) ++ [NL; T (spaces off ++ s_rbrace)].

Lemma forallb_map {X Y} (p : Y -> bool) (f : X -> Y) l : forallb p (map f l) = forallb (fun x => p (f x)) l.
Proof. induction l as [|x r IH]; cbn [map forallb]; [reflexivity|]. rewrite IH. reflexivity. Qed.

Lemma forallb_ext' {X} (p q : X -> bool) l : (forall x, p x = q x) -> forallb p l = forallb q l.
Proof. intros E. induction l as [|x r IH]; cbn [forallb]; [reflexivity|]. rewrite E, IH. reflexivity. Qed.

Lemma gen_dict_eq m d off : d <> [] ->
  gen m (VDict d) off =
  if forallb (fun kv => is_simple (snd kv)) (isort d)
     && (Z.of_nat (off + chunks_len (dict_one m (isort d))) <? dict_oneline_limit)%Z
  then dict_one m (isort d) else dict_multi m off (isort d).
Proof.
  destruct d as [|p d]; [congruence|]. intros _.
  cbn [gen].
  set (H := fun kv : key * value => let (k, x) := kv in (k, (x, gen m x (off + 2)))).
  change (let (k, x) := p in (k, (x, gen m x (off + 2)))) with (H p).
  change (H p :: map H d) with (map H (p :: d)).
  rewrite (isort_map_ext H (fun kv => (snd kv, gen m (snd kv) (off + 2)))) by (intros [k x]; reflexivity).
  rewrite forallb_map, !map_map.
  unfold dict_one, dict_multi.
  assert (E1 : forall kv, is_simple (fst (snd (H kv))) = is_simple (snd kv)) by (intros [k x]; reflexivity).
  rewrite (forallb_ext' _ _ (isort (p :: d)) E1).
  assert (E2 : map (fun x => [T (key_chunk (fst (H x))); T s_colon_sp; T (simple_chunk m (fst (snd (H x))))]) (isort (p :: d))
               = map (entry1 m) (isort (p :: d))) by (apply map_ext; intros [k x]; reflexivity).
  assert (E3 : map (fun x => [NL; T (spaces (off + 2)); T (key_chunk (fst (H x))); T s_colon_sp] ++ snd (snd (H x))) (isort (p :: d))
               = map (entryn m off) (isort (p :: d))) by (apply map_ext; intros [k x]; reflexivity).
  rewrite E2, E3. reflexivity.
Qed.

Definition itemn (m : mode) (off : nat) (x : value) : list chunk :=
  [NL; T (spaces (off + 2))] ++ gen m x (off + 2).
Definition list_one (m : mode) (l : list value) : list chunk :=
  [T s_lbrack] ++ sep_join [T s_comma_sp] true (map (fun x => [T (simple_chunk m x)]) l) ++ [T s_rbrack].
Definition list_wrap (m : mode) (off : nat) (l : list value) : list chunk :=
  [T s_lbrack; NL] ++ wrap off (map (simple_chunk m) l) 0 true ++ [T (spaces off ++ s_rbrack)].
Definition list_multi (m : mode) (off : nat) (l : list value) : list chunk :=
  [T s_lbrack] ++ sep_join [T s_comma] true (map (itemn m off) l) ++ [NL; T (spaces off ++ s_rbrack)].

Lemma gen_list_eq m l off : l <> [] ->
  gen m (VList l) off =
  if forallb is_simple l then
    if (Z.of_nat (off + (texts_len (map (simple_chunk m) l) + 2 * length (map (simple_chunk m) l)))
        <? list_oneline_limit)%Z
    then list_one m l else list_wrap m off l
  else list_multi m off l.
Proof.
  destruct l as [|x l]; [congruence|]. intros _. cbn [gen]. rewrite map_map. reflexivity.
Qed.

Definition pentry_of (m : mode) (kv : key * value) : pkey * ptree :=
  (pkey_of (fst kv), tree_of m (snd kv)).
Definition etoks (m : mode) (kv : key * value) : list tok :=
  ktok (pkey_of (fst kv)) :: TColon :: ttoks (tree_of m (snd kv)).

Lemma tree_of_dict m d : tree_of m (VDict d) = PDict (map (pentry_of m) (isort d)).
Proof.
  cbn [tree_of].
  rewrite (isort_map_ext _ (fun kv => tree_of m (snd kv))) by (intros [k x]; reflexivity).
  rewrite map_map. f_equal. apply map_ext. intros [k x]. reflexivity.
Qed.

Lemma ttoks_dict m d :
  ttoks (tree_of m (VDict d)) = [TLBrace] ++ sep_join [TComma] true (map (etoks m) (isort d)) ++ [TRBrace].
Proof. rewrite tree_of_dict. cbn [ttoks]. rewrite map_map. reflexivity. Qed.

Lemma ttoks_list m l :
  ttoks (tree_of m (VList l)) =
  [TLBrack] ++ sep_join [TComma] true (map (fun x => ttoks (tree_of m x)) l) ++ [TRBrack].
Proof. cbn [tree_of ttoks]. rewrite map_map. reflexivity. Qed.

(* ------------------------------------------------------------------ *)
(* the layouts                                                          *)

Definition LexOK (m : mode) (v : value) : Prop :=
  forall off r, stops r -> lex Idle (flat (gen m v off) ++ r) = ttoks (tree_of m v) ++ lex Idle r.

Ltac chars := unfold s_lbrace, s_rbrace, s_lbrack, s_rbrack, s_comma, s_comma_sp, s_colon_sp, c_nl in *.

Lemma lex_close_brack off r : lex Idle ((spaces off ++ s_rbrack) ++ r) = TRBrack :: lex Idle r.
Proof. rewrite <- app_assoc, lex_spaces. reflexivity. Qed.
Lemma lex_close_brace off r : lex Idle ((spaces off ++ s_rbrace) ++ r) = TRBrace :: lex Idle r.
Proof. rewrite <- app_assoc, lex_spaces. reflexivity. Qed.
Lemma stops_close off c r : is_stop c = true -> stops (spaces off ++ c :: r).
Proof. intros H. destruct off; [exact H|reflexivity]. Qed.

(* one line list *)
Lemma lex_list_one m l r : forallb is_simple l = true -> forallb wf l = true -> stops r ->
  lex Idle (flat (list_one m l) ++ r) =
  ([TLBrack] ++ sep_join [TComma] true (map (fun x => ttoks (tree_of m x)) l) ++ [TRBrack]) ++ lex Idle r.
Proof.
  intros Hs Hw Hr. unfold list_one. flatten. chars. cbn [app]. rewrite lex_lbrack.
  rewrite (lex_sep_join (fun x => [T (simple_chunk m x)]) (fun x => ttoks (tree_of m x)) [T [44%Z; 32%Z]] [TComma]).
  - rewrite lex_rbrack. cbn [app]. rewrite <- ?app_assoc. reflexivity.
  - intros r0. reflexivity.
  - intros r0. reflexivity.
  - apply Forall_forall. intros x Hx r0 Hr0. rewrite forallb_forall in Hs, Hw.
    flatten. apply lex_simple; auto.
  - reflexivity.
Qed.

(* one item per line *)
Lemma lex_list_multi m off l r : Forall (LexOK m) l -> stops r ->
  lex Idle (flat (list_multi m off l) ++ r) =
  ([TLBrack] ++ sep_join [TComma] true (map (fun x => ttoks (tree_of m x)) l) ++ [TRBrack]) ++ lex Idle r.
Proof.
  intros IH Hr. unfold list_multi. flatten. chars. cbn [app]. rewrite lex_lbrack.
  rewrite (lex_sep_join (itemn m off) (fun x => ttoks (tree_of m x)) [T [44%Z]] [TComma]).
  - rewrite lex_nl, lex_spaces, lex_rbrack. cbn [app]. rewrite <- ?app_assoc. reflexivity.
  - intros r0. reflexivity.
  - intros r0. reflexivity.
  - apply Forall_forall. intros x Hx r0 Hr0. rewrite Forall_forall in IH.
    unfold itemn. flatten. rewrite lex_nl, lex_spaces. apply IH; assumption.
  - reflexivity.
Qed.

(* several items per line *)
Lemma stops_wrap off c ics len_y r : stops (flat (wrap off (c :: ics) len_y false) ++ r).
Proof.
  cbn [wrap negb andb]. rewrite andb_true_r.
  destruct (wrap_limit <? Z.of_nat (len_y + length c))%Z; reflexivity.
Qed.

Lemma lex_wrap m off : forall l len_y first r,
  forallb is_simple l = true -> forallb wf l = true -> stops r ->
  lex Idle (flat (wrap off (map (simple_chunk m) l) len_y first) ++ r) =
  sep_join [TComma] first (map (fun x => ttoks (tree_of m x)) l) ++ lex Idle r.
Proof.
  induction l as [|x l IH]; intros len_y first r Hs Hw Hr; [reflexivity|].
  cbn [forallb] in Hs, Hw. apply andb_prop in Hs as [Hs1 Hs2]. apply andb_prop in Hw as [Hw1 Hw2].
  cbn [map wrap sep_join].
  set (brk := ((wrap_limit <? Z.of_nat (len_y + length (simple_chunk m x)))%Z && negb first)).
  set (tail := match map (simple_chunk m) l with
               | [] => [NL]
               | _ :: _ => wrap off (map (simple_chunk m) l)
                             ((if if brk then true else first then off + 2 else (if brk then 0 else len_y) + 2)
                              + length (simple_chunk m x)) false
               end).
  assert (Ht : stops (flat tail ++ r) /\
               lex Idle (flat tail ++ r) = sep_join [TComma] false (map (fun x => ttoks (tree_of m x)) l) ++ lex Idle r).
  { subst tail. destruct l as [|y l'].
    - split; reflexivity.
    - split; [apply stops_wrap|]. apply IH; assumption. }
  destruct Ht as [Ht1 Ht2].
  assert (Hx : lex Idle (simple_chunk m x ++ flat tail ++ r) =
               ttoks (tree_of m x) ++ sep_join [TComma] false (map (fun x => ttoks (tree_of m x)) l) ++ lex Idle r).
  { rewrite lex_simple by assumption. rewrite Ht2. reflexivity. }
  destruct brk eqn:Eb.
  - assert (first = false) as -> by (subst brk; destruct first; [rewrite andb_false_r in Eb; discriminate|reflexivity]).
    flatten. chars. cbn [app]. rewrite lex_comma, lex_nl, lex_spaces, Hx. cbn [app]. rewrite <- ?app_assoc. reflexivity.
  - destruct first.
    + flatten. rewrite lex_spaces, Hx. cbn [app]. rewrite <- ?app_assoc. reflexivity.
    + flatten. chars. cbn [app]. rewrite lex_comma, lex_space, Hx. cbn [app]. rewrite <- ?app_assoc. reflexivity.
Qed.

Lemma lex_list_wrap m off l r : forallb is_simple l = true -> forallb wf l = true -> stops r ->
  lex Idle (flat (list_wrap m off l) ++ r) =
  ([TLBrack] ++ sep_join [TComma] true (map (fun x => ttoks (tree_of m x)) l) ++ [TRBrack]) ++ lex Idle r.
Proof.
  intros Hs Hw Hr. unfold list_wrap. flatten. chars. cbn [app]. rewrite lex_lbrack, lex_nl.
  rewrite lex_wrap; try assumption.
  - rewrite lex_spaces, lex_rbrack. cbn [app]. rewrite <- ?app_assoc. reflexivity.
  - apply stops_close. reflexivity.
Qed.

(* dict entries *)
Lemma lex_entry1 m kv r : key_ok (fst kv) = true -> is_simple (snd kv) = true -> wf (snd kv) = true ->
  stops r -> lex Idle (flat (entry1 m kv) ++ r) = etoks m kv ++ lex Idle r.
Proof.
  intros Hk Hs Hw Hr. unfold entry1, etoks. flatten.
  rewrite lex_key; [|exact Hk|reflexivity]. chars. cbn [app]. rewrite lex_colon, lex_space.
  rewrite lex_simple by assumption. reflexivity.
Qed.

Lemma lex_entryn m off kv r : key_ok (fst kv) = true -> LexOK m (snd kv) ->
  stops r -> lex Idle (flat (entryn m off kv) ++ r) = etoks m kv ++ lex Idle r.
Proof.
  intros Hk IH Hr. unfold entryn, etoks. flatten. rewrite lex_nl, lex_spaces.
  rewrite lex_key; [|exact Hk|reflexivity]. chars. cbn [app]. rewrite lex_colon, lex_space.
  rewrite IH by assumption. reflexivity.
Qed.

Lemma lex_dict_one m sd r :
  forallb (fun kv => key_ok (fst kv)) sd = true ->
  forallb (fun kv => is_simple (snd kv)) sd = true ->
  forallb (fun kv => wf (snd kv)) sd = true -> stops r ->
  lex Idle (flat (dict_one m sd) ++ r) =
  ([TLBrace] ++ sep_join [TComma] true (map (etoks m) sd) ++ [TRBrace]) ++ lex Idle r.
Proof.
  intros Hk Hs Hw Hr. unfold dict_one. flatten. chars. cbn [app]. rewrite lex_lbrace.
  rewrite (lex_sep_join (entry1 m) (etoks m) [T [44%Z; 32%Z]] [TComma]).
  - rewrite lex_rbrace. cbn [app]. rewrite <- ?app_assoc. reflexivity.
  - intros r0. reflexivity.
  - intros r0. reflexivity.
  - apply Forall_forall. intros kv Hin r0 Hr0. rewrite forallb_forall in Hk, Hs, Hw.
    apply lex_entry1; auto.
  - reflexivity.
Qed.

Lemma lex_dict_multi m off sd r :
  forallb (fun kv => key_ok (fst kv)) sd = true ->
  Forall (fun kv => LexOK m (snd kv)) sd -> stops r ->
  lex Idle (flat (dict_multi m off sd) ++ r) =
  ([TLBrace] ++ sep_join [TComma] true (map (etoks m) sd) ++ [TRBrace]) ++ lex Idle r.
Proof.
  intros Hk IH Hr. unfold dict_multi. flatten. chars. cbn [app]. rewrite lex_lbrace.
  rewrite (lex_sep_join (entryn m off) (etoks m) [T [44%Z]] [TComma]).
  - rewrite lex_nl, lex_spaces, lex_rbrace. cbn [app]. rewrite <- ?app_assoc. reflexivity.
  - intros r0. reflexivity.
  - intros r0. reflexivity.
  - apply Forall_forall. intros kv Hin r0 Hr0. rewrite forallb_forall in Hk. rewrite Forall_forall in IH.
    apply lex_entryn; auto.
  - reflexivity.
Qed.

(* ------------------------------------------------------------------ *)
(* every value, every offset                                            *)

Lemma wf_dict_split d :
  forallb (fun kv : key * value => let (k, x) := kv in key_ok k && wf x) d = true ->
  forallb (fun kv : key * value => key_ok (fst kv)) d = true /\ forallb (fun kv : key * value => wf (snd kv)) d = true.
Proof.
  induction d as [|[k x] d IH]; cbn [forallb fst snd]; [auto|].
  intros H. apply andb_prop in H as [H1 H2]. apply andb_prop in H1 as [Hk Hx].
  destruct (IH H2) as [A B]. rewrite Hk, Hx, A, B. auto.
Qed.

Lemma lex_gen m v : wf v = true -> LexOK m v.
Proof.
  induction v as [k|a|s|l IH|d IH] using value_ind'; intros Hw off r Hr.
  - rewrite gen_simple by reflexivity. flatten. apply lex_simple; auto.
  - rewrite gen_simple by reflexivity. flatten. apply lex_simple; auto.
  - rewrite gen_simple by reflexivity. flatten. apply lex_simple; auto.
  - destruct l as [|x l'] eqn:El.
    { rewrite gen_simple by reflexivity. flatten. apply lex_simple; auto. }
    rewrite <- El in *. assert (Hne : l <> []) by (rewrite El; discriminate).
    cbn [wf] in Hw. rewrite gen_list_eq by exact Hne. rewrite ttoks_list.
    destruct (forallb is_simple l) eqn:Es.
    + destruct (_ <? _)%Z.
      * apply lex_list_one; assumption.
      * apply lex_list_wrap; assumption.
    + apply lex_list_multi; [|exact Hr].
      rewrite forallb_forall in Hw. rewrite Forall_forall in *. intros y Hy. apply IH; auto.
  - destruct d as [|p d'] eqn:Ed.
    { rewrite gen_simple by reflexivity. flatten. apply lex_simple; auto. }
    rewrite <- Ed in *. assert (Hne : d <> []) by (rewrite Ed; discriminate).
    cbn [wf] in Hw. apply wf_dict_split in Hw as [Hk Hwx].
    rewrite gen_dict_eq by exact Hne. rewrite ttoks_dict.
    pose proof (isort_forallb _ _ Hk) as Hk'. pose proof (isort_forallb _ _ Hwx) as Hwx'.
    destruct (forallb (fun kv => is_simple (snd kv)) (isort d)) eqn:Es; cbn [andb].
    + destruct (_ <? _)%Z.
      * apply lex_dict_one; assumption.
      * apply lex_dict_multi; [exact Hk'| |exact Hr].
        apply isort_Forall. rewrite forallb_forall in Hwx. rewrite Forall_forall in *.
        intros kv Hin. apply IH; auto.
    + apply lex_dict_multi; [exact Hk'| |exact Hr].
      apply isort_Forall. rewrite forallb_forall in Hwx. rewrite Forall_forall in *.
      intros kv Hin. apply IH; auto.
Qed.
